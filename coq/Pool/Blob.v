(* Pool/Blob.v — executable model of core/txpool/blobpool (blobpool.go, evictheap.go,
   limbo.go, lookup.go, slotter.go) and of the part of github.com/holiman/billy the pool
   relies on (db.go, shelf.go: slot allocation, gaps, truncation, Close, Open/compact).

   Transcribed from the Go code; each function names what it transcribes.
   What is GIVEN (not modelled): transaction hashes (t_id is the identity), costs, the
   float arithmetic of priority.go.  The model is parametric in
     prioE basefee feecap  = evictionPriority1D(dynamicFeeJumps basefee, dynamicFeeJumps feecap)
     prioB blobfee feecap  = the same with dynamicBlobFeeJumps
     gtE a b / gtB a b     = (jumps a - jumps b > 0.001)
     nearE a b / nearB a b = (|jumps a - jumps b| < 0.01)
   and keeps, instead of the float fields evictionExecFeeJumps / evictionBlobFeeJumps, the
   fee caps they are the jumps of (dynamicFeeJumps is monotone, so the rolling float minimum
   is the jumps of the rolling integer minimum; the harness checks this on every dump).
   Go map iteration (SetGasTip, Reset's reinject loop, Init's recheck loop) is modelled in
   address order.  Not modelled: announcements (announced flag, feeds), the blob-hash
   lookup, the reserver, the conversion queue / legacy formats, delegation limits,
   time-based expiry of the gapped buffer, metrics. *)
From Coq Require Import List NArith ZArith Bool.
Import ListNotations.
Local Open Scope N_scope.

(* ------------------------------------------------------------------ errors *)
Inductive res (A : Type) : Type := Ok (a : A) | Err (e : N).
Arguments Ok {A} a. Arguments Err {A} e.
(* Err 1 = Go run-time panic (index out of range / nil map entry); Err 2 = model fuel *)
Definition bind {A B} (r : res A) (f : A -> res B) : res B :=
  match r with Ok a => f a | Err e => Err e end.
Notation "'do' x <- r ; k" := (bind r (fun x => k)) (at level 200, x pattern, r at level 100, k at level 200).

(* ------------------------------------------------------------------ machine words *)
Definition two64 : N := 18446744073709551616.
Definition two256 : N := 115792089237316195423570985008687907853269984665640564039457584007913129639936.
Definition wrap64 (v : N) : N := if v <? two64 then v else v mod two64.
Definition sub64 (a b : N) : N := if b <=? a then a - b else wrap64 (a + two64 - wrap64 b).
Definition wrap256 (v : N) : N := if v <? two256 then v else v mod two256.
Definition sub256 (a b : N) : N := if b <=? a then a - b else wrap256 (a + two256 - wrap256 b).

(* ------------------------------------------------------------------ data *)
Record tx := mkTx {
  t_id : N;      (* hash identity *)
  t_from : N;    (* sender; N order = common.Address.Cmp order *)
  t_nonce : N;
  t_tip : N;     (* execTipCap *)
  t_fee : N;     (* execFeeCap *)
  t_bfee : N;    (* blobFeeCap *)
  t_cost : N;    (* costCap *)
  t_shelf : N    (* billy shelf its encoding lands on (queue and limbo) *)
}.

(* slotter.go newSlotterEIP7594: 4096 + k * (blobSize + txBlobOverhead) *)
Definition slot_size (k : N) : N := 4096 + k * 137280.
Definition t_size (t : tx) : N := slot_size (t_shelf t).

(* blobTxMeta *)
Record meta := mkMeta {
  m_tx : tx;
  m_sid : N;     (* id *)
  m_evtip : N;   (* evictionExecTip *)
  m_evfee : N;   (* fee cap whose jumps is evictionExecFeeJumps *)
  m_evbfee : N   (* fee cap whose jumps is evictionBlobFeeJumps *)
}.
Definition m_nonce (m : meta) := t_nonce (m_tx m).
Definition m_cost (m : meta) := t_cost (m_tx m).
Definition m_size (m : meta) := t_size (m_tx m).
Definition m_id (m : meta) := t_id (m_tx m).

(* ------------------------------------------------------------------ Go maps keyed by N *)
Fixpoint aget {V} (m : list (N * V)) (k : N) : option V :=
  match m with
  | [] => None
  | (k', v) :: r => if k' =? k then Some v else aget r k
  end.
Fixpoint aset {V} (m : list (N * V)) (k : N) (v : V) : list (N * V) :=
  match m with
  | [] => [(k, v)]
  | (k', v') :: r => if k' =? k then (k, v) :: r
                     else if k <? k' then (k, v) :: m
                     else (k', v') :: aset r k v
  end.
Fixpoint adel {V} (m : list (N * V)) (k : N) : list (N * V) :=
  match m with
  | [] => []
  | (k', v') :: r => if k' =? k then adel r k else (k', v') :: adel r k
  end.
Definition ahas {V} (m : list (N * V)) (k : N) : bool :=
  match aget m k with Some _ => true | None => false end.
Definition akeys {V} (m : list (N * V)) : list N := map fst m.

Definition last_opt {A} (l : list A) : option A :=
  match rev l with x :: _ => Some x | [] => None end.
Fixpoint list_set {A} (l : list A) (i : nat) (x : A) : list A :=
  match l, i with
  | [], _ => []
  | _ :: r, O => x :: r
  | y :: r, S i' => y :: list_set r i' x
  end.
Definition lenN {A} (l : list A) : N := N.of_nat (length l).

(* ------------------------------------------------------------------ billy *)
Record item := mkItem { i_tx : tx; i_block : N }.   (* i_block used by the limbo only *)
Record shelf := mkShelf { sh_slots : list (option item); sh_gaps : list N }.
Definition billy := list shelf.
Definition nshelves : nat := 4.
Definition empty_billy : billy := repeat (mkShelf [] []) nshelves.
Definition mk_id (shelf slot : N) : N := slot + shelf * 268435456.   (* slot | index<<28 *)
Definition id_shelf (id : N) : nat := N.to_nat (id / 268435456).
Definition id_slot (id : N) : nat := N.to_nat (id mod 268435456).

(* shelf.go getSlot + update *)
Definition shelf_put (s : shelf) (it : item) : shelf * N :=
  match sh_gaps s with
  | g :: gs => (mkShelf (list_set (sh_slots s) (N.to_nat g) (Some it)) gs, g)
  | [] => (mkShelf (sh_slots s ++ [Some it]) [], lenN (sh_slots s))
  end.
(* db.go Put: None = "no shelf found for size" *)
Definition billy_put (b : billy) (k : N) (it : item) : option (billy * N) :=
  match nth_error b (N.to_nat k) with
  | Some s => let '(s', slot) := shelf_put s it in Some (list_set b (N.to_nat k) s', mk_id k slot)
  | None => None
  end.
(* shelf.go sortedUniqueInts.Append *)
Fixpoint gaps_ins (x : N) (l : list N) : list N :=
  match l with
  | [] => [x]
  | y :: r => if x <? y then x :: l else if x =? y then l else y :: gaps_ins x r
  end.
(* shelf.go Delete: the truncation loop, on the reversed gap list *)
Fixpoint trunc_rev (rg : list N) (cnt : N) : list N * N :=
  match rg with
  | g :: r => if g + 1 =? cnt then trunc_rev r (cnt - 1) else (rg, cnt)
  | [] => ([], cnt)
  end.
(* shelf.go Delete; a slot beyond the tail is ErrBadIndex (the pool only logs it) *)
Definition shelf_delete (s : shelf) (slot : N) : shelf :=
  let cnt := lenN (sh_slots s) in
  if cnt <=? slot then s else
  let gaps := gaps_ins slot (sh_gaps s) in
  let '(rg, cnt') := trunc_rev (rev gaps) cnt in
  mkShelf (firstn (N.to_nat cnt') (sh_slots s)) (rev rg).
(* db.go Delete; an id naming a missing shelf panics in Go (index out of range) *)
Definition billy_delete (b : billy) (id : N) : res billy :=
  match nth_error b (id_shelf id) with
  | Some s => Ok (list_set b (id_shelf id) (shelf_delete s (N.of_nat (id_slot id))))
  | None => Err 1
  end.
(* db.go Get / shelf.go readSlot: a deleted slot still returns its old content *)
Definition billy_get (b : billy) (id : N) : res (option item) :=
  match nth_error b (id_shelf id) with
  | Some s => match nth_error (sh_slots s) (id_slot id) with
              | Some (Some it) => Ok (Some it)
              | _ => Ok None          (* read error / empty item: the pool logs and goes on *)
              end
  | None => Err 1
  end.
(* live entries in Iterate order (shelf by shelf, slot order, gaps skipped) *)
Definition shelf_live (k : nat) (s : shelf) : list (N * item) :=
  flat_map (fun '(i, o) =>
              match o with
              | Some it => if existsb (N.eqb (N.of_nat i)) (sh_gaps s) then [] else [(mk_id (N.of_nat k) (N.of_nat i), it)]
              | None => [] end)
           (combine (seq 0 (length (sh_slots s))) (sh_slots s)).
Definition billy_live (b : billy) : list (N * item) :=
  flat_map (fun '(k, s) => shelf_live k s) (combine (seq 0 (length b)) b).

(* What is on disk.  Clean shutdown (shelf.go Close): the gaps' headers are zeroed. *)
Definition image := list (list (option item)).
Definition shelf_close_image (s : shelf) : list (option item) :=
  map (fun '(i, o) => if existsb (N.eqb (N.of_nat i)) (sh_gaps s) then None else o)
      (combine (seq 0 (length (sh_slots s))) (sh_slots s)).
Definition close_image (b : billy) : image := map shelf_close_image b.
(* Abrupt stop: Delete never touches the disk, so deleted-but-not-overwritten slots are back. *)
Definition crash_image (b : billy) : image := map sh_slots b.

(* shelf.go compact: nextGap *)
Fixpoint next_gap (fuel : nat) (sl : list (option item)) (cnt g : nat) (acc : list (nat * item))
  : nat * list (nat * item) :=
  match fuel with
  | O => (g, acc)
  | S f => if Nat.leb cnt g then (g, acc) else
           match nth_error sl g with
           | Some (Some it) => next_gap f sl cnt (S g) ((g, it) :: acc)
           | _ => (g, acc)
           end
  end.
(* shelf.go compact: prevData *)
Fixpoint prev_data (fuel : nat) (sl : list (option item)) (slot gap : nat) : nat * option item :=
  match fuel with
  | O => (slot, None)
  | S f => if Nat.ltb gap slot && Nat.ltb 0 slot then
             match nth_error sl slot with
             | Some (Some it) => (slot, Some it)
             | _ => prev_data f sl (slot - 1) gap
             end
           else (slot, None)
  end.
(* shelf.go compact: the two-directional loop.  [filled] is a uint64 in Go and wraps when
   decremented at 0; the next iteration then leaves through "gapped >= s.count", which is
   what the truncated subtraction gives here. *)
Fixpoint compact_loop (fuel : nat) (sl : list (option item)) (cnt gapped filled : nat)
         (acc : list (nat * item)) : list (option item) * nat * list (nat * item) :=
  match fuel with
  | O => (sl, cnt, acc)
  | S f =>
      if Nat.leb gapped filled then
        let '(g, acc1) := next_gap (S (length sl)) sl cnt gapped acc in
        if Nat.leb cnt g then (sl, cnt, acc1) else
        let '(fl, moved) := prev_data (S (length sl)) sl filled g in
        let '(sl1, acc2) := match moved with
                            | Some it => (list_set sl g (Some it), (g, it) :: acc1)
                            | None => (sl, acc1) end in
        if Nat.eqb fl 0 then (sl1, 0%nat, acc2)
        else compact_loop f sl1 fl (S g) (fl - 1) acc2
      else (sl, cnt, acc)
  end.
(* openShelf + compact: the shelf after opening and the onData calls in order *)
Definition shelf_open (sl : list (option item)) : shelf * list (nat * item) :=
  match length sl with
  | O => (mkShelf [] [], [])
  | S n => let '(sl', cnt, acc) := compact_loop (S (S n)) sl (S n) 0 n [] in
           (mkShelf (firstn cnt sl') [], rev acc)
  end.
Fixpoint billy_open_aux (k : nat) (img : image) : billy * list (N * item) :=
  match img with
  | [] => ([], [])
  | sl :: r => let '(s, calls) := shelf_open sl in
               let '(b, calls') := billy_open_aux (S k) r in
               (s :: b, map (fun '(i, it) => (mk_id (N.of_nat k) (N.of_nat i), it)) calls ++ calls')
  end.
Definition billy_open (img : image) : billy * list (N * item) := billy_open_aux 0 img.

(* ------------------------------------------------------------------ chain *)
Record btx := mkBtx { bt_id : N; bt_from : N; bt_blob : bool }.
Record block := mkBlock {
  b_id : N; b_parent : N; b_num : N;
  b_txs : list btx;
  b_nonce : list (N * N);   (* state after the block: account -> nonce (absent = 0) *)
  b_bal : list (N * N);     (* account -> balance (absent = 0) *)
  b_base : N;               (* eip1559.CalcBaseFee(config, header) *)
  b_blob : N                (* eip4844.CalcBlobFee(config, header) *)
}.
Definition get_block (bs : list block) (i : N) : option block := find (fun b => b_id b =? i) bs.

Record cfg := mkCfg { c_datacap : N; c_bump : N }.

(* limbo.go *)
Record limbo := mkLimbo {
  l_store : billy;
  l_index : list (N * N);              (* tx hash -> store id *)
  l_groups : list (N * list (N * N))   (* block -> (store id -> tx hash) *)
}.

Record pool := mkPool {
  p_store : billy;
  p_stored : N;
  p_limbo : limbo;
  p_gapped : list (N * list tx);
  p_gsrc : list N;                     (* keys of gappedSource *)
  p_nonce : list (N * N);              (* p.state *)
  p_bal : list (N * N);
  p_head : N;                          (* block id of p.head *)
  p_tip : option N;                    (* p.gasTip (nil before Init) *)
  p_lookup : list (N * N);             (* lookup.txIndex: hash -> store id *)
  p_index : list (N * list meta);
  p_spent : list (N * N);
  p_heap : list N;                     (* evict.addrs; evict.index = position in it *)
  p_hbase : N;                         (* fee whose jumps is evict.basefeeJumps *)
  p_hblob : N
}.

Definition set_store b p := mkPool b (p_stored p) (p_limbo p) (p_gapped p) (p_gsrc p) (p_nonce p) (p_bal p) (p_head p) (p_tip p) (p_lookup p) (p_index p) (p_spent p) (p_heap p) (p_hbase p) (p_hblob p).
Definition set_stored v p := mkPool (p_store p) v (p_limbo p) (p_gapped p) (p_gsrc p) (p_nonce p) (p_bal p) (p_head p) (p_tip p) (p_lookup p) (p_index p) (p_spent p) (p_heap p) (p_hbase p) (p_hblob p).
Definition set_limbo v p := mkPool (p_store p) (p_stored p) v (p_gapped p) (p_gsrc p) (p_nonce p) (p_bal p) (p_head p) (p_tip p) (p_lookup p) (p_index p) (p_spent p) (p_heap p) (p_hbase p) (p_hblob p).
Definition set_gapped g s p := mkPool (p_store p) (p_stored p) (p_limbo p) g s (p_nonce p) (p_bal p) (p_head p) (p_tip p) (p_lookup p) (p_index p) (p_spent p) (p_heap p) (p_hbase p) (p_hblob p).
Definition set_state n b h p := mkPool (p_store p) (p_stored p) (p_limbo p) (p_gapped p) (p_gsrc p) n b h (p_tip p) (p_lookup p) (p_index p) (p_spent p) (p_heap p) (p_hbase p) (p_hblob p).
Definition set_tip v p := mkPool (p_store p) (p_stored p) (p_limbo p) (p_gapped p) (p_gsrc p) (p_nonce p) (p_bal p) (p_head p) v (p_lookup p) (p_index p) (p_spent p) (p_heap p) (p_hbase p) (p_hblob p).
Definition set_lookup v p := mkPool (p_store p) (p_stored p) (p_limbo p) (p_gapped p) (p_gsrc p) (p_nonce p) (p_bal p) (p_head p) (p_tip p) v (p_index p) (p_spent p) (p_heap p) (p_hbase p) (p_hblob p).
Definition set_index v p := mkPool (p_store p) (p_stored p) (p_limbo p) (p_gapped p) (p_gsrc p) (p_nonce p) (p_bal p) (p_head p) (p_tip p) (p_lookup p) v (p_spent p) (p_heap p) (p_hbase p) (p_hblob p).
Definition set_spent v p := mkPool (p_store p) (p_stored p) (p_limbo p) (p_gapped p) (p_gsrc p) (p_nonce p) (p_bal p) (p_head p) (p_tip p) (p_lookup p) (p_index p) v (p_heap p) (p_hbase p) (p_hblob p).
Definition set_heap v p := mkPool (p_store p) (p_stored p) (p_limbo p) (p_gapped p) (p_gsrc p) (p_nonce p) (p_bal p) (p_head p) (p_tip p) (p_lookup p) (p_index p) (p_spent p) v (p_hbase p) (p_hblob p).
Definition set_hfees a b p := mkPool (p_store p) (p_stored p) (p_limbo p) (p_gapped p) (p_gsrc p) (p_nonce p) (p_bal p) (p_head p) (p_tip p) (p_lookup p) (p_index p) (p_spent p) (p_heap p) a b.

Definition nonce_of (p : pool) (a : N) : N := match aget (p_nonce p) a with Some n => n | None => 0 end.
Definition bal_of (p : pool) (a : N) : N := match aget (p_bal p) a with Some n => n | None => 0 end.
(* Go: p.index[addr] of a missing key is the nil slice *)
Definition txs_of (p : pool) (a : N) : list meta := match aget (p_index p) a with Some l => l | None => [] end.
Definition spent_of (p : pool) (a : N) : N := match aget (p_spent p) a with Some n => n | None => 0 end.

Definition maxTxsPerAccount : nat := 16.
Definition maxGapped : nat := 128.

Section Model.
Variable prioE prioB : N -> N -> Z.
Variable gtE gtB : N -> N -> bool.
Variable nearE nearB : N -> N -> bool.
Variable c : cfg.

(* ------------------------------------------------------------------ evictheap.go *)
(* priority.go evictionPriority: min(0, basefeePriority, blobfeePriority) *)
Definition evprio (p : pool) (m : meta) : Z :=
  Z.min 0 (Z.min (prioE (p_hbase p) (m_evfee m)) (prioB (p_hblob p) (m_evbfee m))).
Definition hkey (p : pool) (a : N) : option (Z * N) :=
  match aget (p_index p) a with
  | Some l => match last_opt l with Some m => Some (evprio p m, m_evtip m) | None => None end
  | None => None
  end.
(* evictHeap.Less on two addresses; a missing / empty index entry panics in Go *)
Definition hless (p : pool) (a b : N) : res bool :=
  match hkey p a, hkey p b with
  | Some (pa, ta), Some (pb, tb) => Ok (if (pa =? pb)%Z then ta <? tb else (pa <? pb)%Z)
  | _, _ => Err 1
  end.
Definition swap (h : list N) (i j : nat) : list N :=
  match nth_error h i, nth_error h j with
  | Some x, Some y => list_set (list_set h i y) j x
  | _, _ => h
  end.
(* container/heap up *)
Fixpoint h_up (fuel : nat) (p : pool) (h : list N) (j : nat) : res (list N) :=
  match fuel with
  | O => Err 2
  | S f =>
      let i := ((j - 1) / 2)%nat in
      if Nat.eqb i j then Ok h else
      match nth_error h j, nth_error h i with
      | Some aj, Some ai => do lt <- hless p aj ai ;
                            if lt then h_up f p (swap h i j) i else Ok h
      | _, _ => Err 1
      end
  end.
(* container/heap down; returns the heap and the final position *)
Fixpoint h_down (fuel : nat) (p : pool) (h : list N) (i n : nat) : res (list N * nat) :=
  match fuel with
  | O => Err 2
  | S f =>
      let j1 := (2 * i + 1)%nat in
      if Nat.leb n j1 then Ok (h, i) else
      match nth_error h j1, nth_error h i with
      | Some a1, Some ai =>
          let j2 := S j1 in
          do j <- (if Nat.ltb j2 n
                   then match nth_error h j2 with
                        | Some a2 => do lt <- hless p a2 a1 ; Ok (if lt then j2 else j1)
                        | None => Err 1 end
                   else Ok j1) ;
          match nth_error h j with
          | Some aj => do lt <- hless p aj ai ;
                       if lt then h_down f p (swap h i j) j n else Ok (h, i)
          | None => Err 1
          end
      | _, _ => Err 1
      end
  end.
Definition hfuel (h : list N) : nat := S (length h).
(* heap.Fix *)
Definition h_fix (p : pool) (h : list N) (i : nat) : res (list N) :=
  do r <- h_down (hfuel h) p h i (length h) ;
  let '(h', i') := r in
  if Nat.ltb i i' then Ok h' else h_up (hfuel h) p h' i.
(* heap.Init *)
Definition h_init (p : pool) (h : list N) : res (list N) :=
  fold_left (fun r i => do h' <- r ; do x <- h_down (hfuel h) p h' i (length h) ; Ok (fst x))
            (rev (seq 0 (length h / 2))) (Ok h).
(* heap.Push *)
Definition h_push (p : pool) (h : list N) (a : N) : res (list N) :=
  h_up (S (hfuel h)) p (h ++ [a]) (length h).
(* heap.Pop (result discarded by the pool) *)
Definition h_pop (p : pool) (h : list N) : res (list N) :=
  match length h with
  | O => Err 1
  | S n => do r <- h_down (hfuel h) p (swap h 0 n) 0 n ; Ok (removelast (fst r))
  end.
(* heap.Remove *)
Definition h_remove (p : pool) (h : list N) (i : nat) : res (list N) :=
  match length h with
  | O => Err 1
  | S n =>
      if Nat.ltb n i then Err 1 else
      if Nat.eqb n i then Ok (removelast h) else
      let h1 := swap h i n in
      do r <- h_down (hfuel h) p h1 i n ;
      let '(h2, i') := r in
      do h3 <- (if Nat.ltb i i' then Ok h2 else h_up (hfuel h) p h2 i) ;
      Ok (removelast h3)
  end.
(* evict.index[addr]: a missing key reads as 0 *)
Fixpoint pos_aux (h : list N) (a : N) (i : nat) : nat :=
  match h with [] => O | x :: r => if x =? a then i else pos_aux r a (S i) end.
Definition hpos (p : pool) (a : N) : nat := pos_aux (p_heap p) a 0.

Definition heap_fix_addr (p : pool) (a : N) : res pool :=
  do h <- h_fix p (p_heap p) (hpos p a) ; Ok (set_heap h p).
Definition heap_remove_addr (p : pool) (a : N) : res pool :=
  do h <- h_remove p (p_heap p) (hpos p a) ; Ok (set_heap h p).
(* newPriceHeap layout: sorted addresses, heap.Init (also the harness normalisation) *)
Definition heap_rebuild (p : pool) : res pool :=
  do h <- h_init p (akeys (p_index p)) ; Ok (set_heap h p).
(* evictHeap.reinit *)
Definition heap_reinit (p : pool) (base blob : N) (force : bool) : res pool :=
  if negb force && nearE (p_hbase p) base && nearB (p_hblob p) blob then Ok p
  else let p1 := set_hfees base blob p in
       do h <- h_init p1 (p_heap p1) ; Ok (set_heap h p1).

(* ------------------------------------------------------------------ small pool steps *)
(* lookup.track / untrack (txIndex only) *)
Definition track (m : meta) (p : pool) : pool := set_lookup (aset (p_lookup p) (m_id m) (m_sid m)) p.
Definition untrack (m : meta) (p : pool) : pool := set_lookup (adel (p_lookup p) (m_id m)) p.
Definition add_stored (n : N) (p : pool) : pool := set_stored (wrap64 (p_stored p + n)) p.
Definition sub_stored (n : N) (p : pool) : pool := set_stored (sub64 (p_stored p) n) p.
(* p.spent[addr] = p.spent[addr] - cost; a nil entry panics *)
Definition sub_spent (a n : N) (p : pool) : res pool :=
  match aget (p_spent p) a with
  | Some s => Ok (set_spent (aset (p_spent p) a (sub256 s n)) p)
  | None => Err 1
  end.
(* p.spent[addr] = p.spent[addr] + cost.  A uint256 overflow of the total is outside the
   model (Err 3): every theorem is about runs without it. *)
Definition add_spent (a n : N) (p : pool) : res pool :=
  match aget (p_spent p) a with
  | Some s => if s + n <? two256 then Ok (set_spent (aset (p_spent p) a (s + n)) p) else Err 3
  | None => Err 1
  end.
(* p.store.Delete(id), error only logged *)
Definition store_del (id : N) (p : pool) : res pool :=
  do b <- billy_delete (p_store p) id ; Ok (set_store b p).
Fixpoint store_dels (ids : list N) (p : pool) : res pool :=
  match ids with [] => Ok p | i :: r => do p1 <- store_del i p ; store_dels r p1 end.

(* limbo.go setAndIndex *)
Definition limbo_set (l : limbo) (t : tx) (blk : N) : limbo :=
  match billy_put (l_store l) (t_shelf t) (mkItem t blk) with
  | None => l                                    (* Put failed: error returned, nothing indexed *)
  | Some (b, id) =>
      let g := match aget (l_groups l) blk with Some g => g | None => [] end in
      mkLimbo b (aset (l_index l) (t_id t) id) (aset (l_groups l) blk (aset g id (t_id t)))
  end.
(* limbo.go push *)
Definition limbo_push (l : limbo) (t : tx) (blk : N) : limbo :=
  if ahas (l_index l) (t_id t) then l else limbo_set l t blk.
(* limbo.go getAndDrop *)
Definition limbo_get_drop (l : limbo) (id : N) : res (limbo * option item) :=
  do o <- billy_get (l_store l) id ;
  match o with
  | None => Ok (l, None)
  | Some it =>
      let blk := i_block it in
      let g := adel (match aget (l_groups l) blk with Some g => g | None => [] end) id in
      let groups := match g with [] => adel (l_groups l) blk | _ => aset (l_groups l) blk g end in
      do b <- billy_delete (l_store l) id ;
      Ok (mkLimbo b (adel (l_index l) (t_id (i_tx it))) groups, Some it)
  end.
(* limbo.go pull *)
Definition limbo_pull (l : limbo) (h : N) : res (limbo * option tx) :=
  match aget (l_index l) h with
  | None => Ok (l, None)
  | Some id => do r <- limbo_get_drop l id ;
               Ok (fst r, match snd r with Some it => Some (i_tx it) | None => None end)
  end.
(* limbo.go update *)
Definition limbo_update (l : limbo) (h blk : N) : res limbo :=
  match aget (l_index l) h with
  | None => Ok l
  | Some id =>
      if ahas (match aget (l_groups l) blk with Some g => g | None => [] end) id then Ok l else
      do r <- limbo_get_drop l id ;
      match snd r with
      | None => Ok (fst r)
      | Some it => Ok (limbo_set (fst r) (i_tx it) blk)
      end
  end.
(* limbo.go finalize *)
Definition limbo_finalize (l : limbo) (final : N) : res limbo :=
  fold_left (fun r '(blk, ids) =>
               do l1 <- r ;
               if final <? blk then Ok l1 else
               do l2 <- fold_left (fun r2 '(id, owner) =>
                                     do l' <- r2 ;
                                     do b <- billy_delete (l_store l') id ;
                                     Ok (mkLimbo b (adel (l_index l') owner) (l_groups l')))
                                  ids (Ok l1) ;
               Ok (mkLimbo (l_store l2) (l_index l2) (adel (l_groups l2) blk)))
            (l_groups l) (Ok l).
(* limbo.go newLimbo + parseBlob over the opened store *)
Definition limbo_open (img : image) : res limbo :=
  let '(b, calls) := billy_open img in
  let '(l, fails) :=
    fold_left (fun '(l, fails) '(id, it) =>
                 let h := t_id (i_tx it) in
                 if ahas (l_index l) h then (l, fails ++ [id]) else
                 let g := match aget (l_groups l) (i_block it) with Some g => g | None => [] end in
                 (mkLimbo (l_store l) (aset (l_index l) h id) (aset (l_groups l) (i_block it) (aset g id h)), fails))
              calls (mkLimbo b [] [], []) in
  fold_left (fun r id => do l' <- r ; do b' <- billy_delete (l_store l') id ;
                         Ok (mkLimbo b' (l_index l') (l_groups l')))
            fails (Ok l).

(* blobpool.go offload *)
Definition offload (id : N) (incl : list (N * N)) (p : pool) : res pool :=
  do o <- billy_get (p_store p) id ;
  match o with
  | None => Ok p
  | Some it =>
      match aget incl (t_id (i_tx it)) with
      | None => Ok p                               (* swapped out by signer *)
      | Some blk => Ok (set_limbo (limbo_push (p_limbo p) (i_tx it) blk) p)
      end
  end.

(* ------------------------------------------------------------------ recheck *)
(* sort.Slice by nonce: insertion sort (what Go runs below 13 elements), stable *)
Fixpoint ins_meta (m : meta) (l : list meta) : list meta :=
  match l with
  | [] => [m]
  | x :: r => if m_nonce m <? m_nonce x then m :: l else x :: ins_meta m r
  end.
Definition sort_metas (l : list meta) : list meta := fold_left (fun acc m => ins_meta m acc) l [].

Definition with_ev (m : meta) (tip fee bfee : N) : meta := mkMeta (m_tx m) (m_sid m) tip fee bfee.
Definition ev_first (m : meta) : meta := with_ev m (t_tip (m_tx m)) (t_fee (m_tx m)) (t_bfee (m_tx m)).
Definition ev_next (prev m : meta) : meta :=
  with_ev m (N.min (m_evtip prev) (t_tip (m_tx m))) (N.min (m_evfee prev) (t_fee (m_tx m)))
            (N.min (m_evbfee prev) (t_bfee (m_tx m))).

(* one dropped transaction inside recheck: spent, stored, lookup *)
Definition unaccount (a : N) (m : meta) (p : pool) : res pool :=
  do p1 <- sub_spent a (m_cost m) p ; Ok (untrack m (sub_stored (m_size m) p1)).
Fixpoint unaccount_all (a : N) (l : list meta) (p : pool) : res pool :=
  match l with [] => Ok p | m :: r => do p1 <- unaccount a m p ; unaccount_all a r p1 end.

(* recheck lines 1006-1074: eviction thresholds, repeated nonces, first gap.
   Returns the kept list, the store ids to delete at the gap, and the pool. *)
Fixpoint recheck_scan (a : N) (prev : meta) (rest : list meta) (acc : list meta) (p : pool)
  : res (list meta * pool) :=
  match rest with
  | [] => Ok (acc, p)
  | m :: r =>
      if m_nonce m =? wrap64 (m_nonce prev + 1) then
        let m' := ev_next prev m in recheck_scan a m' r (acc ++ [m']) p
      else if m_nonce m =? m_nonce prev then
        let id := match aget (p_lookup p) (m_id m) with Some i => i | None => 0 end in
        do p1 <- unaccount a m p ;
        do p2 <- store_del id p1 ;
        recheck_scan a prev r acc p2
      else
        do p1 <- unaccount_all a rest p ;
        do p2 <- store_dels (map m_sid rest) p1 ;
        Ok (acc, p2)
  end.
(* pop from the tail while [cond] holds *)
Fixpoint pop_while (fuel : nat) (a : N) (cond : pool -> list meta -> bool) (txs : list meta)
         (ids : list N) (p : pool) : res (list meta * list N * pool) :=
  match fuel with
  | O => Err 2
  | S f =>
      if cond p txs then
        match last_opt txs with
        | None => Err 1
        | Some last => do p1 <- unaccount a last p ;
                       pop_while f a cond (removelast txs) (ids ++ [m_sid last]) p1
        end
      else Ok (txs, ids, p)
  end.

(* blobpool.go recheck.  [legacy_gap = true] is the code before the repair of
   C42-gap-after-stale-prefix: the gap was tested against the state only before the stale
   prefix was dropped. *)
Variable legacy_gap : bool.
Definition recheck (a : N) (incl : option (list (N * N))) (p : pool) : res pool :=
  match aget (p_index p) a with
  | None => match incl with Some _ => Ok p | None => Err 1 end
  | Some txs0 =>
    let txs := sort_metas txs0 in
    let p := set_index (aset (p_index p) a txs) p in
    match txs, last_opt txs with
    | first :: _, Some lastm =>
      let next := nonce_of p a in
      let gapped := next <? m_nonce first in
      let filled := m_nonce lastm <? next in
      if gapped || filled then
        do p1 <- fold_left (fun r m =>
                              do q <- r ;
                              let q1 := untrack m (sub_stored (m_size m) q) in
                              match incl with
                              | Some inc => if filled then offload (m_sid m) inc q1 else Ok q1
                              | None => Ok q1
                              end) txs (Ok p) ;
        let p2 := set_spent (adel (p_spent p1) a) (set_index (adel (p_index p1) a) p1) in
        do p3 <- (match incl with Some _ => heap_remove_addr p2 a | None => Ok p2 end) ;
        store_dels (map m_sid txs) p3
      else
        (* overlap with the chain state *)
        do r1 <- (if m_nonce first <? next then
                    let stale := filter (fun m => m_nonce m <? next) txs in
                    let keep := skipn (length stale) txs in
                    do p1 <- fold_left (fun r m =>
                                          do q <- r ;
                                          do q1 <- unaccount a m q ;
                                          match incl with
                                          | Some inc => offload (m_sid m) inc q1
                                          | None => Ok q1
                                          end) stale (Ok p) ;
                    do p2 <- store_dels (map m_sid stale) p1 ;
                    Ok (keep, set_index (aset (p_index p2) a keep) p2)
                  else Ok (txs, p)) ;
        let '(txs1, p1) := r1 in
        match txs1 with
        | [] => Err 1
        | f1 :: rest1 =>
          (* repair of C42-gap-after-stale-prefix: what is left must start at the state nonce *)
          if negb legacy_gap && (next <? m_nonce f1) then
            let q1 := fold_left (fun q m => untrack m (sub_stored (m_size m) q)) txs1 p1 in
            let q2 := set_spent (adel (p_spent q1) a) (set_index (adel (p_index q1) a) q1) in
            do q3 <- (match incl with Some _ => heap_remove_addr q2 a | None => Ok q2 end) ;
            store_dels (map m_sid txs1) q3
          else
          let f1' := ev_first f1 in
          do r2 <- recheck_scan a f1' rest1 [f1'] p1 ;
          let '(txs2, p2) := r2 in
          let p2 := set_index (aset (p_index p2) a txs2) p2 in
          (* overdraft *)
          let balance := bal_of p2 a in
          do r3 <- (if balance <? spent_of p2 a then
                      do r <- pop_while (S (length txs2)) a (fun q _ => balance <? spent_of q a) txs2 [] p2 ;
                      let '(txs3, ids, q) := r in
                      do q1 <- (match txs3 with
                                | [] => let q0 := set_spent (adel (p_spent q) a) (set_index (adel (p_index q) a) q) in
                                        match incl with Some _ => heap_remove_addr q0 a | None => Ok q0 end
                                | _ => Ok (set_index (aset (p_index q) a txs3) q)
                                end) ;
                      do q2 <- store_dels ids q1 ;
                      Ok (txs3, q2)
                    else Ok (txs2, p2)) ;
          let '(txs3, p3) := r3 in
          (* per-account cap *)
          do r4 <- (if Nat.ltb maxTxsPerAccount (length txs3) then
                      do r <- pop_while (S (length txs3)) a (fun _ l => Nat.ltb maxTxsPerAccount (length l)) txs3 [] p3 ;
                      let '(txs4, ids, q) := r in
                      do q2 <- store_dels ids (set_index (aset (p_index q) a txs4) q) ;
                      Ok q2
                    else Ok p3) ;
          match incl with
          | Some _ => if ahas (p_index r4) a then heap_fix_addr r4 a else Ok r4
          | None => Ok r4
          end
        end
    | _, _ => Err 1          (* txs[0] on an empty slice *)
    end
  end.

(* ------------------------------------------------------------------ drop *)
(* blobpool.go drop *)
Definition drop (p : pool) : res pool :=
  match p_heap p with
  | [] => Err 1
  | from :: _ =>
    let txs := txs_of p from in
    match last_opt txs with
    | None => Err 1
    | Some d =>
      let lastone := Nat.eqb (length txs) 1 in
      do p1 <- (if lastone
                then Ok (set_spent (adel (p_spent p) from) (set_index (adel (p_index p) from) p))
                else sub_spent from (m_cost d) (set_index (aset (p_index p) from (removelast txs)) p)) ;
      let p2 := untrack d (sub_stored (m_size d) p1) in
      do p3 <- (if lastone then do h <- h_pop p2 (p_heap p2) ; Ok (set_heap h p2)
                else match last_opt (removelast txs) with
                     | None => Err 1
                     | Some tail =>
                         if gtE (m_evfee tail) (m_evfee d) || gtB (m_evbfee tail) (m_evbfee d)
                         then do h <- h_fix p2 (p_heap p2) 0 ; Ok (set_heap h p2)
                         else Ok p2
                     end) ;
      store_del (m_sid d) p3
    end
  end.
(* for p.stored > p.config.Datacap { p.drop() } *)
Fixpoint drop_loop (fuel : nat) (p : pool) : res pool :=
  match fuel with
  | O => Err 2
  | S f => if c_datacap c <? p_stored p then do p1 <- drop p ; drop_loop f p1 else Ok p
  end.
Definition count_txs (p : pool) : nat := fold_left (fun n '(_, l) => (n + length l)%nat) (p_index p) O.

(* ------------------------------------------------------------------ SetGasTip *)
Fixpoint split_tip (tip : N) (l : list meta) : list meta * list meta :=
  match l with
  | [] => ([], [])
  | m :: r => if t_tip (m_tx m) <? tip then ([], l)
              else let '(k, d) := split_tip tip r in (m :: k, d)
  end.
(* blobpool.go SetGasTip (accounts in address order) *)
Definition set_gas_tip (tip : N) (p : pool) : res pool :=
  let old := p_tip p in
  let p := set_tip (Some tip) p in
  if match old with None => true | Some o => o <? tip end then
    fold_left (fun r a =>
                 do q <- r ;
                 let '(keep, dropped) := split_tip tip (txs_of q a) in
                 match dropped with
                 | [] => Ok q
                 | _ =>
                   do q1 <- fold_left (fun r2 m => do x <- r2 ; unaccount a m x) dropped (Ok q) ;
                   do q2 <- (match keep with
                             | [] => heap_remove_addr
                                       (set_spent (adel (p_spent q1) a) (set_index (adel (p_index q1) a) q1)) a
                             | _ => heap_fix_addr (set_index (aset (p_index q1) a keep) q1) a
                             end) ;
                   store_dels (map m_sid dropped) q2
                 end)
              (akeys (p_index p)) (Ok p)
  else Ok p.

(* ------------------------------------------------------------------ add *)
(* error classes of Add *)
Definition E_ok : N := 0.
Definition E_tiplow : N := 1.      (* ValidateTxBasics: ErrTxGasPriceTooLow *)
Definition E_noncelow : N := 2.
Definition E_noncehigh : N := 3.
Definition E_funds : N := 4.
Definition E_limit : N := 5.
Definition E_replace : N := 6.
Definition E_known : N := 7.
Definition E_store : N := 9.
Definition E_buffered : N := 100.  (* internal: accepted into the gapped buffer (Add returns nil) *)

(* validation.go ValidateTransactionWithState + blobpool.go validateTx (no delegations) *)
Definition validate_tx (t : tx) (p : pool) : N :=
  let from := t_from t in
  let next := nonce_of p from in
  let txs := txs_of p from in
  if t_nonce t <? next then E_noncelow else
  if wrap64 (next + lenN txs) <? t_nonce t then E_noncehigh else
  let balance := bal_of p from in
  if balance <? t_cost t then E_funds else
  let spent := spent_of p from in
  let off := N.to_nat (t_nonce t - next) in
  match nth_error txs off with
  | Some prev =>
      if (Z.of_N balance <? Z.of_N spent + (Z.of_N (t_cost t) - Z.of_N (m_cost prev)))%Z then E_funds else
      if m_id prev =? t_id t then E_known else
      if t_fee t <=? t_fee (m_tx prev) then E_replace else
      if t_tip t <=? t_tip (m_tx prev) then E_replace else
      if t_bfee t <=? t_bfee (m_tx prev) then E_replace else
      let mul := 100 + c_bump c in
      if t_fee t <? wrap256 (mul * t_fee (m_tx prev)) / 100 then E_replace else
      if t_tip t <? wrap256 (mul * t_tip (m_tx prev)) / 100 then E_replace else
      if t_bfee t <? wrap256 (mul * t_bfee (m_tx prev)) / 100 then E_replace else
      E_ok
  | None =>
      if balance <? spent + t_cost t then E_funds else
      if Nat.leb maxTxsPerAccount (length txs) then E_limit else
      E_ok
  end.

(* gappedAllowance: int(math.Log10(float64(nonce+1))) as the integer logarithm (the harness
   keeps nonce+1 away from exact powers of ten, where the float result is not guaranteed) *)
Fixpoint ilog10 (fuel : nat) (n : N) : Z :=
  match fuel with O => 0%Z | S f => if n <? 10 then 0%Z else (1 + ilog10 f (n / 10))%Z end.
Definition gapped_allowance (p : pool) (a : N) : Z :=
  let allowance := ilog10 20 (nonce_of p a + 1) in
  (Z.min allowance (Z.of_nat maxTxsPerAccount - Z.of_nat (length (txs_of p a)))
   - Z.of_nat (length (match aget (p_gapped p) a with Some l => l | None => [] end)))%Z.

(* recompute the rolling eviction fields from [off] on *)
Fixpoint reev (prev : option meta) (l : list meta) (off : nat) : list meta :=
  match l with
  | [] => []
  | m :: r =>
      match off with
      | S o => m :: reev (Some m) r o
      | O => let m' := match prev with None => ev_first m | Some q => ev_next q m end in
             m' :: reev (Some m') r O
      end
  end.

(* blobpool.go addLocked up to and including the eviction loop (no gapped promotion) *)
Definition add_core (t : tx) (p : pool) : res (pool * N) :=
  let from := t_from t in
  let e := validate_tx t p in
  if negb (e =? E_ok) then
    if e =? E_noncehigh then
      if (1 <=? gapped_allowance p from)%Z && Nat.ltb (length (p_gsrc p)) maxGapped then
        let g := match aget (p_gapped p) from with Some l => l | None => [] end in
        let src := if existsb (N.eqb (t_id t)) (p_gsrc p) then p_gsrc p else p_gsrc p ++ [t_id t] in
        Ok (set_gapped (aset (p_gapped p) from (g ++ [t])) src p, E_buffered)
      else Ok (p, e)
    else Ok (p, e)
  else
  match billy_put (p_store p) (t_shelf t) (mkItem t 0) with
  | None => Ok (p, E_store)
  | Some (b, id) =>
    let p := set_store b p in
    let m := mkMeta t id 0 0 0 in
    let next := nonce_of p from in
    let off := N.to_nat (t_nonce t - next) in
    let old := match aget (p_index p) from with
               | Some l => match last_opt l with Some x => Ok (Some x) | None => Err 1 end
               | None => Ok None end in
    do old <- old ;
    let txs := txs_of p from in
    do r <- (match nth_error txs off with
             | Some prev =>
                 do p1 <- store_del (m_sid prev) p ;
                 let p2 := set_index (aset (p_index p1) from (list_set txs off m)) p1 in
                 do p3 <- sub_spent from (m_cost prev) p2 ;
                 do p4 <- add_spent from (t_cost t) p3 ;
                 let p5 := track m (untrack prev p4) in
                 Ok (set_stored (wrap64 (p_stored p5 + sub64 (t_size t) (m_size prev))) p5, false)
             | None =>
                 let p1 := set_index (aset (p_index p) from (txs ++ [m])) p in
                 let newacc := negb (ahas (p_spent p1) from) in
                 let p2 := if newacc then set_spent (aset (p_spent p1) from 0) p1 else p1 in
                 do p3 <- add_spent from (t_cost t) p2 ;
                 Ok (add_stored (t_size t) (track m p3), newacc)
             end) ;
    let '(p1, newacc) := r in
    let txs1 := txs_of p1 from in
    let txs2 := reev (match off with O => None | S o => nth_error txs1 o end) (skipn off txs1) O in
    let txs3 := firstn off txs1 ++ txs2 in
    let p2 := set_index (aset (p_index p1) from txs3) p1 in
    do p3 <- (if newacc then do h <- h_push p2 (p_heap p2) from ; Ok (set_heap h p2)
              else if Nat.eqb (length txs3) 1 then heap_fix_addr p2 from
              else match old, last_opt txs3 with
                   | Some o, Some l =>
                       if gtE (m_evfee o) (m_evfee l) || gtE (m_evfee l) (m_evfee o) ||
                          gtB (m_evbfee o) (m_evbfee l) || gtB (m_evbfee l) (m_evbfee o)
                       then heap_fix_addr p2 from else Ok p2
                   | _, _ => Err 1
                   end) ;
    do p4 <- drop_loop (S (count_txs p3)) p3 ;
    Ok (p4, E_ok)
  end.

(* sort.SliceStable by nonce *)
Fixpoint ins_tx (t : tx) (l : list tx) : list tx :=
  match l with
  | [] => [t]
  | x :: r => if t_nonce t <? t_nonce x then t :: l else x :: ins_tx t r
  end.
Definition sort_txs (l : list tx) : list tx := fold_left (fun acc t => ins_tx t acc) l [].
Definition remove_id (x : N) (l : list N) : list N := filter (fun y => negb (y =? x)) l.

(* addLocked lines 2190-2238: promotion out of the gapped buffer *)
Fixpoint promote (from : N) (gtxs : list tx) (p : pool) : res (list tx * pool) :=
  match gtxs with
  | [] => Ok ([], p)
  | t :: r =>
      let state_nonce := nonce_of p from in
      let firstgap := wrap64 (state_nonce + lenN (txs_of p from)) in
      if firstgap <? t_nonce t then Ok (gtxs, p) else
      let p1 := set_gapped (p_gapped p) (remove_id (t_id t) (p_gsrc p)) p in
      if t_nonce t <? state_nonce then promote from r p1 else
      do x <- add_core t p1 ;
      promote from r (fst x)
  end.

(* blobpool.go addLocked(ptx, true) *)
Definition add_locked (t : tx) (p : pool) : res (pool * N) :=
  do x <- add_core t p ;
  let '(p1, e) := x in
  (* the gapped path returns nil before the promotion code *)
  if e =? E_buffered then Ok (p1, E_ok) else
  if negb (e =? E_ok) then Ok (p1, e) else
  match aget (p_gapped p1) (t_from t) with
  | Some ((_ :: _) as gtxs) =>
      do r <- promote (t_from t) (sort_txs gtxs) p1 ;
      let '(rest, p2) := r in
      let g := match rest with [] => adel (p_gapped p2) (t_from t) | _ => aset (p_gapped p2) (t_from t) rest end in
      Ok (set_gapped g (p_gsrc p2) p2, E_ok)
  | _ => Ok (p1, E_ok)
  end.

(* BlobPool.ValidateTxBasics (MinTip only; everything else is valid by construction of the
   harness transactions) followed by AddPooledTx *)
Definition pool_add (t : tx) (p : pool) : res (pool * N) :=
  match p_tip p with
  | None => Err 1
  | Some tip => if t_tip t <? tip then Ok (p, E_tiplow) else add_locked t p
  end.

(* ------------------------------------------------------------------ Reset *)
(* evictGapped (the time cutoff is not modelled) *)
Definition evict_gapped (p : pool) : pool :=
  fold_left (fun q '(from, txs) =>
               let n := nonce_of q from in
               let keep := filter (fun t => negb (t_nonce t <? n)) txs in
               let gone := filter (fun t => t_nonce t <? n) txs in
               let src := fold_left (fun s t => remove_id (t_id t) s) gone (p_gsrc q) in
               set_gapped (match keep with [] => adel (p_gapped q) from | _ => aset (p_gapped q) from keep end) src q)
            (p_gapped p) p.

(* blobpool.go reorg: the three walks.  Result: discarded and included transactions in
   traversal order (included paired with the block number), None on a missing parent. *)
Fixpoint walk_rem (fuel : nat) (bs : list block) (rem add : block) (disc : list btx)
  : option (block * list btx) :=
  match fuel with
  | O => None
  | S f => if b_num add <? b_num rem
           then match get_block bs (b_parent rem) with
                | Some pr => walk_rem f bs pr add (disc ++ b_txs rem)
                | None => None end
           else Some (rem, disc)
  end.
Fixpoint walk_add (fuel : nat) (bs : list block) (rem add : block) (incl : list (btx * N))
  : option (block * list (btx * N)) :=
  match fuel with
  | O => None
  | S f => if b_num rem <? b_num add
           then match get_block bs (b_parent add) with
                | Some pa => walk_add f bs rem pa (incl ++ map (fun t => (t, b_num add)) (b_txs add))
                | None => None end
           else Some (add, incl)
  end.
Fixpoint walk_both (fuel : nat) (bs : list block) (rem add : block) (disc : list btx) (incl : list (btx * N))
  : option (list btx * list (btx * N)) :=
  match fuel with
  | O => None
  | S f => if b_id rem =? b_id add then Some (disc, incl) else
           match get_block bs (b_parent rem), get_block bs (b_parent add) with
           | Some pr, Some pa =>
               walk_both f bs pr pa (disc ++ b_txs rem) (incl ++ map (fun t => (t, b_num add)) (b_txs add))
           | _, _ => None
           end
  end.
Definition absdiff (a b : N) : N := if a <? b then b - a else a - b.
Fixpoint dedup (l : list N) : list N :=
  match l with [] => [] | x :: r => if existsb (N.eqb x) r then dedup r else x :: dedup r end.
Fixpoint ins_N (x : N) (l : list N) : list N :=
  match l with [] => [x] | y :: r => if x <=? y then x :: l else y :: ins_N x r end.
Definition sort_N (l : list N) : list N := fold_right ins_N [] l.

Record reorg_out := mkReorg {
  ro_transactors : list N;             (* sorted *)
  ro_disc : list btx;
  ro_incl : list (btx * N)
}.
Definition reorg (bs : list block) (oldh newh : block) : option reorg_out :=
  if 64 <? absdiff (b_num oldh) (b_num newh) then None else
  match walk_rem (S (length bs)) bs oldh newh [] with
  | None => None
  | Some (rem, disc) =>
    match walk_add (S (length bs)) bs rem newh [] with
    | None => None
    | Some (add, incl) =>
      match walk_both (S (length bs)) bs rem add disc incl with
      | None => None
      | Some (disc', incl') =>
          Some (mkReorg (sort_N (dedup (map bt_from disc' ++ map (fun x => bt_from (fst x)) incl'))) disc' incl')
      end
    end
  end.
(* inclusions[tx.Hash()] = number: later writes win *)
Definition inclusions_of (incl : list (btx * N)) : list (N * N) :=
  fold_left (fun m '(t, n) => aset m (bt_id t) n) incl [].

(* blobpool.go reinject *)
Definition reinject (a h : N) (p : pool) : res pool :=
  do r <- limbo_pull (p_limbo p) h ;
  let p := set_limbo (fst r) p in
  match snd r with
  | None => Ok p
  | Some t =>
      match billy_put (p_store p) (t_shelf t) (mkItem t 0) with
      | None => Ok p
      | Some (b, id) =>
          let p := set_store b p in
          let m := mkMeta t id 0 0 0 in
          do p1 <- (match aget (p_index p) a with
                    | None => if t_cost t <? two256 then
                                Ok (set_heap (p_heap p ++ [a])     (* p.evict.Push: no sift *)
                                      (set_spent (aset (p_spent p) a (t_cost t))
                                         (set_index (aset (p_index p) a [m]) p)))
                              else Err 3                          (* costCap is a uint256 *)
                    | Some l => add_spent a (t_cost t) (set_index (aset (p_index p) a (l ++ [m])) p)
                    end) ;
          Ok (add_stored (t_size t) (track m p1))
      end
  end.

(* blobpool.go Reset (accounts of the reinject map in address order).
   [legacy_limbo = true] is reorg() before the repair of C42-limbo-stale-block: limbo.update
   was called for TxDifference(included, discarded) only, so a transaction of both segments
   kept the block number of the old branch. *)
Variable legacy_limbo : bool.
Definition pool_reset (bs : list block) (newh : block) (final : N) (p : pool) : res pool :=
  let p := evict_gapped p in
  match get_block bs (p_head p) with
  | None => Err 1
  | Some oldh =>
    let p := set_state (b_nonce newh) (b_bal newh) (b_id newh) p in
    do p1 <- (match reorg bs oldh newh with
              | None => Ok p
              | Some ro =>
                  let inclusions := inclusions_of (ro_incl ro) in
                  let disc_ids := map bt_id (ro_disc ro) in
                  let incl_ids := map (fun x => bt_id (fst x)) (ro_incl ro) in
                  (* limbo.update for the re-included blob transactions, per account *)
                  do l <- fold_left (fun r a =>
                            fold_left (fun r2 '(t, _) =>
                                         do l' <- r2 ;
                                         if (bt_from t =? a) && bt_blob t &&
                                            (negb legacy_limbo || negb (existsb (N.eqb (bt_id t)) disc_ids))
                                         then limbo_update l' (bt_id t)
                                                (match aget inclusions (bt_id t) with Some n => n | None => 0 end)
                                         else Ok l')
                                      (ro_incl ro) r)
                          (ro_transactors ro) (Ok (p_limbo p)) ;
                  let p := set_limbo l p in
                  fold_left (fun r a =>
                               do q <- r ;
                               do q1 <- fold_left (fun r2 t =>
                                                     do x <- r2 ;
                                                     if (bt_from t =? a) && bt_blob t && negb (existsb (N.eqb (bt_id t)) incl_ids)
                                                     then reinject a (bt_id t) x else Ok x)
                                                  (ro_disc ro) (Ok q) ;
                               recheck a (Some inclusions) q1)
                            (ro_transactors ro) (Ok p)
              end) ;
    do l <- limbo_finalize (p_limbo p1) final ;
    heap_reinit (set_limbo l p1) (b_base newh) (b_blob newh) false
  end.

(* ------------------------------------------------------------------ Init *)
(* blobpool.go trackTransaction; None = rejected duplicate *)
Definition track_transaction (id : N) (t : tx) (p : pool) : res (option pool) :=
  if ahas (p_lookup p) (t_id t) then Ok None else
  let a := t_from t in
  let p1 := if ahas (p_index p) a then p
            else set_spent (aset (p_spent p) a 0) (set_index (aset (p_index p) a []) p) in
  let m := mkMeta t id 0 0 0 in
  let p2 := set_index (aset (p_index p1) a (txs_of p1 a ++ [m])) p1 in
  do p3 <- add_spent a (t_cost t) p2 ;
  Ok (Some (add_stored (t_size t) (track m p3))).

(* blobpool.go Init on what is on disk, lines 614-724: open the store, index, recheck,
   build the heap, open the limbo *)
Definition pool_init_load (qimg limg : image) (head : block) : res pool :=
  let '(b, calls) := billy_open qimg in
  let p0 := mkPool b 0 (mkLimbo empty_billy [] []) [] [] (b_nonce head) (b_bal head) (b_id head)
                   None [] [] [] [] (b_base head) (b_blob head) in
  do r <- fold_left (fun r '(id, it) =>
                       do x <- r ;
                       let '(p, del) := x in
                       do o <- track_transaction id (i_tx it) p ;
                       match o with Some p' => Ok (p', del) | None => Ok (p, del ++ [id]) end)
                    calls (Ok (p0, [])) ;
  let '(p1, del) := r in
  do p2 <- store_dels del p1 ;
  do p3 <- fold_left (fun r a => do q <- r ; if ahas (p_index q) a then recheck a None q else Ok q)
                     (akeys (p_index p2)) (Ok p2) ;
  do p4 <- heap_rebuild p3 ;                       (* newPriceHeap *)
  do l <- limbo_open limg ;
  Ok (set_limbo l p4).
(* blobpool.go Init, lines 725-735: SetGasTip and the Datacap loop *)
Definition pool_init (qimg limg : image) (head : block) (tip : N) : res pool :=
  do p4 <- pool_init_load qimg limg head ;
  do p5 <- set_gas_tip tip p4 ;
  drop_loop (S (count_txs p5)) p5.

End Model.
