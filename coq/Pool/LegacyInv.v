(* Pool/LegacyInv.v — the structural pool invariant and its preservation by the
   pool-level operations of Pool/Legacy.v (part 1: primitives, enqueueTx, removeTx). *)
From GV Require Import Lib.Tactics Pool.Legacy Pool.LegacyProofs.
From Coq Require Import Sorting.Sorted.
Local Open Scope N_scope.

(* ---------- transaction identity ---------- *)
Lemma tx_eqb_eq : forall a b, tx_eqb a b = true <-> a = b.
Proof.
  intros [i1 f1 n1 g1 c1 p1 v1 s1 r1] [i2 f2 n2 g2 c2 p2 v2 s2 r2]. unfold tx_eqb. cbn.
  rewrite !andb_true_iff, !N.eqb_eq. split.
  - intros H. decompose [and] H. subst. reflexivity.
  - intros H. inversion H. subst. tauto.
Qed.
Lemma tx_eqb_refl : forall a, tx_eqb a a = true.
Proof. intros a. apply tx_eqb_eq. reflexivity. Qed.
Lemma tx_eqb_neq : forall a b, tx_eqb a b = false <-> a <> b.
Proof. intros a b. split; intros H. - intros E. apply tx_eqb_eq in E. congruence. - destruct (tx_eqb a b) eqn:E; [apply tx_eqb_eq in E; contradiction | reflexivity]. Qed.

(* ---------- magnitude guards ---------- *)
Definition CB : N := Eval vm_compute in 2 ^ 191.   (* bound on the cost of one transaction *)
Definition NB : N := Eval vm_compute in 2 ^ 64.    (* nonces are uint64 *)
Definition U256v : N := Eval vm_compute in 2 ^ 256.
Lemma U256_val : U256 = U256v. Proof. vm_compute. reflexivity. Qed.

Definition okt (c : cfg) (t : tx) : Prop :=
  In (t_from t) (c_accts c) /\ cost t < CB /\ t_nonce t < NB.

Lemma sorted_len_aux : forall l m B, sorted l ->
  (forall t, In t l -> m <= t_nonce t /\ t_nonce t < B) -> l = [] \/ m + N.of_nat (length l) <= B.
Proof.
  induction l as [|x l IH]; intros m B Hs Hb; [left; reflexivity|right].
  apply StronglySorted_inv in Hs. destruct Hs as [Hs Hf]. rewrite Forall_forall in Hf.
  pose proof (Hb x (or_introl eq_refl)) as [Hx1 Hx2].
  destruct (IH (m + 1) B Hs) as [->|Hl].
  - intros t Ht. pose proof (Hf t Ht) as Hlt. unfold nlt in Hlt. pose proof (Hb t (or_intror Ht)). lia.
  - cbn [length]. lia.
  - cbn [length]. lia.
Qed.

Lemma sorted_len_bound : forall l, sorted l -> (forall t, In t l -> t_nonce t < NB) -> N.of_nat (length l) <= NB.
Proof.
  intros l Hs Hb. destruct (sorted_len_aux l 0 NB Hs) as [->|H]; [|cbn; unfold NB; lia|lia].
  intros t Ht. split; [lia | apply Hb, Ht].
Qed.

Lemma sum_cost_bound : forall l, (forall t, In t l -> cost t < CB) ->
  (sum_cost l <= Z.of_nat (length l) * Z.of_N CB)%Z.
Proof.
  induction l as [|x l IH]; intros Hb; cbn [sum_cost length]; [lia|].
  pose proof (Hb x (or_introl eq_refl)). specialize (IH (fun t Ht => Hb t (or_intror Ht))). lia.
Qed.

(* ---------- list-level facts used below ---------- *)
Lemma sm_get_In : forall l n o, sm_get n l = Some o -> In o l /\ t_nonce o = n.
Proof. unfold sm_get. intros l n o H. apply find_some in H. destruct H as [H1 H2]. apply N.eqb_eq in H2. tauto. Qed.

Lemma In_sm_get : forall l t, In t l -> sm_get (t_nonce t) l <> None.
Proof.
  unfold sm_get. intros l t Hin Hn. pose proof (find_none _ _ Hn t Hin) as H. cbv beta in H.
  rewrite N.eqb_refl in H. discriminate.
Qed.

Lemma sm_get_none_notin : forall l n t, sm_get n l = None -> In t l -> t_nonce t <> n.
Proof.
  unfold sm_get. intros l n t Hn Hin E. pose proof (find_none _ _ Hn t Hin) as H. cbv beta in H.
  apply N.eqb_neq in H. contradiction.
Qed.

Lemma sorted_nonce_inj : forall l a b, sorted l -> In a l -> In b l -> t_nonce a = t_nonce b -> a = b.
Proof.
  unfold sorted. induction l as [|x l IH]; intros a b Hs Ha Hb E; [destruct Ha|].
  apply StronglySorted_inv in Hs. destruct Hs as [Hs Hf]. rewrite Forall_forall in Hf.
  destruct Ha as [->|Ha]; destruct Hb as [->|Hb]; try reflexivity.
  - pose proof (Hf b Hb) as H. unfold nlt in H. lia.
  - pose proof (Hf a Ha) as H. unfold nlt in H. lia.
  - apply IH; assumption.
Qed.

Lemma sm_put_In_fresh : forall t l, sm_get (t_nonce t) l = None ->
  forall x, In x (sm_put t l) <-> x = t \/ In x l.
Proof.
  intros t l Hn x. split; [apply sm_put_In|]. revert Hn.
  induction l as [|y l IH]; intros Hn H; cbn [sm_put].
  - destruct H as [->|[]]. left. reflexivity.
  - unfold sm_get in Hn. cbn [find] in Hn. destruct (t_nonce y =? t_nonce t) eqn:E; [discriminate|].
    destruct (t_nonce t <? t_nonce y) eqn:E1.
    + destruct H as [->|H]; [left; reflexivity | right; exact H].
    + destruct (t_nonce t =? t_nonce y) eqn:E2; [lia|].
      destruct H as [->|[->|H]]; [right; apply IH; auto | left; reflexivity | right; apply IH; auto].
Qed.

Record lok (c : cfg) (strict : bool) (a : N) (l : tlist) : Prop := {
  lk_wf : lwf l;
  lk_strict : l_strict l = strict;
  lk_mem : forall t, In t (l_txs l) -> t_from t = a /\ okt c t }.

Lemma lok_new : forall c s a, lok c s a (new_list s).
Proof. intros. split; [apply lwf_new | reflexivity | intros t []]. Qed.

Lemma lok_total_small : forall c s a l, lok c s a l -> (0 <= l_total l /\ l_total l <= Z.of_N NB * Z.of_N CB)%Z.
Proof.
  intros c s a l [W _ M]. split; [apply lwf_total_nonneg, W|].
  rewrite (lw_total _ W).
  pose proof (sum_cost_bound (l_txs l) (fun t Ht => proj1 (proj2 (proj2 (M t Ht))))) as H1.
  pose proof (sorted_len_bound (l_txs l) (lw_sorted _ W) (fun t Ht => proj2 (proj2 (proj2 (M t Ht))))) as H2.
  unfold NB, CB in *. nia.
Qed.

Lemma chk_ok : forall c s a l st, lok c s a l -> chk l st = st.
Proof. intros c s a l st H. unfold chk. pose proof (lok_total_small _ _ _ _ H) as [H0 _]. destruct (l_total l <? 0)%Z eqn:E; [lia | reflexivity]. Qed.

(* list.Add of a tx whose nonce is not in the list: always inserted *)
Lemma list_add_fresh : forall c s a l t bump, lok c s a l -> t_from t = a -> okt c t ->
  sm_get (t_nonce t) (l_txs l) = None ->
  exists l', list_add t bump l = (AddOk None, l') /\ l_txs l' = sm_put t (l_txs l) /\ lok c s a l'.
Proof.
  intros c s a l t bump L Hf Hk Hn. pose proof (lok_total_small _ _ _ _ L) as [T0 T1].
  destruct Hk as [Hk1 [Hk2 Hk3]].
  assert (Hadd : exists l', list_add t bump l = (AddOk None, l') /\ l_txs l' = sm_put t (l_txs l) /\ l_strict l' = l_strict l).
  { unfold list_add. rewrite Hn.
    destruct (U256 <=? cost t) eqn:E1; [apply N.leb_le in E1; rewrite U256_val in E1; unfold U256v, CB in *; lia|].
    destruct (Z.of_N U256 <=? l_total l + Z.of_N (cost t))%Z eqn:E2; [apply Z.leb_le in E2; rewrite U256_val in E2; unfold U256v, CB, NB in *; lia|].
    eexists. split; [reflexivity|]. split; reflexivity. }
  destruct Hadd as [l' [Ha [Ht Hs]]]. exists l'. split; [exact Ha|]. split; [exact Ht|].
  split.
  - eapply list_add_wf; [apply (lk_wf _ _ _ _ L) | exact Ha].
  - rewrite Hs. apply (lk_strict _ _ _ _ L).
  - intros x Hx. rewrite Ht in Hx. apply sm_put_In in Hx. destruct Hx as [->|Hx]; [split; [exact Hf | repeat split; assumption] | apply (lk_mem _ _ _ _ L), Hx].
Qed.

(* removing members keeps a list well-formed (generic) *)
Lemma lok_sub : forall c s a l l', lok c s a l -> lwf l' -> l_strict l' = l_strict l ->
  (forall t, In t (l_txs l') -> In t (l_txs l)) -> lok c s a l'.
Proof.
  intros c s a l l' L W Hs Hsub. split; [exact W | rewrite Hs; apply (lk_strict _ _ _ _ L) |].
  intros t Ht. apply (lk_mem _ _ _ _ L), Hsub, Ht.
Qed.

(* ---------- the core of the pool state and frame lemmas ---------- *)
Definition core (st : pool) :=
  (p_cfg st, p_chain st, p_pending st, p_queue st, p_all st, p_slots st, p_panic st).

Ltac core_refl := intros; unfold core; cbn; reflexivity.

Lemma core_priced_put : forall t st, core (priced_put t st) = core st. Proof. core_refl. Qed.
Lemma core_priced_reheap : forall st, core (priced_reheap st) = core st. Proof. core_refl. Qed.
Lemma core_priced_removed : forall n st, core (priced_removed n st) = core st.
Proof. intros. unfold priced_removed. destruct (_ <=? _)%Z; [core_refl | rewrite core_priced_reheap; core_refl]. Qed.
Lemma core_priced_set_basefee : forall b st, core (priced_set_basefee b st) = core st.
Proof. intros. unfold priced_set_basefee. rewrite core_priced_reheap. core_refl. Qed.
Lemma core_priced_underpriced : forall t st, core (snd (priced_underpriced t st)) = core st.
Proof.
  intros. unfold priced_underpriced. destruct (drop_stale (p_all st) (p_urgent st)) as [u nu].
  destruct (_ || _); [destruct (drop_stale (p_all st) (p_floating st)) as [f nf]|]; core_refl.
Qed.
Lemma core_priced_discard : forall z st, core (snd (priced_discard z st)) = core st.
Proof.
  intros. unfold priced_discard. destruct (priced_discard_loop _ _ _ _ _ _ _) as [[[[[u f] s] d] l]|]; [|core_refl].
  destruct (0 <? l)%Z; core_refl.
Qed.
Lemma core_tick : forall st, core (snd (tick st)) = core st. Proof. core_refl. Qed.
Lemma core_q_bump : forall a st, core (q_bump a st) = core st.
Proof. intros. unfold q_bump. destruct (p_beats st a); core_refl. Qed.
Lemma core_set_changes : forall st v, core (set_changes st v) = core st. Proof. core_refl. Qed.
Lemma core_set_ovf : forall st, core (set_ovf st) = core st. Proof. core_refl. Qed.
Lemma core_set_fuel : forall st, core (set_fuel st) = core st. Proof. core_refl. Qed.
Lemma core_set_gastip : forall st v, core (set_gastip st v) = core st. Proof. core_refl. Qed.
Lemma core_set_pn : forall st v, core (set_pn st v) = core st. Proof. core_refl. Qed.
Lemma core_set_beats : forall st v, core (set_beats st v) = core st. Proof. core_refl. Qed.
Lemma core_pn_set : forall a n st, core (pn_set a n st) = core st. Proof. core_refl. Qed.
Lemma core_pn_set_if_lower : forall a n st, core (pn_set_if_lower a n st) = core st.
Proof. intros. unfold pn_set_if_lower. destruct (_ <=? _); core_refl. Qed.

(* destructure a core equality into its seven field equalities *)
Ltac core_inv H :=
  let h1 := fresh "Ecfg" in let h2 := fresh "Echain" in let h3 := fresh "Epend" in
  let h4 := fresh "Equeue" in let h5 := fresh "Eall" in let h6 := fresh "Eslots" in let h7 := fresh "Epanic" in
  unfold core in H; injection H as h1 h2 h3 h4 h5 h6 h7.

(* ---------- the structural invariant ---------- *)
Fixpoint sum_slots (l : list tx) : Z :=
  match l with [] => 0%Z | t :: r => (sum_slots r + Z.of_N (t_slots t))%Z end.

Definition in_opt (t : tx) (o : option tlist) : Prop :=
  match o with Some l => In t (l_txs l) | None => False end.
Definition inP (st : pool) (t : tx) : Prop := in_opt t (p_pending st (t_from t)).
Definition inQ (st : pool) (t : tx) : Prop := in_opt t (p_queue st (t_from t)).

Record SInv (st : pool) : Prop := {
  s_pw : forall a l, p_pending st a = Some l -> lok (p_cfg st) true a l /\ In a (c_accts (p_cfg st));
  s_qw : forall a l, p_queue st a = Some l -> lok (p_cfg st) false a l /\ In a (c_accts (p_cfg st));
  (* pending_queue_disjoint, by nonce *)
  s_disj : forall a pl ql t, p_pending st a = Some pl -> p_queue st a = Some ql ->
           In t (l_txs ql) -> sm_get (t_nonce t) (l_txs pl) = None;
  (* all_is_union *)
  s_union : forall t, In t (p_all st) <-> inP st t \/ inQ st t;
  s_nodup : NoDup (p_all st);
  s_slots : p_slots st = sum_slots (p_all st);
  s_panic : p_panic st = false }.

(* lookup primitives *)
Lemma all_has_In : forall t st, all_has t st = true <-> In t (p_all st).
Proof.
  intros. unfold all_has. rewrite existsb_exists. split.
  - intros [x [Hx E]]. apply tx_eqb_eq in E. subst. exact Hx.
  - intros H. exists t. split; [exact H | apply tx_eqb_refl].
Qed.

Lemma In_filter_ne : forall t l x, In x (filter (fun y => negb (tx_eqb t y)) l) <-> In x l /\ x <> t.
Proof.
  intros. rewrite filter_In. split; intros [H1 H2]; split; auto.
  - apply negb_true_iff, tx_eqb_neq in H2. congruence.
  - apply negb_true_iff, tx_eqb_neq. congruence.
Qed.

Lemma filter_ne_notin : forall t l, ~ In t l -> filter (fun y => negb (tx_eqb t y)) l = l.
Proof.
  induction l as [|y l IH]; intros H; [reflexivity|]. cbn [filter].
  destruct (tx_eqb t y) eqn:E; [apply tx_eqb_eq in E; subst; exfalso; apply H; left; reflexivity|].
  cbn [negb]. f_equal. apply IH. intros Hi. apply H. right. exact Hi.
Qed.

Lemma sum_slots_filter_ne : forall t l, NoDup l -> In t l ->
  sum_slots (filter (fun y => negb (tx_eqb t y)) l) = (sum_slots l - Z.of_N (t_slots t))%Z.
Proof.
  induction l as [|y l IH]; intros Hn Hi; [destruct Hi|]. inversion Hn as [|? ? Hy Hl]; subst. cbn [filter].
  destruct Hi as [->|Hi].
  - rewrite tx_eqb_refl. cbn [negb sum_slots]. rewrite filter_ne_notin by exact Hy. lia.
  - destruct (tx_eqb t y) eqn:E; [apply tx_eqb_eq in E; subst; contradiction|].
    cbn [negb sum_slots]. rewrite (IH Hl Hi). lia.
Qed.

(* the lookup part of the invariant *)
Definition AInv (st : pool) : Prop := NoDup (p_all st) /\ p_slots st = sum_slots (p_all st).

Lemma all_remove_spec : forall t st, AInv st ->
  AInv (all_remove t st) /\
  (forall x, In x (p_all (all_remove t st)) <-> In x (p_all st) /\ x <> t) /\
  p_cfg (all_remove t st) = p_cfg st /\ p_chain (all_remove t st) = p_chain st /\
  p_pending (all_remove t st) = p_pending st /\ p_queue (all_remove t st) = p_queue st /\
  p_panic (all_remove t st) = p_panic st /\ p_pn (all_remove t st) = p_pn st.
Proof.
  intros t st [Hn Hs]. unfold all_remove. destruct (all_has t st) eqn:E.
  - apply all_has_In in E. unfold AInv, set_all. cbn [p_all p_slots p_cfg p_chain p_pending p_queue p_panic p_pn]. repeat split; try reflexivity.
    + apply NoDup_filter, Hn.
    + rewrite sum_slots_filter_ne by assumption. lia.
    + apply In_filter_ne in H. tauto.
    + apply In_filter_ne in H. tauto.
    + intros [H1 H2]. apply In_filter_ne. tauto.
  - assert (Hni : ~ In t (p_all st)) by (intros Hi; apply all_has_In in Hi; congruence).
    repeat split; try reflexivity; try assumption; try tauto.
    intros ->. contradiction.
Qed.

Lemma all_add_spec : forall t st, AInv st -> ~ In t (p_all st) ->
  AInv (all_add t st) /\
  (forall x, In x (p_all (all_add t st)) <-> x = t \/ In x (p_all st)) /\
  p_cfg (all_add t st) = p_cfg st /\ p_chain (all_add t st) = p_chain st /\
  p_pending (all_add t st) = p_pending st /\ p_queue (all_add t st) = p_queue st /\
  p_panic (all_add t st) = p_panic st /\ p_pn (all_add t st) = p_pn st.
Proof.
  intros t st [Hn Hs] Hni. unfold all_add, AInv, set_all. cbn [p_all p_slots p_cfg p_chain p_pending p_queue p_panic p_pn]. rewrite filter_ne_notin by exact Hni.
  repeat split; try reflexivity.
  - constructor; assumption.
  - cbn [sum_slots]. lia.
  - intros [H|H]; [left; congruence | right; exact H].
  - intros [->|H]; [left; reflexivity | right; exact H].
Qed.

(* ---------- rebuilding the invariant after a change confined to one account ---------- *)
Lemma S_upd1 : forall st st' a po qo,
  SInv st -> p_cfg st' = p_cfg st ->
  (forall b, p_pending st' b = upd (p_pending st) a po b) -> (forall b, p_queue st' b = upd (p_queue st) a qo b) ->
  (forall l, po = Some l -> lok (p_cfg st) true a l /\ In a (c_accts (p_cfg st))) ->
  (forall l, qo = Some l -> lok (p_cfg st) false a l /\ In a (c_accts (p_cfg st))) ->
  (forall pl ql t, po = Some pl -> qo = Some ql -> In t (l_txs ql) -> sm_get (t_nonce t) (l_txs pl) = None) ->
  (forall t, In t (p_all st') <->
     (t_from t = a /\ (in_opt t po \/ in_opt t qo)) \/ (t_from t <> a /\ In t (p_all st))) ->
  AInv st' -> p_panic st' = false -> SInv st'.
Proof.
  intros st st' a po qo S Hc Hp Hq Hpo Hqo Hd Hu [Hn Hs] Hpa.
  split; try assumption; rewrite ?Hc.
  - intros a0 l H. rewrite Hp in H. unfold upd in H. destruct (a0 =? a) eqn:E.
    + apply N.eqb_eq in E. subst a0. apply Hpo, H.
    + apply (s_pw _ S), H.
  - intros a0 l H. rewrite Hq in H. unfold upd in H. destruct (a0 =? a) eqn:E.
    + apply N.eqb_eq in E. subst a0. apply Hqo, H.
    + apply (s_qw _ S), H.
  - intros a0 pl ql t H1 H2. rewrite Hp in H1. rewrite Hq in H2. unfold upd in H1, H2. destruct (a0 =? a) eqn:E.
    + apply Hd; assumption.
    + apply (s_disj _ S a0); assumption.
  - intros t. rewrite Hu. unfold inP, inQ. rewrite Hp, Hq. unfold upd.
    destruct (t_from t =? a) eqn:E.
    + apply N.eqb_eq in E. split; [intros [[_ H]|[H _]]; [exact H | contradiction] | intros H; left; tauto].
    + apply N.eqb_neq in E. rewrite (s_union _ S t). unfold inP, inQ. split; [intros [[H _]|[_ H]]; [contradiction | exact H] | intros H; right; tauto].
Qed.

Lemma SInv_AInv : forall st, SInv st -> AInv st.
Proof. intros st S. split; [apply (s_nodup _ S) | apply (s_slots _ S)]. Qed.

(* ---------- list.Remove, explicitly ---------- *)
Lemma list_remove_spec : forall c s a l t, lok c s a l -> In t (l_txs l) ->
  exists inv l', list_remove t l = (true, inv, l') /\ lok c s a l' /\
   (forall x, In x (l_txs l') <-> In x (l_txs l) /\ (if s then t_nonce x < t_nonce t else x <> t)) /\
   (forall x, In x inv <-> s = true /\ In x (l_txs l) /\ t_nonce t < t_nonce x) /\ sorted inv.
Proof.
  intros c s a l t L Hin. pose proof (lk_wf _ _ _ _ L) as W. pose proof (lw_sorted _ W) as Hso.
  destruct (list_remove t l) as [[b inv] l'] eqn:E.
  assert (Hb : b = true).
  { unfold list_remove, sm_remove in E. destruct (sm_get (t_nonce t) (l_txs l)) eqn:Eg; [|exfalso; eapply In_sm_get; eassumption].
    destruct (l_strict l); [unfold sm_filter in E|]; inversion E; reflexivity. }
  subst b. exists inv, l'. split; [reflexivity|].
  pose proof (list_remove_wf _ _ _ _ W Hin E) as W'.
  unfold list_remove, sm_remove in E. destruct (sm_get (t_nonce t) (l_txs l)) eqn:Eg; [|exfalso; eapply In_sm_get; eassumption].
  rewrite (lk_strict _ _ _ _ L) in E. destruct s.
  - unfold sm_filter in E. inversion E; subst inv l'; clear E. cbn [with_txs l_txs] in *.
    split; [|split; [|split]].
    + split; [exact W' | cbn; apply (lk_strict _ _ _ _ L) |]. cbn [l_txs with_txs].
      intros x Hx. apply filter_In in Hx. destruct Hx as [Hx _]. apply filter_In in Hx. apply (lk_mem _ _ _ _ L), Hx.
    + intros x. rewrite !filter_In. split.
      * intros [[H1 H2] H3]. apply negb_true_iff, N.eqb_neq in H2. apply negb_true_iff, N.ltb_ge in H3. split; [exact H1 | lia].
      * intros [H1 H2]. repeat split; [exact H1 | apply negb_true_iff, N.eqb_neq; lia | apply negb_true_iff, N.ltb_ge; lia].
    + intros x. rewrite !filter_In. split.
      * intros [[H1 H2] H3]. apply N.ltb_lt in H3. tauto.
      * intros [_ [H1 H2]]. repeat split; [exact H1 | apply negb_true_iff, N.eqb_neq; lia | apply N.ltb_lt; exact H2].
    + apply sorted_filter, sorted_filter, Hso.
  - inversion E; subst inv l'; clear E. cbn [with_txs l_txs] in *.
    split; [|split; [|split]].
    + split; [exact W' | cbn; apply (lk_strict _ _ _ _ L) |]. cbn [l_txs with_txs].
      intros x Hx. apply filter_In in Hx. apply (lk_mem _ _ _ _ L), Hx.
    + intros x. rewrite filter_In. split.
      * intros [H1 H2]. apply negb_true_iff, N.eqb_neq in H2. split; [exact H1 | congruence].
      * intros [H1 H2]. split; [exact H1|]. apply negb_true_iff, N.eqb_neq. intros En. apply H2. eapply sorted_nonce_inj; eassumption.
    + intros x. split; [intros [] | intros [H _]; discriminate].
    + constructor.
Qed.

(* ---------- queue.add / enqueueTx of a tx whose nonce is not queued ---------- *)
Lemma q_add_fresh : forall st t a,
  (forall ql, p_queue st a = Some ql -> lok (p_cfg st) false a ql) ->
  t_from t = a -> okt (p_cfg st) t ->
  (forall ql, p_queue st a = Some ql -> sm_get (t_nonce t) (l_txs ql) = None) ->
  exists l1 st', q_add t st = (QOk None, st') /\
    p_queue st' = upd (p_queue st) a (Some l1) /\ lok (p_cfg st) false a l1 /\
    (forall x, In x (l_txs l1) <-> x = t \/ in_opt x (p_queue st a)) /\
    p_cfg st' = p_cfg st /\ p_chain st' = p_chain st /\ p_pending st' = p_pending st /\
    p_all st' = p_all st /\ p_slots st' = p_slots st /\ p_panic st' = p_panic st /\ p_pn st' = p_pn st.
Proof.
  intros st t a HL Hf Hk Hn. unfold q_add. rewrite Hf.
  set (l0 := match p_queue st a with Some l => l | None => new_list false end).
  assert (L0 : lok (p_cfg st) false a l0) by (unfold l0; destruct (p_queue st a) eqn:E; [apply HL; reflexivity | apply lok_new]).
  assert (N0 : sm_get (t_nonce t) (l_txs l0) = None) by (unfold l0; destruct (p_queue st a) eqn:E; [apply Hn; reflexivity | reflexivity]).
  destruct (list_add_fresh _ _ _ _ t (c_bump (p_cfg st)) L0 Hf Hk N0) as [l1 [Ha [Ht L1]]].
  rewrite Ha. unfold put_queue. rewrite (chk_ok _ _ _ _ _ L1).
  exists l1. eexists. split; [reflexivity|].
  assert (Hmem : forall x, In x (l_txs l1) <-> x = t \/ in_opt x (p_queue st a)).
  { intros x. rewrite Ht, (sm_put_In_fresh _ _ N0). unfold l0, in_opt. destruct (p_queue st a); [reflexivity | cbn; tauto]. }
  destruct (p_beats (set_queue st (upd (p_queue st) a (Some l1))) a);
    (split; [reflexivity | split; [exact L1 | split; [exact Hmem | cbn; repeat split; reflexivity]]]).
Qed.

Lemma enqueue_fresh : forall k st t a,
  (forall ql, p_queue st a = Some ql -> lok (p_cfg st) false a ql) ->
  t_from t = a -> okt (p_cfg st) t ->
  (forall ql, p_queue st a = Some ql -> sm_get (t_nonce t) (l_txs ql) = None) ->
  exists l1 st', enqueue_tx (S k) t false st = (st', Some false) /\
    p_queue st' = upd (p_queue st) a (Some l1) /\ lok (p_cfg st) false a l1 /\
    (forall x, In x (l_txs l1) <-> x = t \/ in_opt x (p_queue st a)) /\
    p_cfg st' = p_cfg st /\ p_chain st' = p_chain st /\ p_pending st' = p_pending st /\
    p_all st' = p_all st /\ p_slots st' = p_slots st /\ p_panic st' = p_panic st /\ p_pn st' = p_pn st.
Proof.
  intros k st t a HL Hf Hk Hn. destruct (q_add_fresh st t a HL Hf Hk Hn) as [l1 [st' [E R]]].
  exists l1, st'. cbn [enqueue_tx]. rewrite E. split; [reflexivity | exact R].
Qed.

Lemma sm_get_none_intro : forall l n, (forall x, In x l -> t_nonce x <> n) -> sm_get n l = None.
Proof.
  unfold sm_get. induction l as [|y l IH]; intros n H; [reflexivity|]. cbn [find].
  destruct (t_nonce y =? n) eqn:E; [apply N.eqb_eq in E; exfalso; apply (H y (or_introl eq_refl) E)|].
  apply IH. intros x Hx. apply H. right. exact Hx.
Qed.

Definition frameQ (st st' : pool) : Prop :=
  p_cfg st' = p_cfg st /\ p_chain st' = p_chain st /\ p_pending st' = p_pending st /\
  p_all st' = p_all st /\ p_slots st' = p_slots st /\ p_panic st' = p_panic st /\ p_pn st' = p_pn st.

Lemma frameQ_refl : forall st, frameQ st st. Proof. intros; repeat split. Qed.
Lemma frameQ_trans : forall a b c, frameQ a b -> frameQ b c -> frameQ a c.
Proof. unfold frameQ. intros a b c H1 H2. decompose [and] H1. decompose [and] H2. repeat split; congruence. Qed.

(* re-queueing a batch of invalidated txs of one account (removeTx, demoteUnexecutables) *)
Lemma enqueue_many : forall k I st a,
  (forall ql, p_queue st a = Some ql -> lok (p_cfg st) false a ql) ->
  (forall x, In x I -> t_from x = a /\ okt (p_cfg st) x) -> sorted I ->
  (forall x ql, In x I -> p_queue st a = Some ql -> sm_get (t_nonce x) (l_txs ql) = None) ->
  let st' := fold_left (fun s x => fst (enqueue_tx (S k) x false s)) I st in
  (forall ql, p_queue st' a = Some ql -> lok (p_cfg st) false a ql) /\
  (forall x, in_opt x (p_queue st' a) <-> In x I \/ in_opt x (p_queue st a)) /\
  (forall b, b <> a -> p_queue st' b = p_queue st b) /\ frameQ st st'.
Proof.
  intros k I. induction I as [|y I IH]; intros st a HL HI Hs Hn; cbn [fold_left].
  - split; [exact HL|]. split; [intros x; cbn; tauto|]. split; [reflexivity | apply frameQ_refl].
  - destruct (enqueue_fresh k st y a HL (proj1 (HI y (or_introl eq_refl))) (proj2 (HI y (or_introl eq_refl)))
                (fun ql Hq => Hn y ql (or_introl eq_refl) Hq)) as [l1 [st1 [E [Hq1 [L1 [M1 F1]]]]]].
    rewrite E. cbn [fst].
    assert (F1' : frameQ st st1) by (unfold frameQ; tauto).
    destruct F1 as [Fc _]. apply StronglySorted_inv in Hs. destruct Hs as [Hs Hf]. rewrite Forall_forall in Hf.
    assert (Qa : p_queue st1 a = Some l1) by (rewrite Hq1; unfold upd; rewrite N.eqb_refl; reflexivity).
    destruct (IH st1 a) as [H1 [H2 [H3 H4]]].
    + intros ql Hq. rewrite Qa in Hq. inversion Hq; subst. rewrite Fc. exact L1.
    + intros x Hx. rewrite Fc. apply HI. right. exact Hx.
    + exact Hs.
    + intros x ql Hx Hq. rewrite Qa in Hq. inversion Hq; subst ql. apply sm_get_none_intro.
      intros z Hz En. apply M1 in Hz. destruct Hz as [->|Hz].
      * pose proof (Hf x Hx) as Hlt. unfold nlt in Hlt. lia.
      * unfold in_opt in Hz. destruct (p_queue st a) as [ql0|] eqn:Eq0; [|destruct Hz].
        eapply sm_get_none_notin; [apply (Hn x ql0 (or_intror Hx) eq_refl) | exact Hz | exact En].
    + split; [intros ql Hq; rewrite <- Fc; apply H1, Hq|].
      split; [|split].
      * intros x. rewrite H2. rewrite Qa. cbn [in_opt]. rewrite M1. cbn [In]. intuition congruence.
      * intros b Hb. rewrite (H3 b Hb), Hq1. unfold upd. destruct (b =? a) eqn:Eb; [apply N.eqb_eq in Eb; contradiction | reflexivity].
      * eapply frameQ_trans; eassumption.
Qed.

Lemma l_empty_false_In : forall l x, In x (l_txs l) -> l_empty l = false.
Proof. intros l x H. unfold l_empty. destruct (l_txs l); [destruct H | reflexivity]. Qed.
Lemma l_empty_true_nil : forall l, l_empty l = true -> l_txs l = [].
Proof. intros l H. unfold l_empty in H. destruct (l_txs l); [reflexivity | discriminate]. Qed.

(* the option stored for an account after its list shrank *)
Definition stored (l : tlist) : option tlist := if l_empty l then None else Some l.

Lemma in_opt_stored : forall x l, in_opt x (stored l) <-> In x (l_txs l).
Proof.
  intros x l. unfold stored. destruct (l_empty l) eqn:E; cbn [in_opt]; [|reflexivity].
  rewrite (l_empty_true_nil _ E). cbn. tauto.
Qed.

(* removeTx *)
Lemma remove_tx_SInv : forall k t oob st, SInv st ->
  SInv (fst (remove_tx (S (S k)) t oob st)) /\
  (forall x, In x (p_all (fst (remove_tx (S (S k)) t oob st))) <-> In x (p_all st) /\ x <> t) /\
  p_cfg (fst (remove_tx (S (S k)) t oob st)) = p_cfg st /\
  p_chain (fst (remove_tx (S (S k)) t oob st)) = p_chain st.
Proof.
  intros k t oob st HS. cbn [remove_tx]. destruct (all_has t st) eqn:Eh; cbn [negb].
  2:{ cbn [fst]. split; [exact HS|]. split; [|split; reflexivity].
      intros x. split; [intros H; split; [exact H|]; intros ->; apply all_has_In in H; congruence | tauto]. }
  apply all_has_In in Eh.
  set (a := t_from t).
  set (st2 := if oob then priced_removed 1 (all_remove t st) else all_remove t st).
  destruct (all_remove_spec t st (SInv_AInv _ HS)) as [A1 [M1 [C1 [Ch1 [P1 [Q1 [Pa1 Pn1]]]]]]].
  assert (F2 : AInv st2 /\ (forall x, In x (p_all st2) <-> In x (p_all st) /\ x <> t) /\
               p_cfg st2 = p_cfg st /\ p_chain st2 = p_chain st /\ p_pending st2 = p_pending st /\
               p_queue st2 = p_queue st /\ p_panic st2 = p_panic st).
  { unfold st2. destruct oob; [|tauto].
    pose proof (core_priced_removed 1 (all_remove t st)) as Hc. core_inv Hc. unfold AInv in *.
    rewrite Eall, Eslots, Ecfg, Echain, Epend, Equeue, Epanic. tauto. }
  destruct F2 as [A2 [M2 [C2 [Ch2 [P2 [Q2 Pa2]]]]]].
  assert (Hloc : inP st t \/ inQ st t) by (apply (s_union _ HS), Eh).
  (* is t in the pending list of its sender? *)
  assert (Hdec : (exists pl, p_pending st a = Some pl /\ In t (l_txs pl)) \/
                 ((forall pl, p_pending st a = Some pl -> sm_get (t_nonce t) (l_txs pl) = None) /\ inQ st t)).
  { destruct (p_pending st a) as [pl|] eqn:Ep.
    - destruct Hloc as [Hp|Hq].
      + left. exists pl. split; [reflexivity|]. unfold inP in Hp. fold a in Hp. rewrite Ep in Hp. exact Hp.
      + right. split; [|exact Hq]. intros pl0 E0. inversion E0; subst pl0.
        unfold inQ in Hq. fold a in Hq. destruct (p_queue st a) as [ql|] eqn:Eq; [|destruct Hq].
        eapply (s_disj _ HS a); eassumption.
    - right. split; [intros pl0 E0; discriminate|]. destruct Hloc as [Hp|Hq]; [|exact Hq].
      unfold inP in Hp. fold a in Hp. rewrite Ep in Hp. destruct Hp. }
  destruct Hdec as [[pl [Ep Hin]]|[Hnp Hq]].
  - (* t is pending: strict removal, the txs above it go back to the queue *)
    rewrite P2, Ep.
    destruct (s_pw _ HS a pl Ep) as [Lp Ha].
    destruct (list_remove_spec _ _ _ _ t Lp Hin) as [inv [pl' [Er [Lp' [Mp' [Minv Sinv]]]]]].
    rewrite Er.
    set (st3 := if l_empty pl' then chk pl' (del_pending a st2) else put_pending a pl' st2).
    assert (F3 : (forall b, p_pending st3 b = upd (p_pending st) a (stored pl') b) /\ p_queue st3 = p_queue st /\
                 p_all st3 = p_all st2 /\ p_slots st3 = p_slots st2 /\ p_cfg st3 = p_cfg st /\
                 p_chain st3 = p_chain st /\ p_panic st3 = p_panic st).
    { unfold st3, stored, put_pending. rewrite !(chk_ok _ _ _ _ _ Lp'). destruct (l_empty pl'); cbn; rewrite ?P2; repeat split; auto. }
    destruct F3 as [P3 [Q3 [Al3 [Sl3 [C3 [Ch3 Pa3]]]]]].
    assert (Hinv : forall x, In x inv -> In x (l_txs pl) /\ t_nonce t < t_nonce x) by (intros x Hx; apply Minv in Hx; tauto).
    destruct (enqueue_many k inv st3 a) as [HL4 [M4 [O4 F4]]].
    + intros ql Hq0. rewrite C3. rewrite Q3 in Hq0. apply (s_qw _ HS a ql Hq0).
    + intros x Hx. rewrite C3. apply (lk_mem _ _ _ _ Lp), Hinv, Hx.
    + exact Sinv.
    + intros x ql Hx Hq0. rewrite Q3 in Hq0. destruct (sm_get (t_nonce x) (l_txs ql)) as [o|] eqn:Eo; [|reflexivity].
      apply sm_get_In in Eo. destruct Eo as [Ho1 Ho2].
      pose proof (s_disj _ HS a pl ql o Ep Hq0 Ho1) as Hd. rewrite Ho2 in Hd.
      exfalso. eapply In_sm_get; [apply (Hinv x Hx) | exact Hd].
    + set (st4 := fold_left (fun s x => fst (enqueue_tx (S k) x false s)) inv st3) in *.
      cbn [fst]. destruct F4 as [C4 [Ch4 [P4 [Al4 [Sl4 [Pa4 _]]]]]].
      pose proof (core_pn_set_if_lower a (t_nonce t) st4) as Hc. core_inv Hc.
      split; [|split; [|split]].
      * apply (S_upd1 st _ a (stored pl') (p_queue st4 a) HS).
        -- congruence.
        -- intros b. rewrite Epend, P4. apply P3.
        -- intros b. rewrite Equeue. unfold upd. destruct (b =? a) eqn:Eb; [apply N.eqb_eq in Eb; subst; reflexivity|].
           apply N.eqb_neq in Eb. rewrite (O4 b Eb), Q3. reflexivity.
        -- intros l Hl. unfold stored in Hl. destruct (l_empty pl'); inversion Hl; subst. split; assumption.
        -- intros l Hl. split; [rewrite <- C3; apply HL4, Hl | exact Ha].
        -- intros pl0 ql0 x Hp0 Hq0 Hx. unfold stored in Hp0. destruct (l_empty pl'); inversion Hp0; subst pl0.
           apply sm_get_none_intro. intros z Hz En.
           apply Mp' in Hz. destruct Hz as [Hz1 Hz2].
           assert (Hx' : in_opt x (p_queue st4 a)) by (rewrite Hq0; exact Hx).
           apply M4 in Hx'. destruct Hx' as [Hx'|Hx'].
           ++ pose proof (Hinv x Hx'). lia.
           ++ rewrite Q3 in Hx'. unfold in_opt in Hx'. destruct (p_queue st a) as [ql|] eqn:Eq; [|destruct Hx'].
              eapply sm_get_none_notin; [apply (s_disj _ HS a pl ql x Ep Eq Hx') | exact Hz1 | exact En].
        -- intros x. rewrite Eall, Al4, Al3, M2, (s_union _ HS x). rewrite in_opt_stored, M4, Mp', Q3.
           unfold inP, inQ. destruct (N.eq_dec (t_from x) a) as [Ea|Ea].
           ++ rewrite Ea, Ep. cbn [in_opt]. split.
              ** intros [[Hp|Hq0] Hne]; left; split; auto.
                 --- destruct (N.lt_trichotomy (t_nonce x) (t_nonce t)) as [Hl|[He|Hg]].
                     +++ left. tauto.
                     +++ exfalso. apply Hne. eapply sorted_nonce_inj; [apply (lw_sorted _ (lk_wf _ _ _ _ Lp)) | | | ]; eassumption.
                     +++ right. left. apply Minv. tauto.
              ** intros [[_ [[Hp Hlt]|[Hi|Hq0]]]|[Hne _]]; [| | |contradiction].
                 --- split; [left; exact Hp | intros ->; lia].
                 --- destruct (Hinv x Hi). split; [left; assumption | intros ->; lia].
                 --- split; [right; exact Hq0|]. intros ->.
                     destruct (p_queue st a) as [ql|] eqn:Eq; [|destruct Hq0].
                     eapply In_sm_get; [exact Hin | apply (s_disj _ HS a pl ql t Ep Eq Hq0)].
           ++ split.
              ** intros [H Hne]. right. split; [exact Ea | exact H].
              ** intros [[He _]|[_ H]]; [contradiction|]. split; [exact H|]. intros ->. apply Ea. reflexivity.
        -- unfold AInv. rewrite Eall, Eslots, Al4, Sl4, Al3, Sl3. exact A2.
        -- rewrite Epanic, Pa4, Pa3. apply (s_panic _ HS).
      * intros x. rewrite Eall, Al4, Al3. apply M2.
      * congruence.
      * congruence.
  - (* t is queued *)
    assert (Hfq : (match p_pending st2 a with
                   | Some pl => match list_remove t pl with
                                | (true, invalids, pl') =>
                                    (pn_set_if_lower a (t_nonce t)
                                       (fold_left (fun s x => fst (enqueue_tx (S k) x false s)) invalids
                                          (if l_empty pl' then chk pl' (del_pending a st2) else put_pending a pl' st2)),
                                     S (length invalids))
                                | (false, _, _) => (q_remove a t st2, O)
                                end
                   | None => (q_remove a t st2, O)
                   end) = (q_remove a t st2, O)).
    { rewrite P2. destruct (p_pending st a) as [pl|] eqn:Ep; [|reflexivity].
      unfold list_remove, sm_remove. rewrite (Hnp pl eq_refl). reflexivity. }
    rewrite Hfq. cbn [fst]. clear Hfq.
    unfold inQ in Hq. fold a in Hq. destruct (p_queue st a) as [fl|] eqn:Eq; [|destruct Hq].
    destruct (s_qw _ HS a fl Eq) as [Lq Ha].
    destruct (list_remove_spec _ _ _ _ t Lq Hq) as [inv [fl' [Er [Lq' [Mq' _]]]]].
    unfold q_remove. rewrite Q2, Eq.
    destruct (sm_get (t_nonce t) (l_txs fl)) as [o|] eqn:Eg; [|exfalso; eapply In_sm_get; eassumption].
    apply sm_get_In in Eg. destruct Eg as [Ho1 Ho2].
    assert (o = t) by (eapply sorted_nonce_inj; [apply (lw_sorted _ (lk_wf _ _ _ _ Lq)) | | | ]; eassumption). subst o.
    rewrite tx_eqb_refl. cbn [negb]. rewrite Er.
    set (st3 := if l_empty fl' then chk fl' (del_queue a st2) else put_queue a fl' st2).
    assert (F3 : (forall b, p_queue st3 b = upd (p_queue st) a (stored fl') b) /\ p_pending st3 = p_pending st /\
                 p_all st3 = p_all st2 /\ p_slots st3 = p_slots st2 /\ p_cfg st3 = p_cfg st /\
                 p_chain st3 = p_chain st /\ p_panic st3 = p_panic st).
    { unfold st3, stored, put_queue. rewrite !(chk_ok _ _ _ _ _ Lq'). destruct (l_empty fl'); cbn; rewrite ?Q2; repeat split; auto. }
    destruct F3 as [Q3 [P3 [Al3 [Sl3 [C3 [Ch3 Pa3]]]]]].
    split; [|split; [|split]].
    + apply (S_upd1 st _ a (p_pending st a) (stored fl') HS).
      * exact C3.
      * intros b. rewrite P3. unfold upd. destruct (b =? a) eqn:Eb; [apply N.eqb_eq in Eb; subst; reflexivity | reflexivity].
      * exact Q3.
      * intros l Hl. apply (s_pw _ HS a l Hl).
      * intros l Hl. unfold stored in Hl. destruct (l_empty fl'); inversion Hl; subst. split; assumption.
      * intros pl0 ql0 x Hp0 Hq0 Hx. unfold stored in Hq0. destruct (l_empty fl'); inversion Hq0; subst ql0.
        apply Mq' in Hx. eapply (s_disj _ HS a); [exact Hp0 | exact Eq | tauto].
      * intros x. rewrite Al3, M2, (s_union _ HS x), in_opt_stored, Mq'. unfold inP, inQ.
        destruct (N.eq_dec (t_from x) a) as [Ea|Ea].
        -- rewrite Ea, Eq. cbn [in_opt]. split.
           ++ intros [[Hp|Hq0] Hne]; left; split; auto.
           ++ intros [[_ [Hp|[Hq0 Hne]]]|[Hne _]]; [| |contradiction].
              ** split; [left; exact Hp|]. intros ->.
                 destruct (p_pending st a) as [pl|] eqn:Ep; [|destruct Hp].
                 eapply In_sm_get; [exact Hp | apply (Hnp pl eq_refl)].
              ** tauto.
        -- split.
           ++ intros [H Hne]. right. split; [exact Ea | exact H].
           ++ intros [[He _]|[_ H]]; [contradiction|]. split; [exact H|]. intros ->. apply Ea. reflexivity.
      * unfold AInv. rewrite Al3, Sl3. exact A2.
      * rewrite Pa3. apply (s_panic _ HS).
    + intros x. rewrite Al3. apply M2.
    + exact C3.
    + exact Ch3.
Qed.
