(* Pool/BlobLimboResetSound.v — what a Reset leaves in the limbo: every group entry is above the
   finalised block and is either an entry that was there before the Reset (same block number,
   same store id, same hash) or an inclusion in a block of the NEW chain.
   Guard: none of the transactions included on the new branch currently sits in the limbo
   (then limbo.update finds nothing to move; with such a transaction the new entry carries the
   hash of the stored item, which needs the index/store consistency invariant). *)
From Coq Require Import List NArith ZArith Bool Lia.
From GV Require Import Lib.Tactics Pool.Blob Pool.BlobProofs Pool.BlobAddProofs Pool.BlobRollingProofs Pool.BlobResetProofs Pool.BlobLimboProofs Pool.BlobLimboReset Pool.BlobLimboFrame Pool.BlobLimboEntry Pool.BlobLimboRecheck Pool.BlobLimboSound Pool.BlobReorgProofs.
Import ListNotations.
Local Open Scope N_scope.

Lemma pushed_entries inc l l' b i h :
  pushed inc l l' -> gentry l' b i h -> gentry l b i h \/ aget inc h = Some b.
Proof.
  induction 1 as [|l l1 it blk Hp IH Hi]; [left; assumption|]. intro He.
  apply limbo_push_entries in He. destruct He as [He|[-> ->]]; [apply IH; exact He | right; exact Hi].
Qed.

Lemma evict_gapped_limbo p : p_limbo (evict_gapped p) = p_limbo p.
Proof.
  unfold evict_gapped. generalize (p_gapped p) at 1. intro l. revert p.
  induction l as [|[from txs] r IH]; intro p; cbn [fold_left]; [reflexivity|]. rewrite IH. reflexivity.
Qed.

(* limbo.update for hashes the limbo does not index: nothing happens *)
Lemma update_inner_noop (f : btx -> bool) (n : btx -> N) l0 : forall (incl : list (btx * N)),
  (forall x, In x incl -> aget (l_index l0) (bt_id (fst x)) = None) ->
  fold_left (fun r2 '(t, _) => do l' <- r2 ; if f t then limbo_update l' (bt_id t) (n t) else Ok l') incl (Ok l0) = Ok l0.
Proof.
  induction incl as [|[t k] r IH]; intro H; cbn [fold_left]; [reflexivity|]. cbn [bind].
  assert (E : (if f t then limbo_update l0 (bt_id t) (n t) else Ok l0) = Ok l0).
  { destruct (f t); [|reflexivity]. pose proof (H (t, k) (or_introl eq_refl)) as Hn. cbn [fst] in Hn. unfold limbo_update. rewrite Hn. reflexivity. }
  rewrite E. apply IH. intros x Hx. apply H. right. exact Hx.
Qed.

Lemma update_fold_noop (f : N -> btx -> bool) (n : btx -> N) l0 (incl : list (btx * N)) :
  (forall x, In x incl -> aget (l_index l0) (bt_id (fst x)) = None) ->
  forall (accts : list N) l,
  fold_left (fun r a => fold_left (fun r2 '(t, _) => do l' <- r2 ; if f a t then limbo_update l' (bt_id t) (n t) else Ok l') incl r)
            accts (Ok l0) = Ok l -> l = l0.
Proof.
  intros H. induction accts as [|a r IH]; intros l E; cbn [fold_left] in E; [inversion E; reflexivity|].
  rewrite (update_inner_noop (f a) n l0 incl H) in E. apply IH. exact E.
Qed.

Section ResetSound.
Variable prioE prioB : N -> N -> Z.
Variable nearE nearB : N -> N -> bool.

Lemma reinject_fold_entries (f : btx -> bool) a : forall (disc : list btx) p q,
  fold_left (fun r2 t => do x <- r2 ; if f t then reinject a (bt_id t) x else Ok x) disc (Ok p) = Ok q ->
  forall b i h, gentry (p_limbo q) b i h -> gentry (p_limbo p) b i h.
Proof.
  induction disc as [|t r IH]; intros p q H b i h He; cbn [fold_left] in H; [inversion H; subst; exact He|].
  cbn [bind] in H. destruct (f t).
  - destruct (reinject a (bt_id t) p) as [p1|e] eqn:Er.
    2:{ rewrite fold_err in H; [discriminate | intros; reflexivity]. }
    eapply reinject_entries; [exact Er|]. eapply IH; eauto.
  - eapply IH; eauto.
Qed.

Lemma trans_fold_entries lg bs oldh newh ro (f : N -> btx -> bool) (disc : list btx) :
  reorg bs oldh newh = Some ro ->
  forall (accts : list N) x p1,
  fold_left (fun r a =>
               do q <- r ;
               do q1 <- fold_left (fun r2 t => do y <- r2 ; if f a t then reinject a (bt_id t) y else Ok y) disc (Ok q) ;
               recheck prioE prioB lg a (Some (inclusions_of (ro_incl ro))) q1)
            accts (Ok x) = Ok p1 ->
  forall b i h, gentry (p_limbo p1) b i h -> gentry (p_limbo x) b i h \/ incl_ok bs newh b h.
Proof.
  intro Hr. induction accts as [|a0 rem IH]; intros x p1 H b i h He; cbn [fold_left] in H.
  - inversion H; subst. left. exact He.
  - cbn [bind] in H.
    match type of H with fold_left ?F rem ?X = _ => destruct X as [x2|e] eqn:Ex end.
    2:{ rewrite fold_err in H; [discriminate | intros; reflexivity]. }
    inv_bind_as Ex x1.
    destruct (IH _ _ H _ _ _ He) as [K|K]; [|right; exact K].
    apply recheck_limbo in Ex. destruct (pushed_entries _ _ _ _ _ _ Ex K) as [L|L].
    + left. eapply reinject_fold_entries; eauto.
    + right. eapply inclusions_ok; eauto.
Qed.

Theorem reset_limbo_entries lg ll bs newh final p q oldh :
  get_block bs (p_head p) = Some oldh ->
  (forall ro, reorg bs oldh newh = Some ro ->
              forall x, In x (ro_incl ro) -> aget (l_index (p_limbo p)) (bt_id (fst x)) = None) ->
  pool_reset prioE prioB nearE nearB lg ll bs newh final p = Ok q ->
  forall b i h, gentry (p_limbo q) b i h ->
    final < b /\ (gentry (p_limbo p) b i h \/ incl_ok bs newh b h).
Proof.
  intros Hg Hguard H. unfold pool_reset in H. destruct (evict_gapped_core p) as [_ Hh]. rewrite Hh, Hg in H. cbv zeta in H.
  inv_bind_as H p1. inv_bind_as H l. apply heap_reinit_limbo in H. rewrite H. cbn [p_limbo set_limbo].
  intros b i h He. destruct (limbo_finalize_entries _ _ _ _ _ _ E0 He) as [Hb He1]. split; [exact Hb|].
  clear He E0 H l q.
  destruct (reorg bs oldh newh) as [ro|] eqn:Er.
  - inv_bind_as E lu. apply update_fold_noop in E0.
    2:{ cbn [p_limbo set_state]. rewrite evict_gapped_limbo. apply (Hguard ro eq_refl). }
    subst lu. destruct (trans_fold_entries _ _ _ _ _ _ _ Er _ _ _ E _ _ _ He1) as [K|K]; [|right; exact K].
    left. cbn [p_limbo set_limbo set_state] in K. rewrite evict_gapped_limbo in K. exact K.
  - inversion E; subst. left. cbn [p_limbo set_state] in He1. rewrite evict_gapped_limbo in He1. exact He1.
Qed.

(* with the completeness of reorg()'s walk: a limbo that was sound for the old chain is, after the
   Reset, sound for the new chain and above the finalised block — except possibly for survivors
   whose transaction is in the discarded set of the reorg (these are the entries reinject must
   have pulled; closing this case needs the index/groups/store consistency of the limbo) *)
Theorem reset_limbo_sound lg ll bs newh final p q oldh ro :
  ids_unique bs -> In newh bs ->
  get_block bs (p_head p) = Some oldh -> reorg bs oldh newh = Some ro ->
  (forall x, In x (ro_incl ro) -> aget (l_index (p_limbo p)) (bt_id (fst x)) = None) ->
  csound bs oldh (p_limbo p) ->
  pool_reset prioE prioB nearE nearB lg ll bs newh final p = Ok q ->
  forall b i h, gentry (p_limbo q) b i h ->
    final < b /\ (incl_ok bs newh b h \/ (gentry (p_limbo p) b i h /\ exists t, In t (ro_disc ro) /\ bt_id t = h)).
Proof.
  intros Hu Hn Hg Hr Hguard Hs H b i h He.
  destruct (reset_limbo_entries lg ll bs newh final p q oldh Hg) with (b := b) (i := i) (h := h) as [Hb [K|K]]; try assumption.
  { intros ro' Hr'. rewrite Hr in Hr'. inversion Hr'; subst ro'. exact Hguard. }
  - split; [exact Hb|]. destruct (Hs _ _ _ K) as [blk [t [Hreach [Hnum [Hin Hid]]]]].
    destruct (reorg_walk_complete bs oldh newh ro Hu (get_block_in _ _ _ Hg) Hn Hr blk Hreach) as [R|R].
    + left. exists blk, t. repeat split; assumption.
    + right. split; [exact K|]. exists t. split; [apply R; exact Hin | exact Hid].
  - split; [exact Hb | left; exact K].
Qed.
End ResetSound.
