(* Pool/LegacyProofs.v — lemmas about the per-account lists of Pool/Legacy.v
   (list.go): exact cost tracking, nonce order, the price-bump replacement rule and
   strict-mode gap invalidation; and the executable pool invariant [pool_inv_b]. *)
From GV Require Import Lib.Tactics Pool.Legacy.
From Coq Require Import Sorting.Sorted.
Local Open Scope N_scope.

(* ---------- sums and order ---------- *)
Fixpoint sum_cost (l : list tx) : Z := match l with [] => 0%Z | t :: r => (sum_cost r + Z.of_N (cost t))%Z end.
Definition nlt (a b : tx) : Prop := t_nonce a < t_nonce b.
Definition sorted (l : list tx) : Prop := StronglySorted nlt l.

Lemma sub_total_eq : forall txs z, sub_total txs z = (z - sum_cost txs)%Z.
Proof.
  unfold sub_total. induction txs as [|t r IH]; intros z; cbn [fold_left sum_cost].
  - lia.
  - rewrite IH. lia.
Qed.

Lemma sum_cost_app : forall a b, sum_cost (a ++ b) = (sum_cost a + sum_cost b)%Z.
Proof. induction a as [|x a IH]; intros b; cbn [app sum_cost]; [lia|]. rewrite IH. lia. Qed.

Lemma sum_cost_nonneg : forall l, (0 <= sum_cost l)%Z.
Proof. induction l as [|x l IH]; cbn [sum_cost]; [lia|]. lia. Qed.

Lemma sum_cost_filter : forall f l,
  (sum_cost (filter f l) + sum_cost (filter (fun t => negb (f t)) l) = sum_cost l)%Z.
Proof.
  induction l as [|x l IH]; cbn [filter sum_cost]; [lia|]. destruct (f x); cbn [negb sum_cost]; lia.
Qed.

Lemma sum_cost_rev : forall l, sum_cost (rev l) = sum_cost l.
Proof. induction l as [|x l IH]; cbn [rev]; [reflexivity|]. rewrite sum_cost_app, IH. cbn [sum_cost]. lia. Qed.

Lemma sum_cost_firstn_skipn : forall n l, (sum_cost (firstn n l) + sum_cost (skipn n l) = sum_cost l)%Z.
Proof. intros n l. rewrite <- sum_cost_app, firstn_skipn. reflexivity. Qed.

Lemma Forall_filter' {A} (P : A -> Prop) f (l : list A) : Forall P l -> Forall P (filter f l).
Proof. intros H. apply Forall_forall. intros x Hx. apply filter_In in Hx. rewrite Forall_forall in H. apply H, Hx. Qed.

Lemma sorted_filter : forall f l, sorted l -> sorted (filter f l).
Proof.
  unfold sorted. induction l as [|x l IH]; intros H; cbn [filter]; [constructor|].
  apply StronglySorted_inv in H. destruct H as [Hs Hf].
  destruct (f x); [constructor; [apply IH, Hs | apply Forall_filter', Hf] | apply IH, Hs].
Qed.

Lemma sorted_app : forall a b, sorted (a ++ b) -> sorted a /\ sorted b.
Proof.
  unfold sorted. induction a as [|x a IH]; intros b H; cbn [app] in *.
  - split; [constructor | exact H].
  - apply StronglySorted_inv in H. destruct H as [Hs Hf]. destruct (IH _ Hs) as [Ha Hb].
    split; [constructor; [exact Ha|] | exact Hb].
    apply Forall_app in Hf. tauto.
Qed.

Lemma sorted_firstn : forall n l, sorted l -> sorted (firstn n l).
Proof. intros n l H. rewrite <- (firstn_skipn n l) in H. apply sorted_app in H. tauto. Qed.
Lemma sorted_skipn : forall n l, sorted l -> sorted (skipn n l).
Proof. intros n l H. rewrite <- (firstn_skipn n l) in H. apply sorted_app in H. tauto. Qed.

Lemma sm_put_In : forall t l x, In x (sm_put t l) -> x = t \/ In x l.
Proof.
  induction l as [|y l IH]; intros x H; cbn [sm_put] in H.
  - destruct H as [H|[]]; auto.
  - destruct (t_nonce t <? t_nonce y) eqn:E1.
    + destruct H as [H|H]; auto.
    + destruct (t_nonce t =? t_nonce y) eqn:E2.
      * destruct H as [H|H]; [auto | right; right; exact H].
      * destruct H as [H|H]; [right; left; exact H|]. apply IH in H. destruct H; [auto | right; right; assumption].
Qed.

Lemma sorted_put : forall t l, sorted l -> sorted (sm_put t l).
Proof.
  unfold sorted. induction l as [|y l IH]; intros H; cbn [sm_put].
  - repeat constructor.
  - pose proof (StronglySorted_inv H) as [Hs Hf].
    destruct (t_nonce t <? t_nonce y) eqn:E1.
    + constructor; [exact H|]. constructor; [unfold nlt; lia|].
      eapply Forall_impl; [|exact Hf]. unfold nlt. intros a Ha. lia.
    + destruct (t_nonce t =? t_nonce y) eqn:E2.
      * constructor; [exact Hs|]. eapply Forall_impl; [|exact Hf]. unfold nlt. intros a Ha. lia.
      * constructor; [apply IH, Hs|]. apply Forall_forall. intros x Hx.
        apply sm_put_In in Hx. destruct Hx as [->|Hx]; [unfold nlt; lia|].
        rewrite Forall_forall in Hf. apply Hf, Hx.
Qed.

Lemma sm_get_none_above : forall n l, Forall (fun x => n < t_nonce x) l -> sm_get n l = None.
Proof.
  unfold sm_get. induction l as [|y l IH]; intros H; cbn [find]; [reflexivity|].
  inversion H as [|? ? Hy Hl]; subst. destruct (t_nonce y =? n) eqn:E; [lia|]. apply IH, Hl.
Qed.

Lemma sum_put : forall t l, sorted l ->
  sum_cost (sm_put t l) =
  (sum_cost l + Z.of_N (cost t) -
   match sm_get (t_nonce t) l with Some o => Z.of_N (cost o) | None => 0 end)%Z.
Proof.
  unfold sorted. induction l as [|y l IH]; intros H; cbn [sm_put].
  - cbn. lia.
  - pose proof (StronglySorted_inv H) as [Hs Hf].
    unfold sm_get. cbn [find]. fold (sm_get (t_nonce t) l).
    destruct (t_nonce t <? t_nonce y) eqn:E1.
    + destruct (t_nonce y =? t_nonce t) eqn:E3; [lia|].
      rewrite sm_get_none_above.
      * cbn [sum_cost]. lia.
      * eapply Forall_impl; [|exact Hf]. unfold nlt. intros a Ha. lia.
    + destruct (t_nonce t =? t_nonce y) eqn:E2.
      * destruct (t_nonce y =? t_nonce t) eqn:E3; [|lia]. cbn [sum_cost]. lia.
      * destruct (t_nonce y =? t_nonce t) eqn:E3; [lia|].
        cbn [sum_cost].
        rewrite (IH Hs). lia.
Qed.

(* ---------- well-formed lists: nonce order, exact total, cap bounds ---------- *)
Record lwf0 (l : tlist) : Prop := {
  lw0_sorted : sorted (l_txs l);
  lw0_total : l_total l = sum_cost (l_txs l);
  lw0_cc : Forall (fun t => cost t <= l_costcap l) (l_txs l);
  lw0_gc : Forall (fun t => t_gas t <= l_gascap l) (l_txs l) }.

Lemma lwf0_new : forall s, lwf0 (new_list s).
Proof. intros s. split; cbn; try constructor. Qed.

Lemma lwf0_total_nonneg : forall l, lwf0 l -> (0 <= l_total l)%Z.
Proof. intros l H. rewrite (lw0_total _ H). apply sum_cost_nonneg. Qed.

(* the price-bump replacement rule of list.Add *)
Lemma list_add_bump : forall t bump l o l',
  list_add t bump l = (AddOk (Some o), l') ->
  t_nonce o = t_nonce t /\
  t_feecap o < t_feecap t /\ t_tip o < t_tip t /\
  (100 + bump) * t_feecap o / 100 <= t_feecap t /\
  (100 + bump) * t_tip o / 100 <= t_tip t.
Proof.
  intros t bump l o l' H. unfold list_add in H.
  destruct (sm_get (t_nonce t) (l_txs l)) as [o'|] eqn:Eg.
  - destruct ((t_feecap t <=? t_feecap o') || (t_tip t <=? t_tip o')) eqn:E1; [discriminate|].
    destruct ((t_feecap t <? (100 + bump) * t_feecap o' / 100) || (t_tip t <? (100 + bump) * t_tip o' / 100)) eqn:E2; [discriminate|].
    destruct (U256 <=? cost t); [discriminate|].
    destruct (Z.of_N U256 <=? l_total l + Z.of_N (cost t))%Z; [discriminate|].
    inversion H; subst o'. clear H.
    apply orb_false_iff in E1. destruct E1 as [E1a E1b].
    apply orb_false_iff in E2. destruct E2 as [E2a E2b].
    unfold sm_get in Eg. apply find_some in Eg. destruct Eg as [_ En].
    apply N.eqb_eq in En. apply N.leb_gt in E1a, E1b. apply N.ltb_ge in E2a, E2b.
    repeat split; assumption.
  - destruct (U256 <=? cost t); [discriminate|].
    destruct (Z.of_N U256 <=? l_total l + Z.of_N (cost t))%Z; discriminate.
Qed.

Lemma list_add_wf0 : forall t bump l r l', lwf0 l -> list_add t bump l = (r, l') -> lwf0 l'.
Proof.
  intros t bump l r l' W H. unfold list_add in H.
  destruct (match sm_get (t_nonce t) (l_txs l) with
            | Some o => if (t_feecap t <=? t_feecap o) || (t_tip t <=? t_tip o) then true
                        else (t_feecap t <? (100 + bump) * t_feecap o / 100) || (t_tip t <? (100 + bump) * t_tip o / 100)
            | None => false end); [inversion H; subst; exact W|].
  destruct (U256 <=? cost t); [inversion H; subst; exact W|].
  destruct (Z.of_N U256 <=? l_total l + Z.of_N (cost t))%Z; [inversion H; subst; exact W|].
  inversion H; subst r l'. clear H. destruct W as [Ws Wt Wc Wg].
  split; cbn [l_txs l_total l_costcap l_gascap].
  - apply sorted_put, Ws.
  - rewrite (sum_put _ _ Ws). destruct (sm_get (t_nonce t) (l_txs l)); [unfold sub_total; cbn [fold_left]|]; lia.
  - apply Forall_forall. intros x Hx. apply sm_put_In in Hx. rewrite Forall_forall in Wc.
    destruct Hx as [->|Hx]; [destruct (l_costcap l <? cost t) eqn:E; lia|].
    specialize (Wc x Hx). destruct (l_costcap l <? cost t) eqn:E; lia.
  - apply Forall_forall. intros x Hx. apply sm_put_In in Hx. rewrite Forall_forall in Wg.
    destruct Hx as [->|Hx]; [destruct (l_gascap l <? t_gas t) eqn:E; lia|].
    specialize (Wg x Hx). destruct (l_gascap l <? t_gas t) eqn:E; lia.
Qed.

Lemma list_forward_wf0 : forall th l rem l', lwf0 l -> list_forward th l = (rem, l') -> lwf0 l'.
Proof.
  intros th l rem l' [Ws Wt Wc Wg] H. unfold list_forward, sm_forward in H. inversion H; subst. clear H.
  split; cbn [with_txs l_txs l_total l_costcap l_gascap].
  - apply sorted_filter, Ws.
  - rewrite sub_total_eq, Wt. pose proof (sum_cost_filter (fun t => t_nonce t <? th) (l_txs l)) as Hsf; cbv beta in Hsf; lia.
  - apply Forall_filter', Wc.
  - apply Forall_filter', Wg.
Qed.

Lemma list_cap_wf0 : forall th l d l', lwf0 l -> list_cap th l = (d, l') -> lwf0 l'.
Proof.
  intros th l d l' [Ws Wt Wc Wg] H. unfold list_cap, sm_cap in H.
  destruct (Nat.leb (length (l_txs l)) th); inversion H; subst; clear H;
    split; cbn [with_txs l_txs l_total l_costcap l_gascap]; try assumption.
  - apply sorted_firstn, Ws.
  - rewrite sub_total_eq, sum_cost_rev, Wt. pose proof (sum_cost_firstn_skipn th (l_txs l)). lia.
  - rewrite <- (firstn_skipn th (l_txs l)) in Wc. apply Forall_app in Wc. tauto.
  - rewrite <- (firstn_skipn th (l_txs l)) in Wg. apply Forall_app in Wg. tauto.
Qed.

Lemma list_remove_wf0 : forall t l l' inv,
  lwf0 l -> In t (l_txs l) -> list_remove t l = (true, inv, l') -> lwf0 l'.
Proof.
  intros t l l' inv [Ws Wt Wc Wg] Hin H. unfold list_remove, sm_remove in H.
  destruct (sm_get (t_nonce t) (l_txs l)) as [o|] eqn:Eg; [|discriminate].
  (* the tx found at that nonce is t itself: nonces are unique *)
  assert (Hsum : sum_cost (filter (fun x => negb (t_nonce x =? t_nonce t)) (l_txs l)) = (sum_cost (l_txs l) - Z.of_N (cost t))%Z).
  { clear - Ws Hin. induction (l_txs l) as [|y r IH]; [destruct Hin|].
    apply StronglySorted_inv in Ws. destruct Ws as [Hs Hf]. cbn [filter].
    destruct Hin as [->|Hin].
    - rewrite N.eqb_refl. cbn [negb sum_cost].
      assert (E : filter (fun x => negb (t_nonce x =? t_nonce t)) r = r).
      { clear - Hf. induction r as [|z r IH]; [reflexivity|]. inversion Hf as [|? ? Hz Hr]; subst. cbn [filter].
        unfold nlt in Hz. destruct (t_nonce z =? t_nonce t) eqn:E; [lia|]. cbn [negb]. f_equal. apply IH, Hr. }
      rewrite E. lia.
    - rewrite Forall_forall in Hf. pose proof (Hf _ Hin) as Hlt. unfold nlt in Hlt.
      destruct (t_nonce y =? t_nonce t) eqn:E; [lia|]. cbn [negb sum_cost].
      rewrite (IH Hs Hin). lia. }
  destruct (l_strict l).
  - unfold sm_filter in H. inversion H; subst; clear H.
    split; cbn [with_txs l_txs l_total l_costcap l_gascap].
    + apply sorted_filter, sorted_filter, Ws.
    + rewrite sub_total_eq. unfold sub_total; cbn [fold_left]. rewrite Wt.
      pose proof (sum_cost_filter (fun x => t_nonce t <? t_nonce x) (filter (fun x => negb (t_nonce x =? t_nonce t)) (l_txs l))) as Hsf; cbv beta in Hsf; lia.
    + apply Forall_filter', Forall_filter', Wc.
    + apply Forall_filter', Forall_filter', Wg.
  - inversion H; subst; clear H.
    split; cbn [with_txs l_txs l_total l_costcap l_gascap].
    + apply sorted_filter, Ws.
    + unfold sub_total; cbn [fold_left]. rewrite Wt. lia.
    + apply Forall_filter', Wc.
    + apply Forall_filter', Wg.
Qed.

Lemma sm_run_split : forall l n a b, sm_run n l = (a, b) -> l = a ++ b.
Proof.
  induction l as [|x l IH]; intros n a b H; cbn [sm_run] in H.
  - inversion H; reflexivity.
  - destruct (t_nonce x =? n).
    + destruct (sm_run (n + 1) l) as [a' b'] eqn:E. inversion H; subst. cbn [app]. f_equal. eapply IH, E.
    + inversion H; reflexivity.
Qed.

Lemma list_ready_wf0 : forall s l rdy l', lwf0 l -> list_ready s l = (rdy, l') -> lwf0 l'.
Proof.
  intros s l rdy l' [Ws Wt Wc Wg] H. unfold list_ready in H.
  destruct (sm_ready s (l_txs l)) as [a b] eqn:E. injection H as Ha Hb. subst rdy l'.
  assert (Hsplit : l_txs l = a ++ b).
  { unfold sm_ready in E. destruct (l_txs l) as [|x r] eqn:El; [inversion E; reflexivity|].
    destruct (s <? t_nonce x); [inversion E; reflexivity|]. eapply sm_run_split, E. }
  split; cbn [with_txs l_txs l_total l_costcap l_gascap].
  - rewrite Hsplit in Ws. apply sorted_app in Ws. tauto.
  - rewrite sub_total_eq, Wt, Hsplit, sum_cost_app. lia.
  - rewrite Hsplit in Wc. apply Forall_app in Wc. tauto.
  - rewrite Hsplit in Wg. apply Forall_app in Wg. tauto.
Qed.

Lemma list_filter_wf0 : forall cl gl l rem inv l', lwf0 l -> list_filter cl gl l = (rem, inv, l') -> lwf0 l'.
Proof.
  intros cl gl l rem inv l' [Ws Wt Wc Wg] H. unfold list_filter in H.
  destruct ((l_costcap l <=? cl) && (l_gascap l <=? gl)) eqn:Ecap; [inversion H; subst; split; assumption|].
  unfold sm_filter in H.
  set (f := fun t => (gl <? t_gas t) || (cl <? cost t)) in *.
  assert (Hkeep : forall x, In x (filter (fun t => negb (f t)) (l_txs l)) -> cost x <= cl /\ t_gas x <= gl).
  { intros x Hx. apply filter_In in Hx. destruct Hx as [_ Hx]. unfold f in Hx.
    apply negb_true_iff, orb_false_iff in Hx. destruct Hx as [H1 H2]. apply N.ltb_ge in H1, H2. split; assumption. }
  destruct (filter f (l_txs l)) as [|r0 rr] eqn:Erem.
  - inversion H; subst; clear H. split; cbn [l_txs l_total l_costcap l_gascap]; try assumption.
    + apply Forall_forall. intros x Hx.
      assert (Hnf : f x = false).
      { destruct (f x) eqn:Efx; [|reflexivity]. assert (Hi : In x (filter f (l_txs l))) by (apply filter_In; split; assumption). rewrite Erem in Hi. destruct Hi. }
      unfold f in Hnf. apply orb_false_iff in Hnf. destruct Hnf as [_ H2]. apply N.ltb_ge in H2. exact H2.
    + apply Forall_forall. intros x Hx.
      assert (Hnf : f x = false).
      { destruct (f x) eqn:Efx; [|reflexivity]. assert (Hi : In x (filter f (l_txs l))) by (apply filter_In; split; assumption). rewrite Erem in Hi. destruct Hi. }
      unfold f in Hnf. apply orb_false_iff in Hnf. destruct Hnf as [H1 _]. apply N.ltb_ge in H1. exact H1.
  - pose proof (sum_cost_filter f (l_txs l)) as Hsum. rewrite Erem in Hsum.
    destruct (l_strict l).
    + inversion H; subst; clear H. split; cbn [l_txs l_total l_costcap l_gascap].
      * apply sorted_filter, sorted_filter, Ws.
      * rewrite !sub_total_eq, Wt.
        match goal with |- context [filter ?g (filter ?h (l_txs l))] =>
          pose proof (sum_cost_filter g (filter h (l_txs l))) as Hsf end.
        unfold f in Hsum. cbn [sum_cost] in Hsum. cbv beta in Hsf, Hsum |- *. lia.
      * apply Forall_forall. intros x Hx. apply filter_In in Hx. destruct Hx as [Hx _]. apply Hkeep in Hx. tauto.
      * apply Forall_forall. intros x Hx. apply filter_In in Hx. destruct Hx as [Hx _]. apply Hkeep in Hx. tauto.
    + inversion H; subst; clear H. split; cbn [l_txs l_total l_costcap l_gascap].
      * apply sorted_filter, Ws.
      * rewrite !sub_total_eq, Wt. unfold f in Hsum. cbn [sum_cost] in Hsum |- *. lia.
      * apply Forall_forall. intros x Hx. apply Hkeep in Hx. tauto.
      * apply Forall_forall. intros x Hx. apply Hkeep in Hx. tauto.
Qed.

(* what list.Filter keeps is affordable; what it removes is exactly what is not *)
Lemma list_filter_affordable0 : forall cl gl l rem inv l' x,
  lwf0 l -> list_filter cl gl l = (rem, inv, l') -> In x (l_txs l') -> cost x <= cl /\ t_gas x <= gl.
Proof.
  intros cl gl l rem inv l' x [Ws Wt Wc Wg] H Hx. unfold list_filter in H.
  destruct ((l_costcap l <=? cl) && (l_gascap l <=? gl)) eqn:Ecap.
  - inversion H; subst; clear H. apply andb_true_iff in Ecap. destruct Ecap as [E1 E2].
    apply N.leb_le in E1, E2. rewrite Forall_forall in Wc, Wg. specialize (Wc x Hx). specialize (Wg x Hx). lia.
  - unfold sm_filter in H.
    set (f := fun t => (gl <? t_gas t) || (cl <? cost t)) in *.
    assert (Hkeep : forall y, In y (filter (fun t => negb (f t)) (l_txs l)) -> cost y <= cl /\ t_gas y <= gl).
    { intros y Hy. apply filter_In in Hy. destruct Hy as [_ Hy]. unfold f in Hy.
      apply negb_true_iff, orb_false_iff in Hy. destruct Hy as [H1 H2]. apply N.ltb_ge in H1, H2. split; assumption. }
    destruct (filter f (l_txs l)) as [|r0 rr] eqn:Erem.
    + inversion H; subst; clear H. cbn [l_txs] in Hx.
      assert (Hnf : f x = false).
      { destruct (f x) eqn:Efx; [|reflexivity]. assert (Hi : In x (filter f (l_txs l))) by (apply filter_In; split; assumption). rewrite Erem in Hi. destruct Hi. }
      unfold f in Hnf. apply orb_false_iff in Hnf. destruct Hnf as [H1 H2]. apply N.ltb_ge in H1, H2. split; assumption.
    + destruct (l_strict l); inversion H; subst; clear H; cbn [l_txs] in Hx.
      * apply filter_In in Hx. destruct Hx as [Hx _]. apply Hkeep, Hx.
      * apply Hkeep, Hx.
Qed.

(* ---------- strict mode: contiguous nonce runs stay contiguous ---------- *)
Fixpoint contig (s : N) (l : list tx) : Prop :=
  match l with [] => True | x :: r => t_nonce x = s /\ contig (s + 1) r end.

Lemma contig_lower : forall l s x, contig s l -> In x l -> s <= t_nonce x.
Proof. induction l as [|y l IH]; intros s x H Hin; [destruct Hin|]. destruct H as [Hy Hr]. destruct Hin as [->|Hin]; [lia|]. specialize (IH _ _ Hr Hin). lia. Qed.

(* keeping the txs below any bound keeps a contiguous prefix: list.Remove and list.Filter in strict mode *)
Lemma contig_filter_lt : forall l s n, contig s l -> contig s (filter (fun x => t_nonce x <? n) l).
Proof.
  induction l as [|y l IH]; intros s n H; cbn [filter]; [exact I|]. destruct H as [Hy Hr].
  destruct (t_nonce y <? n) eqn:E.
  - split; [exact Hy | apply IH, Hr].
  - assert (Hnil : filter (fun x => t_nonce x <? n) l = []).
    { clear IH. assert (Hall : forall x, In x l -> n <= t_nonce x).
      { intros x Hx. pose proof (contig_lower _ _ _ Hr Hx). lia. }
      clear Hr. induction l as [|z l IHl]; [reflexivity|]. cbn [filter].
      assert (Hz : t_nonce z <? n = false) by (apply N.ltb_ge, Hall; left; reflexivity).
      rewrite Hz. apply IHl. intros x Hx. apply Hall. right. exact Hx. }
    rewrite Hnil. exact I.
Qed.

Lemma contig_forward : forall l s th, contig s l -> s <= th ->
  contig th (filter (fun x => negb (t_nonce x <? th)) l).
Proof.
  induction l as [|y l IH]; intros s th H Hle; cbn [filter]; [exact I|]. destruct H as [Hy Hr].
  destruct (t_nonce y <? th) eqn:E; cbn [negb].
  - apply (IH (s + 1)); [exact Hr | lia].
  - assert (th = s) by lia. subst th. split; [exact Hy|].
    assert (Hid : filter (fun x => negb (t_nonce x <? s)) l = l).
    { clear IH Hy E Hle. assert (Hall : forall x, In x l -> s <= t_nonce x).
      { intros x Hx. pose proof (contig_lower _ _ _ Hr Hx). lia. }
      clear Hr. induction l as [|z l IHl]; [reflexivity|]. cbn [filter].
      assert (Hz : t_nonce z <? s = false) by (apply N.ltb_ge, Hall; left; reflexivity).
      rewrite Hz. cbn [negb]. f_equal. apply IHl. intros x Hx. apply Hall. right. exact Hx. }
    rewrite Hid. exact Hr.
Qed.

Lemma contig_firstn : forall n l s, contig s l -> contig s (firstn n l).
Proof. induction n as [|n IH]; intros l s H; [exact I|]. destruct l as [|y l]; [exact I|]. destruct H as [Hy Hr]. cbn [firstn]. split; [exact Hy | apply IH, Hr]. Qed.

Lemma contig_app_one : forall l s t, contig s l -> t_nonce t = s + N.of_nat (length l) -> contig s (l ++ [t]).
Proof.
  induction l as [|y l IH]; intros s t H Ht; cbn [app length] in *.
  - split; [lia | exact I].
  - destruct H as [Hy Hr]. split; [exact Hy|]. apply IH; [exact Hr | lia].
Qed.

(* list.Ready hands out a contiguous run *)
Lemma sm_run_contig : forall l n a b, sm_run n l = (a, b) -> contig n a.
Proof.
  induction l as [|x l IH]; intros n a b H; cbn [sm_run] in H.
  - inversion H; exact I.
  - destruct (t_nonce x =? n) eqn:E.
    + destruct (sm_run (n + 1) l) as [a' b'] eqn:E2. inversion H; subst. split; [apply N.eqb_eq, E | eapply IH, E2].
    + inversion H; exact I.
Qed.

(* list.Remove in strict mode: from a contiguous list, a contiguous prefix remains and
   everything above the removed nonce is handed back as invalidated *)
Lemma list_remove_strict_contig : forall t l s inv l',
  l_strict l = true -> contig s (l_txs l) ->
  list_remove t l = (true, inv, l') ->
  contig s (l_txs l') /\ (forall x, In x (l_txs l') -> t_nonce x < t_nonce t) /\
  (forall x, In x inv -> t_nonce t < t_nonce x).
Proof.
  intros t l s inv l' Hst Hc H. unfold list_remove, sm_remove in H.
  destruct (sm_get (t_nonce t) (l_txs l)); [|discriminate]. rewrite Hst in H.
  unfold sm_filter in H. inversion H; subst; clear H. cbn [with_txs l_txs].
  assert (Heq : filter (fun t0 => negb (t_nonce t <? t_nonce t0)) (filter (fun t0 => negb (t_nonce t0 =? t_nonce t)) (l_txs l))
                = filter (fun x => t_nonce x <? t_nonce t) (l_txs l)).
  { clear. induction (l_txs l) as [|y r IH]; [reflexivity|]. cbn [filter].
    destruct (t_nonce y =? t_nonce t) eqn:E1; cbn [negb filter].
    - destruct (t_nonce y <? t_nonce t) eqn:E3; [lia | exact IH].
    - destruct (t_nonce t <? t_nonce y) eqn:E2; destruct (t_nonce y <? t_nonce t) eqn:E3; cbn [negb]; try lia; rewrite IH; reflexivity. }
  split; [|split].
  - rewrite Heq. apply contig_filter_lt, Hc.
  - rewrite Heq. intros x Hx. apply filter_In in Hx. destruct Hx as [_ Hx]. apply N.ltb_lt in Hx. exact Hx.
  - intros x Hx. apply filter_In in Hx. destruct Hx as [_ Hx]. apply N.ltb_lt in Hx. exact Hx.
Qed.

(* a downward-closed selection of a contiguous run is a contiguous prefix *)
Lemma contig_filter_prefix : forall l s (p : tx -> bool), contig s l ->
  (forall x y, In x l -> In y l -> p y = true -> t_nonce x < t_nonce y -> p x = true) ->
  contig s (filter p l).
Proof.
  induction l as [|y l IH]; intros s p H Hcl; cbn [filter]; [exact I|]. destruct H as [Hy Hr].
  destruct (p y) eqn:Ep.
  - split; [exact Hy|]. apply IH; [exact Hr|].
    intros x z Hx Hz. apply Hcl; right; assumption.
  - assert (Hnone : forall z, In z l -> p z = false).
    { intros z Hz. destruct (p z) eqn:Ez; [|reflexivity].
      pose proof (contig_lower _ _ _ Hr Hz) as Hlo.
      assert (p y = true) by (apply (Hcl y z); [left; reflexivity | right; exact Hz | exact Ez | lia]).
      congruence. }
    assert (Hnil : filter p l = []).
    { clear - Hnone. induction l as [|z l IHl]; [reflexivity|]. cbn [filter].
      rewrite (Hnone z (or_introl eq_refl)). apply IHl. intros w Hw. apply Hnone. right. exact Hw. }
    rewrite Hnil. exact I.
Qed.

Lemma filter_filter' {A} (g h : A -> bool) (l : list A) :
  filter g (filter h l) = filter (fun t => h t && g t) l.
Proof. induction l as [|y l IH]; [reflexivity|]. cbn [filter]. destruct (h y); cbn [andb filter]; [destruct (g y)|]; rewrite IH; reflexivity. Qed.

(* list.Filter in strict mode keeps a contiguous prefix *)
Lemma list_filter_strict_contig : forall cl gl l s rem inv l',
  l_strict l = true -> contig s (l_txs l) ->
  list_filter cl gl l = (rem, inv, l') -> contig s (l_txs l').
Proof.
  intros cl gl l s rem inv l' Hst Hc H. unfold list_filter in H.
  destruct ((l_costcap l <=? cl) && (l_gascap l <=? gl)); [inversion H; subst; exact Hc|].
  unfold sm_filter in H.
  set (f := fun t => (gl <? t_gas t) || (cl <? cost t)) in *.
  destruct (filter f (l_txs l)) as [|r0 rr] eqn:Erem; [inversion H; subst; exact Hc|].
  rewrite Hst in H. inversion H; subst; clear H. cbn [l_txs].
  set (lowest := fold_left (fun m t0 => N.min m (t_nonce t0)) (r0 :: rr) (2 ^ 64 - 1)) in *.
  assert (Hlow : forall x, In x (r0 :: rr) -> lowest <= t_nonce x).
  { unfold lowest. generalize (2 ^ 64 - 1). generalize (r0 :: rr). clear.
    induction l as [|y l IH]; intros m x Hx; [destruct Hx|]. cbn [fold_left]. destruct Hx as [->|Hx].
    - clear IH. generalize (N.min m (t_nonce x)) (N.le_min_r m (t_nonce x)). revert l.
      induction l as [|z l IHl]; intros m' Hm'; cbn [fold_left]; [exact Hm'|].
      apply IHl. pose proof (N.le_min_l m' (t_nonce z)). lia.
    - apply IH, Hx. }
  rewrite filter_filter'. apply contig_filter_prefix; [exact Hc|].
  intros x y Hx Hy Hp Hlt. apply andb_true_iff in Hp. destruct Hp as [Hp1 Hp2].
  apply negb_true_iff, N.ltb_ge in Hp2. change (t_nonce y <= lowest) in Hp2. apply andb_true_iff. split.
  - apply negb_true_iff. change (f x = false). destruct (f x) eqn:Efx; [|reflexivity].
    assert (Hxr : In x (r0 :: rr)) by (rewrite <- Erem; apply filter_In; split; assumption).
    pose proof (Hlow _ Hxr). clearbody lowest. lia.
  - apply negb_true_iff, N.ltb_ge. change (t_nonce x <= lowest). clearbody lowest. lia.
Qed.

(* list.Cap on a contiguous list keeps a contiguous prefix *)
Lemma list_cap_contig : forall th l s d l', contig s (l_txs l) -> list_cap th l = (d, l') -> contig s (l_txs l').
Proof.
  intros th l s d l' Hc H. unfold list_cap, sm_cap in H.
  destruct (Nat.leb (length (l_txs l)) th); inversion H; subst; cbn [with_txs l_txs]; [exact Hc | apply contig_firstn, Hc].
Qed.

(* list.Forward on a contiguous list starting at or below the threshold leaves a run starting at it *)
Lemma list_forward_contig : forall th l s rem l', contig s (l_txs l) -> s <= th ->
  list_forward th l = (rem, l') -> contig th (l_txs l').
Proof.
  intros th l s rem l' Hc Hle H. unfold list_forward, sm_forward in H. inversion H; subst. cbn [with_txs l_txs].
  eapply contig_forward; eassumption.
Qed.

(* list.Ready: the promoted txs form a run starting at the lowest queued nonce, which is the
   requested start whenever no queued nonce lies below it *)
Lemma list_ready_contig : forall start l rdy l' x r,
  l_txs l = x :: r -> start <= t_nonce x ->
  list_ready start l = (rdy, l') -> rdy = [] \/ (t_nonce x = start /\ contig start rdy).
Proof.
  intros start l rdy l' x r Hl Hle H. unfold list_ready, sm_ready in H. rewrite Hl in H.
  destruct (start <? t_nonce x) eqn:E.
  - inversion H. left. reflexivity.
  - right. assert (t_nonce x = start) by lia. split; [assumption|].
    destruct (sm_run (t_nonce x) (x :: r)) as [a b] eqn:Er. inversion H; subst a. 
    rewrite <- H0. eapply sm_run_contig, Er.
Qed.

(* promoting one more tx at the end of a contiguous pending list (promoteTx -> list.Add) *)
Lemma sm_put_append : forall l t s, contig s l -> t_nonce t = s + N.of_nat (length l) -> sm_put t l = l ++ [t].
Proof.
  induction l as [|y l IH]; intros t s H Ht; cbn [sm_put app length] in *; [reflexivity|].
  destruct H as [Hy Hr].
  destruct (t_nonce t <? t_nonce y) eqn:E1; [lia|]. destruct (t_nonce t =? t_nonce y) eqn:E2; [lia|].
  f_equal. apply (IH t (s + 1)); [exact Hr | lia].
Qed.


(* ---------- the sorted cache of SortedMap ---------- *)
(* cache = nil, or cache = the nonce-sorted items: what Flatten / LastElement hand out is the list *)
Definition cache_ok (l : tlist) : Prop := l_cache l = None \/ l_cache l = Some (l_txs l).

Record lwf (l : tlist) : Prop := { lw_base : lwf0 l; lw_cache : cache_ok l }.

Lemma lw_sorted : forall l, lwf l -> sorted (l_txs l). Proof. intros l [W _]. apply (lw0_sorted _ W). Qed.
Lemma lw_total : forall l, lwf l -> l_total l = sum_cost (l_txs l). Proof. intros l [W _]. apply (lw0_total _ W). Qed.
Lemma lw_cc : forall l, lwf l -> Forall (fun t => cost t <= l_costcap l) (l_txs l). Proof. intros l [W _]. apply (lw0_cc _ W). Qed.
Lemma lw_gc : forall l, lwf l -> Forall (fun t => t_gas t <= l_gascap l) (l_txs l). Proof. intros l [W _]. apply (lw0_gc _ W). Qed.

Lemma lwf_new : forall s, lwf (new_list s).
Proof. intros s. split; [apply lwf0_new | left; reflexivity]. Qed.
Lemma lwf_total_nonneg : forall l, lwf l -> (0 <= l_total l)%Z.
Proof. intros l [W _]. apply lwf0_total_nonneg, W. Qed.

Lemma filter_all_false {A} (f : A -> bool) (l : list A) : (forall x, In x l -> f x = false) -> filter f l = [].
Proof. induction l as [|y l IH]; intros H; [reflexivity|]. cbn [filter]. rewrite (H y (or_introl eq_refl)). apply IH. intros x Hx. apply H. right. exact Hx. Qed.
Lemma filter_all_true {A} (f : A -> bool) (l : list A) : (forall x, In x l -> f x = true) -> filter f l = l.
Proof. induction l as [|y l IH]; intros H; [reflexivity|]. cbn [filter]. rewrite (H y (or_introl eq_refl)). f_equal. apply IH. intros x Hx. apply H. right. exact Hx. Qed.

(* Forward's m.cache[len(removed):] is the kept part, because the removed txs are a prefix *)
Lemma sorted_forward_skipn : forall th l, sorted l ->
  skipn (length (filter (fun t => t_nonce t <? th) l)) l = filter (fun t => negb (t_nonce t <? th)) l.
Proof.
  unfold sorted. induction l as [|x l IH]; intros Hs; [reflexivity|].
  apply StronglySorted_inv in Hs. destruct Hs as [Hs Hf]. rewrite Forall_forall in Hf. cbn [filter].
  destruct (t_nonce x <? th) eqn:E; cbn [negb length skipn]; [apply IH, Hs|].
  assert (Hall : forall y, In y l -> (t_nonce y <? th) = false).
  { intros y Hy. pose proof (Hf y Hy) as Hlt. unfold nlt in Hlt. apply N.ltb_ge. apply N.ltb_ge in E. lia. }
  rewrite (filter_all_false _ l Hall). cbn [length skipn]. f_equal. symmetry. apply filter_all_true.
  intros y Hy. rewrite (Hall y Hy). reflexivity.
Qed.

Lemma list_add_wf : forall t bump l r l', lwf l -> list_add t bump l = (r, l') -> lwf l'.
Proof.
  intros t bump l r l' [W C] H. split; [eapply list_add_wf0; eassumption|].
  unfold list_add in H.
  destruct (match sm_get (t_nonce t) (l_txs l) with
            | Some o => if (t_feecap t <=? t_feecap o) || (t_tip t <=? t_tip o) then true
                        else (t_feecap t <? (100 + bump) * t_feecap o / 100) || (t_tip t <? (100 + bump) * t_tip o / 100)
            | None => false end); [inversion H; subst; exact C|].
  destruct (U256 <=? cost t); [inversion H; subst; exact C|].
  destruct (Z.of_N U256 <=? l_total l + Z.of_N (cost t))%Z; [inversion H; subst; exact C|].
  inversion H; subst. left. reflexivity.
Qed.

Lemma list_forward_wf : forall th l rem l', lwf l -> list_forward th l = (rem, l') -> lwf l'.
Proof.
  intros th l rem l' [W C] H. split; [eapply list_forward_wf0; eassumption|].
  unfold list_forward, sm_forward in H. inversion H; subst; clear H. unfold cache_ok. cbn [with_txs l_cache l_txs].
  destruct C as [C|C]; rewrite C; cbn [option_map]; [left; reflexivity | right].
  rewrite (sorted_forward_skipn th _ (lw0_sorted _ W)). reflexivity.
Qed.

Lemma list_filter_wf : forall cl gl l rem inv l', lwf l -> list_filter cl gl l = (rem, inv, l') -> lwf l'.
Proof.
  intros cl gl l rem inv l' [W C] H. split; [eapply list_filter_wf0; eassumption|].
  unfold list_filter in H. destruct ((l_costcap l <=? cl) && (l_gascap l <=? gl)); [inversion H; subst; exact C|].
  unfold sm_filter in H. destruct (filter _ (l_txs l)); [inversion H; subst; exact C|].
  destruct (l_strict l); inversion H; subst; left; reflexivity.
Qed.

Lemma list_cap_wf : forall th l d l', lwf l -> list_cap th l = (d, l') -> lwf l'.
Proof.
  intros th l d l' [W C] H. split; [eapply list_cap_wf0; eassumption|].
  unfold list_cap, sm_cap in H. destruct (Nat.leb (length (l_txs l)) th) eqn:E; inversion H; subst; clear H;
    unfold cache_ok; cbn [with_txs l_cache l_txs]; (destruct C as [C|C]; rewrite C; cbn [option_map]; [left; reflexivity | right]).
  - cbn [length]. rewrite Nat.sub_0_r, firstn_all. reflexivity.
  - apply Nat.leb_gt in E. rewrite rev_length, skipn_length. f_equal. f_equal. lia.
Qed.

Lemma list_remove_wf : forall t l l' inv,
  lwf l -> In t (l_txs l) -> list_remove t l = (true, inv, l') -> lwf l'.
Proof.
  intros t l l' inv [W C] Hin H. split; [eapply list_remove_wf0; eassumption|].
  unfold list_remove, sm_remove in H. destruct (sm_get (t_nonce t) (l_txs l)); [|discriminate].
  destruct (l_strict l); [unfold sm_filter in H|]; inversion H; subst; left; reflexivity.
Qed.

Lemma list_ready_wf : forall s l rdy l', lwf l -> list_ready s l = (rdy, l') -> lwf l'.
Proof.
  intros s l rdy l' [W C] H. split; [eapply list_ready_wf0; eassumption|].
  unfold list_ready, sm_ready in H. destruct (l_txs l) as [|x r] eqn:El.
  - inversion H; subst. unfold cache_ok. cbn [with_txs l_cache l_txs]. rewrite <- El. exact C.
  - destruct (s <? t_nonce x).
    + inversion H; subst. unfold cache_ok. cbn [with_txs l_cache l_txs]. rewrite <- El. exact C.
    + destruct (sm_run (t_nonce x) (x :: r)). inversion H; subst. left. reflexivity.
Qed.

(* Flatten / LastElement: what is handed out is the nonce-sorted item list, and the list stays well-formed *)
Lemma list_flatten_spec : forall l c l', lwf l -> list_flatten l = (c, l') ->
  c = l_txs l /\ lwf l' /\ l_txs l' = l_txs l /\ l_total l' = l_total l /\ l_strict l' = l_strict l /\
  l_cache l' = Some (l_txs l).
Proof.
  intros l c l' [W C] H. unfold list_flatten in H. inversion H; subst; clear H.
  assert (Hc : match l_cache l with Some c => c | None => l_txs l end = l_txs l) by (destruct C as [C|C]; rewrite C; reflexivity).
  rewrite Hc. cbn [with_txs l_txs l_total l_strict l_cache].
  split; [reflexivity|]. split; [|repeat split; reflexivity].
  split; [destruct W as [Ws Wt Wc Wg]; split; assumption | right; reflexivity].
Qed.

Lemma list_filter_affordable : forall cl gl l rem inv l' x,
  lwf l -> list_filter cl gl l = (rem, inv, l') -> In x (l_txs l') -> cost x <= cl /\ t_gas x <= gl.
Proof. intros cl gl l rem inv l' x [W _]. apply list_filter_affordable0, W. Qed.

(* every history of list operations (with arbitrary arguments) keeps "cache = nil or cache = items" *)
Inductive lop :=
| LAdd (t : tx) (bump : N) | LForward (th : N) | LFilter (cl gl : N) | LCap (n : nat)
| LRemove (t : tx) | LReady (start : N) | LFlatten.

Definition lstep (l : tlist) (o : lop) : tlist :=
  match o with
  | LAdd t b => snd (list_add t b l)
  | LForward th => snd (list_forward th l)
  | LFilter c g => snd (list_filter c g l)
  | LCap n => snd (list_cap n l)
  | LRemove t => snd (list_remove t l)
  | LReady s => snd (list_ready s l)
  | LFlatten => snd (list_flatten l)
  end.

Definition sc_ok (l : tlist) : Prop := sorted (l_txs l) /\ cache_ok l.

Lemma lstep_sc_ok : forall l o, sc_ok l -> sc_ok (lstep l o).
Proof.
  intros l o [Hs C]. destruct o as [t b|th|c g|n|t|s|]; cbn [lstep].
  - unfold list_add.
    destruct (match sm_get (t_nonce t) (l_txs l) with
              | Some o => if (t_feecap t <=? t_feecap o) || (t_tip t <=? t_tip o) then true
                          else (t_feecap t <? (100 + b) * t_feecap o / 100) || (t_tip t <? (100 + b) * t_tip o / 100)
              | None => false end); [split; assumption|].
    destruct (U256 <=? cost t); [split; assumption|].
    destruct (Z.of_N U256 <=? l_total l + Z.of_N (cost t))%Z; [split; assumption|].
    cbn [snd]. split; [apply sorted_put, Hs | left; reflexivity].
  - unfold list_forward, sm_forward. cbn [snd]. split; [apply sorted_filter, Hs|]. unfold cache_ok. cbn [with_txs l_cache l_txs].
    destruct C as [C|C]; rewrite C; cbn [option_map]; [left; reflexivity | right]. rewrite (sorted_forward_skipn th _ Hs). reflexivity.
  - unfold list_filter. destruct ((l_costcap l <=? c) && (l_gascap l <=? g)); [split; assumption|].
    unfold sm_filter. destruct (filter _ (l_txs l)) eqn:Ef; [split; assumption|].
    destruct (l_strict l); cbn [snd]; (split; [repeat apply sorted_filter; exact Hs | left; reflexivity]).
  - unfold list_cap, sm_cap. destruct (Nat.leb (length (l_txs l)) n) eqn:E; cbn [snd]; unfold sc_ok, cache_ok; cbn [with_txs l_cache l_txs];
      (split; [first [exact Hs | apply sorted_firstn, Hs]|]); (destruct C as [C|C]; rewrite C; cbn [option_map]; [left; reflexivity | right]).
    + cbn [length]. rewrite Nat.sub_0_r, firstn_all. reflexivity.
    + apply Nat.leb_gt in E. rewrite rev_length, skipn_length. f_equal. f_equal. lia.
  - unfold list_remove, sm_remove. destruct (sm_get (t_nonce t) (l_txs l)); [|split; assumption].
    destruct (l_strict l); [unfold sm_filter|]; cbn [snd]; (split; [repeat apply sorted_filter; exact Hs | left; reflexivity]).
  - unfold list_ready, sm_ready. destruct (l_txs l) as [|x r] eqn:El.
    + cbn [snd]. unfold sc_ok, cache_ok in *. cbn [with_txs l_cache l_txs]. rewrite El in C. split; assumption.
    + destruct (s <? t_nonce x).
      * cbn [snd]. unfold sc_ok, cache_ok in *. cbn [with_txs l_cache l_txs]. rewrite El in C. split; assumption.
      * destruct (sm_run (t_nonce x) (x :: r)) as [a b] eqn:Er. cbn [snd]. split; [|left; reflexivity]. cbn [with_txs l_txs].
        rewrite (sm_run_split _ _ _ _ Er) in Hs. apply sorted_app in Hs. tauto.
  - unfold list_flatten. cbn [snd]. unfold sc_ok, cache_ok. cbn [with_txs l_cache l_txs]. split; [exact Hs | right].
    destruct C as [C|C]; rewrite C; reflexivity.
Qed.

Lemma lhistory_sc_ok : forall h s, sc_ok (fold_left lstep h (new_list s)).
Proof.
  intros h s. assert (H0 : sc_ok (new_list s)) by (split; [constructor | left; reflexivity]).
  revert H0. generalize (new_list s). induction h as [|o h IH]; intros l H; cbn [fold_left]; [exact H | apply IH, lstep_sc_ok, H].
Qed.

(* what Flatten hands out after any history of list operations: the sorted items *)
Lemma lhistory_flatten : forall h s, fst (list_flatten (fold_left lstep h (new_list s))) = l_txs (fold_left lstep h (new_list s)).
Proof.
  intros h s. destruct (lhistory_sc_ok h s) as [_ C]. unfold list_flatten. cbn [fst]. destruct C as [C|C]; rewrite C; reflexivity.
Qed.

(* ---------- the pool invariant as an executable predicate ---------- *)
Fixpoint seq_from (s : N) (l : list tx) : bool :=
  match l with [] => true | x :: r => (t_nonce x =? s) && seq_from (s + 1) r end.

Lemma seq_from_contig : forall l s, seq_from s l = true <-> contig s l.
Proof.
  induction l as [|x l IH]; intros s; cbn [seq_from contig]; [tauto|].
  rewrite andb_true_iff, N.eqb_eq, IH. tauto.
Qed.

Definition for_pending (st : pool) (f : N -> tlist -> bool) : bool :=
  forallb (fun a => match p_pending st a with Some l => f a l | None => true end) (c_accts (p_cfg st)).
Definition for_queue (st : pool) (f : N -> tlist -> bool) : bool :=
  forallb (fun a => match p_queue st a with Some l => f a l | None => true end) (c_accts (p_cfg st)).

(* pending nonces of an account are exactly state nonce .. state nonce + k - 1, k >= 1 *)
Definition gapless_b (st : pool) : bool :=
  for_pending st (fun a l => negb (l_empty l) && seq_from (ch_nonce (p_chain st) a) (l_txs l)).
(* every pending tx is individually payable and fits the block gas limit *)
Definition affordable_b (st : pool) : bool :=
  for_pending st (fun a l => forallb (fun t => (cost t <=? ch_bal (p_chain st) a) &&
                                              (t_gas t <=? ch_gaslimit (p_chain st)) && (t_from t =? a)) (l_txs l)).
(* the stronger clause of DESIGN.md: the balance covers the whole pending list *)
Definition total_affordable_b (st : pool) : bool :=
  for_pending st (fun a l => (l_total l <=? Z.of_N (ch_bal (p_chain st) a))%Z).
Definition disjoint_b (st : pool) : bool :=
  for_queue st (fun a q => forallb (fun t => (t_from t =? a) &&
     match p_pending st a with Some l => negb (l_contains (t_nonce t) l) | None => true end) (l_txs q)).
Definition pooled (st : pool) : list tx :=
  flat_map (fun a => (match p_pending st a with Some l => l_txs l | None => [] end) ++
                     (match p_queue st a with Some l => l_txs l | None => [] end)) (c_accts (p_cfg st)).
(* lookup = pending ∪ queue, without duplicates, and the slot counter is exact *)
Definition union_b (st : pool) : bool :=
  forallb (fun t => existsb (tx_eqb t) (pooled st)) (p_all st) &&
  forallb (fun t => all_has t st) (pooled st) &&
  Nat.eqb (length (p_all st)) (length (pooled st)) &&
  (p_slots st =? fold_right (fun t z => z + Z.of_N (t_slots t)) 0 (pooled st))%Z.
Definition totals_b (st : pool) : bool :=
  for_pending st (fun _ l => (l_total l =? sum_cost (l_txs l))%Z) &&
  for_queue st (fun _ l => (l_total l =? sum_cost (l_txs l))%Z).
Definition nonces_b (st : pool) : bool :=
  forallb (fun a => pn_get a st =? ch_nonce (p_chain st) a + N.of_nat (pending_len a st)) (c_accts (p_cfg st)).
Definition limits_b (st : pool) : bool :=
  Nat.leb (queue_count st) (N.to_nat (c_gqueue (p_cfg st))) &&
  (Nat.leb (pending_count st) (N.to_nat (c_gslots (p_cfg st))) ||
   forallb (fun a => Nat.leb (pending_len a st) (N.to_nat (c_aslots (p_cfg st)))) (c_accts (p_cfg st))).

Definition pool_inv_b (st : pool) : bool :=
  gapless_b st && affordable_b st && disjoint_b st && union_b st && totals_b st && nonces_b st &&
  negb (p_panic st) && negb (p_fuel st).

(* list.Ready leaves no executable head: when no queued nonce lies below the requested start (what
   Forward(state nonce) and pending/queue disjointness guarantee), the first tx left in the queue
   has a nonce strictly above the end of the promoted run *)
Lemma sm_run_rest : forall l n a b, sorted l -> sm_run n l = (a, b) -> (forall x, In x l -> n <= t_nonce x) ->
  match b with [] => True | y :: _ => n + N.of_nat (length a) < t_nonce y end.
Proof.
  unfold sorted. induction l as [|x r IH]; intros n a b Hs E Hlow; cbn [sm_run] in E; [inversion E; exact I|].
  apply StronglySorted_inv in Hs. destruct Hs as [Hs Hf]. rewrite Forall_forall in Hf.
  destruct (t_nonce x =? n) eqn:En.
  - apply N.eqb_eq in En. destruct (sm_run (n + 1) r) as [a' b'] eqn:Er. inversion E; subst a b; clear E.
    assert (H := IH (n + 1) a' b' Hs Er). cbn [length].
    assert (Hl : forall y, In y r -> n + 1 <= t_nonce y) by (intros y Hy; pose proof (Hf y Hy) as Hlt; unfold nlt in Hlt; lia).
    specialize (H Hl). destruct b' as [|y b'']; [exact I | lia].
  - inversion E; subst a b. cbn [length]. apply N.eqb_neq in En. pose proof (Hlow x (or_introl eq_refl)). lia.
Qed.

Lemma list_ready_no_executable_head : forall start l rdy l', sorted (l_txs l) ->
  (forall x, In x (l_txs l) -> start <= t_nonce x) -> list_ready start l = (rdy, l') ->
  match l_txs l' with [] => True | y :: _ => start + N.of_nat (length rdy) < t_nonce y end.
Proof.
  intros start l rdy l' Hs Hlow E. unfold list_ready, sm_ready in E. destruct (l_txs l) as [|x r] eqn:El.
  - inversion E; subst. cbn [with_txs l_txs]. exact I.
  - destruct (start <? t_nonce x) eqn:Es.
    + inversion E; subst. cbn [with_txs l_txs length]. apply N.ltb_lt in Es. lia.
    + apply N.ltb_ge in Es. pose proof (Hlow x (or_introl eq_refl)) as Hx. assert (Hxe : t_nonce x = start) by lia.
      destruct (sm_run (t_nonce x) (x :: r)) as [a b] eqn:Er. inversion E; subst rdy l'. cbn [with_txs l_txs].
      rewrite <- Hxe. apply (sm_run_rest (x :: r) (t_nonce x) a b Hs Er). intros y Hy. rewrite Hxe. apply Hlow, Hy.
Qed.
