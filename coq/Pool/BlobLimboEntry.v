(* Pool/BlobLimboEntry.v — what enters the limbo: only offload pushes, and during a Reset it pushes
   a stored transaction under the number of a block that is reachable from the NEW head by parent
   links and contains that transaction; between Resets the limbo does not change. *)
From Coq Require Import List NArith ZArith Bool Lia.
From GV Require Import Lib.Tactics Pool.Blob Pool.BlobProofs Pool.BlobAddProofs Pool.BlobRollingProofs Pool.BlobResetProofs Pool.BlobLimboProofs Pool.BlobLimboReset Pool.BlobLimboFrame.
Import ListNotations.
Local Open Scope N_scope.

(* blocks of the current chain: reachable from the head by parent links *)
Inductive reach (bs : list block) (head : block) : block -> Prop :=
| reach_head : reach bs head head
| reach_parent b pb : reach bs head b -> get_block bs (b_parent b) = Some pb -> reach bs head pb.

Definition on_chain (bs : list block) (head : block) (x : btx * N) : Prop :=
  exists b, reach bs head b /\ b_num b = snd x /\ In (fst x) (b_txs b).

Lemma on_chain_block bs head b : reach bs head b ->
  Forall (on_chain bs head) (map (fun t => (t, b_num b)) (b_txs b)).
Proof.
  intro Hr. apply Forall_forall. intros [t n] Hin. apply in_map_iff in Hin. destruct Hin as [t' [E Ht]].
  inversion E; subst. exists b. repeat split; assumption.
Qed.

Lemma walk_add_sound bs head : forall fuel rem add incl add' incl',
  walk_add fuel bs rem add incl = Some (add', incl') ->
  reach bs head add -> Forall (on_chain bs head) incl ->
  reach bs head add' /\ Forall (on_chain bs head) incl'.
Proof.
  induction fuel as [|f IH]; intros rem add incl add' incl' H Hr Hf; cbn [walk_add] in H; [discriminate|].
  destruct (b_num rem <? b_num add).
  - destruct (get_block bs (b_parent add)) as [pa|] eqn:Ep; [|discriminate].
    eapply IH; [exact H | eapply reach_parent; eauto|].
    apply Forall_app. split; [exact Hf | apply on_chain_block; exact Hr].
  - inversion H; subst. split; assumption.
Qed.

Lemma walk_both_sound bs head : forall fuel rem add disc incl disc' incl',
  walk_both fuel bs rem add disc incl = Some (disc', incl') ->
  reach bs head add -> Forall (on_chain bs head) incl -> Forall (on_chain bs head) incl'.
Proof.
  induction fuel as [|f IH]; intros rem add disc incl disc' incl' H Hr Hf; cbn [walk_both] in H; [discriminate|].
  destruct (b_id rem =? b_id add); [inversion H; subst; exact Hf|].
  destruct (get_block bs (b_parent rem)) as [pr|]; [|discriminate].
  destruct (get_block bs (b_parent add)) as [pa|] eqn:Ep; [|discriminate].
  eapply IH; [exact H | eapply reach_parent; eauto|].
  apply Forall_app. split; [exact Hf | apply on_chain_block; exact Hr].
Qed.

(* every (tx, number) that reorg() reports as included sits in a block of that number on the new chain *)
Lemma reorg_incl_sound bs oldh newh ro :
  reorg bs oldh newh = Some ro -> Forall (on_chain bs newh) (ro_incl ro).
Proof.
  unfold reorg. destruct (64 <? absdiff (b_num oldh) (b_num newh)); [discriminate|].
  destruct (walk_rem (S (length bs)) bs oldh newh []) as [[rem disc]|]; [|discriminate].
  destruct (walk_add (S (length bs)) bs rem newh []) as [[add incl]|] eqn:Ea; [|discriminate].
  destruct (walk_both (S (length bs)) bs rem add disc incl) as [[disc' incl']|] eqn:Eb; [|discriminate].
  intro H. inversion H; subst. cbn [ro_incl].
  destruct (walk_add_sound bs newh _ _ _ _ _ _ Ea (reach_head _ _) (Forall_nil _)) as [Hr Hf].
  eapply walk_both_sound; eauto.
Qed.

Lemma inclusions_of_sound : forall (incl : list (btx * N)) m h n,
  aget (fold_left (fun m '(t, n) => aset m (bt_id t) n) incl m) h = Some n ->
  (exists t, In (t, n) incl /\ bt_id t = h) \/ aget m h = Some n.
Proof.
  induction incl as [|[t k] r IH]; intros m h n H; cbn [fold_left] in H; [right; exact H|].
  apply IH in H. destruct H as [[t' [Hin E]]|H].
  - left. exists t'. split; [right; exact Hin | exact E].
  - rewrite aget_aset in H. destruct (bt_id t =? h) eqn:Eh.
    + inversion H; subst. left. exists t. split; [left; reflexivity | apply N.eqb_eq; exact Eh].
    + right. exact H.
Qed.

(* offload either leaves the limbo alone or pushes the stored transaction under its inclusion number *)
Lemma offload_spec id inc p q :
  offload id inc p = Ok q ->
  p_limbo q = p_limbo p \/
  exists it blk, billy_get (p_store p) id = Ok (Some it) /\ aget inc (t_id (i_tx it)) = Some blk /\
                 p_limbo q = limbo_push (p_limbo p) (i_tx it) blk.
Proof.
  unfold offload. intro H. inv_bind_as H o. destruct o as [it|]; [|inversion H; subst; left; reflexivity].
  destruct (aget inc (t_id (i_tx it))) as [blk|] eqn:Ei; inversion H; subst; [|left; reflexivity].
  right. exists it, blk. repeat split; assumption.
Qed.

(* soundness of what enters the limbo during a Reset: the transaction is recorded under the number
   of a block on the chain of the NEW head that contains it *)
Lemma reset_push_sound bs oldh newh ro id p q :
  reorg bs oldh newh = Some ro ->
  offload id (inclusions_of (ro_incl ro)) p = Ok q ->
  p_limbo q = p_limbo p \/
  exists it blk b t, p_limbo q = limbo_push (p_limbo p) (i_tx it) blk /\
                     reach bs newh b /\ b_num b = blk /\ In t (b_txs b) /\ bt_id t = t_id (i_tx it).
Proof.
  intros Hr Ho. apply offload_spec in Ho. destruct Ho as [Ho|[it [blk [_ [Hi Hp]]]]]; [left; exact Ho|].
  right. unfold inclusions_of in Hi. apply inclusions_of_sound in Hi. destruct Hi as [[t [Hin E]]|Hi]; [|discriminate].
  pose proof (reorg_incl_sound _ _ _ _ Hr) as Hf. rewrite Forall_forall in Hf.
  destruct (Hf _ Hin) as [b [Hb [Hn Ht]]]. exists it, blk, b, t. repeat split; assumption.
Qed.

Section LimboHistory.
Variable prioE prioB : N -> N -> Z.
Variable gtE gtB nearE nearB : N -> N -> bool.
Variable c : cfg.

Lemma hrun_limbo : forall ops p q, hrun prioE prioB gtE gtB c ops p = Ok q -> p_limbo q = p_limbo p.
Proof.
  induction ops as [|o r IH]; intros p q H; cbn [hrun] in H; [inversion H; subst; reflexivity|].
  inv_bind_as H p1. rewrite (IH p1 q H). destruct o as [t|tip]; cbn [hstep] in E.
  - inv_bind_as E x. destruct x as [p2 e2]. inversion E; subst. cbn [fst]. eapply pool_add_limbo; eauto.
  - eapply set_gas_tip_limbo; eauto.
Qed.

(* finalised entries stay deleted: after a Reset that finalised block [final] — whatever history
   led to the pool it started from — and any number of Adds and SetGasTips, the limbo holds no
   group at or below [final] *)
Lemma finalised_gone_history lg ll bs newh final p0 p ops q :
  pool_reset prioE prioB nearE nearB lg ll bs newh final p0 = Ok p ->
  hrun prioE prioB gtE gtB c ops p = Ok q ->
  forall blk, blk <= final -> aget (l_groups (p_limbo q)) blk = None.
Proof.
  intros Hr Hh blk Hle. rewrite (hrun_limbo _ _ _ Hh). eapply reset_finalises; eauto.
Qed.
End LimboHistory.
