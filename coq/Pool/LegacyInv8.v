(* Pool/LegacyInv8.v — pending lists gapless from the state nonce and the pendingNonces bookkeeping
   (pendingNonces[a] = state nonce + number of pending txs = last pending nonce + 1), carried
   through removeTx, truncatePending, truncateQueue, add, SetGasTip and the listing calls. *)
From GV Require Import Lib.Tactics Pool.Legacy Pool.LegacyProofs Pool.LegacyInv Pool.LegacyInv2 Pool.LegacyInv3 Pool.LegacyInv4 Pool.LegacyInv5 Pool.LegacyInv6 Pool.LegacyInv7.
From Coq Require Import Sorting.Sorted.
Local Open Scope N_scope.

Definition g_at (st : pool) (a : N) : Prop :=
  (forall l, p_pending st a = Some l -> contig (ch_nonce (p_chain st) a) (l_txs l)) /\
  pn_get a st = ch_nonce (p_chain st) a + N.of_nat (pending_len a st).
(* pending_gapless + pendingNonces consistency *)
Definition GInv (st : pool) : Prop := forall a, g_at st a.

(* g_at only looks at these fields *)
Lemma g_at_same : forall st st' a, p_pending st' a = p_pending st a -> p_pn st' a = p_pn st a -> p_chain st' = p_chain st ->
  g_at st a -> g_at st' a.
Proof.
  intros st st' a P N C [G1 G2]. unfold g_at, pn_get, pending_len in *. rewrite P, N, C. split; assumption.
Qed.

Lemma pn_priced_removed : forall n s, p_pn (priced_removed n s) = p_pn s.
Proof. intros. unfold priced_removed. destruct (_ <=? _)%Z; reflexivity. Qed.
Lemma pn_all_remove : forall t s, p_pn (all_remove t s) = p_pn s.
Proof. intros. unfold all_remove. destruct (all_has t s); reflexivity. Qed.
Lemma pn_chk : forall l s, p_pn (chk l s) = p_pn s. Proof. intros. unfold chk. destruct (_ <? _)%Z; reflexivity. Qed.
Lemma chain_chk : forall l s, p_chain (chk l s) = p_chain s. Proof. intros. unfold chk. destruct (_ <? _)%Z; reflexivity. Qed.
Lemma pn_q_remove : forall a t s, p_pn (q_remove a t s) = p_pn s /\ p_chain (q_remove a t s) = p_chain s.
Proof.
  intros. unfold q_remove. destruct (p_queue s a) as [fl|]; [|split; reflexivity].
  destruct (sm_get (t_nonce t) (l_txs fl)) as [o|].
  - destruct (negb (tx_eqb o t)); [split; reflexivity|]. destruct (list_remove t fl) as [[b inv] fl'].
    destruct (l_empty fl'); unfold put_queue; rewrite ?pn_chk, ?chain_chk; split; reflexivity.
  - destruct (l_empty fl); split; reflexivity.
Qed.

Lemma contig_length_bound : forall l s x, contig s l -> In x l -> t_nonce x < s + N.of_nat (length l).
Proof.
  induction l as [|y l IH]; intros s x H Hx; [destruct Hx|]. destruct H as [Hy Hr]. cbn [length].
  destruct Hx as [->|Hx]; [lia|]. specialize (IH _ _ Hr Hx). lia.
Qed.

(* in a contiguous run, the txs below a nonce are a prefix of known length *)
Lemma contig_filter_lt_len : forall l s n, contig s l -> s <= n -> n <= s + N.of_nat (length l) ->
  length (filter (fun x => t_nonce x <? n) l) = N.to_nat (n - s).
Proof.
  induction l as [|y l IH]; intros s n H Hs Hn; cbn [filter length] in *; [lia|]. destruct H as [Hy Hr].
  destruct (t_nonce y <? n) eqn:E.
  - cbn [length]. rewrite (IH (s + 1) n Hr); lia.
  - assert (n = s) by lia. subst n. rewrite filter_all_false; [cbn; lia|].
    intros x Hx. pose proof (contig_lower _ _ _ Hr Hx). apply N.ltb_ge. lia.
Qed.

Lemma list_remove_strict_txs : forall t l inv l', l_strict l = true -> list_remove t l = (true, inv, l') ->
  l_txs l' = filter (fun x => t_nonce x <? t_nonce t) (l_txs l).
Proof.
  intros t l inv l' Hst H. unfold list_remove, sm_remove in H.
  destruct (sm_get (t_nonce t) (l_txs l)); [|discriminate]. rewrite Hst in H. unfold sm_filter in H. inversion H; subst; clear H.
  cbn [with_txs l_txs]. induction (l_txs l) as [|y r IH]; [reflexivity|]. cbn [filter].
  destruct (t_nonce y =? t_nonce t) eqn:E1; cbn [negb filter].
  - destruct (t_nonce y <? t_nonce t) eqn:E3; [lia | exact IH].
  - destruct (t_nonce t <? t_nonce y) eqn:E2; destruct (t_nonce y <? t_nonce t) eqn:E3; cbn [negb]; try lia; rewrite IH; reflexivity.
Qed.

(* removeTx *)
Lemma remove_tx_G : forall k t oob st, SInv st -> GInv st -> GInv (fst (remove_tx (S (S k)) t oob st)).
Proof.
  intros k t oob st HS HG. cbn [remove_tx]. destruct (all_has t st) eqn:Eh; cbn [negb fst]; [|exact HG].
  apply all_has_In in Eh. set (a := t_from t).
  set (st2 := if oob then priced_removed 1 (all_remove t st) else all_remove t st).
  assert (F2 : p_pending st2 = p_pending st /\ p_queue st2 = p_queue st /\ p_pn st2 = p_pn st /\ p_chain st2 = p_chain st /\ p_cfg st2 = p_cfg st).
  { destruct (all_remove_spec t st (SInv_AInv _ HS)) as [_ [_ [C1 [Ch1 [P1 [Q1 [_ Pn1]]]]]]].
    unfold st2. destruct oob; [|tauto]. pose proof (core_priced_removed 1 (all_remove t st)) as Hc. core_inv Hc.
    rewrite pn_priced_removed, Epend, Equeue, Echain, Ecfg. tauto. }
  destruct F2 as [P2 [Q2 [N2 [Ch2 C2]]]].
  assert (Hloc : inP st t \/ inQ st t) by (apply (s_union _ HS), Eh).
  rewrite P2. destruct (p_pending st a) as [pl|] eqn:Ep.
  2:{ destruct (pn_q_remove a t st2) as [Nq Chq]. cbn [fst]. intros b. apply (g_at_same st); [rewrite pend_q_remove, P2; reflexivity | rewrite Nq, N2; reflexivity | rewrite Chq, Ch2; reflexivity | apply HG]. }
  destruct (s_pw _ HS a pl Ep) as [Lp Ha].
  destruct (list_remove t pl) as [[found inv] pl'] eqn:Er. destruct found.
  2:{ destruct (pn_q_remove a t st2) as [Nq Chq]. cbn [fst]. intros b. apply (g_at_same st); [rewrite pend_q_remove, P2; reflexivity | rewrite Nq, N2; reflexivity | rewrite Chq, Ch2; reflexivity | apply HG]. }
  (* t's nonce is pending: by disjointness t itself is the pending tx *)
  assert (Hin : In t (l_txs pl)).
  { destruct Hloc as [Hp|Hq]; [unfold inP in Hp; fold a in Hp; rewrite Ep in Hp; exact Hp|]. exfalso.
    unfold inQ in Hq. fold a in Hq. destruct (p_queue st a) as [ql|] eqn:Eq; [|destruct Hq].
    pose proof (s_disj _ HS a pl ql t Ep Eq Hq) as Hd. unfold list_remove, sm_remove in Er. rewrite Hd in Er. discriminate. }
  destruct (list_remove_spec _ _ _ _ t Lp Hin) as [inv0 [pl0 [Er0 [Lp' [Mp' [Minv Sinv]]]]]]. rewrite Er in Er0. inversion Er0; subst inv0 pl0; clear Er0.
  pose proof (list_remove_strict_txs t pl inv pl' (lk_strict _ _ _ _ Lp) Er) as Htx.
  set (st3 := if l_empty pl' then chk pl' (del_pending a st2) else put_pending a pl' st2).
  assert (F3 : (forall b, p_pending st3 b = upd (p_pending st) a (stored pl') b) /\ p_queue st3 = p_queue st /\
               p_pn st3 = p_pn st /\ p_chain st3 = p_chain st /\ p_cfg st3 = p_cfg st).
  { unfold st3, stored, put_pending. rewrite !(chk_ok _ _ _ _ _ Lp'). destruct (l_empty pl'); cbn; rewrite ?P2, ?Q2, ?N2, ?Ch2, ?C2; repeat split; reflexivity. }
  destruct F3 as [P3 [Q3 [N3 [Ch3 C3]]]].
  assert (Hinv : forall x, In x inv -> In x (l_txs pl) /\ t_nonce t < t_nonce x) by (intros x Hx; apply Minv in Hx; tauto).
  destruct (enqueue_many k inv st3 a) as [_ [_ [_ F4]]].
  { intros ql Hq0. rewrite C3. rewrite Q3 in Hq0. apply (s_qw _ HS a ql Hq0). }
  { intros x Hx. rewrite C3. apply (lk_mem _ _ _ _ Lp), Hinv, Hx. }
  { exact Sinv. }
  { intros x ql Hx Hq0. rewrite Q3 in Hq0. destruct (sm_get (t_nonce x) (l_txs ql)) as [o|] eqn:Eo; [|reflexivity].
    apply sm_get_In in Eo. destruct Eo as [Ho1 Ho2]. pose proof (s_disj _ HS a pl ql o Ep Hq0 Ho1) as Hd. rewrite Ho2 in Hd.
    exfalso. eapply In_sm_get; [apply (Hinv x Hx) | exact Hd]. }
  set (st4 := fold_left (fun s x => fst (enqueue_tx (S k) x false s)) inv st3) in *.
  destruct F4 as [_ [Ch4 [P4 [_ [_ [_ N4]]]]]]. cbn [fst].
  (* the bookkeeping *)
  destruct (HG a) as [G1 G2]. unfold pending_len in G2. rewrite Ep in G2. specialize (G1 pl Ep).
  set (s := ch_nonce (p_chain st) a) in *. set (n := t_nonce t) in *.
  assert (Hn1 : s <= n) by (apply (contig_lower _ _ _ G1 Hin)).
  assert (Hn2 : n < s + N.of_nat (l_len pl)) by (apply (contig_length_bound _ _ _ G1 Hin)).
  assert (Hlen : length (l_txs pl') = N.to_nat (n - s)) by (rewrite Htx; apply contig_filter_lt_len; [exact G1 | exact Hn1 | unfold l_len in Hn2; lia]).
  intros b. destruct (N.eq_dec b a) as [->|Hne].
  - unfold g_at, pn_get, pending_len, pn_set_if_lower, pn_get.
    assert (Hpn4 : p_pn st4 a = p_pn st a) by (rewrite N4, N3; reflexivity).
    assert (Hch4 : p_chain st4 = p_chain st) by congruence.
    assert (Hget : pn_get a st4 = s + N.of_nat (l_len pl)) by (unfold pn_get; rewrite Hpn4, Hch4; exact G2).
    unfold pn_get in Hget. destruct (match p_pn st4 a with Some n0 => n0 | None => ch_nonce (p_chain st4) a end <=? n) eqn:El; [apply N.leb_le in El; lia|].
    cbn [pn_set set_pn p_pn p_pending p_chain]. rewrite P4, P3, Hch4, !upd_same. fold s. split.
    + intros l0 Hl0. unfold stored in Hl0. destruct (l_empty pl'); inversion Hl0; subst l0. rewrite Htx. apply contig_filter_lt, G1.
    + unfold stored. destruct (l_empty pl') eqn:Ee.
      * rewrite (l_empty_true_nil _ Ee) in Hlen. cbn in Hlen. lia.
      * unfold l_len. rewrite Hlen. lia.
  - apply (g_at_same st).
    + pose proof (core_pn_set_if_lower a n st4) as Hc. core_inv Hc. rewrite Epend, P4, P3. apply upd_other, Hne.
    + unfold pn_set_if_lower. destruct (_ <=? _); [rewrite N4, N3; reflexivity|]. cbn. rewrite (upd_other _ _ _ _ Hne), N4, N3. reflexivity.
    + pose proof (core_pn_set_if_lower a n st4) as Hc. core_inv Hc. congruence.
    + apply HG.
Qed.

Lemma contig_skipn_last : forall l s m, contig s l -> length l = S m ->
  exists y, skipn m l = [y] /\ t_nonce y = s + N.of_nat m.
Proof.
  induction l as [|x l IH]; intros s m H Hl; [discriminate|]. destruct H as [Hx Hr]. cbn [length] in Hl.
  destruct m as [|m].
  - destruct l; [|cbn in Hl; discriminate]. exists x. split; [reflexivity|]. change (N.of_nat 0) with 0. rewrite N.add_0_r. exact Hx.
  - cbn [skipn]. destruct (IH (s + 1) m Hr) as [y [Hy1 Hy2]]; [lia|]. exists y. split; [exact Hy1 | lia].
Qed.

Lemma pn_set_if_lower_get : forall a n s b, pn_get b (pn_set_if_lower a n s) =
  if b =? a then N.min (pn_get a s) n else pn_get b s.
Proof.
  intros. unfold pn_set_if_lower. destruct (pn_get a s <=? n) eqn:E.
  - destruct (b =? a) eqn:Eb; [|reflexivity]. apply N.eqb_eq in Eb. subst b. apply N.leb_le in E. lia.
  - apply N.leb_gt in E. destruct (b =? a) eqn:Eb.
    + apply N.eqb_eq in Eb. subst b. unfold pn_get at 1. cbn. rewrite upd_same. lia.
    + unfold pn_get. cbn. unfold upd. rewrite Eb. reflexivity.
Qed.

(* one fairness step of truncatePending *)
Lemma trunc_one_G : forall a st, SInv st -> GInv st -> GInv (trunc_one a st).
Proof.
  intros a st HS HG. unfold trunc_one. destruct (p_pending st a) as [l|] eqn:Ep; [|exact HG].
  destruct (s_pw _ HS a l Ep) as [Lp _].
  destruct (list_cap (Nat.pred (l_len l)) l) as [caps l'] eqn:Ec.
  destruct (list_cap_spec _ _ _ _ _ _ _ Lp Ec) as [Lp' _].
  set (st1 := put_pending a l' st).
  set (st2 := fold_left (fun s t => pn_set_if_lower a (t_nonce t) (all_remove t s)) caps st1).
  pose proof (core_priced_removed (length caps) st2) as Hc. core_inv Hc.
  assert (P2 : p_pending st2 = p_pending st1).
  { unfold st2. apply fold_pend_same. intros s t. pose proof (core_pn_set_if_lower a (t_nonce t) (all_remove t s)) as Hc2. core_inv Hc2. rewrite Epend0. apply pend_all_remove. }
  assert (Ch2 : p_chain st2 = p_chain st).
  { unfold st2. assert (H : forall cs s, p_chain (fold_left (fun s t => pn_set_if_lower a (t_nonce t) (all_remove t s)) cs s) = p_chain s).
    { induction cs as [|c cs IH]; intros s; cbn [fold_left]; [reflexivity|]. rewrite IH.
      pose proof (core_pn_set_if_lower a (t_nonce c) (all_remove c s)) as Hc2. core_inv Hc2. rewrite Echain0. unfold all_remove. destruct (all_has c s); reflexivity. }
    rewrite H. unfold st1, put_pending. rewrite chain_chk. reflexivity. }
  assert (Hother : forall cs s b, b <> a -> pn_get b (fold_left (fun s t => pn_set_if_lower a (t_nonce t) (all_remove t s)) cs s) = pn_get b s).
  { induction cs as [|c cs IH]; intros s b Hb; cbn [fold_left]; [reflexivity|]. rewrite (IH _ b Hb), pn_set_if_lower_get.
    destruct (b =? a) eqn:E; [apply N.eqb_eq in E; contradiction|]. unfold pn_get. rewrite pn_all_remove. unfold all_remove. destruct (all_has c s); reflexivity. }
  assert (Hpn1 : forall b, pn_get b st1 = pn_get b st) by (intros b; unfold pn_get, st1, put_pending; rewrite pn_chk, chain_chk; reflexivity).
  destruct (HG a) as [G1 G2]. unfold pending_len in G2. rewrite Ep in G2. specialize (G1 l Ep).
  intros b. destruct (N.eq_dec b a) as [->|Hne].
  2:{ destruct (HG b) as [Gb1 Gb2]. unfold g_at, pending_len. rewrite Echain, Ch2.
      assert (Epb : p_pending (priced_removed (length caps) st2) b = p_pending st b) by (rewrite Epend, P2; unfold st1; rewrite pend_put_pending; apply upd_other, Hne).
      rewrite Epb. split; [exact Gb1|].
      assert (Hg : pn_get b (priced_removed (length caps) st2) = pn_get b st2) by (unfold pn_get; rewrite pn_priced_removed, Echain; reflexivity).
      rewrite Hg. unfold st2. rewrite (Hother caps st1 b Hne), Hpn1. exact Gb2. }
  unfold g_at, pending_len. rewrite Echain, Ch2.
  assert (Epa : p_pending (priced_removed (length caps) st2) a = Some l') by (rewrite Epend, P2; unfold st1; rewrite pend_put_pending; apply upd_same).
  rewrite Epa.
  assert (Hg : pn_get a (priced_removed (length caps) st2) = pn_get a st2) by (unfold pn_get; rewrite pn_priced_removed, Echain; reflexivity).
  rewrite Hg. unfold list_cap, sm_cap in Ec. unfold l_len in *.
  destruct (length (l_txs l)) as [|m] eqn:El.
  - cbn [Nat.pred Nat.leb] in Ec. inversion Ec; subst caps l'. cbn [with_txs l_txs] in *.
    split; [intros l0 H0; inversion H0; subst; exact G1|]. unfold st2. cbn [fold_left]. rewrite Hpn1, El. exact G2.
  - cbn [Nat.pred] in Ec. assert (Hleb : Nat.leb (S m) m = false) by (apply Nat.leb_gt; lia). rewrite Hleb in Ec. inversion Ec; subst caps l'. cbn [with_txs l_txs] in *.
    destruct (contig_skipn_last _ _ m G1 El) as [y [Hy1 Hy2]].
    split; [intros l0 H0; inversion H0; subst; cbn [l_txs]; apply contig_firstn, G1|].
    unfold st2. rewrite Hy1. cbn [rev app fold_left]. rewrite pn_set_if_lower_get, N.eqb_refl.
    assert (Hga : pn_get a (all_remove y st1) = pn_get a st).
    { rewrite <- (Hpn1 a). unfold pn_get. rewrite pn_all_remove. unfold all_remove. destruct (all_has y st1); reflexivity. }
    rewrite Hga, G2, Hy2. rewrite firstn_length, El. lia.
Qed.

Lemma GInv_core_pn : forall s s', core s' = core s -> p_pn s' = p_pn s -> GInv s -> GInv s'.
Proof. intros s s' Hc Hn HG a. core_inv Hc. apply (g_at_same s); [rewrite Epend; reflexivity | rewrite Hn; reflexivity | exact Echain | apply HG]. Qed.

Lemma GInv_core_setfuel : forall s s', core s' = core s -> GInv s -> p_pn s' = p_pn s -> GInv s'.
Proof. intros. eapply GInv_core_pn; eassumption. Qed.

Lemma truncate_pending_G : forall st, SInv st -> GInv st -> GInv (truncate_pending st).
Proof.
  intros st HS HG. apply (truncate_pending_pres GInv trunc_one_G); [|exact HS | exact HG].
  intros s H. eapply GInv_core_pn; [apply core_set_fuel | reflexivity | exact H].
Qed.

Lemma pn_fold_same {A} (g : pool -> A -> pool) : (forall s x, p_pn (g s x) = p_pn s) ->
  forall l s, p_pn (fold_left g l s) = p_pn s.
Proof. intros Hg l. induction l as [|x l IH]; intros s; cbn [fold_left]; [reflexivity | rewrite IH; apply Hg]. Qed.

Lemma q_truncate_loop_pn : forall addrs drop removed st, p_pn (snd (q_truncate_loop addrs drop removed st)) = p_pn st.
Proof.
  induction addrs as [|a addrs IH]; intros; cbn [q_truncate_loop]; [reflexivity|].
  destruct drop; [reflexivity|]. destruct (p_queue st a) as [l|]; [|apply IH].
  destruct (Nat.leb _ _); rewrite IH; apply pn_fold_same; intros s x; apply (pn_q_remove a x s).
Qed.

Lemma truncate_queue_G : forall st, SInv st -> GInv st -> GInv (truncate_queue st).
Proof.
  intros st HS HG. destruct (truncate_queue_SInv st HS) as [_ [_ [Ch P]]].
  assert (N : p_pn (truncate_queue st) = p_pn st).
  { unfold truncate_queue. destruct (Nat.leb _ _); [reflexivity|].
    pose proof (q_truncate_loop_pn (queue_by_beat st) (queue_count st - N.to_nat (c_gqueue (p_cfg st))) [] st) as H.
    destruct (q_truncate_loop _ _ _ _) as [removed st1]. cbn [snd] in H.
    rewrite pn_priced_removed. rewrite (pn_fold_same (fun s t => all_remove t s) (fun s t => pn_all_remove t s)). exact H. }
  intros a. apply (g_at_same st); [rewrite P; reflexivity | rewrite N; reflexivity | exact Ch | apply HG].
Qed.

(* SetGasTip *)
Lemma pool_SetGasTip_G : forall tip st, SInv st -> GInv st -> GInv (pool_SetGasTip tip st).
Proof.
  intros tip st HS HG. unfold pool_SetGasTip.
  assert (G0 : SInv (set_gastip st tip) /\ GInv (set_gastip st tip)).
  { split; [eapply SInv_core; [apply core_set_gastip | exact HS] | eapply GInv_core_pn; [apply core_set_gastip | reflexivity | exact HG]]. }
  destruct (p_gastip st <? tip); [|apply G0].
  eapply GInv_core_pn; [apply core_priced_removed | apply pn_priced_removed|].
  generalize (filter (fun t => t_tip t <? tip) (p_all (set_gastip st tip))). intros drop.
  revert G0. generalize (set_gastip st tip). induction drop as [|d drop IH]; intros s [S1 G1]; cbn [fold_left]; [exact G1|].
  apply IH. change FUEL with (S (S 4)). split; [apply (remove_tx_SInv 4 d false s S1) | apply remove_tx_G; assumption].
Qed.

(* the listing calls *)
Lemma flatten_pending_G : forall a st, GInv st -> GInv (snd (flatten_pending a st)).
Proof.
  intros a st HG. unfold flatten_pending. destruct (p_pending st a) as [l|] eqn:Ep; [|exact HG].
  unfold list_flatten. cbn [snd]. intros b. destruct (HG b) as [G1 G2]. unfold g_at, pn_get, pending_len in *. cbn.
  unfold upd. destruct (b =? a) eqn:E; [|split; assumption]. apply N.eqb_eq in E. subst b. rewrite Ep in *.
  split; [intros l0 H0; inversion H0; subst; cbn [with_txs l_txs]; apply (G1 l eq_refl) | exact G2].
Qed.
Lemma flatten_queue_G : forall a st, GInv st -> GInv (snd (flatten_queue a st)).
Proof.
  intros a st HG. unfold flatten_queue. destruct (p_queue st a); [|exact HG]. unfold list_flatten. cbn [snd].
  intros b. apply (g_at_same st); try reflexivity. apply HG.
Qed.
Lemma pool_ContentFrom_G : forall a st, GInv st -> GInv (snd (pool_ContentFrom a st)).
Proof.
  intros a st HG. unfold pool_ContentFrom. pose proof (flatten_pending_G a st HG) as H1. destruct (flatten_pending a st) as [p st1].
  pose proof (flatten_queue_G a st1 H1) as H2. destruct (flatten_queue a st1) as [q st2]. exact H2.
Qed.
Lemma pool_Content_G : forall st, GInv st -> GInv (snd (pool_Content st)).
Proof.
  intros st HG. unfold pool_Content. generalize (c_accts (p_cfg st)). intros accts.
  assert (H : forall acc s, GInv s -> GInv (snd (fold_left (fun '(acc, s) a => let '(pq, s') := pool_ContentFrom a s in (acc ++ [pq], s')) accts (acc, s)))).
  { induction accts as [|a accts IH]; intros acc s Hs; cbn [fold_left snd]; [exact Hs|].
    pose proof (pool_ContentFrom_G a s Hs) as H1. destruct (pool_ContentFrom a s) as [pq s']. apply IH, H1. }
  apply H, HG.
Qed.
Lemma pool_Pending_G : forall st, GInv st -> GInv (snd (pool_Pending st)).
Proof.
  intros st HG. unfold pool_Pending. generalize (c_accts (p_cfg st)). intros accts.
  assert (H : forall acc s, GInv s -> GInv (snd (fold_left (fun '(acc, s) a => let '(p, s') := flatten_pending a s in (acc ++ [p], s')) accts (acc, s)))).
  { induction accts as [|a accts IH]; intros acc s Hs; cbn [fold_left snd]; [exact Hs|].
    pose proof (flatten_pending_G a s Hs) as H1. destruct (flatten_pending a s) as [p s']. apply IH, H1. }
  apply H, HG.
Qed.

(* ---------- LegacyPool.add ---------- *)
Lemma pn_priced_underpriced : forall t st, p_pn (snd (priced_underpriced t st)) = p_pn st.
Proof.
  intros. unfold priced_underpriced. destruct (drop_stale (p_all st) (p_urgent st)) as [u nu].
  destruct (_ || _); [destruct (drop_stale (p_all st) (p_floating st)) as [f nf]|]; reflexivity.
Qed.
Lemma pn_priced_discard : forall z st, p_pn (snd (priced_discard z st)) = p_pn st.
Proof.
  intros. unfold priced_discard. destruct (priced_discard_loop _ _ _ _ _ _ _) as [[[[[u f] s] d] l]|]; [|reflexivity].
  destruct (0 <? l)%Z; reflexivity.
Qed.
Lemma pn_q_bump : forall a s, p_pn (q_bump a s) = p_pn s.
Proof. intros. unfold q_bump. destruct (p_beats s a); reflexivity. Qed.

Definition SG (s : pool) : Prop := SInv s /\ GInv s.

Lemma evict_SG : forall t st, SG st -> SG (snd (evict_of t st)).
Proof.
  intros t st [HS HG]. pose proof (evict_Good t st HS) as [[S' _] _]. split; [exact S'|]. clear S'.
  unfold evict_of. destruct (negb _); [exact HG|].
  pose proof (core_priced_underpriced t st) as H1. pose proof (pn_priced_underpriced t st) as N1.
  destruct (priced_underpriced t st) as [under st1]. cbn [snd] in *.
  assert (G1 : SG st1) by (split; [eapply SInv_core; eassumption | eapply GInv_core_pn; eassumption]).
  destruct under; [apply G1|]. destruct (_ <? _); [apply G1|].
  match goal with |- context [priced_discard ?z st1] => pose proof (core_priced_discard z st1) as H2; pose proof (pn_priced_discard z st1) as N2; destruct (priced_discard z st1) as [[drop|] st2] end; cbn [snd] in *;
    assert (G2 : SG st2) by (destruct G1 as [A B]; split; [eapply SInv_core; eassumption | eapply GInv_core_pn; eassumption]); [|apply G2].
  destruct (_ && _); cbn [snd].
  - clear -G2. revert st2 G2. induction drop as [|d drop IH]; intros s G; cbn [fold_left]; [apply G|].
    apply IH. destruct G as [A B]. split; [eapply SInv_core; [apply core_priced_put | exact A] | eapply GInv_core_pn; [apply core_priced_put | reflexivity | exact B]].
  - clear -G2. revert st2 G2. induction drop as [|d drop IH]; intros s [A B]; cbn [fold_left]; [exact B|].
    apply IH. pose proof (remove_tx_SInv 4 d false s A) as [S2 _]. pose proof (remove_tx_G 4 d false s A B) as G3.
    change (S (S 4)) with FUEL in *. destruct (remove_tx FUEL d false s) as [s' n]. cbn [fst] in *.
    split; [eapply SInv_core; [apply core_set_changes | exact S2] | eapply GInv_core_pn; [apply core_set_changes | reflexivity | exact G3]].
Qed.

Lemma contig_put_replace : forall t l s o, contig s l -> sm_get (t_nonce t) l = Some o ->
  contig s (sm_put t l) /\ length (sm_put t l) = length l.
Proof.
  induction l as [|y l IH]; intros s o H Hg; [discriminate|]. destruct H as [Hy Hr].
  unfold sm_get in Hg. cbn [find] in Hg. cbn [sm_put].
  destruct (t_nonce y =? t_nonce t) eqn:E.
  - apply N.eqb_eq in E. destruct (t_nonce t <? t_nonce y) eqn:E1; [lia|]. destruct (t_nonce t =? t_nonce y) eqn:E2; [|lia].
    split; [split; [lia | exact Hr] | reflexivity].
  - apply N.eqb_neq in E. fold (sm_get (t_nonce t) l) in Hg. pose proof (sm_get_In _ _ _ Hg) as [Ho1 Ho2].
    pose proof (contig_lower _ _ _ Hr Ho1) as Hlo.
    destruct (t_nonce t <? t_nonce y) eqn:E1; [lia|]. destruct (t_nonce t =? t_nonce y) eqn:E2; [lia|].
    destruct (IH (s + 1) o Hr Hg) as [H1 H2]. split; [split; [exact Hy | exact H1] | cbn [length]; lia].
Qed.

(* enqueueTx of a new tx leaves the pending lists and the pending nonces alone *)
Lemma enqueue_true_frames : forall k t st, SInv st -> ~ In t (p_all st) ->
  (forall pl, p_pending st (t_from t) = Some pl -> sm_get (t_nonce t) (l_txs pl) = None) ->
  p_pending (fst (enqueue_tx (S (S k)) t true st)) = p_pending st /\
  p_pn (fst (enqueue_tx (S (S k)) t true st)) = p_pn st /\ p_chain (fst (enqueue_tx (S (S k)) t true st)) = p_chain st.
Proof.
  intros k t st HS Hnt Hnp. set (a := t_from t). cbn [enqueue_tx]. unfold q_add. fold a.
  set (l0 := match p_queue st a with Some l => l | None => new_list false end).
  assert (L0 : lok (p_cfg st) false a l0) by (unfold l0; destruct (p_queue st a) eqn:E; [apply (s_qw _ HS a t0 E) | apply lok_new]).
  assert (Hl0 : forall x, In x (l_txs l0) <-> in_opt x (p_queue st a)) by (intros x; unfold l0, in_opt; destruct (p_queue st a); [reflexivity | cbn; tauto]).
  destruct (list_add t (c_bump (p_cfg st)) l0) as [[old| |] l1] eqn:Ea; cbn [fst].
  2:{ unfold put_queue. rewrite pend_chk, pn_chk, chain_chk. cbn. repeat split; reflexivity. }
  2:{ unfold put_queue. cbn [set_ovf p_pending p_pn p_chain]. rewrite pend_chk, pn_chk, chain_chk. cbn. repeat split; reflexivity. }
  destruct (list_add_ok_inv _ _ _ _ _ Ea) as [Hold [Ht1 _]]. subst old.
  pose proof (lw_sorted _ (lk_wf _ _ _ _ L0)) as Hso.
  set (sq := put_queue a l1 st).
  set (sb := match p_beats sq a with Some _ => sq | None => let '(now, s) := tick sq in set_beats s (upd (p_beats s) a (Some now)) end).
  assert (Fb : p_pending sb = p_pending st /\ p_pn sb = p_pn st /\ p_chain sb = p_chain st /\ p_all sb = p_all st /\ p_queue sb = upd (p_queue st) a (Some l1)).
  { unfold sb, sq, put_queue. destruct (p_beats _ a); cbn; rewrite ?pend_chk, ?pn_chk, ?chain_chk; unfold chk; destruct (_ <? _)%Z; cbn; repeat split; reflexivity. }
  destruct Fb as [Pb [Nb [Chb [Alb Qb]]]].
  destruct (sm_get (t_nonce t) (l_txs l0)) as [o|] eqn:Eg.
  - pose proof (sm_get_In _ _ _ Eg) as [Ho1 Ho2].
    assert (Hfo : t_from o = a) by apply (lk_mem _ _ _ _ L0 o Ho1).
    assert (Hoall : In o (p_all st)) by (apply (s_union _ HS o); right; unfold inQ; rewrite Hfo; apply Hl0, Ho1).
    rewrite (remove_tx_replaced k o sb t).
    + cbn [priced_put set_priced all_add set_all p_pending p_pn p_chain].
      pose proof (core_priced_removed 1 (all_remove o sb)) as Hc. core_inv Hc.
      rewrite Epend, pn_priced_removed, Echain, pend_all_remove, pn_all_remove. unfold all_remove. destruct (all_has o sb); cbn; tauto.
    + apply all_has_In. rewrite Alb. exact Hoall.
    + intros pl Hp. rewrite Pb, Hfo in Hp. rewrite Ho2. apply (Hnp pl Hp).
    + exists l1. rewrite Qb, Hfo, upd_same. split; [reflexivity|]. rewrite Ht1, Ho2. split; [apply sm_get_put_same, Hso | intros ->; contradiction].
  - cbn. tauto.
Qed.

Lemma tail_G : forall t c st1, SInv st1 -> GInv st1 -> ~ In t (p_all st1) -> GInv (fst (fst (tail_of t c st1))).
Proof.
  intros t c st1 HS HG Hnt. unfold tail_of.
  assert (Henq : (forall pl, p_pending st1 (t_from t) = Some pl -> sm_get (t_nonce t) (l_txs pl) = None) ->
                 GInv (fst (fst (match enqueue_tx FUEL t true st1 with
                        | (st2, None) => (st2, E_REPLACEUNDER, false) | (st2, Some r0) => (st2, E_OK, r0) end)))).
  { intros Hnp. pose proof (enqueue_true_frames 4 t st1 HS Hnt Hnp) as [P [N Ch]]. change (S (S 4)) with FUEL in *.
    destruct (enqueue_tx FUEL t true st1) as [s2 [r0|]]; cbn [fst] in *; intros b; (apply (g_at_same st1); [rewrite P; reflexivity | rewrite N; reflexivity | exact Ch | apply HG]). }
  destruct (p_pending st1 (t_from t)) as [l|] eqn:Ep; [|apply Henq; intros pl H; discriminate].
  unfold l_contains. destruct (sm_get (t_nonce t) (l_txs l)) as [o|] eqn:Eg; [|apply Henq; intros pl H; inversion H; subst; exact Eg].
  destruct (list_add t (c_bump c) l) as [[old| |] l'] eqn:Ea; cbn [fst]; [| exact HG | eapply GInv_core_pn; [apply core_set_ovf | reflexivity | exact HG]].
  destruct (list_add_ok_inv _ _ _ _ _ Ea) as [_ [Ht _]].
  set (a := t_from t) in *.
  set (st3 := match old with Some o0 => priced_removed 1 (all_remove o0 (put_pending a l' st1)) | None => put_pending a l' st1 end).
  assert (F3 : (forall b, p_pending st3 b = upd (p_pending st1) a (Some l') b) /\ p_pn st3 = p_pn st1 /\ p_chain st3 = p_chain st1).
  { unfold st3. destruct old as [o0|].
    - pose proof (core_priced_removed 1 (all_remove o0 (put_pending a l' st1))) as Hc. core_inv Hc.
      split; [intros b; rewrite Epend, pend_all_remove; apply pend_put_pending|].
      rewrite pn_priced_removed, pn_all_remove, Echain. unfold put_pending. rewrite pn_chk. unfold all_remove. destruct (all_has o0 _); cbn; rewrite chain_chk; split; reflexivity.
    - split; [intros b; apply pend_put_pending|]. unfold put_pending. rewrite pn_chk, chain_chk. split; reflexivity. }
  destruct F3 as [P3 [N3 Ch3]].
  set (st' := q_bump a (priced_put t (all_add t st3))).
  assert (F' : (forall b, p_pending st' b = upd (p_pending st1) a (Some l') b) /\ p_pn st' = p_pn st1 /\ p_chain st' = p_chain st1).
  { unfold st'. pose proof (core_q_bump a (priced_put t (all_add t st3))) as Hc. core_inv Hc.
    split; [intros b; rewrite Epend; cbn; apply P3|]. rewrite pn_q_bump, Echain. cbn. split; assumption. }
  destruct F' as [P' [N' Ch']].
  intros b. destruct (N.eq_dec b a) as [->|Hne].
  - destruct (HG a) as [G1 G2]. unfold g_at, pn_get, pending_len in *. rewrite P', N', Ch', upd_same. rewrite Ep in *.
    destruct (contig_put_replace t (l_txs l) _ o (G1 l eq_refl) Eg) as [H1 H2].
    split; [intros l0 H0; inversion H0; subst; rewrite Ht; exact H1|]. unfold l_len. rewrite Ht, H2. exact G2.
  - apply (g_at_same st1); [rewrite P'; apply upd_other, Hne | rewrite N'; reflexivity | exact Ch' | apply HG].
Qed.

Lemma pool_add_SG : forall t st, SG st -> okt (p_cfg st) t -> SG (fst (fst (pool_add t st))).
Proof.
  intros t st [HS HG] Hk. split; [apply (pool_add_RS t st HS Hk)|].
  rewrite pool_add_unfold. destruct (all_has t st) eqn:Eh; [exact HG|]. cbv zeta.
  destruct (negb (validate_state t st =? E_OK)); [exact HG|].
  pose proof (evict_SG t st (conj HS HG)) as [S1 G1]. pose proof (evict_Good t st HS) as [_ Hsub].
  destruct (evict_of t st) as [[err|] st1]; cbn [snd fst] in *; [exact G1|].
  apply tail_G; [exact S1 | exact G1|]. intros H. apply Hsub in H. apply all_has_In in H. congruence.
Qed.

Lemma add_txs_locked_SG : forall txs errs st dirty, SG st -> (forall t, In t txs -> okt (p_cfg st) t) ->
  SG (fst (fst (add_txs_locked txs errs st dirty))).
Proof.
  induction txs as [|t ts IH]; intros errs st dirty H Hk; cbn [add_txs_locked]; [exact H|].
  destruct errs as [|e es]; [exact H|].
  destruct (negb (e =? E_OK)).
  - pose proof (IH es st dirty H (fun x Hx => Hk x (or_intror Hx))) as R.
    destruct (add_txs_locked ts es st dirty) as [[s' es'] d']. exact R.
  - pose proof (pool_add_SG t st H (Hk t (or_introl eq_refl))) as R1.
    pose proof (pool_add_RS t st (proj1 H) (Hk t (or_introl eq_refl))) as [_ [C1 _]].
    destruct (pool_add t st) as [[st1 e1] rep]. cbn [fst] in *.
    match goal with |- context [add_txs_locked ts es st1 ?d] =>
      pose proof (IH es st1 d R1 (fun x Hx => eq_ind_r (fun c => okt c x) (Hk x (or_intror Hx)) C1)) as R2; destruct (add_txs_locked ts es st1 d) as [[s' es'] d'] end.
    exact R2.
Qed.
