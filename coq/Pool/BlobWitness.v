(* Pool/BlobWitness.v — concrete histories of the blob pool model (Pool/Blob.v) that refute
   the unguarded clauses of C42, evaluated by the kernel (vm_compute).  The same histories
   are the first lines of corpus/C42/edge.txt and are replayed on the real BlobPool by
   harness/c42 on every run. *)
From Coq Require Import List NArith ZArith Bool Lia.
From GV Require Import Lib.Tactics Pool.Blob.
Import ListNotations.
Local Open Scope N_scope.

(* fee tables of the witnesses: every fee cap is above the base fee / blob fee, so every
   eviction priority is 0 and only the rolling tip orders the accounts *)
Definition wprio (_ _ : N) : Z := 0%Z.
Definition wgt (a b : N) : bool := b <? a.
Definition wnear (a b : N) : bool := a =? b.

Definition rich : N := 1125899906842624.
Definition N0 : N := 20000000.
Definition wtx (id from nonce tip : N) : tx := mkTx id from nonce tip 100 7 3017972 1.
Definition wblock (id parent num : N) (txs : list btx) (n0 : N) : block :=
  mkBlock id parent num txs [(0, n0); (1, 0)] [(0, rich); (1, rich)] 10 1.

Definition winit (c : cfg) (lg : bool) (b0 : block) : res pool :=
  pool_init wprio wprio wgt wgt c lg (crash_image empty_billy) (crash_image empty_billy) b0 1.
Definition wadd (c : cfg) (t : tx) (r : res pool) : res pool :=
  do p <- r ; do x <- pool_add wprio wprio wgt wgt c t p ; Ok (fst x).
Definition wreset (lg ll : bool) (bs : list block) (b : block) (final : N) (r : res pool) : res pool :=
  do p <- r ; pool_reset wprio wprio wnear wnear lg ll bs b final p.

(* the heap's first account is minimal for evictHeap.Less *)
Definition top_minimal (prioE prioB : N -> N -> Z) (p : pool) : Prop :=
  match p_heap p with
  | [] => True
  | a :: r => forall b, In b r -> hless prioE prioB p b a <> Ok true
  end.

(* ---- W1: stale eviction heap (C42-stale-evict-heap) *)
Definition c1 : cfg := mkCfg 424138 100.
Definition b1_0 : block := wblock 0 0 N0 [] 0.
Definition w1_before : res pool :=
  wadd c1 (wtx 2 0 1 1) (wadd c1 (wtx 1 1 0 5) (wadd c1 (wtx 0 0 0 10) (winit c1 false b1_0))).
Definition w1_after : res pool := wadd c1 (wtx 3 1 1 5) w1_before.
Definition ids_of (p : pool) (a : N) : list N := map m_id (txs_of p a).
Definition w1_check : bool :=
  match w1_before, w1_after with
  | Ok p, Ok q =>
      (* account 1 is on top although account 0 is strictly Less *)
      match p_heap p, hless wprio wprio p 0 1 with
      | [1; 0], Ok true =>
          (* the overflow then evicts account 1's new tx (tip 5) and keeps account 0's tip-1 tx *)
          (match ids_of q 0, ids_of q 1 with [0; 2], [1] => true | _, _ => false end)
      | _, _ => false
      end
  | _, _ => false
  end.
Lemma w1_ok : w1_check = true. Proof. vm_compute. reflexivity. Qed.

(* ---- W2: the limbo keeps the old branch's block number (C42-limbo-stale-block, repaired) *)
Definition c2 : cfg := mkCfg 1131008 100.
Definition t2_0 : tx := wtx 0 0 0 5.
Definition in2 : list btx := [mkBtx 0 0 true].
Definition bs2 : list block :=
  [ wblock 0 0 N0 [] 0; wblock 1 0 (N0 + 1) in2 1; wblock 2 0 (N0 + 1) [] 0;
    wblock 3 2 (N0 + 2) in2 1; wblock 4 2 (N0 + 2) [] 0 ].
Definition blk2 (i : N) : block := match get_block bs2 i with Some b => b | None => wblock 0 0 N0 [] 0 end.
(* Add t; Reset to 1 (t mined at N+1); Reset to 3 (t mined at N+2) with finality N+1 *)
Definition w2_mid (ll : bool) : res pool :=
  wreset false ll bs2 (blk2 3) (N0 + 1)
    (wreset false ll bs2 (blk2 1) N0 (wadd c2 t2_0 (winit c2 false (blk2 0)))).
(* ... then Reset to 4 (sibling of 3 without t): t should come back *)
Definition w2_end (ll : bool) : res pool := wreset false ll bs2 (blk2 4) (N0 + 1) (w2_mid ll).
Definition limbo_block (p : pool) (h : N) : option N :=
  match aget (l_index (p_limbo p)) h with
  | None => None
  | Some id => match find (fun '(_, g) => ahas g id) (l_groups (p_limbo p)) with
               | Some (blk, _) => Some blk | None => None end
  end.
Definition w2_check : bool :=
  match w2_mid true, w2_end true, w2_mid false, w2_end false with
  | Ok pm, Ok pe, Ok qm, Ok qe =>
      (* before the repair: t is mined in the head block N+2 > final N+1, yet it is in no limbo,
         and the reorg that drops that block cannot bring it back *)
      match limbo_block pm 0, ids_of pm 0, ids_of pe 0 with
      | None, [], [] =>
          (* repaired: limbo tracks N+2, and the transaction is reinjected *)
          match limbo_block qm 0, ids_of qe 0 with
          | Some b, [0] => b =? N0 + 2
          | _, _ => false
          end
      | _, _, _ => false
      end
  | _, _, _, _ => false
  end.
Lemma w2_ok : w2_check = true. Proof. vm_compute. reflexivity. Qed.

(* ---- W3: the gap test precedes the stale-prefix drop (C42-gap-after-stale-prefix) *)
Definition bs3 : list block :=
  [ wblock 0 0 N0 [] 2;
    wblock 1 0 (N0 + 1) [mkBtx 0 0 true; mkBtx 4 0 true; mkBtx 2 0 true] 5;
    wblock 2 0 (N0 + 1) [mkBtx 5 0 true] 3 ].
Definition blk3 (i : N) : block := match get_block bs3 i with Some b => b | None => wblock 0 0 N0 [] 0 end.
Definition w3 (lg : bool) : res pool :=
  wreset lg false bs3 (blk3 2) N0
    (wreset lg false bs3 (blk3 1) N0
       (wadd c2 (wtx 3 0 5 5) (wadd c2 (wtx 2 0 4 5) (wadd c2 (wtx 1 0 3 5) (wadd c2 (wtx 0 0 2 5)
          (winit c2 lg (blk3 0))))))).
Definition w3_check : bool :=
  match w3 true, w3 false with
  | Ok p, Ok q =>
      (* before the repair the pool keeps nonces 4,5 although the state nonce is 3 *)
      match map m_nonce (txs_of p 0), nonce_of p 0 with
      | [4; 5], 3 => match ids_of q 0 with [] => true | _ => false end
      | _, _ => false
      end
  | _, _ => false
  end.
Lemma w3_ok : w3_check = true. Proof. vm_compute. reflexivity. Qed.

(* ---- W4: a Reset across more than 64 blocks skips the recheck *)
Definition bs4 : list block := [ wblock 0 0 N0 [] 0; wblock 1 0 (N0 + 70) [] 3 ].
Definition blk4 (i : N) : block := match get_block bs4 i with Some b => b | None => wblock 0 0 N0 [] 0 end.
Definition w4 : res pool :=
  wadd c2 (wtx 1 0 4 5) (wreset false false bs4 (blk4 1) N0 (wadd c2 (wtx 0 0 0 5) (winit c2 false (blk4 0)))).
Definition w4_check : bool :=
  match w4 with
  | Ok p => match map m_nonce (txs_of p 0), nonce_of p 0 with [0; 4], 3 => true | _, _ => false end
  | _ => false
  end.
Lemma w4_ok : w4_check = true. Proof. vm_compute. reflexivity. Qed.

(* ---- W5: an abrupt stop resurrects a replaced transaction (billy does not journal deletes);
        the clean shutdown of the same state reproduces the index *)
Definition t5a : tx := wtx 0 0 0 5.
Definition t5b : tx := mkTx 1 0 0 10 200 14 6035972 1.
Definition w5 : res pool := wadd c2 t5b (wadd c2 t5a (winit c2 false (blk4 0))).
Definition w5_reopen (img : billy -> image) : res pool :=
  do p <- w5 ;
  pool_init wprio wprio wgt wgt c2 false (img (p_store p)) (img (l_store (p_limbo p))) (blk4 0) 1.
Definition w5_check : bool :=
  match w5, w5_reopen close_image, w5_reopen crash_image with
  | Ok p, Ok q, Ok r =>
      match ids_of p 0, ids_of q 0, ids_of r 0 with
      | [1], [1], [0] => true       (* the replaced tx 0 sits in the lower slot and wins the repeated nonce *)
      | _, _, _ => false
      end
  | _, _, _ => false
  end.
Lemma w5_ok : w5_check = true. Proof. vm_compute. reflexivity. Qed.

(* ------------------------------------------------------------------ the refutations as statements *)
(* W1: after three accepted Adds from an empty pool the heap's first account is not minimal
   for evictHeap.Less *)
Lemma evict_order_refuted :
  exists p, w1_before = Ok p /\ ~ top_minimal wprio wprio p.
Proof.
  eexists. split; [vm_compute; reflexivity|].
  intro Hm. apply (Hm 0); [left; reflexivity | vm_compute; reflexivity].
Qed.

(* W2: with reorg() as it was (legacy_limbo = true) a blob transaction mined in the head block,
   whose number is above the finalised one, is neither pooled nor retrievable from the limbo;
   with the repaired reorg() the limbo holds it under the head block's number *)
Lemma limbo_until_final_legacy_refuted :
  exists p, w2_mid true = Ok p /\
            In (mkBtx 0 0 true) (b_txs (blk2 3)) /\ p_head p = 3 /\ N0 + 1 < b_num (blk2 3) /\
            limbo_block p 0 = None /\ txs_of p 0 = [].
Proof.
  eexists. split; [vm_compute; reflexivity|].
  split; [left; reflexivity|]. repeat split; vm_compute; reflexivity.
Qed.

Lemma limbo_repaired_witness :
  exists p, w2_mid false = Ok p /\ limbo_block p 0 = Some (b_num (blk2 3)).
Proof. eexists. split; vm_compute; reflexivity. Qed.

(* W3: with recheck as it was (legacy_gap = true) a reachable pool holds a list that does not
   start at the state nonce; the repaired recheck drops it *)
Lemma contiguous_legacy_refuted :
  exists p, w3 true = Ok p /\ map m_nonce (txs_of p 0) = [4; 5] /\ nonce_of p 0 = 3.
Proof. eexists. split; [vm_compute; reflexivity|]. split; vm_compute; reflexivity. Qed.

Lemma contiguous_repaired_witness :
  exists p, w3 false = Ok p /\ txs_of p 0 = [] /\ nonce_of p 0 = 3.
Proof. eexists. split; [vm_compute; reflexivity|]. split; vm_compute; reflexivity. Qed.

(* W4: after a Reset across more than 64 blocks (reorg() is skipped) a reachable pool holds a
   list whose nonces are not consecutive and do not start at the state nonce *)
Lemma contiguous_deep_refuted :
  exists p, w4 = Ok p /\ map m_nonce (txs_of p 0) = [0; 4] /\ nonce_of p 0 = 3.
Proof. eexists. split; [vm_compute; reflexivity|]. split; vm_compute; reflexivity. Qed.

(* W5: Init on the directory of a clean shutdown reproduces the index; Init on a copy taken at
   an abrupt stop of the same state does not (a replaced transaction is back and wins) *)
Lemma reopen_crash_refuted :
  exists p q r, w5 = Ok p /\ w5_reopen close_image = Ok q /\ w5_reopen crash_image = Ok r /\
                ids_of p 0 = [1] /\ ids_of q 0 = [1] /\ ids_of r 0 = [0].
Proof.
  eexists. eexists. eexists. split; [vm_compute; reflexivity|]. split; [vm_compute; reflexivity|].
  split; [vm_compute; reflexivity|]. repeat split; vm_compute; reflexivity.
Qed.
