(* Pool/BlobAddProofs.v — Add keeps the per-account invariant Inv of Pool/BlobProofs.v. *)
From Coq Require Import List NArith ZArith Bool Lia.
From GV Require Import Lib.Tactics Pool.Blob Pool.BlobProofs.
Import ListNotations.
Local Open Scope N_scope.

(* chain, starts, the cost sum and emptiness only depend on the transactions *)
Lemma chain_ext : forall l l', map m_nonce l = map m_nonce l' -> chain l -> chain l'.
Proof.
  intros l l' He Hc. revert l' He. induction Hc as [|x|a b r Hab Hc IH]; intros l' He.
  - destruct l'; [constructor | discriminate].
  - destruct l' as [|y [|? ?]]; try discriminate. constructor.
  - destruct l' as [|a' [|b' r']]; try discriminate. cbn in He. inversion He as [[H1 H2 H3]].
    constructor; [congruence|]. apply IH. cbn. congruence.
Qed.

Lemma map_tx_nonce l l' : map m_tx l = map m_tx l' -> map m_nonce l = map m_nonce l'.
Proof.
  intro H. unfold m_nonce. rewrite <- !(map_map m_tx t_nonce). rewrite H. reflexivity.
Qed.

Lemma map_tx_cost l l' : map m_tx l = map m_tx l' -> sum_cost l = sum_cost l'.
Proof.
  revert l'. induction l as [|x r IH]; intros [|y r'] H; try discriminate; [reflexivity|].
  cbn in H. inversion H as [[H1 H2]].
  change (sum_cost (x :: r)) with (m_cost x + sum_cost r). change (sum_cost (y :: r')) with (m_cost y + sum_cost r').
  rewrite (IH r' H2). unfold m_cost. rewrite H1. reflexivity.
Qed.

Lemma reev_tx : forall l o, map m_tx (reev o l 0) = map m_tx l.
Proof.
  induction l as [|m r IH]; intro o; cbn [reev map]; [reflexivity|].
  rewrite IH. destruct o; reflexivity.
Qed.

Lemma rebuilt_tx off o (l : list meta) :
  map m_tx (firstn off l ++ reev o (skipn off l) 0) = map m_tx l.
Proof. rewrite map_app, reev_tx, <- map_app, firstn_skipn. reflexivity. Qed.

Lemma list_set_nonce : forall l i m prev,
  nth_error l i = Some prev -> m_nonce m = m_nonce prev -> map m_nonce (list_set l i m) = map m_nonce l.
Proof.
  induction l as [|x r IH]; intros i m prev Hn Hm; destruct i; cbn in *; try discriminate.
  - inversion Hn; subst. rewrite Hm. reflexivity.
  - f_equal. eapply IH; eauto.
Qed.

Lemma list_set_cost : forall l i m prev,
  nth_error l i = Some prev -> sum_cost (list_set l i m) + m_cost prev = sum_cost l + m_cost m.
Proof.
  induction l as [|x r IH]; intros i m prev Hn; destruct i; cbn [nth_error list_set] in *; try discriminate.
  - inversion Hn; subst.
    change (sum_cost (m :: r)) with (m_cost m + sum_cost r). change (sum_cost (prev :: r)) with (m_cost prev + sum_cost r). lia.
  - change (sum_cost (x :: list_set r i m)) with (m_cost x + sum_cost (list_set r i m)).
    change (sum_cost (x :: r)) with (m_cost x + sum_cost r). specialize (IH i m prev Hn). lia.
Qed.

Lemma list_set_nonempty {A} (l : list A) i x : l <> [] -> list_set l i x <> [].
Proof. destruct l, i; cbn; intros; congruence. Qed.

Lemma sum_cost_nth : forall l i x, nth_error l i = Some x -> m_cost x <= sum_cost l.
Proof.
  induction l as [|y r IH]; intros i x H; destruct i; cbn [nth_error] in H; try discriminate.
  - inversion H; subst. change (sum_cost (x :: r)) with (m_cost x + sum_cost r). lia.
  - change (sum_cost (y :: r)) with (m_cost y + sum_cost r). specialize (IH i x H). lia.
Qed.

(* in a chain that starts at n, position i carries nonce n + i (as long as that is a uint64) *)
Lemma chain_nth : forall l n i x,
  chain l -> starts n l -> nth_error l i = Some x -> n + N.of_nat i < two64 -> m_nonce x = n + N.of_nat i.
Proof.
  induction l as [|a r IH]; intros n i x Hc Hs Hn Hlt; destruct i; cbn [nth_error] in Hn; try discriminate.
  - inversion Hn; subst. cbn in Hs. lia.
  - destruct r as [|b r']; [destruct i; discriminate|].
    inversion Hc as [| |? ? ? Hab Hc']; subst. cbn in Hs.
    rewrite (IH (n + 1) i x Hc'); [lia | | exact Hn | lia].
    cbn. rewrite Hab, Hs. apply wrap64_small. lia.
Qed.

Lemma starts_list_set n l i m prev :
  nth_error l i = Some prev -> m_nonce m = m_nonce prev -> starts n l -> starts n (list_set l i m).
Proof. destruct l, i; cbn; intros; try discriminate; [inversion H; subst; congruence | assumption]. Qed.

Lemma starts_ext n l l' : map m_nonce l = map m_nonce l' -> starts n l -> starts n l'.
Proof. destruct l, l'; cbn; intros H Hs; try discriminate; [exact I | inversion H; congruence]. Qed.

Lemma add_spent_get a n p q : add_spent a n p = Ok q ->
  exists s, aget (p_spent p) a = Some s /\ p_spent q = aset (p_spent p) a (s + n) /\
            p_index q = p_index p /\ p_nonce q = p_nonce p /\ p_bal q = p_bal p.
Proof.
  unfold add_spent. destruct (aget (p_spent p) a) as [s|] eqn:E; intro H; [|discriminate].
  destruct (s + n <? two256); [|discriminate].
  inversion H; subst. exists s. repeat split.
Qed.

Section AddProofs.
Variable prioE prioB : N -> N -> Z.
Variable gtE gtB : N -> N -> bool.
Variable c : cfg.

Lemma h_push_core p a q :
  (do h <- h_push prioE prioB p (p_heap p) a ; Ok (set_heap h p)) = Ok q -> same_core p q.
Proof. intro H. inv_bind H. inversion H; subst. repeat split. Qed.

(* addLocked up to and including the eviction loop keeps the invariant *)
Lemma add_core_inv t p q e :
  Inv p -> t_nonce t < two64 -> add_core prioE prioB gtE gtB c t p = Ok (q, e) -> Inv q.
Proof.
  intros HI Hnon H. unfold add_core in H.
  destruct (negb (validate_tx c t p =? E_ok)) eqn:Ev.
  { destruct (validate_tx c t p =? E_noncehigh).
    - destruct ((1 <=? gapped_allowance p (t_from t))%Z && Nat.ltb (length (p_gsrc p)) maxGapped);
        inversion H; subst; [eapply inv_same_core; [exact HI | repeat split] | exact HI].
    - inversion H; subst. exact HI. }
  apply negb_false_iff, N.eqb_eq in Ev.
  destruct (billy_put (p_store p) (t_shelf t) (mkItem t 0)) as [[b id]|]; [|inversion H; subst; exact HI].
  set (from := t_from t) in *. set (m := mkMeta t id 0 0 0) in *.
  set (p' := set_store b p) in *.
  assert (HI' : Inv p') by (eapply inv_same_core; [exact HI | repeat split]).
  assert (Hv : validate_tx c t p' = E_ok) by exact Ev.
  clearbody p'. clear HI Ev p. rename p' into p.
  inv_bind_as H old0. clear E.
  set (next := nonce_of p from) in *. set (txs := txs_of p from) in *.
  set (off := N.to_nat (t_nonce t - next)) in *.
  inv_bind_as H r1. destruct r1 as [p1 newacc].
  (* everything after the index update preserves the core; the eviction loop preserves Inv *)
  cut (Inv (set_index (aset (p_index p1) from
              (firstn off (txs_of p1 from) ++
               reev (match off with O => None | S o => nth_error (txs_of p1 from) o end) (skipn off (txs_of p1 from)) 0)) p1)).
  { intro HI2. inv_bind_as H p3. inv_bind_as H p4. inversion H; subst.
    eapply drop_loop_inv; [|exact E1]. eapply inv_same_core; [exact HI2|].
    destruct newacc.
    - eapply h_push_core; exact E0.
    - destruct (Nat.eqb _ 1).
      + eapply heap_fix_core; exact E0.
      + destruct old0; [|discriminate]. destruct (last_opt _); [|discriminate].
        destruct (_ || _); [eapply heap_fix_core; exact E0 | inversion E0; subst; apply same_core_refl]. }
  clear H.
  pose proof (HI' from) as Hok. unfold acct_ok in Hok.
  destruct (nth_error txs off) as [prev|] eqn:En.
  - (* replacement *)
    destruct (validate_replacement_bump c t p prev Hv En) as [_ [_ [_ [_ [_ [_ [_ Hz]]]]]]].
    unfold txs, txs_of in En. destruct (aget (p_index p) from) as [l|] eqn:Ei; [|destruct off; discriminate].
    destruct Hok as [Hne [Hc [Hst [Hsp Hle]]]].
    inv_bind_as E pa. apply store_del_core in E0. destruct E0 as [Ei0 [Es0 [En0 Eb0]]].
    inv_bind_as E pb. apply sub_spent_get in E0. destruct E0 as [s [Es1 [Es2 [Ei1 [En1 Eb1]]]]].
    inv_bind_as E pc. apply add_spent_get in E0. destruct E0 as [s2 [Es3 [Es4 [Ei2 [En2 Eb2]]]]].
    inversion E; subst p1 newacc. clear E.
    cbn [p_index p_spent p_nonce p_bal set_index set_stored track untrack set_lookup] in *.
    unfold txs in *. unfold txs_of in *. cbn [p_index set_index set_stored track untrack set_lookup].
    rewrite Ei2, Ei1. cbn [p_index set_index]. rewrite Ei0, Ei, aget_aset, N.eqb_refl.
    rewrite Es0, Hsp in Es1. inversion Es1; subst s. clear Es1.
    rewrite Es2, aget_aset, N.eqb_refl in Es3. inversion Es3; subst s2. clear Es3.
    assert (Hpc : m_cost prev <= sum_cost l) by (eapply sum_cost_nth; eauto).
    pose proof (list_set_cost l off m prev En) as Hcost.
    assert (Hnext : t_nonce t = next + N.of_nat off).
    { unfold validate_tx in Hv. fold from next in Hv.
      destruct (t_nonce t <? next) eqn:E9; [discriminate|]. apply N.ltb_ge in E9. unfold off. lia. }
    assert (Hpn : m_nonce prev = t_nonce t).
    { rewrite Hnext. eapply chain_nth; eauto. lia. }
    unfold spent_of in Hz. fold from in Hz. rewrite Hsp in Hz.
    change (m_cost m) with (t_cost t) in *.
    set (l3 := firstn off (list_set l off m) ++ reev _ (skipn off (list_set l off m)) 0).
    assert (Htx : map m_tx l3 = map m_tx (list_set l off m)) by apply rebuilt_tx.
    assert (Hn3 : map m_nonce l3 = map m_nonce l).
    { rewrite (map_tx_nonce _ _ Htx). eapply list_set_nonce; eauto. }
    eapply inv_upd_some with (a := from) (l := l3); [exact HI' | | | | |].
    + unfold upd_some. cbn [p_index p_spent p_nonce p_bal set_index set_stored track untrack set_lookup].
      rewrite aset_aset.
      rewrite Es4, Es2, aset_aset, Es0, En2, En1, En0, Eb2, Eb1, Eb0. cbn [p_nonce p_bal set_index].
      repeat split. f_equal. rewrite (map_tx_cost _ _ Htx).
      rewrite sub256_exact by lia. lia.
    + intro H0. apply (f_equal (@length _)) in H0. rewrite <- (map_length m_nonce), Hn3, map_length in H0.
      destruct l; [contradiction | discriminate].
    + eapply chain_ext; [symmetry; exact Hn3 | exact Hc].
    + eapply starts_ext; [symmetry; exact Hn3 | exact Hst].
    + rewrite (map_tx_cost _ _ Htx). lia.
  - (* extension *)
    destruct (validate_append c t p Hv En) as [Hnext [Hlt [Hsp' Hcap]]].
    fold from next txs in Hnext, Hlt, Hsp', Hcap.
    inv_bind_as E pa. apply add_spent_get in E0. destruct E0 as [s [Es1 [Es2 [Ei1 [En1 Eb1]]]]].
    inversion E; subst p1 newacc. clear E.
    unfold txs_of at 1 2 3. cbn [p_index add_stored track set_lookup set_stored].
    rewrite Ei1.
    assert (Hidx : p_index (if negb (ahas (p_spent (set_index (aset (p_index p) from (txs ++ [m])) p)) from)
                            then set_spent (aset (p_spent (set_index (aset (p_index p) from (txs ++ [m])) p)) from 0)
                                           (set_index (aset (p_index p) from (txs ++ [m])) p)
                            else set_index (aset (p_index p) from (txs ++ [m])) p)
                   = aset (p_index p) from (txs ++ [m])) by (destruct (negb _); reflexivity).
    rewrite Hidx, aget_aset, N.eqb_refl.
    set (l1 := txs ++ [m]) in *.
    set (l3 := firstn off l1 ++ reev _ (skipn off l1) 0).
    assert (Htx : map m_tx l3 = map m_tx l1) by apply rebuilt_tx.
    assert (Hs : s + t_cost t = sum_cost l1 /\ spent_of p from + t_cost t = sum_cost l1).
    { unfold l1. rewrite sum_cost_app. change (sum_cost [m]) with (t_cost t + 0).
      unfold spent_of, txs, txs_of in *. cbn [p_spent set_index] in Es1.
      destruct (aget (p_index p) from) as [l|] eqn:Ei.
      - destruct Hok as [_ [_ [_ [Hsp _]]]]. unfold ahas in Es1. cbn [p_spent set_index] in Es1. rewrite Hsp in *.
        cbn [negb] in Es1. cbn [p_spent set_index] in Es1. rewrite Hsp in Es1. inversion Es1; subst. lia.
      - unfold ahas in Es1. cbn [p_spent set_index] in Es1. rewrite Hok in *. cbn [negb] in Es1.
        cbn [p_spent set_spent] in Es1. rewrite aget_aset, N.eqb_refl in Es1. inversion Es1; subst.
        change (sum_cost []) with 0. lia. }
    destruct Hs as [Hs1 Hs2].
    assert (Hc1 : chain l1 /\ starts next l1).
    { unfold l1, txs, txs_of in *. destruct (aget (p_index p) from) as [l|] eqn:Ei.
      - destruct Hok as [Hne [Hc [Hst _]]]. split.
        + eapply chain_starts_append; [exact Hc | | exact Hlt | exact Hnext].
          destruct l; [exact I | exact Hst].
        + destruct l; [contradiction | exact Hst].
      - split; [constructor|]. cbn. unfold lenN in Hnext. cbn in Hnext. change (m_nonce m) with (t_nonce t). lia. }
    eapply inv_upd_some with (a := from) (l := l3); [exact HI' | | | | |].
    + unfold upd_some. cbn [p_index p_spent p_nonce p_bal set_index add_stored track set_lookup set_stored].
      rewrite aset_aset, Es2, En1, Eb1.
      assert (Hsp2 : forall v, aset (p_spent (if negb (ahas (p_spent (set_index (aset (p_index p) from l1) p)) from)
                            then set_spent (aset (p_spent (set_index (aset (p_index p) from l1) p)) from 0)
                                           (set_index (aset (p_index p) from l1) p)
                            else set_index (aset (p_index p) from l1) p)) from v = aset (p_spent p) from v).
      { intro v. destruct (negb _); cbn [p_spent set_spent set_index]; [apply aset_aset | reflexivity]. }
      rewrite Hsp2.
      split; [reflexivity|]. split; [|split; destruct (negb _); reflexivity].
      f_equal. rewrite (map_tx_cost _ _ Htx). lia.
    + intro H0. apply (f_equal (@map _ _ m_tx)) in H0. rewrite Htx in H0. unfold l1 in H0.
      rewrite map_app in H0. destruct (map m_tx txs); discriminate.
    + eapply chain_ext; [symmetry; apply map_tx_nonce; exact Htx | apply Hc1].
    + eapply starts_ext; [symmetry; apply map_tx_nonce; exact Htx | apply Hc1].
    + rewrite (map_tx_cost _ _ Htx). lia.
Qed.

Lemma wrap64_lt v : wrap64 v < two64.
Proof.
  unfold wrap64. destruct (v <? two64) eqn:E; [apply N.ltb_lt; exact E|].
  apply N.mod_lt. unfold two64. lia.
Qed.

(* promotion out of the gapped buffer keeps the invariant *)
Lemma promote_inv from : forall gtxs p rest q,
  Inv p -> promote prioE prioB gtE gtB c from gtxs p = Ok (rest, q) -> Inv q.
Proof.
  induction gtxs as [|t r IH]; intros p rest q HI H; cbn [promote] in H.
  - inversion H; subst. exact HI.
  - destruct (wrap64 (nonce_of p from + lenN (txs_of p from)) <? t_nonce t) eqn:Eg.
    + inversion H; subst. exact HI.
    + apply N.ltb_ge in Eg.
      assert (HI1 : Inv (set_gapped (p_gapped p) (remove_id (t_id t) (p_gsrc p)) p))
        by (eapply inv_same_core; [exact HI | repeat split]).
      destruct (t_nonce t <? nonce_of p from).
      * eapply IH; eauto.
      * inv_bind_as H x. destruct x as [p2 e2]. eapply IH; [|exact H].
        eapply add_core_inv; [exact HI1 | | exact E].
        pose proof (wrap64_lt (nonce_of p from + lenN (txs_of p from))). lia.
Qed.

Lemma add_locked_inv t p q e :
  Inv p -> t_nonce t < two64 -> add_locked prioE prioB gtE gtB c t p = Ok (q, e) -> Inv q.
Proof.
  intros HI Hn H. unfold add_locked in H. inv_bind_as H x. destruct x as [p1 e1].
  pose proof (add_core_inv t p p1 e1 HI Hn E) as HI1.
  destruct (e1 =? E_buffered); [inversion H; subst; exact HI1|].
  destruct (negb (e1 =? E_ok)); [inversion H; subst; exact HI1|].
  destruct (aget (p_gapped p1) (t_from t)) as [[|g gs]|]; try (inversion H; subst; exact HI1).
  inv_bind_as H r. destruct r as [rest p2]. inversion H; subst.
  eapply inv_same_core; [eapply promote_inv; [exact HI1 | exact E0] | repeat split].
Qed.

(* ValidateTxBasics + AddPooledTx keeps the invariant *)
Lemma pool_add_inv t p q e :
  Inv p -> t_nonce t < two64 -> pool_add prioE prioB gtE gtB c t p = Ok (q, e) -> Inv q.
Proof.
  intros HI Hn H. unfold pool_add in H. destruct (p_tip p) as [tip|]; [|discriminate].
  destruct (t_tip t <? tip); [inversion H; subst; exact HI|].
  eapply add_locked_inv; eauto.
Qed.

(* histories of Add and SetGasTip *)
Inductive hop := HAdd (t : tx) | HTip (tip : N).
Definition hop_ok (o : hop) : Prop := match o with HAdd t => t_nonce t < two64 | HTip _ => True end.
Definition hstep (o : hop) (p : pool) : res pool :=
  match o with
  | HAdd t => do x <- pool_add prioE prioB gtE gtB c t p ; Ok (fst x)
  | HTip tip => set_gas_tip prioE prioB tip p
  end.
Fixpoint hrun (ops : list hop) (p : pool) : res pool :=
  match ops with [] => Ok p | o :: r => do q <- hstep o p ; hrun r q end.

Lemma hrun_inv : forall ops p q, Inv p -> Forall hop_ok ops -> hrun ops p = Ok q -> Inv q.
Proof.
  induction ops as [|o r IH]; intros p q HI Hok H; cbn [hrun] in H.
  - inversion H; subst. exact HI.
  - inversion Hok as [|? ? Ho Hr]; subst. inv_bind_as H p1. eapply IH; [|exact Hr|exact H].
    destruct o as [t|tip]; cbn [hstep] in E.
    + inv_bind_as E x. destruct x as [p2 e2]. inversion E; subst. cbn [fst].
      eapply pool_add_inv; [exact HI | exact Ho | exact E0].
    + eapply set_gas_tip_inv; eauto.
Qed.
End AddProofs.

(* an empty pool satisfies the invariant *)
Lemma inv_empty p : p_index p = [] -> p_spent p = [] -> Inv p.
Proof. intros Hi Hs a. unfold acct_ok. rewrite Hi, Hs. reflexivity. Qed.
