(* Pool/BlobReopenPerm.v — the order in which the store hands the entries back does not matter:
   nonce-sorting any permutation of a strictly increasing list gives that list back. *)
From Coq Require Import List NArith ZArith Bool Lia Sorted Permutation.
From GV Require Import Lib.Tactics Pool.Blob Pool.BlobProofs Pool.BlobAddProofs Pool.BlobRollingProofs Pool.BlobResetProofs Pool.BlobReopenProofs.
Import ListNotations.
Local Open Scope N_scope.

Definition tx_le (a b : tx) : Prop := t_nonce a <= t_nonce b.
Definition tx_lt (a b : tx) : Prop := t_nonce a < t_nonce b.

Lemma sorted_perm_unique : forall l1 l2,
  StronglySorted tx_le l1 -> StronglySorted tx_lt l2 -> Permutation l1 l2 -> l1 = l2.
Proof.
  induction l1 as [|x r1 IH]; intros l2 H1 H2 Hp.
  - apply Permutation_nil in Hp. subst. reflexivity.
  - destruct l2 as [|y r2]; [apply Permutation_sym, Permutation_nil in Hp; discriminate|].
    inversion H1 as [|? ? S1 A1]; subst. inversion H2 as [|? ? S2 A2]; subst.
    assert (Hxy : x = y).
    { assert (Hx : In x (y :: r2)) by (eapply Permutation_in; [exact Hp | left; reflexivity]).
      assert (Hy : In y (x :: r1)) by (eapply Permutation_in; [apply Permutation_sym; exact Hp | left; reflexivity]).
      destruct Hx as [Hx|Hx]; [congruence|]. destruct Hy as [Hy|Hy]; [congruence|].
      rewrite Forall_forall in A1, A2. specialize (A1 _ Hy). specialize (A2 _ Hx). unfold tx_le, tx_lt in *. lia. }
    subst y. f_equal. apply IH; [exact S1 | exact S2 | eapply Permutation_cons_inv; exact Hp].
Qed.

Lemma sorted_map_tx l : Sorted nonce_le l -> StronglySorted tx_le (map m_tx l).
Proof.
  intro H. apply Sorted_StronglySorted in H; [|exact nonce_le_trans].
  induction H as [|x r Hs IH Hall]; cbn [map]; constructor; [exact IH|].
  apply Forall_forall. intros t Ht. apply in_map_iff in Ht. destruct Ht as [m [<- Hm]].
  rewrite Forall_forall in Hall. exact (Hall _ Hm).
Qed.

(* whatever permutation of the account's transactions the store returns, recheck's sort restores
   the list (the nonces of a pooled list are strictly increasing) *)
Lemma sort_restores l0 s :
  Permutation (map m_tx l0) (map m_tx s) -> StronglySorted tx_lt (map m_tx s) ->
  map m_tx (sort_metas l0) = map m_tx s.
Proof.
  intros Hp Hs. destruct (sort_metas_spec l0) as [Hsorted Hperm].
  apply sorted_perm_unique; [apply sorted_map_tx; exact Hsorted | exact Hs|].
  eapply Permutation_trans; [|exact Hp]. apply Permutation_map, Permutation_sym. exact Hperm.
Qed.

Section ReopenPerm.
Variable prioE prioB : N -> N -> Z.

(* reopen_reproduces for one account, store order abstracted: the tracked entries are ANY
   permutation of the running account's transactions *)
Lemma reopen_account_perm a p x s l0 :
  aget (p_index p) a = Some s -> acct_ok p a -> rk p a -> (length s <= maxTxsPerAccount)%nat ->
  StronglySorted tx_lt (map m_tx s) ->
  p_nonce x = p_nonce p -> p_bal x = p_bal p ->
  aget (p_index x) a = Some l0 -> Permutation (map m_tx l0) (map m_tx s) ->
  aget (p_spent x) a = Some (sum_cost l0) ->
  exists y s2, recheck prioE prioB false a None x = Ok y /\
    aget (p_index y) a = Some s2 /\ map m_tx s2 = map m_tx s /\ map evs s2 = map evs s /\
    aget (p_spent y) a = aget (p_spent p) a.
Proof.
  intros Hix Hok Hrk Hcap Hst Hn Hb Hl0 Hp Hsp.
  eapply reopen_account; eauto. apply sort_restores; assumption.
Qed.
End ReopenPerm.
