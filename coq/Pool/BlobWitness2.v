(* Pool/BlobWitness2.v — a concrete history (Add, Reset mining the transaction, clean restart,
   Reset by a reorg that drops it again) that meets every guard of the all-histories theorem
   (non-vacuity of hguard / reset_guard). *)
From Coq Require Import List NArith ZArith Bool Lia.
From GV Require Import Lib.Tactics Pool.Blob Pool.BlobProofs Pool.BlobAddProofs Pool.BlobResetProofs Pool.BlobInitProofs Pool.BlobWitness.
Import ListNotations.
Local Open Scope N_scope.

Definition ops_nv : list hop2 :=
  [ H2Add t2_0; H2Reset bs2 (blk2 1) N0; H2Restart false (blk2 1) 1; H2Reset bs2 (blk2 2) N0 ].

Lemma guard_two_accounts (m1 m2 : list (N * N)) (p : pool) (newh : block) ro :
  ro_transactors ro = [0] ->
  (forall a, a <> 0 -> match aget (b_nonce newh) a with Some n => n | None => 0 end = nonce_of p a /\
                       bal_of p a <= match aget (b_bal newh) a with Some n => n | None => 0 end) ->
  forall a, ~ In a (ro_transactors ro) ->
    match aget (b_nonce newh) a with Some n => n | None => 0 end = nonce_of p a /\
    bal_of p a <= match aget (b_bal newh) a with Some n => n | None => 0 end.
Proof. intros Ht H a Ha. apply H. intro E. apply Ha. rewrite Ht, E. left. reflexivity. Qed.

Lemma other_accounts_same (n0 n1 : N) a :
  a <> 0 ->
  match aget [(0, n0); (1, 0)] a with Some n => n | None => 0 end =
  match aget [(0, n1); (1, 0)] a with Some n => n | None => 0 end.
Proof.
  intro Ha. cbn [aget]. destruct (0 =? a) eqn:E; [apply N.eqb_eq in E; congruence|]. reflexivity.
Qed.

Example history_nonvacuous :
  exists p q, winit c2 false (blk2 0) = Ok p /\ Inv p /\
    hguard wprio wprio wgt wgt wnear wnear c2 false ops_nv p /\
    hrun2 wprio wprio wgt wgt wnear wnear c2 false ops_nv p = Ok q /\
    ids_of q 0 = [0].
Proof.
  eexists. eexists. split; [vm_compute; reflexivity|].
  split; [apply inv_empty; reflexivity|].
  split.
  - cbn [hguard ops_nv]. split; [vm_compute; reflexivity|].
    intros q1 H1. vm_compute in H1. injection H1 as <-.
    split.
    { eexists. eexists. split; [vm_compute; reflexivity|]. split; [vm_compute; reflexivity|].
      apply (guard_two_accounts [] []); [reflexivity|]. intros a Ha. split.
      - unfold nonce_of. cbn [p_nonce]. apply (other_accounts_same 1 0 a Ha).
      - unfold bal_of. apply N.le_refl. }
    intros q2 H2. vm_compute in H2. injection H2 as <-.
    split; [exact I|].
    intros q3 H3. vm_compute in H3. injection H3 as <-.
    split; [|intros q4 _; exact I].
    eexists. eexists. split; [vm_compute; reflexivity|]. split; [vm_compute; reflexivity|].
    apply (guard_two_accounts [] []); [reflexivity|]. intros a Ha. split.
    + unfold nonce_of. cbn [p_nonce]. apply (other_accounts_same 0 1 a Ha).
    + unfold bal_of. apply N.le_refl.
  - split; vm_compute; reflexivity.
Qed.
