(* Pool/Legacy.v — executable model of go-ethereum's legacy transaction pool,
   transcribed from /repo/core/txpool/legacypool/{legacypool.go,list.go,queue.go,noncer.go}
   and /repo/core/txpool/validation.go.  No proofs in this file.

   Abstraction.
   * A transaction is the record [tx]; its "hash" is the whole record ([tx_eqb]).
     [t_slots] = numSlots(tx), [t_intr] = core.IntrinsicGas(tx) are attributes computed
     from the real transaction by the harness (which re-checks them on the Go side).
     Only dynamic-fee transactions with a recipient are modelled (no 7702 authorities,
     no blob txs), on a London chain (params.TestChainConfig).
   * Go maps keyed by address are functions [N -> option _] iterated over the account
     universe [c_accts]; SortedMap (map + nonce heap + cache) is a nonce-sorted list;
     the two price heaps are lists kept sorted by the heap order (the harness keeps fee
     caps pairwise distinct, so that order is total and heap shape is unobservable).
   * uint256 total cost is a [Z]; "totalcost underflow" panics surface as [p_panic];
     fuel exhaustion surfaces as [p_fuel]; the uint256 overflow branch of list.Add
     is recorded in the ghost flag [p_ovf] (theorems are stated under [p_ovf = false]).
   * time.Now() is a logical clock [p_clock].
   * Not modelled: journalling of locals, metrics, event feed, reserver, Osaka boundary
     purge, reset with blocks missing from the chain, lifetime eviction ticker. *)
From Coq Require Import List NArith ZArith Bool.
Import ListNotations.
Local Open Scope N_scope.

(* ---------- transactions ---------- *)
Record tx := mkTx {
  t_id : N; t_from : N; t_nonce : N; t_gas : N; t_feecap : N; t_tip : N;
  t_value : N; t_slots : N; t_intr : N }.

Definition tx_eqb (a b : tx) : bool :=
  (t_id a =? t_id b) && (t_from a =? t_from b) && (t_nonce a =? t_nonce b) &&
  (t_gas a =? t_gas b) && (t_feecap a =? t_feecap b) && (t_tip a =? t_tip b) &&
  (t_value a =? t_value b) && (t_slots a =? t_slots b) && (t_intr a =? t_intr b).

(* types.Transaction.Cost: gas * gasFeeCap + value *)
Definition cost (t : tx) : N := t_gas t * t_feecap t + t_value t.
Definition U256 : N := 2 ^ 256.

(* ---------- list.go: SortedMap as a nonce-sorted list ---------- *)
Definition sm_get (n : N) (l : list tx) : option tx := find (fun t => t_nonce t =? n) l.

(* SortedMap.Put *)
Fixpoint sm_put (t : tx) (l : list tx) : list tx :=
  match l with
  | [] => [t]
  | x :: r => if t_nonce t <? t_nonce x then t :: l
              else if t_nonce t =? t_nonce x then t :: r
              else x :: sm_put t r
  end.

(* SortedMap.Forward: (removed, kept) *)
Definition sm_forward (th : N) (l : list tx) : list tx * list tx :=
  (filter (fun t => t_nonce t <? th) l, filter (fun t => negb (t_nonce t <? th)) l).

(* SortedMap.Filter / filter: (removed, kept) *)
Definition sm_filter (f : tx -> bool) (l : list tx) : list tx * list tx :=
  (filter f l, filter (fun t => negb (f t)) l).

(* SortedMap.Cap: drops the highest nonces first *)
Definition sm_cap (th : nat) (l : list tx) : list tx * list tx :=
  if Nat.leb (length l) th then ([], l) else (rev (skipn th l), firstn th l).

(* SortedMap.Remove *)
Definition sm_remove (n : N) (l : list tx) : bool * list tx :=
  match sm_get n l with
  | None => (false, l)
  | Some _ => (true, filter (fun t => negb (t_nonce t =? n)) l)
  end.

(* SortedMap.Ready *)
Fixpoint sm_run (next : N) (l : list tx) : list tx * list tx :=
  match l with
  | [] => ([], [])
  | x :: r => if t_nonce x =? next
              then let '(a, b) := sm_run (next + 1) r in (x :: a, b)
              else ([], l)
  end.
Definition sm_ready (start : N) (l : list tx) : list tx * list tx :=
  match l with
  | [] => ([], l)
  | x :: _ => if start <? t_nonce x then ([], l) else sm_run (t_nonce x) l
  end.

(* ---------- list.go: list ---------- *)
(* [l_cache] is SortedMap.cache: the flattened, nonce-sorted copy handed out by Flatten /
   LastElement ([None] = nil).  Every mutator invalidates or adjusts it exactly where the Go
   code does; Go's slice expressions on the cache (Forward, Cap) panic when the cache is
   longer/shorter than assumed, which cannot happen while cache = items (LegacyProofs.cache_ok). *)
Record tlist := mkL {
  l_strict : bool; l_txs : list tx; l_costcap : N; l_gascap : N; l_total : Z;
  l_cache : option (list tx) }.

Definition new_list (strict : bool) : tlist := mkL strict [] 0 0 0%Z None.
Definition l_len (l : tlist) : nat := length (l_txs l).
Definition l_empty (l : tlist) : bool := match l_txs l with [] => true | _ => false end.
Definition l_contains (n : N) (l : tlist) : bool :=
  match sm_get n (l_txs l) with Some _ => true | None => false end.
Definition with_txs (l : tlist) (txs : list tx) (tot : Z) (cache : option (list tx)) : tlist :=
  mkL (l_strict l) txs (l_costcap l) (l_gascap l) tot cache.

(* list.subTotalCost; a negative result = Go's "totalcost underflow" panic *)
Definition sub_total (txs : list tx) (tot : Z) : Z :=
  fold_left (fun z t => (z - Z.of_N (cost t))%Z) txs tot.

Inductive add_res := AddOk (old : option tx) | AddUnderpriced | AddOverflow.

(* list.Add *)
Definition list_add (t : tx) (bump : N) (l : tlist) : add_res * tlist :=
  let old := sm_get (t_nonce t) (l_txs l) in
  let rejected :=
    match old with
    | None => false
    | Some o =>
        if (t_feecap t <=? t_feecap o) || (t_tip t <=? t_tip o) then true
        else
          let a := 100 + bump in
          let thr_fee := a * t_feecap o / 100 in
          let thr_tip := a * t_tip o / 100 in
          (t_feecap t <? thr_fee) || (t_tip t <? thr_tip)
    end in
  if rejected then (AddUnderpriced, l)
  else if U256 <=? cost t then (AddOverflow, l)
  else
    let total := (l_total l + Z.of_N (cost t))%Z in
    if (Z.of_N U256 <=? total)%Z then (AddOverflow, l)
    else
      let total := match old with Some o => sub_total [o] total | None => total end in
      (AddOk old,
       mkL (l_strict l) (sm_put t (l_txs l))
           (if l_costcap l <? cost t then cost t else l_costcap l)
           (if l_gascap l <? t_gas t then t_gas t else l_gascap l) total None).

(* list.Forward *)
Definition list_forward (th : N) (l : tlist) : list tx * tlist :=
  let '(rem, keep) := sm_forward th (l_txs l) in
  (* SortedMap.Forward: m.cache = m.cache[len(removed):] *)
  (rem, with_txs l keep (sub_total rem (l_total l)) (option_map (skipn (length rem)) (l_cache l))).

(* list.Filter: (removed, invalids, list) *)
Definition list_filter (cost_limit gas_limit : N) (l : tlist) : list tx * list tx * tlist :=
  if (l_costcap l <=? cost_limit) && (l_gascap l <=? gas_limit) then ([], [], l)
  else
    let l1 := mkL (l_strict l) (l_txs l) cost_limit gas_limit (l_total l) (l_cache l) in
    let '(removed, rest) :=
      sm_filter (fun t => (gas_limit <? t_gas t) || (cost_limit <? cost t)) (l_txs l) in
    match removed with
    | [] => ([], [], l1)
    | _ =>
        let '(invalids, rest') :=
          if l_strict l then
            let lowest := fold_left (fun m t => N.min m (t_nonce t)) removed (2 ^ 64 - 1) in
            sm_filter (fun t => lowest <? t_nonce t) rest
          else ([], rest) in
        (removed, invalids,
         mkL (l_strict l) rest' cost_limit gas_limit
             (sub_total invalids (sub_total removed (l_total l))) None)   (* filter / reheap: cache = nil *)
    end.

(* list.Cap *)
Definition list_cap (th : nat) (l : tlist) : list tx * tlist :=
  let '(drops, keep) := sm_cap th (l_txs l) in
  (* SortedMap.Cap: m.cache = m.cache[:len(m.cache)-len(drops)] (nothing dropped: untouched) *)
  (drops, with_txs l keep (sub_total drops (l_total l))
            (option_map (fun c => firstn (length c - length drops) c) (l_cache l))).

(* list.Remove: (found, invalids, list) — removal is by NONCE, as in Go *)
Definition list_remove (t : tx) (l : tlist) : bool * list tx * tlist :=
  match sm_remove (t_nonce t) (l_txs l) with
  | (false, _) => (false, [], l)
  | (true, rest) =>
      let tot := sub_total [t] (l_total l) in
      if l_strict l then
        let '(inv, rest') := sm_filter (fun x => t_nonce t <? t_nonce x) rest in
        (true, inv, with_txs l rest' (sub_total inv tot) None)
      else (true, [], with_txs l rest tot None)   (* SortedMap.Remove: cache = nil *)
  end.

(* list.Ready *)
Definition list_ready (start : N) (l : tlist) : list tx * tlist :=
  let '(rdy, keep) := sm_ready start (l_txs l) in
  (* SortedMap.Ready returns early (cache untouched) when nothing is ready, else cache = nil *)
  let early := match l_txs l with [] => true | x :: _ => start <? t_nonce x end in
  (rdy, with_txs l keep (sub_total rdy (l_total l)) (if early then l_cache l else None)).

(* list.LastElement (None = index out of range panic) *)
(* SortedMap.flatten / list.Flatten: sort into the cache unless it is already there *)
Definition list_flatten (l : tlist) : list tx * tlist :=
  let c := match l_cache l with Some c => c | None => l_txs l end in
  (c, with_txs l (l_txs l) (l_total l) (Some c)).
(* list.LastElement, through the cache (None = index out of range panic) *)
Definition list_last (l : tlist) : option tx * tlist :=
  let '(c, l') := list_flatten l in (last (map Some c) None, l').

(* ---------- pool state ---------- *)
Record cfg := mkCfg {
  c_bump : N; c_aslots : N; c_gslots : N; c_aqueue : N; c_gqueue : N;
  c_accts : list N }.

(* currentState + currentHead *)
Record chain := mkChain { ch_nonce : N -> N; ch_bal : N -> N; ch_gaslimit : N }.

Record pool := mkPool {
  p_cfg : cfg;
  p_gastip : N;
  p_chain : chain;
  p_pn : N -> option N;              (* noncer.nonces; fallback = ch_nonce *)
  p_pending : N -> option tlist;
  p_queue : N -> option tlist;       (* queue.queued *)
  p_beats : N -> option N;           (* queue.beats *)
  p_clock : N;
  p_all : list tx;                   (* lookup.txs *)
  p_slots : Z;                       (* lookup.slots *)
  p_urgent : list tx; p_floating : list tx;   (* pricedList heaps, sorted by heap order *)
  p_stales : Z;
  p_basefee : option N;              (* urgent.baseFee *)
  p_changes : N;                     (* changesSinceReorg *)
  p_panic : bool;                    (* a Go panic would have happened *)
  p_fuel : bool;                     (* model fuel exhausted *)
  p_ovf : bool }.                    (* ghost: list.Add took a uint256-overflow branch *)

Definition upd {A} (f : N -> A) (a : N) (v : A) : N -> A :=
  fun x => if x =? a then v else f x.

Definition set_chain st v := mkPool (p_cfg st) (p_gastip st) v (p_pn st) (p_pending st) (p_queue st) (p_beats st) (p_clock st) (p_all st) (p_slots st) (p_urgent st) (p_floating st) (p_stales st) (p_basefee st) (p_changes st) (p_panic st) (p_fuel st) (p_ovf st).
Definition set_gastip st v := mkPool (p_cfg st) v (p_chain st) (p_pn st) (p_pending st) (p_queue st) (p_beats st) (p_clock st) (p_all st) (p_slots st) (p_urgent st) (p_floating st) (p_stales st) (p_basefee st) (p_changes st) (p_panic st) (p_fuel st) (p_ovf st).
Definition set_pn st v := mkPool (p_cfg st) (p_gastip st) (p_chain st) v (p_pending st) (p_queue st) (p_beats st) (p_clock st) (p_all st) (p_slots st) (p_urgent st) (p_floating st) (p_stales st) (p_basefee st) (p_changes st) (p_panic st) (p_fuel st) (p_ovf st).
Definition set_pending st v := mkPool (p_cfg st) (p_gastip st) (p_chain st) (p_pn st) v (p_queue st) (p_beats st) (p_clock st) (p_all st) (p_slots st) (p_urgent st) (p_floating st) (p_stales st) (p_basefee st) (p_changes st) (p_panic st) (p_fuel st) (p_ovf st).
Definition set_queue st v := mkPool (p_cfg st) (p_gastip st) (p_chain st) (p_pn st) (p_pending st) v (p_beats st) (p_clock st) (p_all st) (p_slots st) (p_urgent st) (p_floating st) (p_stales st) (p_basefee st) (p_changes st) (p_panic st) (p_fuel st) (p_ovf st).
Definition set_beats st v := mkPool (p_cfg st) (p_gastip st) (p_chain st) (p_pn st) (p_pending st) (p_queue st) v (p_clock st) (p_all st) (p_slots st) (p_urgent st) (p_floating st) (p_stales st) (p_basefee st) (p_changes st) (p_panic st) (p_fuel st) (p_ovf st).
Definition set_clock st v := mkPool (p_cfg st) (p_gastip st) (p_chain st) (p_pn st) (p_pending st) (p_queue st) (p_beats st) v (p_all st) (p_slots st) (p_urgent st) (p_floating st) (p_stales st) (p_basefee st) (p_changes st) (p_panic st) (p_fuel st) (p_ovf st).
Definition set_all st v s := mkPool (p_cfg st) (p_gastip st) (p_chain st) (p_pn st) (p_pending st) (p_queue st) (p_beats st) (p_clock st) v s (p_urgent st) (p_floating st) (p_stales st) (p_basefee st) (p_changes st) (p_panic st) (p_fuel st) (p_ovf st).
Definition set_priced st u f s b := mkPool (p_cfg st) (p_gastip st) (p_chain st) (p_pn st) (p_pending st) (p_queue st) (p_beats st) (p_clock st) (p_all st) (p_slots st) u f s b (p_changes st) (p_panic st) (p_fuel st) (p_ovf st).
Definition set_changes st v := mkPool (p_cfg st) (p_gastip st) (p_chain st) (p_pn st) (p_pending st) (p_queue st) (p_beats st) (p_clock st) (p_all st) (p_slots st) (p_urgent st) (p_floating st) (p_stales st) (p_basefee st) v (p_panic st) (p_fuel st) (p_ovf st).
Definition set_panic st := mkPool (p_cfg st) (p_gastip st) (p_chain st) (p_pn st) (p_pending st) (p_queue st) (p_beats st) (p_clock st) (p_all st) (p_slots st) (p_urgent st) (p_floating st) (p_stales st) (p_basefee st) (p_changes st) true (p_fuel st) (p_ovf st).
Definition set_fuel st := mkPool (p_cfg st) (p_gastip st) (p_chain st) (p_pn st) (p_pending st) (p_queue st) (p_beats st) (p_clock st) (p_all st) (p_slots st) (p_urgent st) (p_floating st) (p_stales st) (p_basefee st) (p_changes st) (p_panic st) true (p_ovf st).
Definition set_ovf st := mkPool (p_cfg st) (p_gastip st) (p_chain st) (p_pn st) (p_pending st) (p_queue st) (p_beats st) (p_clock st) (p_all st) (p_slots st) (p_urgent st) (p_floating st) (p_stales st) (p_basefee st) (p_changes st) (p_panic st) (p_fuel st) true.

(* a list whose total went negative = subTotalCost panicked while producing it *)
Definition chk (l : tlist) (st : pool) : pool :=
  if (l_total l <? 0)%Z then set_panic st else st.
Definition put_pending (a : N) (l : tlist) (st : pool) : pool :=
  chk l (set_pending st (upd (p_pending st) a (Some l))).
Definition del_pending (a : N) (st : pool) : pool :=
  set_pending st (upd (p_pending st) a None).
Definition put_queue (a : N) (l : tlist) (st : pool) : pool :=
  chk l (set_queue st (upd (p_queue st) a (Some l))).
Definition del_queue (a : N) (st : pool) : pool :=
  set_beats (set_queue st (upd (p_queue st) a None)) (upd (p_beats st) a None).

(* ---------- noncer.go ---------- *)
Definition pn_get (a : N) (st : pool) : N :=
  match p_pn st a with Some n => n | None => ch_nonce (p_chain st) a end.
Definition pn_set (a n : N) (st : pool) : pool := set_pn st (upd (p_pn st) a (Some n)).
Definition pn_set_if_lower (a n : N) (st : pool) : pool :=
  if pn_get a st <=? n then st else pn_set a n st.

(* ---------- lookup ---------- *)
Definition all_has (t : tx) (st : pool) : bool := existsb (tx_eqb t) (p_all st).
Definition all_add (t : tx) (st : pool) : pool :=
  set_all st (t :: filter (fun x => negb (tx_eqb t x)) (p_all st)) (p_slots st + Z.of_N (t_slots t))%Z.
(* lookup.Remove: a missing hash only logs an error *)
Definition all_remove (t : tx) (st : pool) : pool :=
  if all_has t st
  then set_all st (filter (fun x => negb (tx_eqb t x)) (p_all st)) (p_slots st - Z.of_N (t_slots t))%Z
  else st.

(* ---------- pricedList ---------- *)
Definition eff_tip (bf : N) (t : tx) : Z := Z.min (Z.of_N (t_tip t)) (Z.of_N (t_feecap t) - Z.of_N bf).

(* priceHeap.cmp *)
Definition price_cmp (bf : option N) (a b : tx) : comparison :=
  let c1 := match bf with
            | Some f => Z.compare (eff_tip f a) (eff_tip f b)
            | None => Eq end in
  match c1 with
  | Eq => match N.compare (t_feecap a) (t_feecap b) with
          | Eq => N.compare (t_tip a) (t_tip b)
          | c => c end
  | c => c
  end.
(* priceHeap.Less *)
Definition price_less (bf : option N) (a b : tx) : bool :=
  match price_cmp bf a b with
  | Lt => true | Gt => false | Eq => t_nonce b <? t_nonce a end.

Fixpoint h_insert (bf : option N) (t : tx) (h : list tx) : list tx :=
  match h with
  | [] => [t]
  | x :: r => if price_less bf t x then t :: h else x :: h_insert bf t r
  end.
Definition h_sort (bf : option N) (l : list tx) : list tx :=
  fold_right (h_insert bf) [] l.

(* pricedList.Put *)
Definition priced_put (t : tx) (st : pool) : pool :=
  set_priced st (h_insert (p_basefee st) t (p_urgent st)) (p_floating st) (p_stales st) (p_basefee st).

(* pricedList.Reheap *)
Definition priced_reheap (st : pool) : pool :=
  let u := h_sort (p_basefee st) (p_all st) in
  let fc := Nat.div (length u) 5 in     (* len * floatingRatio / (urgentRatio + floatingRatio) *)
  set_priced st (skipn fc u) (h_sort None (firstn fc u)) 0%Z (p_basefee st).

(* pricedList.Removed *)
Definition priced_removed (count : nat) (st : pool) : pool :=
  let stales := (p_stales st + Z.of_nat count)%Z in
  let st1 := set_priced st (p_urgent st) (p_floating st) stales (p_basefee st) in
  if (stales <=? Z.of_nat (Nat.div (length (p_urgent st) + length (p_floating st)) 4))%Z
  then st1 else priced_reheap st1.

(* pricedList.SetBaseFee *)
Definition priced_set_basefee (bf : N) (st : pool) : pool :=
  priced_reheap (set_priced st (p_urgent st) (p_floating st) (p_stales st) (Some bf)).

(* the stale-dropping prefix loop of underpricedFor: (heap', stales dropped) *)
Fixpoint drop_stale (alls : list tx) (h : list tx) : list tx * nat :=
  match h with
  | [] => ([], O)
  | x :: r => if existsb (tx_eqb x) alls then (h, O)
              else let '(h', n) := drop_stale alls r in (h', S n)
  end.

(* pricedList.Underpriced (mutates the heaps: stale heads are popped) *)
Definition priced_underpriced (t : tx) (st : pool) : bool * pool :=
  let '(u, nu) := drop_stale (p_all st) (p_urgent st) in
  let up_u := match u with [] => false
              | x :: _ => match price_cmp (p_basefee st) x t with Lt => false | _ => true end end in
  let u_empty := match u with [] => true | _ => false end in
  (* Go's && short-circuits: the floating heap is only cleaned if the first conjunct holds *)
  if up_u || u_empty then
    let '(f, nf) := drop_stale (p_all st) (p_floating st) in
    let up_f := match f with [] => false
                | x :: _ => match price_cmp None x t with Lt => false | _ => true end end in
    let f_empty := match f with [] => true | _ => false end in
    let st1 := set_priced st u f (p_stales st - Z.of_nat nu - Z.of_nat nf)%Z (p_basefee st) in
    ((up_f || f_empty) && negb (u_empty && f_empty), st1)
  else
    (false, set_priced st u (p_floating st) (p_stales st - Z.of_nat nu)%Z (p_basefee st)).

(* pricedList.Discard; slots as Z (Go int) *)
Fixpoint priced_discard_loop (fuel : nat) (alls : list tx) (slots : Z)
         (u f : list tx) (stales : Z) (drop : list tx)
  : option (list tx * list tx * Z * list tx * Z) :=
  match fuel with
  | O => None
  | S k =>
      if (slots <=? 0)%Z then Some (u, f, stales, drop, slots)
      else if Nat.ltb (length f * 4) (length u) then
        match u with
        | [] => Some (u, f, stales, drop, slots)   (* unreachable: length u > 0 *)
        | x :: u' =>
            if existsb (tx_eqb x) alls
            then priced_discard_loop k alls slots u' (h_insert None x f) stales drop
            else priced_discard_loop k alls slots u' f (stales - 1)%Z drop
        end
      else
        match f with
        | [] => Some (u, f, stales, drop, slots)
        | x :: f' =>
            if existsb (tx_eqb x) alls
            then priced_discard_loop k alls (slots - Z.of_N (t_slots x))%Z u f' stales (drop ++ [x])
            else priced_discard_loop k alls slots u f' (stales - 1)%Z drop
        end
  end.

Definition priced_discard (slots : Z) (st : pool) : option (list tx) * pool :=
  let fuel := S (2 * (length (p_urgent st) + length (p_floating st))) in
  match priced_discard_loop fuel (p_all st) slots (p_urgent st) (p_floating st) (p_stales st) [] with
  | None => (None, set_fuel st)
  | Some (u, f, stales, drop, slots_left) =>
      if (0 <? slots_left)%Z then
        (None, set_priced st (fold_left (fun h t => h_insert (p_basefee st) t h) drop u) f stales (p_basefee st))
      else (Some drop, set_priced st u f stales (p_basefee st))
  end.

(* ---------- queue.go ---------- *)
Definition tick (st : pool) : N * pool := (p_clock st, set_clock st (p_clock st + 1)).

(* queue.bump *)
Definition q_bump (a : N) (st : pool) : pool :=
  match p_beats st a with
  | Some _ => let '(now, st1) := tick st in set_beats st1 (upd (p_beats st1) a (Some now))
  | None => st
  end.

(* queue.remove *)
Definition q_remove (a : N) (t : tx) (st : pool) : pool :=
  match p_queue st a with
  | None => st
  | Some fl =>
      match sm_get (t_nonce t) (l_txs fl) with
      | Some o => if negb (tx_eqb o t) then st
                  else
                    let '(_, _, fl') := list_remove t fl in
                    if l_empty fl' then chk fl' (del_queue a st) else put_queue a fl' st
      | None =>
          (* Remove finds nothing; the emptiness test still runs *)
          if l_empty fl then del_queue a st else st
      end
  end.

Inductive qadd_res := QErr | QOk (replaced : option tx).

(* queue.add *)
Definition q_add (t : tx) (st : pool) : qadd_res * pool :=
  let a := t_from t in
  let l0 := match p_queue st a with Some l => l | None => new_list false end in
  match list_add t (c_bump (p_cfg st)) l0 with
  | (AddOk old, l1) =>
      let st1 := put_queue a l1 st in
      let st2 := match p_beats st1 a with
                 | Some _ => st1
                 | None => let '(now, s) := tick st1 in set_beats s (upd (p_beats s) a (Some now))
                 end in
      (QOk old, st2)
  | (AddUnderpriced, _) => (QErr, put_queue a l0 st)
  | (AddOverflow, _) => (QErr, set_ovf (put_queue a l0 st))
  end.

(* ---------- legacypool.go ---------- *)

(* removeTx / enqueueTx are mutually recursive in Go (depth <= 2 in practice) *)
Fixpoint remove_tx (fuel : nat) (t : tx) (outofbound : bool) (st : pool) : pool * nat :=
  match fuel with
  | O => (set_fuel st, O)
  | S k =>
      if negb (all_has t st) then (st, O)
      else
        let a := t_from t in
        let st1 := all_remove t st in
        let st2 := if outofbound then priced_removed 1 st1 else st1 in
        let from_queue := (q_remove a t st2, O) in
        match p_pending st2 a with
        | None => from_queue
        | Some pl =>
            match list_remove t pl with
            | (false, _, _) => from_queue
            | (true, invalids, pl') =>
                let st3 := if l_empty pl' then chk pl' (del_pending a st2) else put_pending a pl' st2 in
                let st4 := fold_left (fun s x => fst (enqueue_tx k x false s)) invalids st3 in
                (pn_set_if_lower a (t_nonce t) st4, S (length invalids))
            end
        end
  end
(* enqueueTx: (error?, replaced?) *)
with enqueue_tx (fuel : nat) (t : tx) (add_all : bool) (st : pool) : pool * option bool :=
  match fuel with
  | O => (set_fuel st, None)
  | S k =>
      match q_add t st with
      | (QErr, st1) => (st1, None)
      | (QOk replaced, st1) =>
          let st2 := match replaced with
                     | Some o => fst (remove_tx k o true st1)
                     | None => st1 end in
          let st3 := if add_all then priced_put t (all_add t st2) else st2 in
          (st3, Some (match replaced with Some _ => true | None => false end))
      end
  end.

Definition FUEL : nat := 6.

(* error classes of Add *)
Definition E_OK := 0. Definition E_KNOWN := 1. Definition E_OVERSIZED := 2.
Definition E_GASLIMIT := 3. Definition E_TIPABOVEFEE := 4. Definition E_INTRINSIC := 5.
Definition E_PRICELOW := 6. Definition E_NONCELOW := 7. Definition E_FUNDS := 8.
Definition E_UNDERPRICED := 9. Definition E_OVERFLOW := 10. Definition E_FUTUREREPLACE := 11.
Definition E_REPLACEUNDER := 12.

(* txpool.ValidateTransaction as called by ValidateTxBasics (dynamic-fee tx with a
   recipient on a London chain); txMaxSize = 4 slots *)
Definition validate_basics (t : tx) (st : pool) : N :=
  if 4 <? t_slots t then E_OVERSIZED
  else if ch_gaslimit (p_chain st) <? t_gas t then E_GASLIMIT
  else if t_feecap t <? t_tip t then E_TIPABOVEFEE
  else if t_gas t <? t_intr t then E_INTRINSIC
  else if t_tip t <? p_gastip st then E_PRICELOW
  else E_OK.

(* txpool.ValidateTransactionWithState with the callbacks of LegacyPool.validateTx *)
Definition validate_state (t : tx) (st : pool) : N :=
  let a := t_from t in
  if t_nonce t <? ch_nonce (p_chain st) a then E_NONCELOW
  else
    let balance := Z.of_N (ch_bal (p_chain st) a) in
    let c := Z.of_N (cost t) in
    if (balance <? c)%Z then E_FUNDS
    else
      let spent := match p_pending st a with Some l => l_total l | None => 0%Z end in
      let prev := match p_pending st a with
                  | Some l => sm_get (t_nonce t) (l_txs l) | None => None end in
      match prev with
      | Some o => if (balance <? spent + (c - Z.of_N (cost o)))%Z then E_FUNDS else E_OK
      | None => if (balance <? spent + c)%Z then E_FUNDS else E_OK
      end.

(* LegacyPool.isGapped *)
Fixpoint gap_scan (n : nat) (from : N) (l : tlist) : bool :=
  match n with
  | O => false
  | S k => if l_contains from l then gap_scan k (from + 1) l else true
  end.
Definition is_gapped (t : tx) (st : pool) : bool :=
  let next := pn_get (t_from t) st in
  if t_nonce t <=? next then false
  else match p_queue st (t_from t) with
       | None => true
       | Some q => gap_scan (N.to_nat (t_nonce t - next)) next q
       end.

(* LegacyPool.add: (pool, error class, replaced) *)
Definition pool_add (t : tx) (st : pool) : pool * N * bool :=
  if all_has t st then (st, E_KNOWN, false)
  else
    let e := validate_state t st in
    if negb (e =? E_OK) then (st, e, false)
    else
      let a := t_from t in
      let c := p_cfg st in
      (* pool full? *)
      let full :=
        (Z.of_N (c_gslots c + c_gqueue c) <? p_slots st + Z.of_N (t_slots t))%Z in
      let evict : option N * pool :=
        if negb full then (None, st)
        else
          let '(under, st1) := priced_underpriced t st in
          if under then (Some E_UNDERPRICED, st1)
          else if c_gslots c / 4 <? p_changes st1 then (Some E_OVERFLOW, st1)
          else
            match priced_discard (p_slots st1 - Z.of_N (c_gslots c + c_gqueue c) + Z.of_N (t_slots t))%Z st1 with
            | (None, st2) => (Some E_OVERFLOW, st2)
            | (Some drop, st2) =>
                let replaces_pending :=
                  is_gapped t st2 &&
                  existsb (fun d => match p_pending st2 (t_from d) with
                                    | Some l => l_contains (t_nonce d) l | None => false end) drop in
                if replaces_pending then
                  (Some E_FUTUREREPLACE, fold_left (fun s d => priced_put d s) drop st2)
                else
                  (None,
                   fold_left (fun s d =>
                                let '(s', n) := remove_tx FUEL d false s in
                                set_changes s' (p_changes s' + N.of_nat n)) drop st2)
            end in
      match evict with
      | (Some err, st1) => (st1, err, false)
      | (None, st1) =>
          let in_pending := match p_pending st1 a with
                            | Some l => l_contains (t_nonce t) l | None => false end in
          if in_pending then
            match p_pending st1 a with
            | None => (st1, E_OK, false) (* unreachable *)
            | Some l =>
                match list_add t (c_bump c) l with
                | (AddOk old, l') =>
                    let st2 := put_pending a l' st1 in
                    let st3 := match old with
                               | Some o => priced_removed 1 (all_remove o st2)
                               | None => st2 end in
                    let st4 := priced_put t (all_add t st3) in
                    (q_bump a st4, E_OK, match old with Some _ => true | None => false end)
                | (AddUnderpriced, _) => (st1, E_REPLACEUNDER, false)
                | (AddOverflow, _) => (set_ovf st1, E_REPLACEUNDER, false)
                end
            end
          else
            match enqueue_tx FUEL t true st1 with
            | (st2, None) => (st2, E_REPLACEUNDER, false)
            | (st2, Some r) => (st2, E_OK, r)
            end
      end.

(* LegacyPool.addTxsLocked: errs is the pre-set error per tx (E_OK = try);
   returns the new errors and the dirty accounts (in first-occurrence order) *)
Fixpoint add_txs_locked (txs : list tx) (errs : list N) (st : pool) (dirty : list N)
  : pool * list N * list N :=
  match txs, errs with
  | t :: ts, e :: es =>
      if negb (e =? E_OK) then
        let '(st', es', d') := add_txs_locked ts es st dirty in (st', e :: es', d')
      else
        let '(st1, e1, replaced) := pool_add t st in
        let dirty1 := if (e1 =? E_OK) && negb replaced && negb (existsb (N.eqb (t_from t)) dirty)
                      then dirty ++ [t_from t] else dirty in
        let '(st', es', d') := add_txs_locked ts es st1 dirty1 in (st', e1 :: es', d')
  | _, _ => (st, [], dirty)
  end.

(* LegacyPool.promoteTx *)
Definition promote_tx (t : tx) (st : pool) : pool :=
  let a := t_from t in
  let l0 := match p_pending st a with Some l => l | None => new_list true end in
  match list_add t (c_bump (p_cfg st)) l0 with
  | (AddOk old, l1) =>
      let st1 := put_pending a l1 st in
      let st2 := match old with
                 | Some o => priced_removed 1 (all_remove o st1)
                 | None => st1 end in
      q_bump a (pn_set a (t_nonce t + 1) st2)
  | (r, _) =>
      let st1 := put_pending a l0 st in     (* pool.pending[addr] = newList(true) stays *)
      let st2 := priced_removed 1 (all_remove t st1) in
      match r with AddOverflow => set_ovf st2 | _ => st2 end
  end.

(* queue.promoteExecutables for one account: (promotable, dropped, pool) *)
Definition q_promote_one (a : N) (st : pool) : list tx * list tx * pool :=
  match p_queue st a with
  | None => ([], [], st)
  | Some l =>
      let '(forwards, l1) := list_forward (ch_nonce (p_chain st) a) l in
      let '(drops, _, l2) := list_filter (ch_bal (p_chain st) a) (ch_gaslimit (p_chain st)) l1 in
      let '(readies, l3) := list_ready (pn_get a st) l2 in
      let '(caps, l4) := list_cap (N.to_nat (c_aqueue (p_cfg st))) l3 in
      let st1 := if l_empty l4 then chk l4 (del_queue a st) else put_queue a l4 st in
      (readies, forwards ++ drops ++ caps, st1)
  end.

(* LegacyPool.promoteExecutables *)
Definition promote_executables (accounts : list N) (st : pool) : pool :=
  let '(promotable, dropped, st1) :=
    fold_left (fun '(p, d, s) a =>
                 let '(p1, d1, s1) := q_promote_one a s in (p ++ p1, d ++ d1, s1))
              accounts ([], [], st) in
  let st2 := fold_left (fun s t => promote_tx t s) promotable st1 in
  let st3 := fold_left (fun s t => all_remove t s) dropped st2 in
  priced_removed (length dropped) st3.

(* one "drop the last transaction of this account" step of truncatePending *)
Definition trunc_one (a : N) (st : pool) : pool :=
  match p_pending st a with
  | None => st
  | Some l =>
      let '(caps, l') := list_cap (Nat.pred (l_len l)) l in
      let st1 := put_pending a l' st in
      let st2 := fold_left (fun s t => pn_set_if_lower a (t_nonce t) (all_remove t s)) caps st1 in
      priced_removed (length caps) st2
  end.

Definition pending_len (a : N) (st : pool) : nat :=
  match p_pending st a with Some l => l_len l | None => O end.
Definition queue_len (a : N) (st : pool) : nat :=
  match p_queue st a with Some l => l_len l | None => O end.
Definition pending_count (st : pool) : nat :=
  fold_left (fun n a => (n + pending_len a st)%nat) (c_accts (p_cfg st)) O.
Definition queue_count (st : pool) : nat :=
  fold_left (fun n a => (n + queue_len a st)%nat) (c_accts (p_cfg st)) O.

(* insertion into a list of (key, account) sorted by key descending (stable) *)
Fixpoint ins_desc (k : nat) (a : N) (l : list (nat * N)) : list (nat * N) :=
  match l with
  | [] => [(k, a)]
  | (k', a') :: r => if Nat.ltb k' k then (k, a) :: l else (k', a') :: ins_desc k a r
  end.

(* inner equalisation loops of truncatePending *)
Fixpoint trunc_equalize (fuel : nat) (gslots : nat) (offs : list N) (lastbut : N) (threshold : nat)
         (pending : nat) (st : pool) : nat * pool :=
  match fuel with
  | O => (pending, set_fuel st)
  | S k =>
      if Nat.ltb gslots pending && Nat.ltb threshold (pending_len lastbut st) then
        let '(p', st') := fold_left (fun '(p, s) a => (Nat.pred p, trunc_one a s)) offs (pending, st) in
        trunc_equalize k gslots offs lastbut threshold p' st'
      else (pending, st)
  end.

Fixpoint trunc_phase1 (fuel : nat) (gslots : nat) (spammers : list (nat * N)) (offenders : list N)
         (pending : nat) (st : pool) : list N * nat * pool :=
  match spammers with
  | [] => (offenders, pending, st)
  | (_, off) :: rest =>
      if Nat.ltb gslots pending then
        let offenders' := offenders ++ [off] in
        match rev offenders with
        | [] => trunc_phase1 fuel gslots rest offenders' pending st
        | lastbut :: _ =>
            let threshold := pending_len off st in
            let '(p', st') := trunc_equalize fuel gslots offenders lastbut threshold pending st in
            trunc_phase1 fuel gslots rest offenders' p' st'
        end
      else (offenders, pending, st)
  end.

Fixpoint trunc_phase2 (fuel : nat) (gslots aslots : nat) (offenders : list N) (last_off : N)
         (pending : nat) (st : pool) : nat * pool :=
  match fuel with
  | O => (pending, set_fuel st)
  | S k =>
      if Nat.ltb gslots pending && Nat.ltb aslots (pending_len last_off st) then
        let '(p', st') := fold_left (fun '(p, s) a => (Nat.pred p, trunc_one a s)) offenders (pending, st) in
        trunc_phase2 k gslots aslots offenders last_off p' st'
      else (pending, st)
  end.

(* LegacyPool.truncatePending *)
Definition truncate_pending (st : pool) : pool :=
  let c := p_cfg st in
  let gslots := N.to_nat (c_gslots c) in
  let aslots := N.to_nat (c_aslots c) in
  let pending := pending_count st in
  let spammers :=
    fold_left (fun sp a => let n := pending_len a st in
                           if Nat.ltb aslots n then ins_desc n a sp else sp) (c_accts c) [] in
  if Nat.leb pending gslots then st
  else
    let fuel := S pending in
    let '(offenders, pending1, st1) := trunc_phase1 fuel gslots spammers [] pending st in
    match rev offenders with
    | [] => st1
    | last_off :: _ =>
        if Nat.ltb gslots pending1
        then snd (trunc_phase2 fuel gslots aslots offenders last_off pending1 st1)
        else st1
    end.

(* accounts with a queue entry, oldest heartbeat first *)
Fixpoint ins_beat (b : N) (a : N) (l : list (N * N)) : list (N * N) :=
  match l with
  | [] => [(b, a)]
  | (b', a') :: r => if b <? b' then (b, a) :: l else (b', a') :: ins_beat b a r
  end.
Definition beat_of (a : N) (st : pool) : N := match p_beats st a with Some b => b | None => 0 end.
Definition queue_by_beat (st : pool) : list N :=
  map snd (fold_left (fun l a => match p_queue st a with
                                 | Some _ => ins_beat (beat_of a st) a l | None => l end)
                     (c_accts (p_cfg st)) []).

(* queue.truncate + LegacyPool.truncateQueue *)
Fixpoint q_truncate_loop (addrs : list N) (drop : nat) (removed : list tx) (st : pool) : list tx * pool :=
  match addrs with
  | [] => (removed, st)
  | a :: rest =>
      match drop with
      | O => (removed, st)
      | S _ =>
          match p_queue st a with
          | None => q_truncate_loop rest drop removed st
          | Some l =>
              let txs := l_txs l in
              if Nat.leb (length txs) drop then
                let st1 := fold_left (fun s t => q_remove a t s) txs st in
                q_truncate_loop rest (drop - length txs) (removed ++ txs) st1
              else
                let victims := firstn drop (rev txs) in
                let st1 := fold_left (fun s t => q_remove a t s) victims st in
                q_truncate_loop rest O (removed ++ victims) st1
          end
      end
  end.

Definition truncate_queue (st : pool) : pool :=
  let queued := queue_count st in
  let gq := N.to_nat (c_gqueue (p_cfg st)) in
  if Nat.leb queued gq then st
  else
    let '(removed, st1) := q_truncate_loop (queue_by_beat st) (queued - gq) [] st in
    let st2 := fold_left (fun s t => all_remove t s) removed st1 in
    priced_removed (length removed) st2.

(* LegacyPool.demoteUnexecutables, one account *)
Definition demote_one (a : N) (st : pool) : pool :=
  match p_pending st a with
  | None => st
  | Some l =>
      let nonce := ch_nonce (p_chain st) a in
      let '(olds, l1) := list_forward nonce l in
      let st1 := fold_left (fun s t => all_remove t s) olds (put_pending a l1 st) in
      let '(drops, invalids, l2) := list_filter (ch_bal (p_chain st) a) (ch_gaslimit (p_chain st)) l1 in
      let st2 := fold_left (fun s t => all_remove t s) drops (put_pending a l2 st1) in
      let st3 := fold_left (fun s t => fst (enqueue_tx FUEL t false s)) invalids st2 in
      let st4 := priced_removed (length olds + length drops) st3 in
      let l3 := match p_pending st4 a with Some x => x | None => new_list true end in
      let st5 :=
        if negb (l_empty l3) && negb (l_contains nonce l3) then
          let '(gapped, l4) := list_cap O l3 in
          fold_left (fun s t => fst (enqueue_tx FUEL t false s)) gapped (put_pending a l4 st4)
        else st4 in
      match p_pending st5 a with
      | Some x => if l_empty x then del_pending a st5 else st5
      | None => st5
      end
  end.

Definition demote_unexecutables (st : pool) : pool :=
  fold_left (fun s a => demote_one a s) (c_accts (p_cfg st)) st.

(* ---------- the fake chain seen through the BlockChain interface ---------- *)
Record block := mkBlock {
  b_id : N; b_parent : N; b_num : N; b_gaslimit : N; b_basefee : N;
  b_nonces : list N; b_bals : list N; b_txs : list tx }.

Definition get_block (blocks : list block) (id : N) : option block :=
  find (fun b => b_id b =? id) blocks.

Definition block_chain (b : block) : chain :=
  mkChain (fun a => nth (N.to_nat a) (b_nonces b) 0) (fun a => nth (N.to_nat a) (b_bals b) 0) (b_gaslimit b).

(* the three chain-walking loops of LegacyPool.reset; None = "Unrooted chain" early return *)
Fixpoint reorg_walk (fuel : nat) (blocks : list block) (rem add : block) (disc incl : list tx)
  : option (list tx * list tx) :=
  match fuel with
  | O => None
  | S k =>
      if b_num add <? b_num rem then
        match get_block blocks (b_parent rem) with
        | Some r => reorg_walk k blocks r add (disc ++ b_txs rem) incl
        | None => None end
      else if b_num rem <? b_num add then
        match get_block blocks (b_parent add) with
        | Some a' => reorg_walk k blocks rem a' disc (incl ++ b_txs add)
        | None => None end
      else if negb (b_id rem =? b_id add) then
        match get_block blocks (b_parent rem), get_block blocks (b_parent add) with
        | Some r, Some a' => reorg_walk k blocks r a' (disc ++ b_txs rem) (incl ++ b_txs add)
        | _, _ => None end
      else Some (disc, incl)
  end.

(* types.TxDifference *)
Definition tx_difference (a b : list tx) : list tx :=
  filter (fun t => negb (existsb (tx_eqb t) b)) a.

(* LegacyPool.reset(oldHead, newHead); both heads are blocks known to the chain *)
Definition pool_reset (blocks : list block) (old new : block) (st : pool) : pool :=
  let reinject : option (list tx) :=
    if negb (b_id old =? b_parent new) then   (* oldHead.Hash() != newHead.ParentHash *)
      let depth := if b_num old <? b_num new then b_num new - b_num old else b_num old - b_num new in
      if 64 <? depth then Some []
      else match reorg_walk (S (S (2 * length blocks))) blocks old new [] [] with
           | None => None
           | Some (disc, incl) => Some (tx_difference disc incl)
           end
    else Some [] in
  match reinject with
  | None => st        (* early return: state not updated *)
  | Some lost =>
      let st1 := set_pn (set_chain st (block_chain new)) (fun _ => None) in
      let '(st2, _, _) := add_txs_locked lost (map (fun _ => E_OK) lost) st1 [] in
      st2
  end.

(* runReorg with a reset request *)
Definition set_all_nonces (st : pool) : pool :=
  fold_left (fun s a =>
               match p_pending st a with
               | None => s
               | Some l => match list_last l with     (* LastElement fills the list's cache *)
                           | (Some t, l') => pn_set a (t_nonce t + 1) (set_pending s (upd (p_pending s) a (Some l')))
                           | (None, l') => set_panic (set_pending s (upd (p_pending s) a (Some l'))) end
               end) (c_accts (p_cfg st)) (set_pn st (fun _ => None)).

Definition queue_addresses (st : pool) : list N :=
  filter (fun a => match p_queue st a with Some _ => true | None => false end) (c_accts (p_cfg st)).

Definition run_reorg_reset (blocks : list block) (old new : block) (st : pool) : pool :=
  let st1 := pool_reset blocks old new st in
  let st2 := promote_executables (queue_addresses st1) st1 in
  let st3 := demote_unexecutables st2 in
  let st4 := priced_set_basefee (b_basefee new) st3 in
  let st5 := set_all_nonces st4 in
  let st6 := truncate_queue (truncate_pending st5) in
  set_changes st6 0.

(* runReorg with dirty accounts only *)
Definition run_reorg_promote (dirty : list N) (st : pool) : pool :=
  let st1 := promote_executables dirty st in
  let st2 := truncate_queue (truncate_pending st1) in
  set_changes st2 0.

(* LegacyPool.Add(txs, sync = true) *)
Definition pool_Add (txs : list tx) (st : pool) : pool * list N :=
  let errs := map (fun t => if all_has t st then E_KNOWN else validate_basics t st) txs in
  if negb (existsb (N.eqb E_OK) errs) then (st, errs)
  else
    let '(st1, errs1, dirty) := add_txs_locked txs errs st [] in
    (run_reorg_promote dirty st1, errs1).

(* LegacyPool.SetGasTip *)
Definition pool_SetGasTip (tip : N) (st : pool) : pool :=
  let old := p_gastip st in
  let st1 := set_gastip st tip in
  if old <? tip then
    let drop := filter (fun t => t_tip t <? tip) (p_all st1) in
    let st2 := fold_left (fun s t => fst (remove_tx FUEL t false s)) drop st1 in
    priced_removed (length drop) st2
  else st1.

(* ---------- the public listing paths (they fill the sorted caches) ---------- *)
Definition flatten_pending (a : N) (st : pool) : list tx * pool :=
  match p_pending st a with
  | None => ([], st)
  | Some l => let '(c, l') := list_flatten l in (c, set_pending st (upd (p_pending st) a (Some l')))
  end.
Definition flatten_queue (a : N) (st : pool) : list tx * pool :=
  match p_queue st a with
  | None => ([], st)
  | Some l => let '(c, l') := list_flatten l in (c, set_queue st (upd (p_queue st) a (Some l')))
  end.

(* LegacyPool.ContentFrom *)
Definition pool_ContentFrom (a : N) (st : pool) : (list tx * list tx) * pool :=
  let '(p, st1) := flatten_pending a st in
  let '(q, st2) := flatten_queue a st1 in ((p, q), st2).

(* LegacyPool.Content: per account (in universe order) the pending and the queued listing *)
Definition pool_Content (st : pool) : list (list tx * list tx) * pool :=
  fold_left (fun '(acc, s) a => let '(pq, s') := pool_ContentFrom a s in (acc ++ [pq], s'))
            (c_accts (p_cfg st)) ([], st).

(* LegacyPool.Pending with an empty filter *)
Definition pool_Pending (st : pool) : list (list tx) * pool :=
  fold_left (fun '(acc, s) a => let '(p, s') := flatten_pending a s in (acc ++ [p], s'))
            (c_accts (p_cfg st)) ([], st).

(* New + Init *)
Definition pool_init (c : cfg) (gastip : N) (genesis : block) : pool :=
  mkPool c gastip (block_chain genesis) (fun _ => None) (fun _ => None) (fun _ => None)
         (fun _ => None) 1 [] 0%Z [] [] 0%Z None 0 false false false.

(* ---------- histories ---------- *)
Inductive op :=
| OpAdd (txs : list tx)
| OpReset (blocks : list block) (old new : block)
| OpSetGasTip (tip : N)
| OpContent | OpContentFrom (a : N) | OpPending.

Definition step (st : pool) (o : op) : pool :=
  match o with
  | OpAdd txs => fst (pool_Add txs st)
  | OpReset blocks old new => run_reorg_reset blocks old new st
  | OpSetGasTip tip => pool_SetGasTip tip st
  | OpContent => snd (pool_Content st)
  | OpContentFrom a => snd (pool_ContentFrom a st)
  | OpPending => snd (pool_Pending st)
  end.

Definition run_history (st : pool) (h : list op) : pool := fold_left step h st.
