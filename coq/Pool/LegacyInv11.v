(* Pool/LegacyInv11.v — "the queue has no executable head": after every Add cycle (and SetGasTip,
   listings) no queued tx has a nonce at or below the pending nonce of its sender. *)
From GV Require Import Lib.Tactics Pool.Legacy Pool.LegacyProofs Pool.LegacyInv Pool.LegacyInv2 Pool.LegacyInv3 Pool.LegacyInv4 Pool.LegacyInv5 Pool.LegacyInv6 Pool.LegacyInv7 Pool.LegacyInv8 Pool.LegacyInv9 Pool.LegacyInv10.
From Coq Require Import Sorting.Sorted.
Local Open Scope N_scope.

Definition w_at (st : pool) (a : N) : Prop := forall x, in_opt x (p_queue st a) -> pn_get a st <= t_nonce x.
Definition nx_at (st : pool) (a : N) : Prop := forall x, in_opt x (p_queue st a) -> pn_get a st < t_nonce x.
(* weakly everywhere, strictly outside the dirty accounts D *)
Definition NXD (D : list N) (st : pool) : Prop := (forall a, w_at st a) /\ (forall a, ~ In a D -> nx_at st a).
Definition NX (st : pool) : Prop := forall a, nx_at st a.

Lemma wnx_mono : forall st st' a, (forall x, in_opt x (p_queue st' a) -> in_opt x (p_queue st a)) -> pn_get a st' <= pn_get a st ->
  (w_at st a -> w_at st' a) /\ (nx_at st a -> nx_at st' a).
Proof.
  intros st st' a Hq Hp. split; intros H x Hx; specialize (H x (Hq x Hx)); lia.
Qed.

Lemma NXD_mono : forall D st st', (forall a x, in_opt x (p_queue st' a) -> in_opt x (p_queue st a)) ->
  (forall a, pn_get a st' <= pn_get a st) -> NXD D st -> NXD D st'.
Proof.
  intros D st st' Hq Hp [HW HN]. split; [intros a; apply (wnx_mono st st' a (Hq a) (Hp a)), HW | intros a Ha; apply (wnx_mono st st' a (Hq a) (Hp a)), HN, Ha].
Qed.

Lemma NXD_core_pn : forall D s s', core s' = core s -> p_pn s' = p_pn s -> NXD D s -> NXD D s'.
Proof.
  intros D s s' Hc Hn. core_inv Hc. apply NXD_mono; [intros a x Hx; rewrite Equeue in Hx; exact Hx | intros a; unfold pn_get; rewrite Hn, Echain; lia].
Qed.

Lemma queue_q_remove_sub : forall a t s b x, in_opt x (p_queue (q_remove a t s) b) -> in_opt x (p_queue s b).
Proof.
  intros a t s b x Hx. unfold q_remove in Hx. destruct (p_queue s a) as [fl|] eqn:Eq; [|exact Hx].
  destruct (sm_get (t_nonce t) (l_txs fl)) as [o|].
  - destruct (negb (tx_eqb o t)); [exact Hx|]. destruct (list_remove t fl) as [[f inv] fl'] eqn:Er.
    destruct (l_empty fl'); unfold put_queue, chk in Hx; destruct (_ <? _)%Z; cbn in Hx; unfold upd in Hx; destruct (b =? a) eqn:E;
      try exact Hx; try destruct Hx; apply N.eqb_eq in E; subst b; rewrite Eq; cbn [in_opt] in *; eapply list_remove_sub; eassumption.
  - destruct (l_empty fl); [|exact Hx]. cbn in Hx. unfold upd in Hx. destruct (b =? a); [destruct Hx | exact Hx].
Qed.

(* removeTx *)
Lemma remove_tx_NX : forall k t oob st D, SInv st -> GInv st -> NXD D st -> NXD D (fst (remove_tx (S (S k)) t oob st)).
Proof.
  intros k t oob st D HS HG HN. cbn [remove_tx]. destruct (all_has t st) eqn:Eh; cbn [negb fst]; [|exact HN].
  apply all_has_In in Eh. set (a := t_from t).
  set (st2 := if oob then priced_removed 1 (all_remove t st) else all_remove t st).
  assert (F2 : p_pending st2 = p_pending st /\ p_queue st2 = p_queue st /\ p_pn st2 = p_pn st /\ p_chain st2 = p_chain st /\ p_cfg st2 = p_cfg st).
  { destruct (all_remove_spec t st (SInv_AInv _ HS)) as [_ [_ [C1 [Ch1 [P1 [Q1 [_ Pn1]]]]]]].
    unfold st2. destruct oob; [|tauto]. pose proof (core_priced_removed 1 (all_remove t st)) as Hc. core_inv Hc.
    rewrite pn_priced_removed, Epend, Equeue, Echain, Ecfg. tauto. }
  destruct F2 as [P2 [Q2 [N2 [Ch2 C2]]]].
  assert (Hqcase : NXD D (q_remove a t st2)).
  { destruct (pn_q_remove a t st2) as [Nq Chq]. apply (NXD_mono D st); [| |exact HN].
    - intros b x Hx. apply queue_q_remove_sub in Hx. rewrite Q2 in Hx. exact Hx.
    - intros b. unfold pn_get. rewrite Nq, N2, Chq, Ch2. lia. }
  assert (Hloc : inP st t \/ inQ st t) by (apply (s_union _ HS), Eh).
  rewrite P2. destruct (p_pending st a) as [pl|] eqn:Ep; [|exact Hqcase].
  destruct (s_pw _ HS a pl Ep) as [Lp Ha].
  destruct (list_remove t pl) as [[found inv] pl'] eqn:Er. destruct found; [|exact Hqcase].
  assert (Hin : In t (l_txs pl)).
  { destruct Hloc as [Hp|Hq]; [unfold inP in Hp; fold a in Hp; rewrite Ep in Hp; exact Hp|]. exfalso.
    unfold inQ in Hq. fold a in Hq. destruct (p_queue st a) as [ql|] eqn:Eq; [|destruct Hq].
    pose proof (s_disj _ HS a pl ql t Ep Eq Hq) as Hd. unfold list_remove, sm_remove in Er. rewrite Hd in Er. discriminate. }
  destruct (list_remove_spec _ _ _ _ t Lp Hin) as [inv0 [pl0 [Er0 [Lp' [Mp' [Minv Sinv]]]]]]. rewrite Er in Er0. inversion Er0; subst inv0 pl0; clear Er0.
  set (st3 := if l_empty pl' then chk pl' (del_pending a st2) else put_pending a pl' st2).
  assert (F3 : p_queue st3 = p_queue st /\ p_pn st3 = p_pn st /\ p_chain st3 = p_chain st /\ p_cfg st3 = p_cfg st).
  { unfold st3, put_pending. rewrite !(chk_ok _ _ _ _ _ Lp'). destruct (l_empty pl'); cbn; rewrite ?Q2, ?N2, ?Ch2, ?C2; repeat split; reflexivity. }
  destruct F3 as [Q3 [N3 [Ch3 C3]]].
  assert (Hinv : forall x, In x inv -> In x (l_txs pl) /\ t_nonce t < t_nonce x) by (intros x Hx; apply Minv in Hx; tauto).
  destruct (enqueue_many k inv st3 a) as [_ [M4 [O4 F4]]].
  { intros ql Hq0. rewrite C3. rewrite Q3 in Hq0. apply (s_qw _ HS a ql Hq0). }
  { intros x Hx. rewrite C3. apply (lk_mem _ _ _ _ Lp), Hinv, Hx. }
  { exact Sinv. }
  { intros x ql Hx Hq0. rewrite Q3 in Hq0. destruct (sm_get (t_nonce x) (l_txs ql)) as [o|] eqn:Eo; [|reflexivity].
    apply sm_get_In in Eo. destruct Eo as [Ho1 Ho2]. pose proof (s_disj _ HS a pl ql o Ep Hq0 Ho1) as Hd. rewrite Ho2 in Hd.
    exfalso. eapply In_sm_get; [apply (Hinv x Hx) | exact Hd]. }
  set (st4 := fold_left (fun s x => fst (enqueue_tx (S k) x false s)) inv st3) in *.
  destruct F4 as [_ [Ch4 [_ [_ [_ [_ N4]]]]]]. cbn [fst].
  assert (Hch4 : p_chain st4 = p_chain st) by congruence.
  destruct (HG a) as [G1 G2]. unfold pending_len in G2. rewrite Ep in G2. specialize (G1 pl Ep).
  assert (Hn2 : t_nonce t < pn_get a st) by (rewrite G2; apply (contig_length_bound _ _ _ G1 Hin)).
  pose proof (core_pn_set_if_lower a (t_nonce t) st4) as Hc. core_inv Hc.
  assert (Hg4 : forall b, pn_get b st4 = pn_get b st) by (intros b; unfold pn_get; rewrite N4, N3, Hch4; reflexivity).
  destruct HN as [HW HNx].
  assert (Ha_strict : nx_at (pn_set_if_lower a (t_nonce t) st4) a).
  { intros x Hx. rewrite Equeue in Hx. apply M4 in Hx. rewrite pn_set_if_lower_get, N.eqb_refl, Hg4.
    destruct Hx as [Hx|Hx]; [pose proof (Hinv x Hx); lia|]. rewrite Q3 in Hx. pose proof (HW a x Hx). lia. }
  split.
  - intros b. destruct (N.eq_dec b a) as [->|Hne]; [intros x Hx; pose proof (Ha_strict x Hx); lia|].
    intros x Hx. rewrite Equeue, (O4 b Hne), Q3 in Hx. rewrite pn_set_if_lower_get. destruct (b =? a) eqn:Eb; [apply N.eqb_eq in Eb; contradiction|]. rewrite Hg4. apply (HW b x Hx).
  - intros b Hb. destruct (N.eq_dec b a) as [->|Hne]; [exact Ha_strict|].
    intros x Hx. rewrite Equeue, (O4 b Hne), Q3 in Hx. rewrite pn_set_if_lower_get. destruct (b =? a) eqn:Eb; [apply N.eqb_eq in Eb; contradiction|]. rewrite Hg4. apply (HNx b Hb x Hx).
Qed.

Lemma NXD_weaken : forall D D' st, (forall a, In a D -> In a D') -> NXD D st -> NXD D' st.
Proof. intros D D' st H [HW HN]. split; [exact HW | intros a Ha; apply HN; intros Hi; apply Ha, H, Hi]. Qed.

Lemma queue_chk : forall l s, p_queue (chk l s) = p_queue s. Proof. intros. unfold chk. destruct (_ <? _)%Z; reflexivity. Qed.

(* enqueueTx of a new tx: what it does to the queues *)
Lemma enqueue_true_queue : forall k t st, SInv st -> ~ In t (p_all st) ->
  (forall pl, p_pending st (t_from t) = Some pl -> sm_get (t_nonce t) (l_txs pl) = None) ->
  (forall b x, in_opt x (p_queue (fst (enqueue_tx (S (S k)) t true st)) b) -> in_opt x (p_queue st b) \/ (x = t /\ b = t_from t)) /\
  (snd (enqueue_tx (S (S k)) t true st) = Some true -> exists o, in_opt o (p_queue st (t_from t)) /\ t_nonce o = t_nonce t) /\
  (snd (enqueue_tx (S (S k)) t true st) = None -> forall b x, in_opt x (p_queue (fst (enqueue_tx (S (S k)) t true st)) b) -> in_opt x (p_queue st b)).
Proof.
  intros k t st HS Hnt Hnp. set (a := t_from t). cbn [enqueue_tx]. unfold q_add. fold a.
  set (l0 := match p_queue st a with Some l => l | None => new_list false end).
  assert (L0 : lok (p_cfg st) false a l0) by (unfold l0; destruct (p_queue st a) eqn:E; [apply (s_qw _ HS a t0 E) | apply lok_new]).
  assert (Hl0 : forall x, In x (l_txs l0) <-> in_opt x (p_queue st a)) by (intros x; unfold l0, in_opt; destruct (p_queue st a); [reflexivity | cbn; tauto]).
  assert (Herr : forall s', p_queue s' = upd (p_queue st) a (Some l0) -> forall b x, in_opt x (p_queue s' b) -> in_opt x (p_queue st b)).
  { intros s' Hq b x Hx. rewrite Hq in Hx. unfold upd in Hx. destruct (b =? a) eqn:E; [|exact Hx]. apply N.eqb_eq in E. subst b. apply Hl0, Hx. }
  destruct (list_add t (c_bump (p_cfg st)) l0) as [[old| |] l1] eqn:Ea; cbn [fst snd].
  2:{ assert (He := Herr (put_queue a l0 st) ltac:(unfold put_queue; rewrite queue_chk; reflexivity)).
      split; [intros b x Hx; left; apply He, Hx|]. split; [discriminate | intros _; exact He]. }
  2:{ assert (He := Herr (set_ovf (put_queue a l0 st)) ltac:(unfold put_queue; cbn [set_ovf p_queue]; rewrite queue_chk; reflexivity)).
      split; [intros b x Hx; left; apply He, Hx|]. split; [discriminate | intros _; exact He]. }
  destruct (list_add_ok_inv _ _ _ _ _ Ea) as [Hold [Ht1 _]]. subst old.
  pose proof (lw_sorted _ (lk_wf _ _ _ _ L0)) as Hso.
  set (sq := put_queue a l1 st).
  set (sb := match p_beats sq a with Some _ => sq | None => let '(now, s) := tick sq in set_beats s (upd (p_beats s) a (Some now)) end).
  assert (Fb : p_pending sb = p_pending st /\ p_all sb = p_all st /\ p_queue sb = upd (p_queue st) a (Some l1)).
  { unfold sb, sq, put_queue. destruct (p_beats _ a); cbn; rewrite ?pend_chk, ?queue_chk; unfold chk; destruct (_ <? _)%Z; cbn; repeat split; reflexivity. }
  destruct Fb as [Pb [Alb Qb]].
  assert (Hmem : forall s', p_queue s' = p_queue sb -> forall b x, in_opt x (p_queue s' b) -> in_opt x (p_queue st b) \/ (x = t /\ b = a)).
  { intros s' Hq b x Hx. rewrite Hq, Qb in Hx. unfold upd in Hx. destruct (b =? a) eqn:E; [|left; exact Hx]. apply N.eqb_eq in E. subst b.
    cbn [in_opt] in Hx. rewrite Ht1 in Hx. apply sm_put_In in Hx. destruct Hx as [->|Hx]; [right; split; reflexivity | left; apply Hl0, Hx]. }
  destruct (sm_get (t_nonce t) (l_txs l0)) as [o|] eqn:Eg.
  - pose proof (sm_get_In _ _ _ Eg) as [Ho1 Ho2].
    assert (Hfo : t_from o = a) by apply (lk_mem _ _ _ _ L0 o Ho1).
    assert (Hoall : In o (p_all st)) by (apply (s_union _ HS o); right; unfold inQ; rewrite Hfo; apply Hl0, Ho1).
    rewrite (remove_tx_replaced k o sb t).
    + split; [|split; [intros _; exists o; split; [apply Hl0, Ho1 | exact Ho2] | discriminate]].
      apply Hmem. cbn [priced_put set_priced all_add set_all p_queue].
      pose proof (core_priced_removed 1 (all_remove o sb)) as Hc. core_inv Hc. rewrite Equeue. unfold all_remove. destruct (all_has o sb); reflexivity.
    + apply all_has_In. rewrite Alb. exact Hoall.
    + intros pl Hp. rewrite Pb, Hfo in Hp. rewrite Ho2. apply (Hnp pl Hp).
    + exists l1. rewrite Qb, Hfo, upd_same. split; [reflexivity|]. rewrite Ht1, Ho2. split; [apply sm_get_put_same, Hso | intros ->; contradiction].
  - split; [apply Hmem; reflexivity | split; discriminate].
Qed.

Lemma tail_NX : forall t c st1 D, SInv st1 -> GInv st1 -> NXD D st1 -> ~ In t (p_all st1) ->
  ch_nonce (p_chain st1) (t_from t) <= t_nonce t ->
  NXD (if (snd (fst (tail_of t c st1)) =? E_OK) && negb (snd (tail_of t c st1)) then t_from t :: D else D) (fst (fst (tail_of t c st1))).
Proof.
  intros t c st1 D HS HG HN Hnt Hsn. unfold tail_of. set (a := t_from t).
  assert (Hw : forall (bb : bool) s', NXD D s' -> NXD (if bb then a :: D else D) s').
  { intros bb s' H. destruct bb; [|exact H]. eapply NXD_weaken; [|exact H]. intros b Hb. right. exact Hb. }
  assert (Henq : (forall pl, p_pending st1 a = Some pl -> sm_get (t_nonce t) (l_txs pl) = None) ->
     let r := match enqueue_tx FUEL t true st1 with | (st2, None) => (st2, E_REPLACEUNDER, false) | (st2, Some r0) => (st2, E_OK, r0) end in
     NXD (if (snd (fst r) =? E_OK) && negb (snd r) then a :: D else D) (fst (fst r))).
  { intros Hnp. pose proof (enqueue_true_frames 4 t st1 HS Hnt Hnp) as [P [N Ch]].
    pose proof (enqueue_true_queue 4 t st1 HS Hnt Hnp) as [Hq [Hrep Hnone]]. change (S (S 4)) with FUEL in *.
    assert (Hpn : pn_get a st1 <= t_nonce t).
    { destruct (HG a) as [G1 G2]. destruct (N.le_gt_cases (pn_get a st1) (t_nonce t)) as [H|H]; [exact H|exfalso].
      unfold pending_len in G2. fold a in Hsn. destruct (p_pending st1 a) as [pl|] eqn:Ep; [|change (N.of_nat 0) with 0 in G2; lia].
      destruct (contig_cover (l_txs pl) _ (t_nonce t) (G1 pl eq_refl) Hsn) as [y [Hy1 Hy2]]; [unfold l_len in G2; lia|].
      pose proof (Hnp pl eq_refl) as Hd. rewrite <- Hy2 in Hd. eapply In_sm_get; eassumption. }
    destruct HN as [HW HNx].
    destruct (enqueue_tx FUEL t true st1) as [s2 [r0|]]; cbn [fst snd] in *.
    - assert (Hg : forall b, pn_get b s2 = pn_get b st1) by (intros b; unfold pn_get; rewrite N, Ch; reflexivity).
      destruct r0; cbn [negb andb].
      + destruct (Hrep eq_refl) as [o [Ho1 Ho2]]. change ((E_OK =? E_OK) && false) with false. cbv iota. split.
        * intros b x Hx. rewrite Hg. destruct (Hq b x Hx) as [H|[-> ->]]; [apply (HW b x H) | exact Hpn].
        * intros b Hb x Hx. rewrite Hg. destruct (Hq b x Hx) as [H|[-> ->]]; [apply (HNx b Hb x H)|]. fold a in Ho1. rewrite <- Ho2. apply (HNx a Hb o Ho1).
      + change ((E_OK =? E_OK) && true) with true. cbv iota. split.
        * intros b x Hx. rewrite Hg. destruct (Hq b x Hx) as [H|[-> ->]]; [apply (HW b x H) | exact Hpn].
        * intros b Hb x Hx. rewrite Hg. destruct (Hq b x Hx) as [H|[-> ->]]; [apply (HNx b (fun Hi => Hb (or_intror Hi)) x H) | exfalso; apply Hb; left; reflexivity].
    - assert (Hg : forall b, pn_get b s2 = pn_get b st1) by (intros b; unfold pn_get; rewrite N, Ch; reflexivity).
      change ((E_REPLACEUNDER =? E_OK) && negb false) with false. cbv iota. split.
      + intros b x Hx. rewrite Hg. apply (HW b x (Hnone eq_refl b x Hx)).
      + intros b Hb x Hx. rewrite Hg. apply (HNx b Hb x (Hnone eq_refl b x Hx)). }
  destruct (p_pending st1 a) as [l|] eqn:Ep; [|apply Henq; intros pl H; discriminate].
  unfold l_contains. destruct (sm_get (t_nonce t) (l_txs l)) as [o|] eqn:Eg; [|apply Henq; intros pl H; inversion H; subst; exact Eg].
  destruct (list_add t (c_bump c) l) as [[old| |] l'] eqn:Ea; cbn [fst snd].
  - apply Hw.
    set (st3 := match old with Some o0 => priced_removed 1 (all_remove o0 (put_pending a l' st1)) | None => put_pending a l' st1 end).
    assert (F3 : p_queue st3 = p_queue st1 /\ p_pn st3 = p_pn st1 /\ p_chain st3 = p_chain st1).
    { unfold st3. destruct old as [o0|].
      - pose proof (core_priced_removed 1 (all_remove o0 (put_pending a l' st1))) as Hc. core_inv Hc.
        rewrite Equeue, pn_priced_removed, pn_all_remove, Echain. unfold put_pending. rewrite pn_chk. unfold all_remove. destruct (all_has o0 _); cbn; rewrite queue_chk, chain_chk; repeat split; reflexivity.
      - unfold put_pending. rewrite queue_chk, pn_chk, chain_chk. repeat split; reflexivity. }
    destruct F3 as [Q3 [N3 Ch3]].
    pose proof (core_q_bump a (priced_put t (all_add t st3))) as Hc. core_inv Hc.
    apply (NXD_mono D st1); [| |exact HN].
    + intros b x Hx. rewrite Equeue in Hx. cbn in Hx. rewrite Q3 in Hx. exact Hx.
    + intros b. unfold pn_get. rewrite pn_q_bump, Echain. cbn. rewrite N3, Ch3. lia.
  - apply Hw. exact HN.
  - apply Hw. eapply NXD_core_pn; [apply core_set_ovf | reflexivity | exact HN].
Qed.

Definition SGN (D : list N) (s : pool) : Prop := SInv s /\ GInv s /\ NXD D s.

Lemma evict_SGN : forall t st D, SGN D st -> SGN D (snd (evict_of t st)).
Proof.
  intros t st D [HS [HG HN]]. pose proof (evict_SG t st (conj HS HG)) as [S' G']. split; [exact S'|]. split; [exact G'|]. clear S' G'.
  unfold evict_of. destruct (negb _); [exact HN|].
  pose proof (core_priced_underpriced t st) as H1. pose proof (pn_priced_underpriced t st) as N1.
  destruct (priced_underpriced t st) as [under st1]. cbn [snd] in *.
  assert (G1 : SGN D st1) by (split; [eapply SInv_core; eassumption | split; [eapply GInv_core_pn; eassumption | eapply NXD_core_pn; eassumption]]).
  destruct under; [apply G1|]. destruct (_ <? _); [apply G1|].
  match goal with |- context [priced_discard ?z st1] => pose proof (core_priced_discard z st1) as H2; pose proof (pn_priced_discard z st1) as N2; destruct (priced_discard z st1) as [[drop|] st2] end; cbn [snd] in *;
    assert (G2 : SGN D st2) by (destruct G1 as [A [B C]]; split; [eapply SInv_core; eassumption | split; [eapply GInv_core_pn; eassumption | eapply NXD_core_pn; eassumption]]); [|apply G2].
  destruct (_ && _); cbn [snd].
  - clear -G2. revert st2 G2. induction drop as [|d drop IH]; intros s G; cbn [fold_left]; [apply G|].
    apply IH. destruct G as [A [B C]]. split; [eapply SInv_core; [apply core_priced_put | exact A] | split; [eapply GInv_core_pn; [apply core_priced_put | reflexivity | exact B] | eapply NXD_core_pn; [apply core_priced_put | reflexivity | exact C]]].
  - clear -G2. revert st2 G2. induction drop as [|d drop IH]; intros s [A [B C]]; cbn [fold_left]; [exact C|].
    apply IH. pose proof (remove_tx_SInv 4 d false s A) as [S2 _]. pose proof (remove_tx_G 4 d false s A B) as G3. pose proof (remove_tx_NX 4 d false s D A B C) as N3.
    change (S (S 4)) with FUEL in *. destruct (remove_tx FUEL d false s) as [s' n]. cbn [fst] in *.
    split; [eapply SInv_core; [apply core_set_changes | exact S2] | split; [eapply GInv_core_pn; [apply core_set_changes | reflexivity | exact G3] | eapply NXD_core_pn; [apply core_set_changes | reflexivity | exact N3]]].
Qed.

Lemma evict_err_not_ok : forall t st err, fst (evict_of t st) = Some err -> (err =? E_OK) = false.
Proof.
  intros t st err H. unfold evict_of in H. destruct (negb _); [discriminate|].
  destruct (priced_underpriced t st) as [under st1]. destruct under; [inversion H; reflexivity|].
  destruct (_ <? _); [inversion H; reflexivity|].
  destruct (priced_discard _ st1) as [[drop|] st2]; [|inversion H; reflexivity].
  destruct (_ && _); [inversion H; reflexivity | discriminate].
Qed.

Lemma pool_add_SGN : forall t st D, SGN D st -> okt (p_cfg st) t ->
  SGN (if (snd (fst (pool_add t st)) =? E_OK) && negb (snd (pool_add t st)) then t_from t :: D else D) (fst (fst (pool_add t st))).
Proof.
  intros t st D [HS [HG HN]] Hk.
  pose proof (pool_add_SG t st (conj HS HG) Hk) as [S' G']. split; [exact S'|]. split; [exact G'|]. clear S' G'.
  rewrite pool_add_unfold. destruct (all_has t st) eqn:Eh; [exact HN|]. cbv zeta.
  destruct (validate_state t st =? E_OK) eqn:Ev; cbn [negb].
  2:{ cbn [fst snd]. rewrite Ev. exact HN. }
  apply N.eqb_eq in Ev. destruct (validate_state_ok t st Ev) as [_ Hsn].
  pose proof (evict_SGN t st D (conj HS (conj HG HN))) as [S1 [G1 N1]]. pose proof (evict_Good t st HS) as [[_ [_ Ch1]] Hsub].
  pose proof (evict_err_not_ok t st) as Herr.
  destruct (evict_of t st) as [[err|] st1]; cbn [snd fst] in *.
  - rewrite (Herr err eq_refl). exact N1.
  - apply tail_NX; [exact S1 | exact G1 | exact N1 | | rewrite Ch1; exact Hsn].
    intros H. apply Hsub in H. apply all_has_In in H. congruence.
Qed.

Lemma add_txs_locked_SGN : forall txs errs st dirty, SGN dirty st -> (forall t, In t txs -> okt (p_cfg st) t) ->
  SGN (snd (add_txs_locked txs errs st dirty)) (fst (fst (add_txs_locked txs errs st dirty))).
Proof.
  induction txs as [|t ts IH]; intros errs st dirty H Hk; cbn [add_txs_locked]; [exact H|].
  destruct errs as [|e es]; [exact H|].
  destruct (negb (e =? E_OK)).
  - pose proof (IH es st dirty H (fun x Hx => Hk x (or_intror Hx))) as R.
    destruct (add_txs_locked ts es st dirty) as [[s' es'] d']. exact R.
  - pose proof (pool_add_SGN t st dirty H (Hk t (or_introl eq_refl))) as R1.
    pose proof (pool_add_RS t st (proj1 H) (Hk t (or_introl eq_refl))) as [_ [C1 _]].
    destruct (pool_add t st) as [[st1 e1] rep]. cbn [fst snd] in *.
    set (d1 := if (e1 =? E_OK) && negb rep && negb (existsb (N.eqb (t_from t)) dirty) then dirty ++ [t_from t] else dirty).
    assert (R1' : SGN d1 st1).
    { destruct R1 as [A [B C]]. split; [exact A|]. split; [exact B|]. eapply NXD_weaken; [|exact C].
      intros b Hb. unfold d1. destruct ((e1 =? E_OK) && negb rep) eqn:Ec; cbn [andb] in *; [|exact Hb].
      destruct (existsb (N.eqb (t_from t)) dirty) eqn:Ex; cbn [negb].
      - destruct Hb as [<-|Hb]; [|exact Hb]. apply existsb_exists in Ex. destruct Ex as [y [Hy Ey]]. apply N.eqb_eq in Ey. subst y. exact Hy.
      - apply in_or_app. destruct Hb as [<-|Hb]; [right; left; reflexivity | left; exact Hb]. }
    pose proof (IH es st1 d1 R1' (fun x Hx => eq_ind_r (fun c => okt c x) (Hk x (or_intror Hx)) C1)) as R2.
    fold d1. destruct (add_txs_locked ts es st1 d1) as [[s' es'] d']. exact R2.
Qed.

(* ---------- promoteExecutables ---------- *)
Lemma sorted_head_min : forall h r x, sorted (h :: r) -> In x (h :: r) -> t_nonce h <= t_nonce x.
Proof.
  intros h r x Hs [->|Hx]; [lia|]. apply StronglySorted_inv in Hs. destruct Hs as [_ Hf]. rewrite Forall_forall in Hf.
  pose proof (Hf x Hx) as H. unfold nlt in H. lia.
Qed.

(* what one account keeps queued lies strictly above its pending nonce after the promotions *)
Lemma q_promote_one_rest : forall a s rd dr s1,
  (forall l, p_queue s a = Some l -> lok (p_cfg s) false a l) ->
  (forall x, in_opt x (p_queue s a) -> pn_get a s <= t_nonce x) ->
  q_promote_one a s = (rd, dr, s1) ->
  forall x, in_opt x (p_queue s1 a) -> pn_get a s + N.of_nat (length rd) < t_nonce x.
Proof.
  intros a s rd dr s1 HL HW E x Hx. unfold q_promote_one in E.
  destruct (p_queue s a) as [l|] eqn:Eq; [|inversion E; subst; rewrite Eq in Hx; destruct Hx].
  pose proof (HL l eq_refl) as Lq.
  destruct (list_forward (ch_nonce (p_chain s) a) l) as [fw l1] eqn:E1.
  destruct (list_filter (ch_bal (p_chain s) a) (ch_gaslimit (p_chain s)) l1) as [[drops inv] l2] eqn:E2.
  destruct (list_ready (pn_get a s) l2) as [r l3] eqn:E3. destruct (list_cap (N.to_nat (c_aqueue (p_cfg s))) l3) as [caps l4] eqn:E4.
  inversion E; subst r dr s1; clear E.
  destruct (list_forward_spec _ _ _ _ _ _ _ Lq E1) as [L1 [M1 _]].
  destruct (list_filter_spec _ _ _ _ _ _ _ _ _ L1 E2) as [L2 [M2 _]].
  destruct (list_ready_spec _ _ _ _ _ _ _ L2 E3) as [L3 _].
  destruct (list_cap_spec _ _ _ _ _ _ _ L3 E4) as [L4 [M4 _]].
  assert (Hx4 : In x (l_txs l4)).
  { destruct (l_empty l4) eqn:Ee; unfold put_queue in Hx; rewrite queue_chk in Hx; cbn in Hx; rewrite upd_same in Hx; [destruct Hx | exact Hx]. }
  assert (Hx3 : In x (l_txs l3)) by (apply M4; left; exact Hx4).
  assert (Hl2 : forall y, In y (l_txs l2) -> pn_get a s <= t_nonce y).
  { intros y Hy. apply HW. cbn [in_opt]. apply M1. left. apply M2. left. exact Hy. }
  pose proof (list_ready_no_executable_head (pn_get a s) l2 rd l3 (lw_sorted _ (lk_wf _ _ _ _ L2)) Hl2 E3) as Hh.
  destruct (l_txs l3) as [|h r] eqn:El3; [destruct Hx3|].
  assert (Hs3 : sorted (h :: r)) by (rewrite <- El3; apply (lw_sorted _ (lk_wf _ _ _ _ L3))).
  pose proof (sorted_head_min h r x Hs3 Hx3). lia.
Qed.

Lemma promote_acc_nx : forall st, SInv st -> GInv st -> (forall a, w_at st a) -> forall accts done s P D P' D' s1,
  NoDup accts -> (forall a, In a accts -> ~ In a done) ->
  p_pending s = p_pending st -> p_pn s = p_pn st -> p_chain s = p_chain st -> p_cfg s = p_cfg st ->
  (forall b, ~ In b done -> p_queue s b = p_queue st b) ->
  (exists g, Sched (fun b => pn_get b st) P g /\ (forall b, ~ In b done -> g b = pn_get b st) /\
             (forall b, In b done -> forall x, in_opt x (p_queue s b) -> g b < t_nonce x)) ->
  fold_left (fun '(p, d, s) a => let '(p1, d1, s1) := q_promote_one a s in (p ++ p1, d ++ d1, s1)) accts (P, D, s) = (P', D', s1) ->
  exists g, Sched (fun b => pn_get b st) P' g /\ (forall b, ~ In b (accts ++ done) -> g b = pn_get b st /\ p_queue s1 b = p_queue st b) /\
            (forall b, In b (accts ++ done) -> forall x, in_opt x (p_queue s1 b) -> g b < t_nonce x).
Proof.
  intros st HS HG HW. induction accts as [|a accts IH]; intros done s P D P' D' s1 Hnd Hdone Pe Pn Ch Cf Qe [g [Hs [Hg Hst]]] E; cbn [fold_left] in E.
  - inversion E; subst. exists g. split; [exact Hs|]. cbn [app]. split; [intros b Hb; split; [apply Hg, Hb | apply Qe, Hb] | exact Hst].
  - inversion Hnd as [|? ? Ha Hnd']; subst.
    destruct (q_promote_one a s) as [[p1 d1] s2] eqn:Eq.
    destruct (q_promote_one_frames _ _ _ _ _ Eq) as [P2 [N2 [Ch2 [C2 Q2]]]].
    assert (Hna : ~ In a done) by (apply Hdone; left; reflexivity).
    assert (HLa : forall l, p_queue s a = Some l -> lok (p_cfg s) false a l) by (intros l Hl; rewrite Cf; rewrite (Qe a Hna) in Hl; apply (s_qw _ HS a l Hl)).
    assert (Hpns : pn_get a s = pn_get a st) by (unfold pn_get; rewrite Pn, Ch; reflexivity).
    destruct (q_promote_one_run a s p1 d1 s2) as [Hfrom Hrun]; try exact Eq; try exact HLa.
    + intros pl ql x Hp Hq Hx. rewrite Pe in Hp. rewrite (Qe a Hna) in Hq. apply (s_disj _ HS a pl ql x Hp Hq Hx).
    + apply (g_at_same st); [rewrite Pe; reflexivity | rewrite Pn; reflexivity | exact Ch | apply HG].
    + assert (Hrest : forall x, in_opt x (p_queue s2 a) -> pn_get a s + N.of_nat (length p1) < t_nonce x).
      { apply (q_promote_one_rest a s p1 d1 s2 HLa); [|exact Eq]. intros x Hx. rewrite Hpns. rewrite (Qe a Hna) in Hx. apply (HW a x Hx). }
      assert (Hpa : pn_get a s = g a) by (rewrite (Hg a Hna); exact Hpns).
      destruct (IH (a :: done) s2 (P ++ p1) (D ++ d1) P' D' s1 Hnd') as [g' [Hs' [Hg' Hst']]]; try congruence.
      * intros b Hb [->|Hd]; [contradiction | apply (Hdone b (or_intror Hb) Hd)].
      * intros b Hb. assert (b <> a) by (intros ->; apply Hb; left; reflexivity). rewrite (Q2 b H). apply Qe. intros Hd. apply Hb. right. exact Hd.
      * exists (fun b => if b =? a then g a + N.of_nat (length p1) else g b). split; [|split].
        -- eapply Sched_app; [exact Hs|]. apply (Sched_run p1 a g); [exact Hfrom | rewrite <- Hpa; exact Hrun | intros b; reflexivity].
        -- intros b Hb. destruct (b =? a) eqn:Eb; [apply N.eqb_eq in Eb; subst b; exfalso; apply Hb; left; reflexivity|].
           apply Hg. intros Hd. apply Hb. right. exact Hd.
        -- intros b [<-|Hb] x Hx; [rewrite N.eqb_refl, <- Hpa; apply Hrest, Hx|].
           destruct (b =? a) eqn:Eb; [apply N.eqb_eq in Eb; subst b; contradiction|]. apply N.eqb_neq in Eb. rewrite (Q2 b Eb) in Hx. apply (Hst b Hb x Hx).
      * exists g'. split; [exact Hs'|]. split.
        -- intros b Hb. apply Hg'. intros Hi. apply Hb. apply in_app_iff in Hi. cbn [app In]. destruct Hi as [Hi|[<-|Hi]]; [right; apply in_or_app; left; exact Hi | left; reflexivity | right; apply in_or_app; right; exact Hi].
        -- intros b Hb. apply Hst'. cbn [app In] in Hb. apply in_app_iff. destruct Hb as [<-|Hb]; [right; left; reflexivity|]. apply in_app_iff in Hb. destruct Hb as [Hb|Hb]; [left; exact Hb | right; right; exact Hb].
Qed.

Lemma queue_fold_same {A} (g : pool -> A -> pool) : (forall s x, p_queue (g s x) = p_queue s) ->
  forall l s, p_queue (fold_left g l s) = p_queue s.
Proof. intros Hg l. induction l as [|x l IH]; intros s; cbn [fold_left]; [reflexivity | rewrite IH; apply Hg]. Qed.
Lemma queue_all_remove : forall t s, p_queue (all_remove t s) = p_queue s.
Proof. intros. unfold all_remove. destruct (all_has t s); reflexivity. Qed.

(* promoteExecutables over the dirty accounts leaves no executable head anywhere *)
Lemma promote_executables_NX : forall D st, SInv st -> GInv st -> NXD D st -> NoDup D -> NX (promote_executables D st).
Proof.
  intros D st HS HG [HW HNx] Hnd. unfold promote_executables.
  destruct (fold_left (fun '(p, d, s) a => let '(p1, d1, s1) := q_promote_one a s in (p ++ p1, d ++ d1, s1)) D ([], [], st))
    as [[P Dr] st1] eqn:E.
  destruct (promote_acc_SL D st [] [] [] P Dr st1 (SL_of_SInv _ HS)) as [L1 [S1 [PO1 [M1 [D1 [_ [Pe1 [C1 Ch1]]]]]]]]; try exact E.
  { split; [intros t [] | intros t pl [] | intros t ql [] | constructor]. }
  { intros y. cbn. tauto. }
  { intros y []. }
  { intros y []. }
  destruct (promote_acc_sched st HS HG D [] st [] [] P Dr st1 Hnd) as [_ [Pe [Pn Ch]]]; try reflexivity; try exact E.
  { intros a _ []. }
  { exists (fun b => pn_get b st). split; [intros b; reflexivity | intros b _; reflexivity]. }
  destruct (promote_acc_nx st HS HG HW D [] st [] [] P Dr st1 Hnd) as [g [Hs [Hout Hin]]]; try reflexivity; try exact E.
  { intros a _ []. }
  { exists (fun b => pn_get b st). split; [intros b; reflexivity|]. split; [intros b _; reflexivity | intros b []]. }
  rewrite app_nil_r in Hout, Hin.
  assert (G1 : GInv st1) by (intros a; apply (g_at_same st); [rewrite Pe; reflexivity | rewrite Pn; reflexivity | exact Ch | apply HG]).
  assert (Hs1 : Sched (fun b => pn_get b st1) P g).
  { eapply Sched_ext; [|exact Hs]. intros b. unfold pn_get. rewrite Pn, Ch. reflexivity. }
  destruct (promote_fold_G P st1 L1 g S1 PO1 (fun t Ht => proj2 (M1 t) (or_introl Ht)) G1 Hs1) as [_ Hpn2].
  destruct (promote_fold_SL P st1 L1 S1 PO1 (fun t Ht => proj2 (M1 t) (or_introl Ht))) as [_ [Q2 [_ Ch2]]].
  set (st2 := fold_left (fun s t => promote_tx t s) P st1) in *.
  set (st3 := fold_left (fun s t => all_remove t s) Dr st2).
  pose proof (core_priced_removed (length Dr) st3) as Hc. core_inv Hc.
  assert (Hq : p_queue (priced_removed (length Dr) st3) = p_queue st1).
  { rewrite Equeue. unfold st3. rewrite (queue_fold_same (fun s t => all_remove t s) (fun s t => queue_all_remove t s)). exact Q2. }
  assert (Hp : forall b, pn_get b (priced_removed (length Dr) st3) = g b).
  { intros b. rewrite <- Hpn2. unfold pn_get. rewrite pn_priced_removed, Echain. unfold st3.
    rewrite (pn_fold_same (fun s t => all_remove t s) (fun s t => pn_all_remove t s)), chain_fold_all_remove. reflexivity. }
  intros b x Hx. rewrite Hq in Hx. rewrite Hp.
  destruct (in_dec N.eq_dec b D) as [Hb|Hb]; [apply (Hin b Hb x Hx)|].
  destruct (Hout b Hb) as [Hg Hqb]. rewrite Hg. rewrite Hqb in Hx. apply (HNx b Hb x Hx).
Qed.

(* truncatePending / truncateQueue *)
Lemma trunc_one_queue_pn : forall a st, p_queue (trunc_one a st) = p_queue st /\ forall b, pn_get b (trunc_one a st) <= pn_get b st.
Proof.
  intros a st. unfold trunc_one. destruct (p_pending st a) as [l|]; [|split; [reflexivity | intros; lia]].
  destruct (list_cap (Nat.pred (l_len l)) l) as [caps l'].
  assert (H : forall cs s, p_queue (fold_left (fun s t => pn_set_if_lower a (t_nonce t) (all_remove t s)) cs s) = p_queue s /\
                           forall b, pn_get b (fold_left (fun s t => pn_set_if_lower a (t_nonce t) (all_remove t s)) cs s) <= pn_get b s).
  { induction cs as [|c cs IH]; intros s; cbn [fold_left]; [split; [reflexivity | intros; lia]|].
    destruct (IH (pn_set_if_lower a (t_nonce c) (all_remove c s))) as [I1 I2]. split.
    - rewrite I1. pose proof (core_pn_set_if_lower a (t_nonce c) (all_remove c s)) as Hc. core_inv Hc. rewrite Equeue. apply queue_all_remove.
    - intros b. specialize (I2 b). rewrite pn_set_if_lower_get in I2.
      assert (Hg : forall b0, pn_get b0 (all_remove c s) = pn_get b0 s) by (intros b0; unfold pn_get; rewrite pn_all_remove; unfold all_remove; destruct (all_has c s); reflexivity).
      destruct (b =? a) eqn:Eb; [apply N.eqb_eq in Eb; subst b; rewrite Hg in I2; lia | rewrite Hg in I2; exact I2]. }
  destruct (H caps (put_pending a l' st)) as [H1 H2]. pose proof (core_priced_removed (length caps) (fold_left (fun s t => pn_set_if_lower a (t_nonce t) (all_remove t s)) caps (put_pending a l' st))) as Hc. core_inv Hc.
  split.
  - rewrite Equeue, H1. unfold put_pending. rewrite queue_chk. reflexivity.
  - intros b. unfold pn_get at 1. rewrite pn_priced_removed, Echain.
    change (match p_pn ?s b with Some n => n | None => ch_nonce (p_chain ?s) b end) with (pn_get b s).
    specialize (H2 b). unfold pn_get in H2 at 2. unfold put_pending in H2. rewrite pn_chk, chain_chk in H2. exact H2.
Qed.

Lemma truncate_pending_GN : forall st, SInv st -> GInv st -> NX st -> GInv (truncate_pending st) /\ NX (truncate_pending st).
Proof.
  intros st HS HG HN. apply (truncate_pending_pres (fun s => GInv s /\ NX s)); [| |exact HS | split; assumption].
  - intros a s S1 [G1 N1]. split; [apply trunc_one_G; assumption|]. destruct (trunc_one_queue_pn a s) as [Q P].
    intros b x Hx. rewrite Q in Hx. pose proof (N1 b x Hx). pose proof (P b). lia.
  - intros s [G1 N1]. split; [eapply GInv_core_pn; [apply core_set_fuel | reflexivity | exact G1] | exact N1].
Qed.

Lemma q_truncate_loop_qsub : forall addrs drop removed st b x,
  in_opt x (p_queue (snd (q_truncate_loop addrs drop removed st)) b) -> in_opt x (p_queue st b).
Proof.
  induction addrs as [|a addrs IH]; intros drop removed st b x Hx; cbn [q_truncate_loop] in Hx; [exact Hx|].
  destruct drop; [exact Hx|]. destruct (p_queue st a) as [l|]; [|eapply IH, Hx].
  assert (Hf : forall V s, in_opt x (p_queue (fold_left (fun s t => q_remove a t s) V s) b) -> in_opt x (p_queue s b)).
  { induction V as [|v V IHV]; intros s H; cbn [fold_left] in H; [exact H|]. apply IHV in H. eapply queue_q_remove_sub, H. }
  destruct (Nat.leb _ _); apply IH in Hx; apply Hf in Hx; exact Hx.
Qed.

Lemma truncate_queue_NX : forall st, SInv st -> NX st -> NX (truncate_queue st).
Proof.
  intros st HS HN. destruct (truncate_queue_SInv st HS) as [_ [_ [Ch _]]].
  assert (N : p_pn (truncate_queue st) = p_pn st /\ forall b x, in_opt x (p_queue (truncate_queue st) b) -> in_opt x (p_queue st b)).
  { unfold truncate_queue. destruct (Nat.leb _ _); [split; [reflexivity | intros b x H; exact H]|].
    pose proof (q_truncate_loop_pn (queue_by_beat st) (queue_count st - N.to_nat (c_gqueue (p_cfg st))) [] st) as H.
    pose proof (q_truncate_loop_qsub (queue_by_beat st) (queue_count st - N.to_nat (c_gqueue (p_cfg st))) [] st) as Hq.
    destruct (q_truncate_loop _ _ _ _) as [removed st1]. cbn [snd] in *.
    split; [rewrite pn_priced_removed, (pn_fold_same (fun s t => all_remove t s) (fun s t => pn_all_remove t s)); exact H|].
    intros b x Hx. pose proof (core_priced_removed (length removed) (fold_left (fun s t => all_remove t s) removed st1)) as Hc. core_inv Hc.
    rewrite Equeue, (queue_fold_same (fun s t => all_remove t s) (fun s t => queue_all_remove t s)) in Hx. apply Hq, Hx. }
  destruct N as [N Q]. intros b x Hx. unfold pn_get. rewrite N, Ch. apply (HN b x (Q b x Hx)).
Qed.

Definition SGX (s : pool) : Prop := SInv s /\ GInv s /\ NX s.

Lemma NX_NXD : forall st, NX st <-> NXD [] st.
Proof.
  intros st. split; [intros H; split; [intros a x Hx; pose proof (H a x Hx); lia | intros a _; apply H] | intros [_ H] a; apply H; intros []].
Qed.

(* the whole Add cycle *)
Lemma pool_Add_SGX : forall txs st, SGX st -> (forall t, In t txs -> okt (p_cfg st) t) -> SGX (fst (pool_Add txs st)).
Proof.
  intros txs st [HS [HG HN]] Hk. unfold pool_Add. destruct (negb _); [split; [exact HS | split; assumption]|].
  match goal with |- context [add_txs_locked txs ?e st []] =>
    pose proof (add_txs_locked_SGN txs e st [] (conj HS (conj HG (proj1 (NX_NXD st) HN))) Hk) as R1;
    pose proof (add_txs_locked_dirty_NoDup txs e st [] (NoDup_nil _)) as Hd;
    destruct (add_txs_locked txs e st []) as [[st1 e1] d] end.
  cbn [fst snd] in *. destruct R1 as [S1 [G1 N1]]. unfold run_reorg_promote.
  pose proof (promote_executables_RS d st1 S1) as [S2 _]. pose proof (promote_executables_G d st1 S1 G1 Hd) as G2.
  pose proof (promote_executables_NX d st1 S1 G1 N1 Hd) as N2.
  pose proof (truncate_pending_RS _ S2) as [S3 _]. destruct (truncate_pending_GN _ S2 G2 N2) as [G3 N3].
  destruct (truncate_queue_SInv _ S3) as [S4 _]. pose proof (truncate_queue_G _ S3 G3) as G4. pose proof (truncate_queue_NX _ S3 N3) as N4.
  split; [eapply SInv_core; [apply core_set_changes | exact S4]|]. split; [eapply GInv_core_pn; [apply core_set_changes | reflexivity | exact G4]|].
  apply NX_NXD. eapply NXD_core_pn; [apply core_set_changes | reflexivity | apply NX_NXD, N4].
Qed.

Lemma pool_SetGasTip_NX : forall tip st, SInv st -> GInv st -> NX st -> NX (pool_SetGasTip tip st).
Proof.
  intros tip st HS HG HN. apply NX_NXD. apply NX_NXD in HN. unfold pool_SetGasTip.
  assert (G0 : SGN [] (set_gastip st tip)).
  { split; [eapply SInv_core; [apply core_set_gastip | exact HS]|]. split; [eapply GInv_core_pn; [apply core_set_gastip | reflexivity | exact HG] | eapply NXD_core_pn; [apply core_set_gastip | reflexivity | exact HN]]. }
  destruct (p_gastip st <? tip); [|apply G0].
  eapply NXD_core_pn; [apply core_priced_removed | apply pn_priced_removed|].
  generalize (filter (fun t => t_tip t <? tip) (p_all (set_gastip st tip))). intros drop.
  revert G0. generalize (set_gastip st tip). induction drop as [|d drop IH]; intros s [S1 [G1 N1]]; cbn [fold_left]; [exact N1|].
  apply IH. change FUEL with (S (S 4)). split; [apply (remove_tx_SInv 4 d false s S1)|]. split; [apply remove_tx_G; assumption | apply remove_tx_NX; assumption].
Qed.

Lemma flatten_pending_NX : forall a st, NX st -> NX (snd (flatten_pending a st)).
Proof.
  intros a st HN. unfold flatten_pending. destruct (p_pending st a) as [l|]; [|exact HN]. unfold list_flatten. cbn [snd].
  intros b x Hx. apply (HN b x Hx).
Qed.
Lemma flatten_queue_NX : forall a st, NX st -> NX (snd (flatten_queue a st)).
Proof.
  intros a st HN. unfold flatten_queue. destruct (p_queue st a) as [l|] eqn:Eq; [|exact HN]. unfold list_flatten. cbn [snd].
  intros b x Hx. cbn in Hx. unfold upd in Hx. change (pn_get b (set_queue st (upd (p_queue st) a (Some (with_txs l (l_txs l) (l_total l) (Some match l_cache l with Some c => c | None => l_txs l end)))))) with (pn_get b st).
  destruct (b =? a) eqn:E; [|apply (HN b x Hx)]. apply N.eqb_eq in E. subst b. apply (HN a x). rewrite Eq. exact Hx.
Qed.
Lemma pool_ContentFrom_NX : forall a st, NX st -> NX (snd (pool_ContentFrom a st)).
Proof.
  intros a st HN. unfold pool_ContentFrom. pose proof (flatten_pending_NX a st HN) as H1. destruct (flatten_pending a st) as [p st1].
  pose proof (flatten_queue_NX a st1 H1) as H2. destruct (flatten_queue a st1) as [q st2]. exact H2.
Qed.
Lemma pool_Content_NX : forall st, NX st -> NX (snd (pool_Content st)).
Proof.
  intros st HN. unfold pool_Content. generalize (c_accts (p_cfg st)). intros accts.
  assert (H : forall acc s, NX s -> NX (snd (fold_left (fun '(acc, s) a => let '(pq, s') := pool_ContentFrom a s in (acc ++ [pq], s')) accts (acc, s)))).
  { induction accts as [|a accts IH]; intros acc s Hs; cbn [fold_left snd]; [exact Hs|].
    pose proof (pool_ContentFrom_NX a s Hs) as H1. destruct (pool_ContentFrom a s) as [pq s']. apply IH, H1. }
  apply H, HN.
Qed.
Lemma pool_Pending_NX : forall st, NX st -> NX (snd (pool_Pending st)).
Proof.
  intros st HN. unfold pool_Pending. generalize (c_accts (p_cfg st)). intros accts.
  assert (H : forall acc s, NX s -> NX (snd (fold_left (fun '(acc, s) a => let '(p, s') := flatten_pending a s in (acc ++ [p], s')) accts (acc, s)))).
  { induction accts as [|a accts IH]; intros acc s Hs; cbn [fold_left snd]; [exact Hs|].
    pose proof (flatten_pending_NX a s Hs) as H1. destruct (flatten_pending a s) as [p s']. apply IH, H1. }
  apply H, HN.
Qed.

(* histories without head changes *)
Lemma step_SGX : forall st o, SGX st -> op_ok (p_cfg st) o -> SGX (step st o).
Proof.
  intros st [txs|b o n|tip| |a| ] [HS [HG HN]] Hok; cbn [step].
  - apply pool_Add_SGX; [split; [exact HS | split; assumption] | exact Hok].
  - destruct Hok.
  - split; [apply (pool_SetGasTip_RS tip st HS)|]. split; [apply pool_SetGasTip_G; assumption | apply pool_SetGasTip_NX; assumption].
  - split; [apply (pool_Content_RS st HS)|]. split; [apply pool_Content_G, HG | apply pool_Content_NX, HN].
  - split; [apply (pool_ContentFrom_RS a st HS)|]. split; [apply pool_ContentFrom_G, HG | apply pool_ContentFrom_NX, HN].
  - split; [apply (pool_Pending_RS st HS)|]. split; [apply pool_Pending_G, HG | apply pool_Pending_NX, HN].
Qed.

Lemma history_SGX : forall h st, SGX st -> Forall (op_ok (p_cfg st)) h -> SGX (run_history st h).
Proof.
  unfold run_history. induction h as [|o h IH]; intros st H Hok; cbn [fold_left]; [exact H|].
  inversion Hok as [|? ? Ho Hh]; subst. pose proof (step_SGX st o H Ho) as H1.
  destruct (step_RS st o (proj1 H) Ho) as [_ [C1 _]]. apply IH; [exact H1 | rewrite C1; exact Hh].
Qed.

Lemma NX_init : forall c tip g, NX (pool_init c tip g).
Proof. intros c tip g a x H. destruct H. Qed.
