(* Pool/LegacyInv11.v — "the queue has no executable head": after every Add cycle (and SetGasTip,
   listings) no queued tx has a nonce at or below the pending nonce of its sender. *)
From GV Require Import Lib.Tactics Pool.Legacy Pool.LegacyProofs Pool.LegacyInv Pool.LegacyInv2 Pool.LegacyInv3 Pool.LegacyInv4 Pool.LegacyInv5 Pool.LegacyInv6 Pool.LegacyInv7 Pool.LegacyInv8 Pool.LegacyInv9 Pool.LegacyInv10.
From Coq Require Import Sorting.Sorted.
Local Open Scope N_scope.

Definition w_at (st : pool) (a : N) : Prop := forall x, in_opt x (p_queue st a) -> pn_get a st <= t_nonce x.
Definition nx_at (st : pool) (a : N) : Prop := forall x, in_opt x (p_queue st a) -> pn_get a st < t_nonce x.
(* weakly everywhere, strictly outside the dirty accounts D *)
Definition NXD (D : list N) (st : pool) : Prop := (forall a, w_at st a) /\ (forall a, ~ In a D -> nx_at st a).
Definition NX (st : pool) : Prop := forall a, nx_at st a.

Lemma wnx_mono : forall st st' a, (forall x, in_opt x (p_queue st' a) -> in_opt x (p_queue st a)) -> pn_get a st' <= pn_get a st ->
  (w_at st a -> w_at st' a) /\ (nx_at st a -> nx_at st' a).
Proof.
  intros st st' a Hq Hp. split; intros H x Hx; specialize (H x (Hq x Hx)); lia.
Qed.

Lemma NXD_mono : forall D st st', (forall a x, in_opt x (p_queue st' a) -> in_opt x (p_queue st a)) ->
  (forall a, pn_get a st' <= pn_get a st) -> NXD D st -> NXD D st'.
Proof.
  intros D st st' Hq Hp [HW HN]. split; [intros a; apply (wnx_mono st st' a (Hq a) (Hp a)), HW | intros a Ha; apply (wnx_mono st st' a (Hq a) (Hp a)), HN, Ha].
Qed.

Lemma NXD_core_pn : forall D s s', core s' = core s -> p_pn s' = p_pn s -> NXD D s -> NXD D s'.
Proof.
  intros D s s' Hc Hn. core_inv Hc. apply NXD_mono; [intros a x Hx; rewrite Equeue in Hx; exact Hx | intros a; unfold pn_get; rewrite Hn, Echain; lia].
Qed.

Lemma queue_q_remove_sub : forall a t s b x, in_opt x (p_queue (q_remove a t s) b) -> in_opt x (p_queue s b).
Proof.
  intros a t s b x Hx. unfold q_remove in Hx. destruct (p_queue s a) as [fl|] eqn:Eq; [|exact Hx].
  destruct (sm_get (t_nonce t) (l_txs fl)) as [o|].
  - destruct (negb (tx_eqb o t)); [exact Hx|]. destruct (list_remove t fl) as [[f inv] fl'] eqn:Er.
    destruct (l_empty fl'); unfold put_queue, chk in Hx; destruct (_ <? _)%Z; cbn in Hx; unfold upd in Hx; destruct (b =? a) eqn:E;
      try exact Hx; try destruct Hx; apply N.eqb_eq in E; subst b; rewrite Eq; cbn [in_opt] in *; eapply list_remove_sub; eassumption.
  - destruct (l_empty fl); [|exact Hx]. cbn in Hx. unfold upd in Hx. destruct (b =? a); [destruct Hx | exact Hx].
Qed.

(* removeTx *)
Lemma remove_tx_NX : forall k t oob st D, SInv st -> GInv st -> NXD D st -> NXD D (fst (remove_tx (S (S k)) t oob st)).
Proof.
  intros k t oob st D HS HG HN. cbn [remove_tx]. destruct (all_has t st) eqn:Eh; cbn [negb fst]; [|exact HN].
  apply all_has_In in Eh. set (a := t_from t).
  set (st2 := if oob then priced_removed 1 (all_remove t st) else all_remove t st).
  assert (F2 : p_pending st2 = p_pending st /\ p_queue st2 = p_queue st /\ p_pn st2 = p_pn st /\ p_chain st2 = p_chain st /\ p_cfg st2 = p_cfg st).
  { destruct (all_remove_spec t st (SInv_AInv _ HS)) as [_ [_ [C1 [Ch1 [P1 [Q1 [_ Pn1]]]]]]].
    unfold st2. destruct oob; [|tauto]. pose proof (core_priced_removed 1 (all_remove t st)) as Hc. core_inv Hc.
    rewrite pn_priced_removed, Epend, Equeue, Echain, Ecfg. tauto. }
  destruct F2 as [P2 [Q2 [N2 [Ch2 C2]]]].
  assert (Hqcase : NXD D (q_remove a t st2)).
  { destruct (pn_q_remove a t st2) as [Nq Chq]. apply (NXD_mono D st); [| |exact HN].
    - intros b x Hx. apply queue_q_remove_sub in Hx. rewrite Q2 in Hx. exact Hx.
    - intros b. unfold pn_get. rewrite Nq, N2, Chq, Ch2. lia. }
  assert (Hloc : inP st t \/ inQ st t) by (apply (s_union _ HS), Eh).
  rewrite P2. destruct (p_pending st a) as [pl|] eqn:Ep; [|exact Hqcase].
  destruct (s_pw _ HS a pl Ep) as [Lp Ha].
  destruct (list_remove t pl) as [[found inv] pl'] eqn:Er. destruct found; [|exact Hqcase].
  assert (Hin : In t (l_txs pl)).
  { destruct Hloc as [Hp|Hq]; [unfold inP in Hp; fold a in Hp; rewrite Ep in Hp; exact Hp|]. exfalso.
    unfold inQ in Hq. fold a in Hq. destruct (p_queue st a) as [ql|] eqn:Eq; [|destruct Hq].
    pose proof (s_disj _ HS a pl ql t Ep Eq Hq) as Hd. unfold list_remove, sm_remove in Er. rewrite Hd in Er. discriminate. }
  destruct (list_remove_spec _ _ _ _ t Lp Hin) as [inv0 [pl0 [Er0 [Lp' [Mp' [Minv Sinv]]]]]]. rewrite Er in Er0. inversion Er0; subst inv0 pl0; clear Er0.
  set (st3 := if l_empty pl' then chk pl' (del_pending a st2) else put_pending a pl' st2).
  assert (F3 : p_queue st3 = p_queue st /\ p_pn st3 = p_pn st /\ p_chain st3 = p_chain st /\ p_cfg st3 = p_cfg st).
  { unfold st3, put_pending. rewrite !(chk_ok _ _ _ _ _ Lp'). destruct (l_empty pl'); cbn; rewrite ?Q2, ?N2, ?Ch2, ?C2; repeat split; reflexivity. }
  destruct F3 as [Q3 [N3 [Ch3 C3]]].
  assert (Hinv : forall x, In x inv -> In x (l_txs pl) /\ t_nonce t < t_nonce x) by (intros x Hx; apply Minv in Hx; tauto).
  destruct (enqueue_many k inv st3 a) as [_ [M4 [O4 F4]]].
  { intros ql Hq0. rewrite C3. rewrite Q3 in Hq0. apply (s_qw _ HS a ql Hq0). }
  { intros x Hx. rewrite C3. apply (lk_mem _ _ _ _ Lp), Hinv, Hx. }
  { exact Sinv. }
  { intros x ql Hx Hq0. rewrite Q3 in Hq0. destruct (sm_get (t_nonce x) (l_txs ql)) as [o|] eqn:Eo; [|reflexivity].
    apply sm_get_In in Eo. destruct Eo as [Ho1 Ho2]. pose proof (s_disj _ HS a pl ql o Ep Hq0 Ho1) as Hd. rewrite Ho2 in Hd.
    exfalso. eapply In_sm_get; [apply (Hinv x Hx) | exact Hd]. }
  set (st4 := fold_left (fun s x => fst (enqueue_tx (S k) x false s)) inv st3) in *.
  destruct F4 as [_ [Ch4 [_ [_ [_ [_ N4]]]]]]. cbn [fst].
  assert (Hch4 : p_chain st4 = p_chain st) by congruence.
  destruct (HG a) as [G1 G2]. unfold pending_len in G2. rewrite Ep in G2. specialize (G1 pl Ep).
  assert (Hn2 : t_nonce t < pn_get a st) by (rewrite G2; apply (contig_length_bound _ _ _ G1 Hin)).
  pose proof (core_pn_set_if_lower a (t_nonce t) st4) as Hc. core_inv Hc.
  assert (Hg4 : forall b, pn_get b st4 = pn_get b st) by (intros b; unfold pn_get; rewrite N4, N3, Hch4; reflexivity).
  destruct HN as [HW HNx].
  assert (Ha_strict : nx_at (pn_set_if_lower a (t_nonce t) st4) a).
  { intros x Hx. rewrite Equeue in Hx. apply M4 in Hx. rewrite pn_set_if_lower_get, N.eqb_refl, Hg4.
    destruct Hx as [Hx|Hx]; [pose proof (Hinv x Hx); lia|]. rewrite Q3 in Hx. pose proof (HW a x Hx). lia. }
  split.
  - intros b. destruct (N.eq_dec b a) as [->|Hne]; [intros x Hx; pose proof (Ha_strict x Hx); lia|].
    intros x Hx. rewrite Equeue, (O4 b Hne), Q3 in Hx. rewrite pn_set_if_lower_get. destruct (b =? a) eqn:Eb; [apply N.eqb_eq in Eb; contradiction|]. rewrite Hg4. apply (HW b x Hx).
  - intros b Hb. destruct (N.eq_dec b a) as [->|Hne]; [exact Ha_strict|].
    intros x Hx. rewrite Equeue, (O4 b Hne), Q3 in Hx. rewrite pn_set_if_lower_get. destruct (b =? a) eqn:Eb; [apply N.eqb_eq in Eb; contradiction|]. rewrite Hg4. apply (HNx b Hb x Hx).
Qed.

Lemma NXD_weaken : forall D D' st, (forall a, In a D -> In a D') -> NXD D st -> NXD D' st.
Proof. intros D D' st H [HW HN]. split; [exact HW | intros a Ha; apply HN; intros Hi; apply Ha, H, Hi]. Qed.

Lemma queue_chk : forall l s, p_queue (chk l s) = p_queue s. Proof. intros. unfold chk. destruct (_ <? _)%Z; reflexivity. Qed.

(* enqueueTx of a new tx: what it does to the queues *)
Lemma enqueue_true_queue : forall k t st, SInv st -> ~ In t (p_all st) ->
  (forall pl, p_pending st (t_from t) = Some pl -> sm_get (t_nonce t) (l_txs pl) = None) ->
  (forall b x, in_opt x (p_queue (fst (enqueue_tx (S (S k)) t true st)) b) -> in_opt x (p_queue st b) \/ (x = t /\ b = t_from t)) /\
  (snd (enqueue_tx (S (S k)) t true st) = Some true -> exists o, in_opt o (p_queue st (t_from t)) /\ t_nonce o = t_nonce t) /\
  (snd (enqueue_tx (S (S k)) t true st) = None -> forall b x, in_opt x (p_queue (fst (enqueue_tx (S (S k)) t true st)) b) -> in_opt x (p_queue st b)).
Proof.
  intros k t st HS Hnt Hnp. set (a := t_from t). cbn [enqueue_tx]. unfold q_add. fold a.
  set (l0 := match p_queue st a with Some l => l | None => new_list false end).
  assert (L0 : lok (p_cfg st) false a l0) by (unfold l0; destruct (p_queue st a) eqn:E; [apply (s_qw _ HS a t0 E) | apply lok_new]).
  assert (Hl0 : forall x, In x (l_txs l0) <-> in_opt x (p_queue st a)) by (intros x; unfold l0, in_opt; destruct (p_queue st a); [reflexivity | cbn; tauto]).
  assert (Herr : forall s', p_queue s' = upd (p_queue st) a (Some l0) -> forall b x, in_opt x (p_queue s' b) -> in_opt x (p_queue st b)).
  { intros s' Hq b x Hx. rewrite Hq in Hx. unfold upd in Hx. destruct (b =? a) eqn:E; [|exact Hx]. apply N.eqb_eq in E. subst b. apply Hl0, Hx. }
  destruct (list_add t (c_bump (p_cfg st)) l0) as [[old| |] l1] eqn:Ea; cbn [fst snd].
  2:{ assert (He := Herr (put_queue a l0 st) ltac:(unfold put_queue; rewrite queue_chk; reflexivity)).
      split; [intros b x Hx; left; apply He, Hx|]. split; [discriminate | intros _; exact He]. }
  2:{ assert (He := Herr (set_ovf (put_queue a l0 st)) ltac:(unfold put_queue; cbn [set_ovf p_queue]; rewrite queue_chk; reflexivity)).
      split; [intros b x Hx; left; apply He, Hx|]. split; [discriminate | intros _; exact He]. }
  destruct (list_add_ok_inv _ _ _ _ _ Ea) as [Hold [Ht1 _]]. subst old.
  pose proof (lw_sorted _ (lk_wf _ _ _ _ L0)) as Hso.
  set (sq := put_queue a l1 st).
  set (sb := match p_beats sq a with Some _ => sq | None => let '(now, s) := tick sq in set_beats s (upd (p_beats s) a (Some now)) end).
  assert (Fb : p_pending sb = p_pending st /\ p_all sb = p_all st /\ p_queue sb = upd (p_queue st) a (Some l1)).
  { unfold sb, sq, put_queue. destruct (p_beats _ a); cbn; rewrite ?pend_chk, ?queue_chk; unfold chk; destruct (_ <? _)%Z; cbn; repeat split; reflexivity. }
  destruct Fb as [Pb [Alb Qb]].
  assert (Hmem : forall s', p_queue s' = p_queue sb -> forall b x, in_opt x (p_queue s' b) -> in_opt x (p_queue st b) \/ (x = t /\ b = a)).
  { intros s' Hq b x Hx. rewrite Hq, Qb in Hx. unfold upd in Hx. destruct (b =? a) eqn:E; [|left; exact Hx]. apply N.eqb_eq in E. subst b.
    cbn [in_opt] in Hx. rewrite Ht1 in Hx. apply sm_put_In in Hx. destruct Hx as [->|Hx]; [right; split; reflexivity | left; apply Hl0, Hx]. }
  destruct (sm_get (t_nonce t) (l_txs l0)) as [o|] eqn:Eg.
  - pose proof (sm_get_In _ _ _ Eg) as [Ho1 Ho2].
    assert (Hfo : t_from o = a) by apply (lk_mem _ _ _ _ L0 o Ho1).
    assert (Hoall : In o (p_all st)) by (apply (s_union _ HS o); right; unfold inQ; rewrite Hfo; apply Hl0, Ho1).
    rewrite (remove_tx_replaced k o sb t).
    + split; [|split; [intros _; exists o; split; [apply Hl0, Ho1 | exact Ho2] | discriminate]].
      apply Hmem. cbn [priced_put set_priced all_add set_all p_queue].
      pose proof (core_priced_removed 1 (all_remove o sb)) as Hc. core_inv Hc. rewrite Equeue. unfold all_remove. destruct (all_has o sb); reflexivity.
    + apply all_has_In. rewrite Alb. exact Hoall.
    + intros pl Hp. rewrite Pb, Hfo in Hp. rewrite Ho2. apply (Hnp pl Hp).
    + exists l1. rewrite Qb, Hfo, upd_same. split; [reflexivity|]. rewrite Ht1, Ho2. split; [apply sm_get_put_same, Hso | intros ->; contradiction].
  - split; [apply Hmem; reflexivity | split; discriminate].
Qed.

Lemma tail_NX : forall t c st1 D, SInv st1 -> GInv st1 -> NXD D st1 -> ~ In t (p_all st1) ->
  ch_nonce (p_chain st1) (t_from t) <= t_nonce t ->
  NXD (if (snd (fst (tail_of t c st1)) =? E_OK) && negb (snd (tail_of t c st1)) then t_from t :: D else D) (fst (fst (tail_of t c st1))).
Proof.
  intros t c st1 D HS HG HN Hnt Hsn. unfold tail_of. set (a := t_from t).
  assert (Hw : forall (bb : bool) s', NXD D s' -> NXD (if bb then a :: D else D) s').
  { intros bb s' H. destruct bb; [|exact H]. eapply NXD_weaken; [|exact H]. intros b Hb. right. exact Hb. }
  assert (Henq : (forall pl, p_pending st1 a = Some pl -> sm_get (t_nonce t) (l_txs pl) = None) ->
     let r := match enqueue_tx FUEL t true st1 with | (st2, None) => (st2, E_REPLACEUNDER, false) | (st2, Some r0) => (st2, E_OK, r0) end in
     NXD (if (snd (fst r) =? E_OK) && negb (snd r) then a :: D else D) (fst (fst r))).
  { intros Hnp. pose proof (enqueue_true_frames 4 t st1 HS Hnt Hnp) as [P [N Ch]].
    pose proof (enqueue_true_queue 4 t st1 HS Hnt Hnp) as [Hq [Hrep Hnone]]. change (S (S 4)) with FUEL in *.
    assert (Hpn : pn_get a st1 <= t_nonce t).
    { destruct (HG a) as [G1 G2]. destruct (N.le_gt_cases (pn_get a st1) (t_nonce t)) as [H|H]; [exact H|exfalso].
      unfold pending_len in G2. fold a in Hsn. destruct (p_pending st1 a) as [pl|] eqn:Ep; [|change (N.of_nat 0) with 0 in G2; lia].
      destruct (contig_cover (l_txs pl) _ (t_nonce t) (G1 pl eq_refl) Hsn) as [y [Hy1 Hy2]]; [unfold l_len in G2; lia|].
      pose proof (Hnp pl eq_refl) as Hd. rewrite <- Hy2 in Hd. eapply In_sm_get; eassumption. }
    destruct HN as [HW HNx].
    destruct (enqueue_tx FUEL t true st1) as [s2 [r0|]]; cbn [fst snd] in *.
    - assert (Hg : forall b, pn_get b s2 = pn_get b st1) by (intros b; unfold pn_get; rewrite N, Ch; reflexivity).
      destruct r0; cbn [negb andb].
      + destruct (Hrep eq_refl) as [o [Ho1 Ho2]]. change ((E_OK =? E_OK) && false) with false. cbv iota. split.
        * intros b x Hx. rewrite Hg. destruct (Hq b x Hx) as [H|[-> ->]]; [apply (HW b x H) | exact Hpn].
        * intros b Hb x Hx. rewrite Hg. destruct (Hq b x Hx) as [H|[-> ->]]; [apply (HNx b Hb x H)|]. fold a in Ho1. rewrite <- Ho2. apply (HNx a Hb o Ho1).
      + change ((E_OK =? E_OK) && true) with true. cbv iota. split.
        * intros b x Hx. rewrite Hg. destruct (Hq b x Hx) as [H|[-> ->]]; [apply (HW b x H) | exact Hpn].
        * intros b Hb x Hx. rewrite Hg. destruct (Hq b x Hx) as [H|[-> ->]]; [apply (HNx b (fun Hi => Hb (or_intror Hi)) x H) | exfalso; apply Hb; left; reflexivity].
    - assert (Hg : forall b, pn_get b s2 = pn_get b st1) by (intros b; unfold pn_get; rewrite N, Ch; reflexivity).
      change ((E_REPLACEUNDER =? E_OK) && negb false) with false. cbv iota. split.
      + intros b x Hx. rewrite Hg. apply (HW b x (Hnone eq_refl b x Hx)).
      + intros b Hb x Hx. rewrite Hg. apply (HNx b Hb x (Hnone eq_refl b x Hx)). }
  destruct (p_pending st1 a) as [l|] eqn:Ep; [|apply Henq; intros pl H; discriminate].
  unfold l_contains. destruct (sm_get (t_nonce t) (l_txs l)) as [o|] eqn:Eg; [|apply Henq; intros pl H; inversion H; subst; exact Eg].
  destruct (list_add t (c_bump c) l) as [[old| |] l'] eqn:Ea; cbn [fst snd].
  - apply Hw.
    set (st3 := match old with Some o0 => priced_removed 1 (all_remove o0 (put_pending a l' st1)) | None => put_pending a l' st1 end).
    assert (F3 : p_queue st3 = p_queue st1 /\ p_pn st3 = p_pn st1 /\ p_chain st3 = p_chain st1).
    { unfold st3. destruct old as [o0|].
      - pose proof (core_priced_removed 1 (all_remove o0 (put_pending a l' st1))) as Hc. core_inv Hc.
        rewrite Equeue, pn_priced_removed, pn_all_remove, Echain. unfold put_pending. rewrite pn_chk. unfold all_remove. destruct (all_has o0 _); cbn; rewrite queue_chk, chain_chk; repeat split; reflexivity.
      - unfold put_pending. rewrite queue_chk, pn_chk, chain_chk. repeat split; reflexivity. }
    destruct F3 as [Q3 [N3 Ch3]].
    pose proof (core_q_bump a (priced_put t (all_add t st3))) as Hc. core_inv Hc.
    apply (NXD_mono D st1); [| |exact HN].
    + intros b x Hx. rewrite Equeue in Hx. cbn in Hx. rewrite Q3 in Hx. exact Hx.
    + intros b. unfold pn_get. rewrite pn_q_bump, Echain. cbn. rewrite N3, Ch3. lia.
  - apply Hw. exact HN.
  - apply Hw. eapply NXD_core_pn; [apply core_set_ovf | reflexivity | exact HN].
Qed.

Definition SGN (D : list N) (s : pool) : Prop := SInv s /\ GInv s /\ NXD D s.

Lemma evict_SGN : forall t st D, SGN D st -> SGN D (snd (evict_of t st)).
Proof.
  intros t st D [HS [HG HN]]. pose proof (evict_SG t st (conj HS HG)) as [S' G']. split; [exact S'|]. split; [exact G'|]. clear S' G'.
  unfold evict_of. destruct (negb _); [exact HN|].
  pose proof (core_priced_underpriced t st) as H1. pose proof (pn_priced_underpriced t st) as N1.
  destruct (priced_underpriced t st) as [under st1]. cbn [snd] in *.
  assert (G1 : SGN D st1) by (split; [eapply SInv_core; eassumption | split; [eapply GInv_core_pn; eassumption | eapply NXD_core_pn; eassumption]]).
  destruct under; [apply G1|]. destruct (_ <? _); [apply G1|].
  match goal with |- context [priced_discard ?z st1] => pose proof (core_priced_discard z st1) as H2; pose proof (pn_priced_discard z st1) as N2; destruct (priced_discard z st1) as [[drop|] st2] end; cbn [snd] in *;
    assert (G2 : SGN D st2) by (destruct G1 as [A [B C]]; split; [eapply SInv_core; eassumption | split; [eapply GInv_core_pn; eassumption | eapply NXD_core_pn; eassumption]]); [|apply G2].
  destruct (_ && _); cbn [snd].
  - clear -G2. revert st2 G2. induction drop as [|d drop IH]; intros s G; cbn [fold_left]; [apply G|].
    apply IH. destruct G as [A [B C]]. split; [eapply SInv_core; [apply core_priced_put | exact A] | split; [eapply GInv_core_pn; [apply core_priced_put | reflexivity | exact B] | eapply NXD_core_pn; [apply core_priced_put | reflexivity | exact C]]].
  - clear -G2. revert st2 G2. induction drop as [|d drop IH]; intros s [A [B C]]; cbn [fold_left]; [exact C|].
    apply IH. pose proof (remove_tx_SInv 4 d false s A) as [S2 _]. pose proof (remove_tx_G 4 d false s A B) as G3. pose proof (remove_tx_NX 4 d false s D A B C) as N3.
    change (S (S 4)) with FUEL in *. destruct (remove_tx FUEL d false s) as [s' n]. cbn [fst] in *.
    split; [eapply SInv_core; [apply core_set_changes | exact S2] | split; [eapply GInv_core_pn; [apply core_set_changes | reflexivity | exact G3] | eapply NXD_core_pn; [apply core_set_changes | reflexivity | exact N3]]].
Qed.

Lemma evict_err_not_ok : forall t st err, fst (evict_of t st) = Some err -> (err =? E_OK) = false.
Proof.
  intros t st err H. unfold evict_of in H. destruct (negb _); [discriminate|].
  destruct (priced_underpriced t st) as [under st1]. destruct under; [inversion H; reflexivity|].
  destruct (_ <? _); [inversion H; reflexivity|].
  destruct (priced_discard _ st1) as [[drop|] st2]; [|inversion H; reflexivity].
  destruct (_ && _); [inversion H; reflexivity | discriminate].
Qed.

Lemma pool_add_SGN : forall t st D, SGN D st -> okt (p_cfg st) t ->
  SGN (if (snd (fst (pool_add t st)) =? E_OK) && negb (snd (pool_add t st)) then t_from t :: D else D) (fst (fst (pool_add t st))).
Proof.
  intros t st D [HS [HG HN]] Hk.
  pose proof (pool_add_SG t st (conj HS HG) Hk) as [S' G']. split; [exact S'|]. split; [exact G'|]. clear S' G'.
  rewrite pool_add_unfold. destruct (all_has t st) eqn:Eh; [exact HN|]. cbv zeta.
  destruct (validate_state t st =? E_OK) eqn:Ev; cbn [negb].
  2:{ cbn [fst snd]. rewrite Ev. exact HN. }
  apply N.eqb_eq in Ev. destruct (validate_state_ok t st Ev) as [_ Hsn].
  pose proof (evict_SGN t st D (conj HS (conj HG HN))) as [S1 [G1 N1]]. pose proof (evict_Good t st HS) as [[_ [_ Ch1]] Hsub].
  pose proof (evict_err_not_ok t st) as Herr.
  destruct (evict_of t st) as [[err|] st1]; cbn [snd fst] in *.
  - rewrite (Herr err eq_refl). exact N1.
  - apply tail_NX; [exact S1 | exact G1 | exact N1 | | rewrite Ch1; exact Hsn].
    intros H. apply Hsub in H. apply all_has_In in H. congruence.
Qed.

Lemma add_txs_locked_SGN : forall txs errs st dirty, SGN dirty st -> (forall t, In t txs -> okt (p_cfg st) t) ->
  SGN (snd (add_txs_locked txs errs st dirty)) (fst (fst (add_txs_locked txs errs st dirty))).
Proof.
  induction txs as [|t ts IH]; intros errs st dirty H Hk; cbn [add_txs_locked]; [exact H|].
  destruct errs as [|e es]; [exact H|].
  destruct (negb (e =? E_OK)).
  - pose proof (IH es st dirty H (fun x Hx => Hk x (or_intror Hx))) as R.
    destruct (add_txs_locked ts es st dirty) as [[s' es'] d']. exact R.
  - pose proof (pool_add_SGN t st dirty H (Hk t (or_introl eq_refl))) as R1.
    pose proof (pool_add_RS t st (proj1 H) (Hk t (or_introl eq_refl))) as [_ [C1 _]].
    destruct (pool_add t st) as [[st1 e1] rep]. cbn [fst snd] in *.
    set (d1 := if (e1 =? E_OK) && negb rep && negb (existsb (N.eqb (t_from t)) dirty) then dirty ++ [t_from t] else dirty).
    assert (R1' : SGN d1 st1).
    { destruct R1 as [A [B C]]. split; [exact A|]. split; [exact B|]. eapply NXD_weaken; [|exact C].
      intros b Hb. unfold d1. destruct ((e1 =? E_OK) && negb rep) eqn:Ec; cbn [andb] in *; [|exact Hb].
      destruct (existsb (N.eqb (t_from t)) dirty) eqn:Ex; cbn [negb].
      - destruct Hb as [<-|Hb]; [|exact Hb]. apply existsb_exists in Ex. destruct Ex as [y [Hy Ey]]. apply N.eqb_eq in Ey. subst y. exact Hy.
      - apply in_or_app. destruct Hb as [<-|Hb]; [right; left; reflexivity | left; exact Hb]. }
    pose proof (IH es st1 d1 R1' (fun x Hx => eq_ind_r (fun c => okt c x) (Hk x (or_intror Hx)) C1)) as R2.
    fold d1. destruct (add_txs_locked ts es st1 d1) as [[s' es'] d']. exact R2.
Qed.

(* ---------- promoteExecutables ---------- *)
Lemma sorted_head_min : forall h r x, sorted (h :: r) -> In x (h :: r) -> t_nonce h <= t_nonce x.
Proof.
  intros h r x Hs [->|Hx]; [lia|]. apply StronglySorted_inv in Hs. destruct Hs as [_ Hf]. rewrite Forall_forall in Hf.
  pose proof (Hf x Hx) as H. unfold nlt in H. lia.
Qed.

(* what one account keeps queued lies strictly above its pending nonce after the promotions *)
Lemma q_promote_one_rest : forall a s rd dr s1,
  (forall l, p_queue s a = Some l -> lok (p_cfg s) false a l) ->
  (forall x, in_opt x (p_queue s a) -> pn_get a s <= t_nonce x) ->
  q_promote_one a s = (rd, dr, s1) ->
  forall x, in_opt x (p_queue s1 a) -> pn_get a s + N.of_nat (length rd) < t_nonce x.
Proof.
  intros a s rd dr s1 HL HW E x Hx. unfold q_promote_one in E.
  destruct (p_queue s a) as [l|] eqn:Eq; [|inversion E; subst; rewrite Eq in Hx; destruct Hx].
  pose proof (HL l eq_refl) as Lq.
  destruct (list_forward (ch_nonce (p_chain s) a) l) as [fw l1] eqn:E1.
  destruct (list_filter (ch_bal (p_chain s) a) (ch_gaslimit (p_chain s)) l1) as [[drops inv] l2] eqn:E2.
  destruct (list_ready (pn_get a s) l2) as [r l3] eqn:E3. destruct (list_cap (N.to_nat (c_aqueue (p_cfg s))) l3) as [caps l4] eqn:E4.
  inversion E; subst r dr s1; clear E.
  destruct (list_forward_spec _ _ _ _ _ _ _ Lq E1) as [L1 [M1 _]].
  destruct (list_filter_spec _ _ _ _ _ _ _ _ _ L1 E2) as [L2 [M2 _]].
  destruct (list_ready_spec _ _ _ _ _ _ _ L2 E3) as [L3 _].
  destruct (list_cap_spec _ _ _ _ _ _ _ L3 E4) as [L4 [M4 _]].
  assert (Hx4 : In x (l_txs l4)).
  { destruct (l_empty l4) eqn:Ee; unfold put_queue in Hx; rewrite queue_chk in Hx; cbn in Hx; rewrite upd_same in Hx; [destruct Hx | exact Hx]. }
  assert (Hx3 : In x (l_txs l3)) by (apply M4; left; exact Hx4).
  assert (Hl2 : forall y, In y (l_txs l2) -> pn_get a s <= t_nonce y).
  { intros y Hy. apply HW. cbn [in_opt]. apply M1. left. apply M2. left. exact Hy. }
  pose proof (list_ready_no_executable_head (pn_get a s) l2 rd l3 (lw_sorted _ (lk_wf _ _ _ _ L2)) Hl2 E3) as Hh.
  destruct (l_txs l3) as [|h r] eqn:El3; [destruct Hx3|].
  assert (Hs3 : sorted (h :: r)) by (rewrite <- El3; apply (lw_sorted _ (lk_wf _ _ _ _ L3))).
  pose proof (sorted_head_min h r x Hs3 Hx3). lia.
Qed.

Lemma promote_acc_nx : forall st, SInv st -> GInv st -> (forall a, w_at st a) -> forall accts done s P D P' D' s1,
  NoDup accts -> (forall a, In a accts -> ~ In a done) ->
  p_pending s = p_pending st -> p_pn s = p_pn st -> p_chain s = p_chain st -> p_cfg s = p_cfg st ->
  (forall b, ~ In b done -> p_queue s b = p_queue st b) ->
  (exists g, Sched (fun b => pn_get b st) P g /\ (forall b, ~ In b done -> g b = pn_get b st) /\
             (forall b, In b done -> forall x, in_opt x (p_queue s b) -> g b < t_nonce x)) ->
  fold_left (fun '(p, d, s) a => let '(p1, d1, s1) := q_promote_one a s in (p ++ p1, d ++ d1, s1)) accts (P, D, s) = (P', D', s1) ->
  exists g, Sched (fun b => pn_get b st) P' g /\ (forall b, ~ In b (accts ++ done) -> g b = pn_get b st /\ p_queue s1 b = p_queue st b) /\
            (forall b, In b (accts ++ done) -> forall x, in_opt x (p_queue s1 b) -> g b < t_nonce x).
Proof.
  intros st HS HG HW. induction accts as [|a accts IH]; intros done s P D P' D' s1 Hnd Hdone Pe Pn Ch Cf Qe [g [Hs [Hg Hst]]] E; cbn [fold_left] in E.
  - inversion E; subst. exists g. split; [exact Hs|]. cbn [app]. split; [intros b Hb; split; [apply Hg, Hb | apply Qe, Hb] | exact Hst].
  - inversion Hnd as [|? ? Ha Hnd']; subst.
    destruct (q_promote_one a s) as [[p1 d1] s2] eqn:Eq.
    destruct (q_promote_one_frames _ _ _ _ _ Eq) as [P2 [N2 [Ch2 [C2 Q2]]]].
    assert (Hna : ~ In a done) by (apply Hdone; left; reflexivity).
    assert (HLa : forall l, p_queue s a = Some l -> lok (p_cfg s) false a l) by (intros l Hl; rewrite Cf; rewrite (Qe a Hna) in Hl; apply (s_qw _ HS a l Hl)).
    assert (Hpns : pn_get a s = pn_get a st) by (unfold pn_get; rewrite Pn, Ch; reflexivity).
    destruct (q_promote_one_run a s p1 d1 s2) as [Hfrom Hrun]; try exact Eq; try exact HLa.
    + intros pl ql x Hp Hq Hx. rewrite Pe in Hp. rewrite (Qe a Hna) in Hq. apply (s_disj _ HS a pl ql x Hp Hq Hx).
    + apply (g_at_same st); [rewrite Pe; reflexivity | rewrite Pn; reflexivity | exact Ch | apply HG].
    + assert (Hrest : forall x, in_opt x (p_queue s2 a) -> pn_get a s + N.of_nat (length p1) < t_nonce x).
      { apply (q_promote_one_rest a s p1 d1 s2 HLa); [|exact Eq]. intros x Hx. rewrite Hpns. rewrite (Qe a Hna) in Hx. apply (HW a x Hx). }
      assert (Hpa : pn_get a s = g a) by (rewrite (Hg a Hna); exact Hpns).
      destruct (IH (a :: done) s2 (P ++ p1) (D ++ d1) P' D' s1 Hnd') as [g' [Hs' [Hg' Hst']]]; try congruence.
      * intros b Hb [->|Hd]; [contradiction | apply (Hdone b (or_intror Hb) Hd)].
      * intros b Hb. assert (b <> a) by (intros ->; apply Hb; left; reflexivity). rewrite (Q2 b H). apply Qe. intros Hd. apply Hb. right. exact Hd.
      * exists (fun b => if b =? a then g a + N.of_nat (length p1) else g b). split; [|split].
        -- eapply Sched_app; [exact Hs|]. apply (Sched_run p1 a g); [exact Hfrom | rewrite <- Hpa; exact Hrun | intros b; reflexivity].
        -- intros b Hb. destruct (b =? a) eqn:Eb; [apply N.eqb_eq in Eb; subst b; exfalso; apply Hb; left; reflexivity|].
           apply Hg. intros Hd. apply Hb. right. exact Hd.
        -- intros b [<-|Hb] x Hx; [rewrite N.eqb_refl, <- Hpa; apply Hrest, Hx|].
           destruct (b =? a) eqn:Eb; [apply N.eqb_eq in Eb; subst b; contradiction|]. apply N.eqb_neq in Eb. rewrite (Q2 b Eb) in Hx. apply (Hst b Hb x Hx).
      * exact E.
      * exists g'. split; [exact Hs'|]. split.
        -- intros b Hb. apply Hg'. intros Hi. apply Hb. apply in_app_iff in Hi. cbn [app In]. destruct Hi as [Hi|[<-|Hi]]; [right; apply in_or_app; left; exact Hi | left; reflexivity | right; apply in_or_app; right; exact Hi].
        -- intros b Hb. apply Hst'. cbn [app In] in Hb. apply in_app_iff. destruct Hb as [<-|Hb]; [right; left; reflexivity|]. apply in_app_iff in Hb. destruct Hb as [Hb|Hb]; [left; exact Hb | right; right; exact Hb].
Qed.
