(* Pool/BlobRestartFinal.v — C42_clean_restart_reproduces: Init on what a clean Close of the queue
   store leaves on disk rebuilds every account with the same transactions in the same order, the
   same three eviction fields and the same spent total. *)
From Coq Require Import List NArith ZArith Bool Lia Sorted Permutation.
From GV Require Import Lib.Tactics Pool.Blob Pool.BlobProofs Pool.BlobAddProofs Pool.BlobRollingProofs Pool.BlobResetProofs Pool.BlobInitProofs Pool.BlobReopenProofs Pool.BlobReopenPerm Pool.BillyOpenProofs Pool.BlobRestartProofs Pool.BlobRestartMain.
Import ListNotations.
Local Open Scope N_scope.

Definition sum_sizes (l : list tx) : N := fold_right (fun t s => t_size t + s) 0 l.

Lemma sum_sizes_cons t l : sum_sizes (t :: l) = t_size t + sum_sizes l.
Proof. reflexivity. Qed.

Lemma sum_sizes_perm l l' : Permutation l l' -> sum_sizes l = sum_sizes l'.
Proof.
  induction 1 as [|x l l' _ IH|x y l|l l' l'' _ IH1 _ IH2]; [reflexivity | | | congruence].
  - rewrite !sum_sizes_cons. lia.
  - rewrite !sum_sizes_cons. lia.
Qed.

Lemma track_fold_stored : forall (calls : list (N * item)) p0 d0 p1 del,
  fold_left (fun r '(id, it) =>
               do x <- r ;
               let '(p, del) := x in
               do o <- track_transaction id (i_tx it) p ;
               match o with Some p' => Ok (p', del) | None => Ok (p, del ++ [id]) end)
            calls (Ok (p0, d0)) = Ok (p1, del) ->
  p_stored p1 <= p_stored p0 + sum_sizes (map call_tx calls).
Proof.
  induction calls as [|[id it] r IH]; intros p0 d0 p1 del E; cbn [fold_left] in E.
  - inversion E; subst. cbn. lia.
  - cbn [bind] in E. cbn [map sum_sizes fold_right]. fold (sum_sizes (map call_tx r)). change (call_tx (id, it)) with (i_tx it).
    destruct (track_transaction id (i_tx it) p0) as [[px|]|e] eqn:Et; cbn [bind] in E.
    + destruct (track_step _ _ _ _ Et) as [_ [_ [T3 _]]]. apply IH in E. rewrite T3 in E.
      assert (wrap64 (p_stored p0 + t_size (i_tx it)) <= p_stored p0 + t_size (i_tx it)).
      { unfold wrap64. destruct (_ <? two64); [lia|]. apply N.mod_le. unfold two64. lia. }
      lia.
    + apply IH in E. lia.
    + rewrite fold_err in E; [discriminate | intros ? [? ?]; reflexivity].
Qed.

Section RestartFinal.
Variable prioE prioB : N -> N -> Z.
Variable gtE gtB : N -> N -> bool.
Variable c : cfg.

(* Guards: the running pool satisfies Inv and carries prefix minima (both hold over all
   histories), every account is within the per-account cap and has strictly increasing nonces;
   index and queue store describe the same transactions (per sender, no duplicate hashes);
   pooled tips >= tip; the stored slot sizes are within Datacap. *)
Theorem clean_restart_reproduces p limg head tip q :
  Inv p -> RInv p -> within_cap p -> strict_nonces p ->
  (forall a, Permutation (txs_by a (billy_live (p_store p))) (map m_tx (txs_of p a))) ->
  NoDup (map (fun cl => t_id (call_tx cl)) (billy_live (p_store p))) ->
  tips_ok tip p ->
  sum_sizes (map call_tx (billy_live (p_store p))) <= c_datacap c ->
  b_nonce head = p_nonce p -> b_bal head = p_bal p ->
  pool_init prioE prioB gtE gtB c false (close_image (p_store p)) limg head tip = Ok q ->
  forall a, same_acct p q a.
Proof.
  intros HI HR Hcap Hstrict Hstore Hnd Htips Hsize Hhn Hhb H.
  unfold pool_init in H. inv_bind_as H p4. inv_bind_as H p5.
  unfold pool_init_load in E. destruct (billy_open (close_image (p_store p))) as [b calls] eqn:Eo.
  pose proof (billy_open_close _ _ _ Eo) as Hperm.
  assert (Hcalls : Permutation (map call_tx calls) (map call_tx (billy_live (p_store p)))).
  { unfold call_tx. rewrite <- !(map_map snd i_tx). apply Permutation_map. exact Hperm. }
  inv_bind_as E r. destruct r as [p1 del].
  set (p0 := mkPool b 0 (mkLimbo empty_billy [] []) [] [] (b_nonce head) (b_bal head) (b_id head)
                    None [] [] [] [] (b_base head) (b_blob head)) in *.
  assert (Hwf1 : forall a, wf_acct p1 a) by (eapply init_track_fold; [exact E1|]; intro a; reflexivity).
  pose proof (track_fold_stored _ _ _ _ _ E1) as Hst1.
  destruct (track_fold_shape _ _ _ _ _ E1) as [Hdel [Hshape [Hn1 Hb1]]].
  { eapply Permutation_NoDup; [|exact Hnd].
    rewrite <- !(map_map call_tx t_id). apply Permutation_map, Permutation_sym. exact Hcalls. }
  { intros cl _. reflexivity. }
  subst del. cbn [store_dels bind] in E.
  inv_bind_as E p3. inv_bind_as E p4'. inv_bind_as E l. inversion E; subst p4. clear E.
  unfold heap_rebuild in E3. inv_bind_as E3 h. inversion E3; subst p4'. clear E3.
  assert (Hby : forall a, Permutation (map m_tx (txs_of p1 a)) (map m_tx (txs_of p a))).
  { intro a. rewrite Hshape. cbn [app]. etransitivity; [|apply Hstore].
    unfold txs_by. apply Permutation_filter'. exact Hcalls. }
  assert (Hready : forall a, ready p p1 a).
  { intro a. unfold ready. pose proof (Hby a) as Hp. pose proof (Hwf1 a) as Hw. pose proof (HI a) as Hok.
    unfold txs_of in Hp. unfold wf_acct in Hw. unfold acct_ok in Hok.
    destruct (aget (p_index p) a) as [s|] eqn:Ep.
    - destruct (aget (p_index p1) a) as [l0|] eqn:E1a.
      + exists l0. split; [reflexivity|]. split; [exact Hp | apply Hw].
      + exfalso. cbn in Hp. apply Permutation_nil in Hp. destruct Hok as [Hne _]. destruct s; [contradiction | discriminate].
    - destruct (aget (p_index p1) a) as [l0|] eqn:E1a.
      + exfalso. cbn in Hp. apply Permutation_sym, Permutation_nil in Hp. destruct Hw as [Hne _]. destruct l0; [contradiction | discriminate].
      + split; [reflexivity | exact Hw]. }
  destruct (restart_recheck_fold prioE prioB p HI HR Hcap Hstrict _ _ _ E2) as [Hsame [idx [sp Eq3]]].
  { rewrite Hn1. exact Hhn. }
  { rewrite Hb1. exact Hhb. }
  { exact Hready. }
  { intros a Ha. apply aget_notin in Ha. pose proof (Hready a) as Hr. unfold ready in Hr. pose proof (HI a) as Hok. unfold acct_ok in Hok.
    unfold same_acct, txs_of. rewrite Ha. destruct (aget (p_index p) a) as [s|] eqn:Ep.
    - destruct Hr as [l0 [Hx _]]. congruence.
    - destruct Hr as [_ Hs]. rewrite Hs, Hok. repeat split. }
  set (p4 := set_limbo l (set_heap h p3)) in *.
  assert (Hsame4 : forall a, same_acct p p4 a) by (intro a; exact (Hsame a)).
  assert (Htips4 : tips_ok tip p4).
  { intros a l4 Ha. destruct (Hsame4 a) as [S1 _]. unfold txs_of in S1. rewrite Ha in S1.
    destruct (aget (p_index p) a) as [s|] eqn:Ep.
    - pose proof (Htips a s Ep) as Hf. rewrite Forall_forall in *. intros m Hm.
      assert (Hin : In (m_tx m) (map m_tx s)) by (rewrite <- S1; apply in_map; exact Hm).
      apply in_map_iff in Hin. destruct Hin as [m' [Em Hm']]. rewrite <- Em. apply Hf. exact Hm'.
    - destruct l4; [constructor | discriminate]. }
  apply set_gas_tip_noop in E0; [|exact Htips4]. subst p5.
  apply drop_loop_noop in H.
  - subst q. intro a. exact (Hsame4 a).
  - cbn [p_stored set_tip p4 set_limbo set_heap]. rewrite Eq3. cbn [p_stored set_spent set_index].
    assert (sum_sizes (map call_tx calls) = sum_sizes (map call_tx (billy_live (p_store p)))) by (apply sum_sizes_perm; exact Hcalls).
    cbn [p_stored p0] in Hst1. lia.
Qed.
End RestartFinal.
