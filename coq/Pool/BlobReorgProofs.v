(* Pool/BlobReorgProofs.v — completeness of reorg()'s walk: every block of the OLD chain is either
   a block of the NEW chain (an ancestor of the meeting block) or was walked, i.e. all its
   transactions are in the discarded set.  Guard: block ids are unique in the block table and
   both heads are in it. *)
From Coq Require Import List NArith ZArith Bool Lia.
From GV Require Import Lib.Tactics Pool.Blob Pool.BlobProofs Pool.BlobAddProofs Pool.BlobRollingProofs Pool.BlobResetProofs Pool.BlobLimboProofs Pool.BlobLimboReset Pool.BlobLimboFrame Pool.BlobLimboEntry.
Import ListNotations.
Local Open Scope N_scope.

Definition ids_unique (bs : list block) : Prop := forall b, In b bs -> get_block bs (b_id b) = Some b.

Lemma get_block_in bs i b : get_block bs i = Some b -> In b bs.
Proof. unfold get_block. intro H. apply find_some in H. apply H. Qed.

Lemma reach_inv bs h b : reach bs h b ->
  b = h \/ exists ph, get_block bs (b_parent h) = Some ph /\ reach bs ph b.
Proof.
  induction 1 as [|b pb Hr IH Hp]; [left; reflexivity|]. right.
  destruct IH as [->|[ph [Hph Hrp]]].
  - exists pb. split; [exact Hp | constructor].
  - exists ph. split; [exact Hph | eapply reach_parent; eauto].
Qed.

Lemma reach_trans bs a b c0 : reach bs a b -> reach bs b c0 -> reach bs a c0.
Proof. intros H1 H2. induction H2 as [|x px Hr IH Hp]; [exact H1 | eapply reach_parent; eauto]. Qed.

Definition covered (bs : list block) (target : block) (disc : list btx) (b : block) : Prop :=
  reach bs target b \/ (forall t, In t (b_txs b) -> In t disc).

Lemma covered_mono bs target disc disc' b :
  (forall t, In t disc -> In t disc') -> covered bs target disc b -> covered bs target disc' b.
Proof. intros Hm [H|H]; [left; exact H | right; intros t Ht; apply Hm, H, Ht]. Qed.

(* first walk: the old branch above the new head's height *)
Lemma walk_rem_complete bs add : forall fuel rem disc rem' disc',
  walk_rem fuel bs rem add disc = Some (rem', disc') ->
  (forall t, In t disc -> In t disc') /\
  (forall b, reach bs rem b -> covered bs rem' disc' b) /\
  (In rem bs -> In rem' bs).
Proof.
  induction fuel as [|f IH]; intros rem disc rem' disc' H; cbn [walk_rem] in H; [discriminate|].
  destruct (b_num add <? b_num rem).
  - destruct (get_block bs (b_parent rem)) as [pr|] eqn:Ep; [|discriminate].
    apply IH in H. destruct H as [H1 [H2 H3]].
    split; [intros t Ht; apply H1; apply in_or_app; left; exact Ht|].
    split; [|intros _; apply H3; eapply get_block_in; eauto].
    intros b Hb. apply reach_inv in Hb. destruct Hb as [->|[ph [Hph Hrp]]].
    + right. intros t Ht. apply H1. apply in_or_app. right. exact Ht.
    + rewrite Ep in Hph. inversion Hph; subst ph. apply H2. exact Hrp.
  - inversion H; subst. split; [auto|]. split; [intros b Hb; left; exact Hb | auto].
Qed.

Lemma walk_add_keeps bs : forall fuel rem add incl add' incl',
  walk_add fuel bs rem add incl = Some (add', incl') -> (In add bs -> In add' bs).
Proof.
  induction fuel as [|f IH]; intros rem add incl add' incl' H; cbn [walk_add] in H; [discriminate|].
  destruct (b_num rem <? b_num add).
  - destruct (get_block bs (b_parent add)) as [pa|] eqn:Ep; [|discriminate].
    intros _. eapply IH; [exact H|]. eapply get_block_in; eauto.
  - inversion H; subst. auto.
Qed.

(* third walk: both branches step by step down to the meeting block *)
Lemma walk_both_complete bs newh (Hu : ids_unique bs) : forall fuel rem add disc incl disc' incl',
  walk_both fuel bs rem add disc incl = Some (disc', incl') ->
  In rem bs -> In add bs -> reach bs newh add ->
  (forall t, In t disc -> In t disc') /\
  (forall b, reach bs rem b -> covered bs newh disc' b).
Proof.
  induction fuel as [|f IH]; intros rem add disc incl disc' incl' H Hr Ha Hreach; cbn [walk_both] in H; [discriminate|].
  destruct (b_id rem =? b_id add) eqn:Eid.
  - inversion H; subst. apply N.eqb_eq in Eid.
    assert (E : rem = add).
    { pose proof (Hu _ Hr) as H1. pose proof (Hu _ Ha) as H2. rewrite Eid in H1. rewrite H1 in H2. inversion H2. reflexivity. }
    subst add. split; [auto|]. intros b Hb. left. eapply reach_trans; eauto.
  - destruct (get_block bs (b_parent rem)) as [pr|] eqn:Epr; [|discriminate].
    destruct (get_block bs (b_parent add)) as [pa|] eqn:Epa; [|discriminate].
    apply IH in H; [|eapply get_block_in; eauto | eapply get_block_in; eauto | eapply reach_parent; eauto].
    destruct H as [H1 H2].
    split; [intros t Ht; apply H1; apply in_or_app; left; exact Ht|].
    intros b Hb. apply reach_inv in Hb. destruct Hb as [->|[ph [Hph Hrp]]].
    + right. intros t Ht. apply H1. apply in_or_app. right. exact Ht.
    + rewrite Epr in Hph. inversion Hph; subst ph. apply H2. exact Hrp.
Qed.

Lemma walk_add_reach bs newh : forall fuel rem add incl add' incl',
  walk_add fuel bs rem add incl = Some (add', incl') -> reach bs newh add -> reach bs newh add'.
Proof.
  induction fuel as [|f IH]; intros rem add incl add' incl' H Hr; cbn [walk_add] in H; [discriminate|].
  destruct (b_num rem <? b_num add).
  - destruct (get_block bs (b_parent add)) as [pa|] eqn:Ep; [|discriminate].
    eapply IH; [exact H|]. eapply reach_parent; eauto.
  - inversion H; subst. exact Hr.
Qed.

(* ancestors(old head) = walked blocks ++ ancestors(meeting block): every block of the old chain is
   on the new chain or all its transactions were reported as discarded *)
Theorem reorg_walk_complete bs oldh newh ro :
  ids_unique bs -> In oldh bs -> In newh bs ->
  reorg bs oldh newh = Some ro ->
  forall b, reach bs oldh b -> reach bs newh b \/ (forall t, In t (b_txs b) -> In t (ro_disc ro)).
Proof.
  intros Hu Ho Hn H b Hb. unfold reorg in H.
  destruct (64 <? absdiff (b_num oldh) (b_num newh)); [discriminate|].
  destruct (walk_rem (S (length bs)) bs oldh newh []) as [[rem disc]|] eqn:Er; [|discriminate].
  destruct (walk_add (S (length bs)) bs rem newh []) as [[add incl]|] eqn:Ea; [|discriminate].
  destruct (walk_both (S (length bs)) bs rem add disc incl) as [[disc' incl']|] eqn:Eb; [|discriminate].
  inversion H; subst. cbn [ro_disc].
  destruct (walk_rem_complete bs newh _ _ _ _ _ Er) as [R1 [R2 R3]].
  pose proof (walk_add_keeps bs _ _ _ _ _ _ Ea Hn) as Ha.
  pose proof (walk_add_reach bs newh _ _ _ _ _ _ Ea (reach_head _ _)) as Hra.
  destruct (walk_both_complete bs newh Hu _ _ _ _ _ _ _ Eb (R3 Ho) Ha Hra) as [B1 B2].
  destruct (R2 b Hb) as [K|K].
  - exact (B2 b K).
  - right. intros t Ht. apply B1, K, Ht.
Qed.
