(* Pool/BlobInitProofs.v — Init (on any store image) establishes the per-account invariant Inv,
   and Inv is carried through every history of Add / SetGasTip / Reset / restart. *)
From Coq Require Import List NArith ZArith Bool Lia.
From GV Require Import Lib.Tactics Pool.Blob Pool.BlobProofs Pool.BlobAddProofs Pool.BlobResetProofs.
Import ListNotations.
Local Open Scope N_scope.

Lemma aget_notin {V} (m : list (N * V)) a : ~ In a (akeys m) -> aget m a = None.
Proof.
  induction m as [|[k v] r IH]; intro H; [reflexivity|]. cbn [aget]. cbn in H.
  destruct (k =? a) eqn:E; [apply N.eqb_eq in E; exfalso; apply H; left; exact E|].
  apply IH. intro K. apply H. right. exact K.
Qed.

(* trackTransaction keeps every account's spent total consistent with its list *)
Lemma track_wf id t p p' :
  (forall a, wf_acct p a) -> track_transaction id t p = Ok (Some p') -> forall a, wf_acct p' a.
Proof.
  intros Hwf H. unfold track_transaction in H.
  destruct (ahas (p_lookup p) (t_id t)); [discriminate|]. cbv zeta in H.
  set (a0 := t_from t) in *.
  set (p1 := if ahas (p_index p) a0 then p
             else set_spent (aset (p_spent p) a0 0) (set_index (aset (p_index p) a0 []) p)) in *.
  inv_bind_as H p3. inversion H; subst p'. clear H.
  apply add_spent_get in E. destruct E as [s [E1 [E2 [E3 _]]]].
  cbn [p_spent p_index set_index] in E1, E2, E3.
  intro a. unfold wf_acct. cbn [p_index p_spent add_stored set_stored track set_lookup]. rewrite E3, E2, !aget_aset.
  destruct (a0 =? a) eqn:Ea.
  - apply N.eqb_eq in Ea. subst a. split; [destruct (txs_of p1 a0); discriminate|].
    rewrite sum_cost_app. change (sum_cost [mkMeta t id 0 0 0]) with (t_cost t + 0). f_equal.
    specialize (Hwf a0). unfold wf_acct in Hwf. unfold p1, txs_of, ahas in *.
    destruct (aget (p_index p) a0) as [l|] eqn:Ei.
    + destruct Hwf as [_ Hs]. rewrite Hs in E1. inversion E1; subst. rewrite Ei. lia.
    + cbn [p_spent p_index set_spent set_index] in *. rewrite aget_aset, N.eqb_refl in E1. inversion E1; subst.
      rewrite aget_aset, N.eqb_refl. change (sum_cost []) with 0. lia.
  - specialize (Hwf a). unfold wf_acct in Hwf. unfold p1. destruct (ahas (p_index p) a0).
    + exact Hwf.
    + cbn [p_spent p_index set_spent set_index]. rewrite !aget_aset, Ea. exact Hwf.
Qed.

Lemma init_track_fold : forall (calls : list (N * item)) p0 (d0 : list N) p1 del,
  fold_left (fun r '(id, it) =>
               do x <- r ;
               let '(p, del) := x in
               do o <- track_transaction id (i_tx it) p ;
               match o with Some p' => Ok (p', del) | None => Ok (p, del ++ [id]) end)
            calls (Ok (p0, d0)) = Ok (p1, del) ->
  (forall a, wf_acct p0 a) -> forall a, wf_acct p1 a.
Proof.
  induction calls as [|[id it] r IH]; intros p0 d0 p1 del E Hwf0; cbn [fold_left] in E.
  - inversion E; subst. exact Hwf0.
  - cbn [bind] in E.
    destruct (track_transaction id (i_tx it) p0) as [[px|]|e] eqn:Et; cbn [bind] in E.
    + eapply IH; [exact E|]. eapply track_wf; eauto.
    + eapply IH; [exact E|]. exact Hwf0.
    + rewrite fold_err in E; [discriminate | intros ? [? ?]; reflexivity].
Qed.

Section Init.
Variable prioE prioB : N -> N -> Z.
Variable gtE gtB nearE nearB : N -> N -> bool.
Variable c : cfg.

Lemma init_recheck_fold : forall rem x q,
  fold_left (fun r a => do q0 <- r ; if ahas (p_index q0) a then recheck prioE prioB false a None q0 else Ok q0)
            rem (Ok x) = Ok q ->
  (forall a, wf_acct x a) -> (forall a, ~ In a rem -> acct_ok x a) -> Inv q.
Proof.
  induction rem as [|a0 rem IH]; intros x q H Hwf Hok; cbn [fold_left] in H.
  - inversion H; subst. intro a. apply Hok. intro K; exact K.
  - cbn [bind] in H.
    destruct (if ahas (p_index x) a0 then recheck prioE prioB false a0 None x else Ok x) as [x2|e] eqn:Ex.
    2:{ rewrite fold_err in H; [discriminate | intros; reflexivity]. }
    assert (K : frame a0 x x2 /\ acct_ok x2 a0).
    { destruct (ahas (p_index x) a0) eqn:Eh.
      - destruct (recheck_ok prioE prioB a0 None x x2 Ex (Hwf a0)) as [R1 [R2 _]]. split; assumption.
      - inversion Ex; subst x2. split; [apply frame_refl|]. unfold acct_ok. unfold ahas in Eh.
        specialize (Hwf a0). unfold wf_acct in Hwf. destruct (aget (p_index x) a0); [discriminate | exact Hwf]. }
    destruct K as [F A0]. eapply IH; [exact H | |].
    + intro a. destruct (N.eq_dec a a0) as [->|Ha]; [apply acct_ok_wf; exact A0 | eapply wf_acct_frame; eauto].
    + intros a Ha. destruct (N.eq_dec a a0) as [->|Hne]; [exact A0|].
      eapply acct_ok_frame; [exact F | exact Hne|]. apply Hok. intros [K|K]; [congruence | exact (Ha K)].
Qed.

(* Init (lines 614-724) on ANY queue / limbo image — clean shutdown, abrupt stop, or
   arbitrary content — yields a pool that satisfies Inv for the given head state *)
Lemma init_load_inv qimg limg head q :
  pool_init_load prioE prioB false qimg limg head = Ok q -> Inv q.
Proof.
  unfold pool_init_load. destruct (billy_open qimg) as [b calls].
  set (p0 := mkPool b 0 (mkLimbo empty_billy [] []) [] [] (b_nonce head) (b_bal head) (b_id head)
                    None [] [] [] [] (b_base head) (b_blob head)).
  intro H. inv_bind_as H r. destruct r as [p1 del].
  assert (Hwf1 : forall a, wf_acct p1 a).
  { eapply init_track_fold; [exact E|]. intro a. reflexivity. }
  inv_bind_as H p2. apply store_dels_core in E0.
  inv_bind_as H p3. inv_bind_as H p4. inv_bind_as H l. inversion H; subst q. clear H.
  eapply inv_same_core with (p := p4); [|repeat split].
  unfold heap_rebuild in E2. inv_bind_as E2 h. inversion E2; subst p4.
  eapply inv_same_core with (p := p3); [|repeat split].
  eapply init_recheck_fold; [exact E1 | |].
  - intro a. eapply wf_acct_core; [exact E0 | apply Hwf1].
  - intros a Ha. apply aget_notin in Ha. unfold acct_ok. rewrite Ha.
    pose proof (wf_acct_core _ _ a E0 (Hwf1 a)) as W. unfold wf_acct in W. rewrite Ha in W. exact W.
Qed.

Lemma init_inv qimg limg head tip q :
  pool_init prioE prioB gtE gtB c false qimg limg head tip = Ok q -> Inv q.
Proof.
  unfold pool_init. intro H. inv_bind_as H p4. inv_bind_as H p5.
  eapply drop_loop_inv; [|exact H]. eapply set_gas_tip_inv; [|exact E0]. eapply init_load_inv; eauto.
Qed.

(* ------------------------------------------------------------------ histories *)
Inductive hop2 :=
| H2Add (t : tx)
| H2Tip (tip : N)
| H2Reset (bs : list block) (newh : block) (final : N)
| H2Restart (crash : bool) (head : block) (tip : N).   (* Close/New/Init, or Init on a copy of the live directory *)

Variable legacy_limbo : bool.

Definition hstep2 (o : hop2) (p : pool) : res pool :=
  match o with
  | H2Add t => do x <- pool_add prioE prioB gtE gtB c t p ; Ok (fst x)
  | H2Tip tip => set_gas_tip prioE prioB tip p
  | H2Reset bs newh final => pool_reset prioE prioB nearE nearB false legacy_limbo bs newh final p
  | H2Restart crash head tip =>
      let img := if crash then crash_image else close_image in
      pool_init prioE prioB gtE gtB c false (img (p_store p)) (img (l_store (p_limbo p))) head tip
  end.
Fixpoint hrun2 (ops : list hop2) (p : pool) : res pool :=
  match ops with [] => Ok p | o :: r => do q <- hstep2 o p ; hrun2 r q end.

(* the guards: transaction nonces are uint64 values; a Reset is chain-consistent and not
   skipped (at most 64 blocks between the heads) *)
Definition hop2_guard (o : hop2) (p : pool) : Prop :=
  match o with
  | H2Add t => t_nonce t < two64
  | H2Reset bs newh _ => reset_guard bs newh p
  | _ => True
  end.
Fixpoint hguard (ops : list hop2) (p : pool) : Prop :=
  match ops with
  | [] => True
  | o :: r => hop2_guard o p /\ forall q, hstep2 o p = Ok q -> hguard r q
  end.

Lemma hstep2_inv o p q : Inv p -> hop2_guard o p -> hstep2 o p = Ok q -> Inv q.
Proof.
  intros HI Hg H. destruct o as [t|tip|bs newh final|crash head tip]; cbn [hstep2 hop2_guard] in *.
  - inv_bind_as H x. destruct x as [p2 e2]. inversion H; subst. eapply pool_add_inv; eauto.
  - eapply set_gas_tip_inv; eauto.
  - eapply reset_inv; eauto.
  - eapply init_inv; eauto.
Qed.

Lemma hrun2_inv : forall ops p q, Inv p -> hguard ops p -> hrun2 ops p = Ok q -> Inv q.
Proof.
  induction ops as [|o r IH]; intros p q HI Hg H; cbn [hrun2] in H.
  - inversion H; subst. exact HI.
  - destruct Hg as [Hg1 Hg2]. inv_bind_as H p1. eapply IH; [|apply Hg2; reflexivity|exact H].
    eapply hstep2_inv; eauto.
Qed.
End Init.
