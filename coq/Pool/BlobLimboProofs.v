(* Pool/BlobLimboProofs.v — function-level facts about the limbo (limbo.go), the eviction
   step and the data cap of the blob pool model. *)
From Coq Require Import List NArith ZArith Bool Lia.
From GV Require Import Lib.Tactics Pool.Blob Pool.BlobProofs Pool.BlobAddProofs Pool.BlobResetProofs.
Import ListNotations.
Local Open Scope N_scope.

(* ------------------------------------------------------------------ finalize *)
Lemma aget_fold_adel {V} (owners : list N) : forall (m : list (N * V)) h,
  aget (fold_left (fun m o => adel m o) owners m) h =
  if existsb (N.eqb h) owners then None else aget m h.
Proof.
  induction owners as [|o r IH]; intros m h; cbn [fold_left existsb]; [reflexivity|].
  rewrite IH, aget_adel. rewrite (N.eqb_sym h o).
  destruct (o =? h); cbn [orb]; [destruct (existsb _ r); reflexivity | reflexivity].
Qed.

(* the inner loop of finalize: one finalised block's entries leave store and index *)
Lemma finalize_group : forall (ids : list (N * N)) l l2,
  fold_left (fun r2 '(id, owner) =>
               do l' <- r2 ;
               do b <- billy_delete (l_store l') id ;
               Ok (mkLimbo b (adel (l_index l') owner) (l_groups l')))
            ids (Ok l) = Ok l2 ->
  l_groups l2 = l_groups l /\
  l_index l2 = fold_left (fun m o => adel m o) (map snd ids) (l_index l).
Proof.
  induction ids as [|[id owner] r IH]; intros l l2 H; cbn [fold_left] in H.
  - inversion H; subst. split; reflexivity.
  - cbn [bind] in H. destruct (billy_delete (l_store l) id) as [b|e] eqn:E; cbn [bind] in H.
    + apply IH in H. destruct H as [H1 H2]. cbn [l_groups l_index] in *. split; [exact H1 | exact H2].
    + rewrite fold_err in H; [discriminate | intros ? [? ?]; reflexivity].
Qed.

(* owners / block numbers of the entries recorded at or below the finalised number *)
Definition finalised_owners (groups : list (N * list (N * N))) (final : N) : list N :=
  flat_map (fun '(blk, ids) => if final <? blk then [] else map snd ids) groups.
Definition finalised_blocks (groups : list (N * list (N * N))) (final : N) : list N :=
  flat_map (fun '(blk, _) => if final <? blk then [] else [blk]) groups.

Lemma finalize_fold final : forall (gs : list (N * list (N * N))) l0 l',
  fold_left (fun r '(blk, ids) =>
               do l1 <- r ;
               if final <? blk then Ok l1 else
               do l2 <- fold_left (fun r2 '(id, owner) =>
                                     do l' <- r2 ;
                                     do b <- billy_delete (l_store l') id ;
                                     Ok (mkLimbo b (adel (l_index l') owner) (l_groups l')))
                                  ids (Ok l1) ;
               Ok (mkLimbo (l_store l2) (l_index l2) (adel (l_groups l2) blk)))
            gs (Ok l0) = Ok l' ->
  l_index l' = fold_left (fun m o => adel m o) (finalised_owners gs final) (l_index l0) /\
  l_groups l' = fold_left (fun m o => adel m o) (finalised_blocks gs final) (l_groups l0).
Proof.
  induction gs as [|[blk ids] r IH]; intros l0 l' H; cbn [fold_left] in H.
  - inversion H; subst. split; reflexivity.
  - cbn [bind] in H. unfold finalised_owners, finalised_blocks. cbn [flat_map]. rewrite !fold_left_app.
    destruct (final <? blk) eqn:Ef.
    + cbn [fold_left]. apply IH in H. exact H.
    + match type of H with fold_left ?F r ?X = _ => destruct X as [l3|e] eqn:Ex end.
      2:{ rewrite fold_err in H; [discriminate | intros ? [? ?]; reflexivity]. }
      inv_bind_as Ex l2. inversion Ex; subst l3. apply finalize_group in E. destruct E as [G1 G2].
      apply IH in H. destruct H as [H1 H2]. cbn [l_index l_groups fold_left] in *.
      split; [rewrite H1, G2; reflexivity | rewrite H2, G1; reflexivity].
Qed.

Lemma aget_in_keys {V} (m : list (N * V)) k v : aget m k = Some v -> In k (akeys m).
Proof.
  induction m as [|[k' v'] r IH]; cbn [aget akeys map]; [discriminate|].
  destruct (k' =? k) eqn:E; [apply N.eqb_eq in E; intros _; left; exact E | intro H; right; apply IH; exact H].
Qed.

Lemma in_finalised_blocks gs final blk : In blk (finalised_blocks gs final) <-> (In blk (akeys gs) /\ blk <= final).
Proof.
  induction gs as [|[b ids] r IH]; [cbn; tauto|].
  unfold finalised_blocks in *. cbn [flat_map akeys map fst]. rewrite in_app_iff, IH.
  destruct (final <? b) eqn:E; [apply N.ltb_lt in E | apply N.ltb_ge in E]; cbn [In]; intuition (subst; try lia; auto).
Qed.

Lemma existsb_in (x : N) l : existsb (N.eqb x) l = true <-> In x l.
Proof.
  rewrite existsb_exists. split; [intros [y [Hy E]]; apply N.eqb_eq in E; subst; exact Hy | intro H; exists x; split; [exact H | apply N.eqb_refl]].
Qed.

(* limbo.finalize: every entry recorded at or below the finalised block leaves the index, every
   group at or below it is deleted, and nothing above it is touched *)
Lemma limbo_finalize_spec l final l' :
  limbo_finalize l final = Ok l' ->
  (forall blk, blk <= final -> aget (l_groups l') blk = None) /\
  (forall blk, final < blk -> aget (l_groups l') blk = aget (l_groups l) blk) /\
  (forall h, aget (l_index l') h =
             if existsb (N.eqb h) (finalised_owners (l_groups l) final) then None else aget (l_index l) h).
Proof.
  unfold limbo_finalize. intro H. apply finalize_fold in H. destruct H as [H1 H2].
  split; [|split].
  - intros blk Hle. rewrite H2, aget_fold_adel.
    destruct (existsb (N.eqb blk) (finalised_blocks (l_groups l) final)) eqn:E; [reflexivity|].
    destruct (aget (l_groups l) blk) as [g|] eqn:Eg; [|reflexivity].
    exfalso. apply aget_in_keys in Eg.
    assert (In blk (finalised_blocks (l_groups l) final)) by (apply in_finalised_blocks; split; assumption).
    apply existsb_in in H. congruence.
  - intros blk Hlt. rewrite H2, aget_fold_adel.
    destruct (existsb (N.eqb blk) (finalised_blocks (l_groups l) final)) eqn:E; [|reflexivity].
    apply existsb_in, in_finalised_blocks in E. lia.
  - intro h. rewrite H1. apply aget_fold_adel.
Qed.

(* ------------------------------------------------------------------ offload / push *)
(* limbo.push of a transaction that is not tracked yet records it under the including block *)
Lemma limbo_push_spec l t blk b id :
  aget (l_index l) (t_id t) = None ->
  billy_put (l_store l) (t_shelf t) (mkItem t blk) = Some (b, id) ->
  let l' := limbo_push l t blk in
  aget (l_index l') (t_id t) = Some id /\
  (exists g, aget (l_groups l') blk = Some g /\ aget g id = Some (t_id t)) /\
  billy_get (l_store l') id = billy_get b id.
Proof.
  intros Hn Hp. unfold limbo_push, ahas. rewrite Hn. unfold limbo_set. rewrite Hp. cbn [l_index l_groups l_store].
  split; [rewrite aget_aset, N.eqb_refl; reflexivity|]. split; [|reflexivity].
  eexists. split; [rewrite aget_aset, N.eqb_refl; reflexivity | rewrite aget_aset, N.eqb_refl; reflexivity].
Qed.

(* ------------------------------------------------------------------ eviction *)
Section Evict.
Variable prioE prioB : N -> N -> Z.
Variable gtE gtB : N -> N -> bool.
Variable c : cfg.

(* drop() removes exactly the last transaction of the heap's first account and touches no
   other account's list *)
Lemma drop_effect p q :
  drop prioE prioB gtE gtB p = Ok q ->
  exists from hr d, p_heap p = from :: hr /\ last_opt (txs_of p from) = Some d /\
    txs_of q from = removelast (txs_of p from) /\
    (forall a, a <> from -> aget (p_index q) a = aget (p_index p) a).
Proof.
  intro H. unfold drop in H.
  destruct (p_heap p) as [|from hr] eqn:Eh; [discriminate|].
  destruct (last_opt (txs_of p from)) as [d|] eqn:El; [|discriminate].
  exists from, hr, d. split; [reflexivity|]. split; [exact El|].
  inv_bind_as H p1. inv_bind_as H p3. apply store_del_core in H. destruct H as [Hi _].
  assert (Hi3 : p_index p3 = p_index p1).
  { destruct (Nat.eqb (length (txs_of p from)) 1).
    - inv_bind_as E0 h. inversion E0; subst. reflexivity.
    - destruct (last_opt (removelast (txs_of p from))); [|discriminate].
      destruct (_ || _); [inv_bind_as E0 h; inversion E0; subst; reflexivity | inversion E0; subst; reflexivity]. }
  unfold txs_of at 1. rewrite Hi, Hi3.
  destruct (Nat.eqb (length (txs_of p from)) 1) eqn:E1.
  - inversion E; subst p1. cbn [p_index set_index set_spent]. split.
    + rewrite aget_adel, N.eqb_refl.
      apply Nat.eqb_eq in E1. destruct (txs_of p from) as [|x [|y r]]; cbn in E1; try lia. reflexivity.
    + intros a Ha. rewrite aget_adel, (neq_eqb _ _ Ha). reflexivity.
  - apply sub_spent_get in E. destruct E as [s [_ [_ [Ei _]]]]. rewrite Ei. cbn [p_index set_index]. split.
    + rewrite aget_aset, N.eqb_refl. reflexivity.
    + intros a Ha. rewrite aget_aset, (neq_eqb _ _ Ha). reflexivity.
Qed.

(* the eviction loop only returns once the stored bytes are within the data cap *)
Lemma drop_loop_cap fuel : forall p q, drop_loop prioE prioB gtE gtB c fuel p = Ok q -> p_stored q <= c_datacap c.
Proof.
  induction fuel as [|f IH]; intros p q H; cbn [drop_loop] in H; [discriminate|].
  destruct (c_datacap c <? p_stored p) eqn:E.
  - inv_bind_as H p1. eapply IH; eauto.
  - inversion H; subst. apply N.ltb_ge in E. exact E.
Qed.
End Evict.
