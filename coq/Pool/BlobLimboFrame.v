(* Pool/BlobLimboFrame.v — the limbo is touched by Reset and restart only: Add (with replacement,
   gapped promotion, eviction) and SetGasTip leave it unchanged.  With reset_finalises this gives,
   over every history of Add / SetGasTip / Reset: once a Reset has finalised block f, no limbo
   entry recorded at or below f exists until the next Reset. *)
From Coq Require Import List NArith ZArith Bool Lia.
From GV Require Import Lib.Tactics Pool.Blob Pool.BlobProofs Pool.BlobAddProofs Pool.BlobRollingProofs Pool.BlobResetProofs Pool.BlobLimboProofs Pool.BlobLimboReset.
Import ListNotations.
Local Open Scope N_scope.

Lemma store_del_limbo id p q : store_del id p = Ok q -> p_limbo q = p_limbo p.
Proof. unfold store_del. intro H. inv_bind H. inversion H; subst. reflexivity. Qed.
Lemma store_dels_limbo ids : forall p q, store_dels ids p = Ok q -> p_limbo q = p_limbo p.
Proof.
  induction ids as [|i r IH]; intros p q H; cbn [store_dels] in H; [inversion H; subst; reflexivity|].
  inv_bind_as H p1. rewrite (IH p1 q H). eapply store_del_limbo; eauto.
Qed.
Lemma sub_spent_limbo a n p q : sub_spent a n p = Ok q -> p_limbo q = p_limbo p.
Proof. unfold sub_spent. destruct (aget (p_spent p) a); intro H; inversion H; subst; reflexivity. Qed.
Lemma add_spent_limbo a n p q : add_spent a n p = Ok q -> p_limbo q = p_limbo p.
Proof.
  unfold add_spent. destruct (aget (p_spent p) a); [|discriminate]. destruct (_ <? _); intro H; inversion H; subst; reflexivity.
Qed.
Lemma unaccount_limbo a m p q : unaccount a m p = Ok q -> p_limbo q = p_limbo p.
Proof. unfold unaccount. intro H. inv_bind_as H p1. inversion H; subst. cbn. eapply sub_spent_limbo; eauto. Qed.

Section LimboFrame.
Variable prioE prioB : N -> N -> Z.
Variable gtE gtB : N -> N -> bool.
Variable c : cfg.

Lemma heap_fix_limbo p a q : heap_fix_addr prioE prioB p a = Ok q -> p_limbo q = p_limbo p.
Proof. unfold heap_fix_addr. intro H. inv_bind H. inversion H; subst. reflexivity. Qed.
Lemma heap_remove_limbo p a q : heap_remove_addr prioE prioB p a = Ok q -> p_limbo q = p_limbo p.
Proof. unfold heap_remove_addr. intro H. inv_bind H. inversion H; subst. reflexivity. Qed.

Lemma drop_limbo p q : drop prioE prioB gtE gtB p = Ok q -> p_limbo q = p_limbo p.
Proof.
  intro H. unfold drop in H.
  destruct (p_heap p) as [|from hr]; [discriminate|].
  destruct (last_opt (txs_of p from)) as [d|]; [|discriminate].
  inv_bind_as H p1. inv_bind_as H p3. apply store_del_limbo in H. rewrite H.
  assert (H3 : p_limbo p3 = p_limbo p1).
  { destruct (Nat.eqb (length (txs_of p from)) 1).
    - inv_bind_as E0 h. inversion E0; subst. reflexivity.
    - destruct (last_opt (removelast (txs_of p from))); [|discriminate].
      destruct (_ || _); [inv_bind_as E0 h; inversion E0; subst; reflexivity | inversion E0; subst; reflexivity]. }
  rewrite H3. destruct (Nat.eqb (length (txs_of p from)) 1).
  - inversion E; subst. reflexivity.
  - apply sub_spent_limbo in E. exact E.
Qed.

Lemma drop_loop_limbo fuel : forall p q, drop_loop prioE prioB gtE gtB c fuel p = Ok q -> p_limbo q = p_limbo p.
Proof.
  induction fuel as [|f IH]; intros p q H; cbn [drop_loop] in H; [discriminate|].
  destruct (c_datacap c <? p_stored p); [|inversion H; subst; reflexivity].
  inv_bind_as H p1. rewrite (IH p1 q H). eapply drop_limbo; eauto.
Qed.

Lemma add_core_limbo t p q e : add_core prioE prioB gtE gtB c t p = Ok (q, e) -> p_limbo q = p_limbo p.
Proof.
  intro H. unfold add_core in H.
  destruct (negb (validate_tx c t p =? E_ok)).
  { destruct (validate_tx c t p =? E_noncehigh).
    - destruct ((1 <=? gapped_allowance p (t_from t))%Z && Nat.ltb (length (p_gsrc p)) maxGapped); inversion H; subst; reflexivity.
    - inversion H; subst. reflexivity. }
  destruct (billy_put (p_store p) (t_shelf t) (mkItem t 0)) as [[b id]|]; [|inversion H; subst; reflexivity].
  inv_bind_as H old0. inv_bind_as H r1. destruct r1 as [p1 newacc].
  inv_bind_as H p3. inv_bind_as H p4. inversion H; subst q e. clear H.
  rewrite (drop_loop_limbo _ _ _ E2).
  assert (H3 : p_limbo p3 = p_limbo p1).
  { destruct newacc.
    - inv_bind_as E1 h. inversion E1; subst. reflexivity.
    - destruct (Nat.eqb _ 1).
      + apply heap_fix_limbo in E1. exact E1.
      + destruct old0; [|discriminate]. destruct (last_opt _); [|discriminate].
        destruct (_ || _); [apply heap_fix_limbo in E1; exact E1 | inversion E1; subst; reflexivity]. }
  rewrite H3. clear H3 E1 E2 p3 p4.
  destruct (nth_error _ _) as [prev|].
  - inv_bind_as E0 pa. inv_bind_as E0 pb. inv_bind_as E0 pc. inversion E0; subst p1. cbn [p_limbo set_stored track untrack set_lookup].
    rewrite (add_spent_limbo _ _ _ _ E3), (sub_spent_limbo _ _ _ _ E2). cbn [p_limbo set_index].
    rewrite (store_del_limbo _ _ _ E1). reflexivity.
  - inv_bind_as E0 pa. inversion E0; subst p1. cbn [p_limbo add_stored set_stored track set_lookup].
    rewrite (add_spent_limbo _ _ _ _ E1). destruct (negb _); reflexivity.
Qed.

Lemma promote_limbo from : forall gtxs p rest q,
  promote prioE prioB gtE gtB c from gtxs p = Ok (rest, q) -> p_limbo q = p_limbo p.
Proof.
  induction gtxs as [|t r IH]; intros p rest q H; cbn [promote] in H.
  - inversion H; subst. reflexivity.
  - destruct (_ <? t_nonce t); [inversion H; subst; reflexivity|].
    destruct (t_nonce t <? nonce_of p from).
    + rewrite (IH _ _ _ H). reflexivity.
    + inv_bind_as H x. destruct x as [p2 e2]. rewrite (IH _ _ _ H). cbn [fst]. rewrite (add_core_limbo _ _ _ _ E). reflexivity.
Qed.

(* Add leaves the limbo alone *)
Lemma pool_add_limbo t p q e : pool_add prioE prioB gtE gtB c t p = Ok (q, e) -> p_limbo q = p_limbo p.
Proof.
  intro H. unfold pool_add in H. destruct (p_tip p); [|discriminate].
  destruct (t_tip t <? _); [inversion H; subst; reflexivity|].
  unfold add_locked in H. inv_bind_as H x. destruct x as [p1 e1].
  pose proof (add_core_limbo _ _ _ _ E) as H1.
  destruct (e1 =? E_buffered); [inversion H; subst; exact H1|].
  destruct (negb (e1 =? E_ok)); [inversion H; subst; exact H1|].
  destruct (aget (p_gapped p1) (t_from t)) as [[|g gs]|]; try (inversion H; subst; exact H1).
  inv_bind_as H r. destruct r as [rest p2]. inversion H; subst. cbn [p_limbo set_gapped].
  rewrite (promote_limbo _ _ _ _ _ E0). exact H1.
Qed.

(* SetGasTip leaves the limbo alone *)
Lemma set_gas_tip_limbo tip p q : set_gas_tip prioE prioB tip p = Ok q -> p_limbo q = p_limbo p.
Proof.
  intro H. unfold set_gas_tip in H.
  destruct (match p_tip p with None => true | Some o => o <? tip end); [|inversion H; subst; reflexivity].
  change (p_limbo p) with (p_limbo (set_tip (Some tip) p)).
  revert H. generalize (akeys (p_index (set_tip (Some tip) p))). generalize (set_tip (Some tip) p).
  intros p0 accts. revert p0.
  induction accts as [|a r IH]; intros p0 H; cbn [fold_left] in H.
  - inversion H; subst. reflexivity.
  - cbn [bind] in H.
    destruct (split_tip tip (txs_of p0 a)) as [keep dropped].
    destruct dropped as [|d0 dr]; [apply IH; exact H|].
    match type of H with fold_left ?f r ?x = _ => destruct x as [p1|e] eqn:Ex end.
    2:{ rewrite fold_err in H; [discriminate | intros ? ?; reflexivity]. }
    rewrite (IH p1 H). clear IH H.
    inv_bind_as Ex q1. inv_bind_as Ex q2. rewrite (store_dels_limbo _ _ _ Ex).
    assert (H1 : p_limbo q1 = p_limbo p0).
    { clear E0 Ex. revert E. generalize (d0 :: dr). intro l. revert p0.
      induction l as [|m l IH]; intros p0 E; cbn [fold_left] in E; [inversion E; subst; reflexivity|].
      cbn [bind] in E. destruct (unaccount a m p0) as [px|e] eqn:Eu.
      2:{ rewrite fold_err in E; [discriminate | intros; reflexivity]. }
      rewrite (IH px E). eapply unaccount_limbo; eauto. }
    destruct keep.
    + rewrite (heap_remove_limbo _ _ _ E0). exact H1.
    + rewrite (heap_fix_limbo _ _ _ E0). exact H1.
Qed.
End LimboFrame.
