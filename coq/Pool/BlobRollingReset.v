(* Pool/BlobRollingReset.v — RInv (eviction fields = prefix minima, all three dimensions) through
   Reset and Init, hence over the same histories as Inv. *)
From Coq Require Import List NArith ZArith Bool Lia.
From GV Require Import Lib.Tactics Pool.Blob Pool.BlobProofs Pool.BlobAddProofs Pool.BlobRollingProofs Pool.BlobResetProofs Pool.BlobInitProofs Pool.BlobRollingTip.
Import ListNotations.
Local Open Scope N_scope.

Lemma rinv_frame a p q : frame a p q -> rk q a -> RInv p -> RInv q.
Proof.
  intros [Hf _] Hk HR a2 l Hl. destruct (N.eq_dec a2 a) as [->|Ha]; [exact (Hk l Hl)|].
  destruct (Hf a2 Ha) as [Hi _]. rewrite Hi in Hl. eapply HR; eauto.
Qed.

Section RollingReset.
Variable prioE prioB : N -> N -> Z.
Variable gtE gtB nearE nearB : N -> N -> bool.
Variable c : cfg.

(* Reset: every rechecked account's fields are recomputed from scratch, the others are untouched *)
Lemma reset_rinv ll bs newh final p q :
  Inv p -> RInv p -> pool_reset prioE prioB nearE nearB false ll bs newh final p = Ok q -> RInv q.
Proof.
  intros HI HR H. unfold pool_reset in H.
  destruct (evict_gapped_core p) as [C0 Hh]. rewrite Hh in H.
  destruct (get_block bs (p_head p)) as [oldh|]; [|discriminate]. cbv zeta in H.
  set (pa := evict_gapped p) in *.
  set (pb := set_state (b_nonce newh) (b_bal newh) (b_id newh) pa) in *.
  assert (Hwf : forall a, wf_acct pb a).
  { intro a. pose proof (acct_ok_wf pa a (acct_ok_core _ _ a C0 (HI a))) as W. exact W. }
  assert (HRb : RInv pb) by (eapply rinv_index; [|exact HR]; destruct C0 as [Ci _]; exact Ci).
  clearbody pb. clear HI HR Hh C0 pa p.
  inv_bind_as H p1. inv_bind_as H l2. apply heap_reinit_core in H. destruct H as [Hi _].
  apply (rinv_index (set_limbo l2 p1)); [exact Hi|]. apply (rinv_index p1); [reflexivity|]. clear Hi E0 l2 q.
  destruct (reorg bs oldh newh) as [ro|]; [|inversion E; subst; exact HRb].
  inv_bind_as E l.
  set (pc := set_limbo l pb) in *.
  assert (Hwfc : forall a, wf_acct pc a) by (intro a; eapply wf_acct_core; [|apply Hwf]; repeat split).
  assert (HRc : RInv pc) by (eapply rinv_index; [|exact HRb]; reflexivity).
  clearbody pc. clear Hwf HRb E0 l pb.
  revert pc Hwfc HRc E. generalize (ro_transactors ro) as rem.
  induction rem as [|a0 rem IH]; intros x Hwf HRx H; cbn [fold_left] in H.
  - inversion H; subst. exact HRx.
  - cbn [bind] in H.
    match type of H with fold_left ?F rem ?X = _ => destruct X as [x2|e] eqn:Ex end.
    2:{ rewrite fold_err in H; [discriminate | intros; reflexivity]. }
    inv_bind_as Ex x1.
    destruct (fold_reinject a0 _ _ x x1 E (Hwf a0)) as [F1 W1].
    destruct (recheck_ok prioE prioB a0 _ x1 x2 Ex W1) as [F2 [A0 K0]].
    pose proof (frame_trans _ _ _ _ F1 F2) as F.
    eapply IH; [| |exact H].
    + intro a. destruct (N.eq_dec a a0) as [->|Ha]; [apply acct_ok_wf; exact A0 | eapply wf_acct_frame; eauto].
    + eapply rinv_frame; eauto.
Qed.

Lemma init_recheck_fold_rinv : forall rem x q,
  fold_left (fun r a => do q0 <- r ; if ahas (p_index q0) a then recheck prioE prioB false a None q0 else Ok q0)
            rem (Ok x) = Ok q ->
  (forall a, wf_acct x a) -> (forall a, ~ In a rem -> rk x a) -> RInv q.
Proof.
  induction rem as [|a0 rem IH]; intros x q H Hwf Hok; cbn [fold_left] in H.
  - inversion H; subst. intros a l Hl. eapply Hok; [intro K; exact K | exact Hl].
  - cbn [bind] in H.
    destruct (if ahas (p_index x) a0 then recheck prioE prioB false a0 None x else Ok x) as [x2|e] eqn:Ex.
    2:{ rewrite fold_err in H; [discriminate | intros; reflexivity]. }
    assert (K : frame a0 x x2 /\ acct_ok x2 a0 /\ rk x2 a0).
    { destruct (ahas (p_index x) a0) eqn:Eh.
      - eapply recheck_ok; eauto.
      - inversion Ex; subst x2. unfold ahas in Eh. specialize (Hwf a0). unfold wf_acct in Hwf.
        destruct (aget (p_index x) a0) eqn:Ea; [discriminate|].
        split; [apply frame_refl|]. split; [unfold acct_ok; rewrite Ea; exact Hwf | apply rk_none; exact Ea]. }
    destruct K as [F [A0 K0]]. eapply IH; [exact H | |].
    + intro a. destruct (N.eq_dec a a0) as [->|Ha]; [apply acct_ok_wf; exact A0 | eapply wf_acct_frame; eauto].
    + intros a Ha. destruct (N.eq_dec a a0) as [->|Hne]; [exact K0|].
      intros l Hl. destruct F as [Ff _]. destruct (Ff a Hne) as [Hi _]. rewrite Hi in Hl.
      eapply Hok; [|exact Hl]. intros [K|K]; [congruence | exact (Ha K)].
Qed.

(* Init on any image: every field of the rebuilt index is a prefix minimum *)
Lemma init_rinv qimg limg head tip q :
  pool_init prioE prioB gtE gtB c false qimg limg head tip = Ok q -> RInv q.
Proof.
  unfold pool_init. intro H. inv_bind_as H p4. inv_bind_as H p5.
  eapply drop_loop_rinv; [|exact H]. eapply set_gas_tip_rinv; [|exact E0]. clear H E0 p5 q.
  unfold pool_init_load in E. destruct (billy_open qimg) as [b calls].
  inv_bind_as E r. destruct r as [p1 del].
  assert (Hwf1 : forall a, wf_acct p1 a) by (eapply init_track_fold; [exact E0|]; intro a; reflexivity).
  inv_bind_as E p2. apply store_dels_core in E1.
  inv_bind_as E p3. inv_bind_as E p5. inv_bind_as E l. inversion E; subst p4. clear E.
  apply (rinv_index p5); [reflexivity|].
  unfold heap_rebuild in E3. inv_bind_as E3 h. inversion E3; subst p5.
  apply (rinv_index p3); [reflexivity|].
  eapply init_recheck_fold_rinv; [exact E2 | |].
  - intro a. eapply wf_acct_core; [exact E1 | apply Hwf1].
  - intros a Ha. apply aget_notin in Ha. apply rk_none. exact Ha.
Qed.

Variable legacy_limbo : bool.

Lemma hstep2_rinv o p q :
  Inv p -> RInv p -> hstep2 prioE prioB gtE gtB nearE nearB c legacy_limbo o p = Ok q -> RInv q.
Proof.
  intros HI HR H. destruct o as [t|tip|bs newh final|crash head tip]; cbn [hstep2] in H.
  - inv_bind_as H x. destruct x as [p2 e2]. inversion H; subst. eapply pool_add_rinv; eauto.
  - eapply set_gas_tip_rinv; eauto.
  - eapply reset_rinv; eauto.
  - eapply init_rinv; eauto.
Qed.

(* the same histories as the Inv theorem: Add / SetGasTip / Reset / restart *)
Lemma hrun2_rinv : forall ops p q,
  Inv p -> RInv p -> hguard prioE prioB gtE gtB nearE nearB c legacy_limbo ops p ->
  hrun2 prioE prioB gtE gtB nearE nearB c legacy_limbo ops p = Ok q -> RInv q.
Proof.
  induction ops as [|o r IH]; intros p q HI HR Hg H; cbn [hrun2] in H.
  - inversion H; subst. exact HR.
  - destruct Hg as [Hg1 Hg2]. inv_bind_as H p1. eapply IH; [| |apply Hg2; reflexivity|exact H].
    + eapply hstep2_inv; eauto.
    + eapply hstep2_rinv; eauto.
Qed.
End RollingReset.
