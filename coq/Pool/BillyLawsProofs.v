(* Pool/BillyLawsProofs.v — the store laws of the billy shelf model (shelf.go getSlot / update /
   Delete with tail truncation): Put returns a slot no live id names and makes it live with the
   item; Put and Delete leave every other live slot alone (alive, same content); Delete kills its
   slot.  Well-formedness of the gap list (in range, strictly increasing) is preserved. *)
From Coq Require Import List NArith ZArith Bool Lia Sorted.
From GV Require Import Lib.Tactics Pool.Blob Pool.BlobProofs Pool.BlobRollingProofs.
Import ListNotations.
Local Open Scope N_scope.

Definition live_slot (s : shelf) (i : N) : Prop := i < lenN (sh_slots s) /\ ~ In i (sh_gaps s).
Definition shelf_wf (s : shelf) : Prop :=
  Forall (fun g => g < lenN (sh_slots s)) (sh_gaps s) /\ StronglySorted N.lt (sh_gaps s).
Definition slot_get (s : shelf) (i : N) : option (option item) := nth_error (sh_slots s) (N.to_nat i).

Lemma list_set_same {A} : forall (l : list A) i x, (i < length l)%nat -> nth_error (list_set l i x) i = Some x.
Proof. induction l as [|y r IH]; intros [|i] x H; cbn in *; try lia; [reflexivity | apply IH; lia]. Qed.

Lemma sorted_nodup l : StronglySorted N.lt l -> NoDup l.
Proof.
  induction 1 as [|x r _ IH Hall]; constructor; [|exact IH].
  intro K. rewrite Forall_forall in Hall. specialize (Hall _ K). lia.
Qed.

(* ------------------------------------------------------------------ Put *)
Lemma shelf_put_laws s it s' slot :
  shelf_wf s -> shelf_put s it = (s', slot) ->
  ~ live_slot s slot /\ live_slot s' slot /\ slot_get s' slot = Some (Some it) /\ shelf_wf s' /\
  (forall j, live_slot s j -> live_slot s' j /\ slot_get s' j = slot_get s j).
Proof.
  intros [Hr Hs] H. unfold shelf_put in H. destruct (sh_gaps s) as [|g gs] eqn:Eg.
  - inversion H; subst. clear H. unfold live_slot, slot_get, shelf_wf, lenN. cbn [sh_slots sh_gaps].
    rewrite app_length. cbn [length]. rewrite Nat2N.id.
    split; [intros [K _]; lia|]. split; [split; [lia | intros []]|].
    split; [rewrite nth_error_app2 by lia; rewrite Nat.sub_diag; reflexivity|].
    split; [split; constructor|].
    intros j [Hj _]. split; [split; [lia | intros []]|]. rewrite nth_error_app1 by lia. reflexivity.
  - inversion H; subst. clear H. inversion Hr as [|? ? Hg Hgs]; subst. inversion Hs as [|? ? Hss Hall]; subst.
    assert (Hni : ~ In slot gs) by (intro K; rewrite Forall_forall in Hall; specialize (Hall _ K); lia).
    unfold live_slot, slot_get, shelf_wf, lenN in *. cbn [sh_slots sh_gaps]. rewrite list_set_length.
    split; [intros [_ K]; apply K; rewrite Eg; left; reflexivity|].
    split; [split; [exact Hg | exact Hni]|].
    split; [apply list_set_same; lia|].
    split; [split; assumption|].
    intros j [Hj Hnj]. rewrite Eg in Hnj. split; [split; [exact Hj | intro K; apply Hnj; right; exact K]|].
    apply list_set_other. intro K. apply Hnj. left. lia.
Qed.

(* ------------------------------------------------------------------ Delete *)
Lemma gaps_ins_in x l y : In y (gaps_ins x l) <-> y = x \/ In y l.
Proof.
  induction l as [|z r IH]; cbn [gaps_ins]; [cbn; intuition|].
  destruct (x <? z); [cbn; intuition|]. destruct (x =? z) eqn:E.
  - apply N.eqb_eq in E. subst. cbn. intuition.
  - cbn [In]. rewrite IH. intuition.
Qed.

Lemma gaps_ins_sorted x l : StronglySorted N.lt l -> StronglySorted N.lt (gaps_ins x l).
Proof.
  induction 1 as [|z r Hr IH Hall]; cbn [gaps_ins]; [repeat constructor|].
  destruct (x <? z) eqn:E1; [|destruct (x =? z) eqn:E2].
  - apply N.ltb_lt in E1. constructor; [constructor; assumption|]. constructor; [exact E1|].
    eapply Forall_impl; [|exact Hall]. intros a Ha. cbn in Ha. lia.
  - constructor; assumption.
  - apply N.ltb_ge in E1. apply N.eqb_neq in E2. constructor; [exact IH|].
    apply Forall_forall. intros a Ha. apply gaps_ins_in in Ha. destruct Ha as [->|Ha]; [lia|].
    rewrite Forall_forall in Hall. exact (Hall _ Ha).
Qed.

Lemma trunc_spec : forall rg cnt rg' cnt',
  trunc_rev rg cnt = (rg', cnt') ->
  exists dropped, rg = dropped ++ rg' /\ cnt' <= cnt /\
    (forall j, cnt' <= j -> j < cnt -> In j dropped) /\ (forall g, In g dropped -> cnt' <= g /\ g < cnt).
Proof.
  induction rg as [|g r IH]; intros cnt rg' cnt' H; cbn [trunc_rev] in H.
  - inversion H; subst. exists []. split; [reflexivity|]. split; [lia|]. split; [intros j J1 J2; lia | intros g []].
  - destruct (g + 1 =? cnt) eqn:E.
    + apply N.eqb_eq in E. apply IH in H. destruct H as [d [H1 [H2 [H3 H4]]]].
      exists (g :: d). split; [cbn; rewrite H1; reflexivity|]. split; [lia|]. split.
      * intros j J1 J2. destruct (N.eq_dec j g) as [->|Hne]; [left; reflexivity|]. right. apply H3; lia.
      * intros a [<-|Ha]; [lia|]. specialize (H4 _ Ha). lia.
    + inversion H; subst. exists []. split; [reflexivity|]. split; [lia|]. split; [intros j J1 J2; lia | intros g0 []].
Qed.

Lemma sorted_app_l : forall (l1 l2 : list N), StronglySorted N.lt (l1 ++ l2) -> StronglySorted N.lt l1.
Proof.
  induction l1 as [|x r IH]; intros l2 H; [constructor|]. cbn in H. inversion H as [|? ? Hs Hall]; subst.
  constructor; [eapply IH; eauto|]. apply Forall_app in Hall. apply Hall.
Qed.

Lemma nth_error_firstn_lt {A} : forall (l : list A) n i, (i < n)%nat -> nth_error (firstn n l) i = nth_error l i.
Proof.
  induction l as [|x r IH]; intros n i H; [rewrite firstn_nil; reflexivity|].
  destruct n as [|n]; [lia|]. destruct i as [|i]; cbn; [reflexivity | apply IH; lia].
Qed.

Lemma shelf_delete_laws s slot :
  shelf_wf s -> slot < lenN (sh_slots s) ->
  let s' := shelf_delete s slot in
  shelf_wf s' /\ ~ live_slot s' slot /\
  (forall j, live_slot s j -> j <> slot -> live_slot s' j /\ slot_get s' j = slot_get s j).
Proof.
  intros [Hr Hs] Hlt. unfold shelf_delete. apply N.leb_gt in Hlt as Hlt'. rewrite Hlt'.
  set (G := gaps_ins slot (sh_gaps s)).
  assert (HGs : StronglySorted N.lt G) by (apply gaps_ins_sorted; exact Hs).
  assert (HGn : NoDup G) by (apply sorted_nodup; exact HGs).
  assert (HGr : forall g, In g G -> g < lenN (sh_slots s)).
  { intros g Hg. apply gaps_ins_in in Hg. destruct Hg as [->|Hg]; [exact Hlt|]. rewrite Forall_forall in Hr. exact (Hr _ Hg). }
  destruct (trunc_rev (rev G) (lenN (sh_slots s))) as [rg cnt'] eqn:Et.
  destruct (trunc_spec _ _ _ _ Et) as [d [T1 [T2 [T3 T4]]]].
  assert (HG : G = rev rg ++ rev d).
  { rewrite <- (rev_involutive G), T1, rev_app_distr. reflexivity. }
  assert (Hdisj : forall g, In g (rev rg) -> ~ In g d).
  { intros g Hg Hd.
    assert (Hn2 : NoDup (rev rg ++ rev d)) by (rewrite <- HG; exact HGn).
    clear -Hn2 Hg Hd. induction (rev rg) as [|x r IH]; [destruct Hg|].
    cbn in Hn2. inversion Hn2 as [|? ? Hx Hr]; subst. destruct Hg as [->|Hg]; [|apply IH; assumption].
    apply Hx. apply in_or_app. right. apply in_rev in Hd. exact Hd. }
  assert (Hlen : lenN (firstn (N.to_nat cnt') (sh_slots s)) = cnt').
  { unfold lenN in *. rewrite firstn_length. lia. }
  cbn zeta. unfold shelf_wf, live_slot, slot_get. cbn [sh_slots sh_gaps]. rewrite Hlen.
  split; [|split].
  - split.
    + apply Forall_forall. intros g Hg. assert (HgG : In g G) by (rewrite HG; apply in_or_app; left; exact Hg).
      specialize (HGr _ HgG). destruct (N.lt_ge_cases g cnt') as [K|K]; [exact K|].
      exfalso. apply (Hdisj g Hg). apply T3; assumption.
    + rewrite HG in HGs. eapply sorted_app_l; eauto.
  - intros [K1 K2]. assert (HsG : In slot G) by (apply gaps_ins_in; left; reflexivity).
    rewrite HG in HsG. apply in_app_or in HsG. destruct HsG as [K|K]; [exact (K2 K)|].
    apply in_rev in K. specialize (T4 _ K). lia.
  - intros j [J1 J2] Hne.
    assert (HjG : ~ In j G) by (intro K; apply gaps_ins_in in K; destruct K; [congruence | exact (J2 H)]).
    assert (Hjc : j < cnt').
    { destruct (N.lt_ge_cases j cnt') as [K|K]; [exact K|]. exfalso. apply HjG. rewrite HG. apply in_or_app. right.
      apply in_rev. rewrite rev_involutive. apply T3; assumption. }
    split; [split; [exact Hjc | intro K; apply HjG; rewrite HG; apply in_or_app; left; exact K]|].
    apply nth_error_firstn_lt. lia.
Qed.
