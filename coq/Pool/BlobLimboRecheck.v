(* Pool/BlobLimboRecheck.v — the limbo frame of recheck: all recheck ever does to the limbo is
   limbo.push of stored transactions under their inclusion numbers (and nothing at all when it
   is called without inclusions, as Init does).  Group-level soundness is preserved by push
   (of an inclusion), getAndDrop and finalize. *)
From Coq Require Import List NArith ZArith Bool Lia.
From GV Require Import Lib.Tactics Pool.Blob Pool.BlobProofs Pool.BlobAddProofs Pool.BlobRollingProofs Pool.BlobResetProofs Pool.BlobLimboProofs Pool.BlobLimboReset Pool.BlobLimboFrame Pool.BlobLimboEntry.
Import ListNotations.
Local Open Scope N_scope.

(* l' is obtained from l by pushing stored transactions under the numbers [inc] records for them *)
Inductive pushed (inc : list (N * N)) : limbo -> limbo -> Prop :=
| pushed_refl l : pushed inc l l
| pushed_step l l1 it blk : pushed inc l l1 -> aget inc (t_id (i_tx it)) = Some blk ->
                            pushed inc l (limbo_push l1 (i_tx it) blk).

Lemma pushed_trans inc l1 l2 l3 : pushed inc l1 l2 -> pushed inc l2 l3 -> pushed inc l1 l3.
Proof. intros H1 H2. induction H2; [exact H1 | econstructor; eauto]. Qed.

Lemma offload_pushed id inc p q : offload id inc p = Ok q -> pushed inc (p_limbo p) (p_limbo q).
Proof.
  intro H. apply offload_spec in H. destruct H as [H|[it [blk [_ [Hi Hp]]]]].
  - rewrite H. constructor.
  - rewrite Hp. econstructor; [constructor | exact Hi].
Qed.

Lemma eq_pushed inc (l l' : limbo) : l' = l -> pushed inc l l'.
Proof. intros ->. constructor. Qed.

Lemma unaccount_all_limbo a : forall l p q, unaccount_all a l p = Ok q -> p_limbo q = p_limbo p.
Proof.
  induction l as [|m r IH]; intros p q H; cbn [unaccount_all] in H; [inversion H; subst; reflexivity|].
  inv_bind_as H p1. rewrite (IH p1 q H). eapply unaccount_limbo; eauto.
Qed.

Lemma scan_limbo a : forall rest prev acc p l p',
  recheck_scan a prev rest acc p = Ok (l, p') -> p_limbo p' = p_limbo p.
Proof.
  induction rest as [|m r IH]; intros prev acc p l p' H; cbn [recheck_scan] in H; [inversion H; subst; reflexivity|].
  destruct (m_nonce m =? wrap64 (m_nonce prev + 1)); [eapply IH; eauto|].
  destruct (m_nonce m =? m_nonce prev).
  - inv_bind_as H p1. inv_bind_as H p2. rewrite (IH _ _ _ _ _ H), (store_del_limbo _ _ _ E0). eapply unaccount_limbo; eauto.
  - inv_bind_as H p1. inv_bind_as H p2. inversion H; subst. rewrite (store_dels_limbo _ _ _ E0). eapply unaccount_all_limbo; eauto.
Qed.

Lemma pop_limbo a cond : forall fuel txs ids p txs' ids' p',
  pop_while fuel a cond txs ids p = Ok (txs', ids', p') -> p_limbo p' = p_limbo p.
Proof.
  induction fuel as [|f IH]; intros txs ids p txs' ids' p' H; cbn [pop_while] in H; [discriminate|].
  destruct (cond p txs); [|inversion H; subst; reflexivity].
  destruct (last_opt txs); [|discriminate]. inv_bind_as H p1.
  rewrite (IH _ _ _ _ _ _ H). eapply unaccount_limbo; eauto.
Qed.

(* a fold whose steps push *)
Lemma fold_pushed {B} inc (step : B -> pool -> res pool)
      (Hs : forall m q q', step m q = Ok q' -> pushed inc (p_limbo q) (p_limbo q')) : forall l p p',
  fold_left (fun r m => do q <- r ; step m q) l (Ok p) = Ok p' -> pushed inc (p_limbo p) (p_limbo p').
Proof.
  induction l as [|m r IH]; intros p p' H; cbn [fold_left] in H.
  - inversion H; subst. constructor.
  - cbn [bind] in H. destruct (step m p) as [p1|e] eqn:E.
    2:{ rewrite fold_err in H; [discriminate | intros; reflexivity]. }
    eapply pushed_trans; [eapply Hs; eauto | eapply IH; eauto].
Qed.

Lemma fold_limbo_eq {B} (step : B -> pool -> res pool)
      (Hs : forall m q q', step m q = Ok q' -> p_limbo q' = p_limbo q) : forall l p p',
  fold_left (fun r m => do q <- r ; step m q) l (Ok p) = Ok p' -> p_limbo p' = p_limbo p.
Proof.
  induction l as [|m r IH]; intros p p' H; cbn [fold_left] in H.
  - inversion H; subst. reflexivity.
  - cbn [bind] in H. destruct (step m p) as [p1|e] eqn:E.
    2:{ rewrite fold_err in H; [discriminate | intros; reflexivity]. }
    rewrite (IH _ _ H). eapply Hs; eauto.
Qed.

Section LimboRecheck.
Variable prioE prioB : N -> N -> Z.

Lemma heap_opt_limbo (b : option (list (N * N))) p a q :
  match b with Some _ => heap_remove_addr prioE prioB p a | None => Ok p end = Ok q -> p_limbo q = p_limbo p.
Proof. destruct b; intro H; [eapply heap_remove_limbo; eauto | inversion H; subst; reflexivity]. Qed.

(* the limbo frame of recheck (both versions of the gap test) *)
Lemma recheck_limbo lg a incl p q :
  recheck prioE prioB lg a incl p = Ok q ->
  match incl with
  | Some inc => pushed inc (p_limbo p) (p_limbo q)
  | None => p_limbo q = p_limbo p
  end.
Proof.
  intro H.
  cut (pushed (match incl with Some inc => inc | None => [] end) (p_limbo p) (p_limbo q) /\
       (incl = None -> p_limbo q = p_limbo p)).
  { intros [K1 K2]. destruct incl; [exact K1 | apply K2; reflexivity]. }
  unfold recheck in H.
  destruct (aget (p_index p) a) as [txs0|].
  2:{ destruct incl; [|discriminate]. inversion H; subst. split; [constructor | discriminate]. }
  cbv zeta in H. set (p0 := set_index (aset (p_index p) a (sort_metas txs0)) p) in *.
  change (p_limbo p) with (p_limbo p0). clearbody p0.
  destruct (sort_metas txs0) as [|first tl]; [discriminate|].
  destruct (last_opt (first :: tl)) as [lastm|]; [|discriminate].
  set (next := nonce_of p0 a) in *.
  destruct ((next <? m_nonce first) || (m_nonce lastm <? next)).
  - inv_bind_as H p1. inv_bind_as H p3. rewrite (store_dels_limbo _ _ _ H), (heap_opt_limbo _ _ _ _ E0).
    cbn [p_limbo set_spent set_index]. split.
    + eapply fold_pushed; [|exact E]. intros m q0 q' Hq.
      destruct incl as [inc|]; [destruct (m_nonce lastm <? next)|].
      * apply offload_pushed in Hq. exact Hq.
      * inversion Hq; subst. constructor.
      * inversion Hq; subst. constructor.
    + intros ->. eapply fold_limbo_eq; [|exact E]. intros m q0 q' Hq. inversion Hq; subst. reflexivity.
  - inv_bind_as H r1. destruct r1 as [txs1 p1].
    assert (R1 : pushed (match incl with Some inc => inc | None => [] end) (p_limbo p0) (p_limbo p1) /\
                 (incl = None -> p_limbo p1 = p_limbo p0)).
    { destruct (m_nonce first <? next).
      - inv_bind_as E pa. inv_bind_as E pb. inversion E; subst. cbn [p_limbo set_index].
        rewrite (store_dels_limbo _ _ _ E1). split.
        + eapply fold_pushed; [|exact E0]. intros m q0 q' Hq. cbv beta in Hq. inv_bind_as Hq q1.
          apply unaccount_limbo in E2. rewrite <- E2.
          destruct incl as [inc|]; [eapply offload_pushed; exact Hq | inversion Hq; subst; constructor].
        + intros ->. eapply fold_limbo_eq; [|exact E0]. intros m q0 q' Hq. cbv beta in Hq. inv_bind_as Hq q1.
          inversion Hq; subst. eapply unaccount_limbo; eauto.
      - inversion E; subst. split; [constructor | reflexivity]. }
    clear E. destruct R1 as [R1 R1n].
    cut (p_limbo q = p_limbo p1).
    { intro K. rewrite K. split; [exact R1 | exact R1n]. }
    clear R1 R1n. destruct txs1 as [|f1 rest1]; [discriminate|].
    destruct (negb lg && (next <? m_nonce f1)).
    + inv_bind_as H q3. rewrite (store_dels_limbo _ _ _ H), (heap_opt_limbo _ _ _ _ E). cbn [p_limbo set_spent set_index].
      clear. generalize (f1 :: rest1). intro l. revert p1. induction l as [|m r IH]; intro p1; cbn [fold_left]; [reflexivity|].
      rewrite IH. reflexivity.
    + inv_bind_as H r2. destruct r2 as [txs2 p2]. apply scan_limbo in E.
      inv_bind_as H r3. destruct r3 as [txs3 p3].
      assert (R3 : p_limbo p3 = p_limbo p2).
      { destruct (_ <? _).
        - inv_bind_as E0 r. destruct r as [[t3 ids] q0]. apply pop_limbo in E1.
          inv_bind_as E0 q1. inv_bind_as E0 q2.
          assert (K : p_limbo q1 = p_limbo q0).
          { destruct t3; [|inversion E2; subst; reflexivity]. rewrite (heap_opt_limbo _ _ _ _ E2). reflexivity. }
          injection E0 as _ Hp3. rewrite <- Hp3, (store_dels_limbo _ _ _ E3), K. exact E1.
        - inversion E0; subst. reflexivity. }
      inv_bind_as H r4.
      assert (R4 : p_limbo r4 = p_limbo p3).
      { destruct (Nat.ltb _ _).
        - inv_bind_as E1 r. destruct r as [[t4 ids] q0]. apply pop_limbo in E2. inv_bind_as E1 q2. inversion E1; subst.
          rewrite (store_dels_limbo _ _ _ E3). exact E2.
        - inversion E1; subst. reflexivity. }
      assert (R5 : p_limbo q = p_limbo r4).
      { destruct incl; [destruct (ahas _ _); [eapply heap_fix_limbo; eauto | inversion H; subst; reflexivity] | inversion H; subst; reflexivity]. }
      rewrite R5, R4, R3. exact E.
Qed.
End LimboRecheck.
