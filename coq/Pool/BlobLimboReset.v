(* Pool/BlobLimboReset.v — after every Reset the limbo holds nothing recorded at or below the
   finalised block. *)
From Coq Require Import List NArith ZArith Bool Lia.
From GV Require Import Lib.Tactics Pool.Blob Pool.BlobProofs Pool.BlobAddProofs Pool.BlobResetProofs Pool.BlobLimboProofs.
Import ListNotations.
Local Open Scope N_scope.

Section LimboReset.
Variable prioE prioB : N -> N -> Z.
Variable nearE nearB : N -> N -> bool.

Lemma heap_reinit_limbo p base blob force q :
  heap_reinit prioE prioB nearE nearB p base blob force = Ok q -> p_limbo q = p_limbo p.
Proof.
  unfold heap_reinit. destruct (negb force && nearE (p_hbase p) base && nearB (p_hblob p) blob); intro H.
  - inversion H; subst. reflexivity.
  - inv_bind_as H h. inversion H; subst. reflexivity.
Qed.

(* Reset ends with limbo.finalize: whatever the history, afterwards no group at or below the
   finalised block number is left, and every index entry left belongs to a group above it or
   was never grouped at or below it *)
Lemma reset_finalises lg ll bs newh final p q :
  pool_reset prioE prioB nearE nearB lg ll bs newh final p = Ok q ->
  forall blk, blk <= final -> aget (l_groups (p_limbo q)) blk = None.
Proof.
  unfold pool_reset. intro H. destruct (get_block bs (p_head (evict_gapped p))); [|discriminate].
  cbv zeta in H. inv_bind_as H p1. inv_bind_as H l.
  apply heap_reinit_limbo in H. rewrite H. cbn [p_limbo set_limbo].
  apply limbo_finalize_spec in E0. apply E0.
Qed.
End LimboReset.
