(* Pool/BlobRestartMain.v — C42 clean restart: Close + New + Init reproduces every account. *)
From Coq Require Import List NArith ZArith Bool Lia Sorted Permutation.
From GV Require Import Lib.Tactics Pool.Blob Pool.BlobProofs Pool.BlobAddProofs Pool.BlobRollingProofs Pool.BlobResetProofs Pool.BlobInitProofs Pool.BlobReopenProofs Pool.BlobReopenPerm Pool.BillyOpenProofs Pool.BlobRestartProofs.
Import ListNotations.
Local Open Scope N_scope.

Lemma Permutation_filter' {A} (f : A -> bool) l l' : Permutation l l' -> Permutation (filter f l) (filter f l').
Proof.
  induction 1 as [|x l l' _ IH|x y l|l l' l'' _ IH1 _ IH2]; cbn [filter].
  - constructor.
  - destruct (f x); [constructor; exact IH | exact IH].
  - destruct (f x), (f y); try reflexivity. constructor.
  - etransitivity; eauto.
Qed.

(* what the running pool p and a rebuilt pool y agree on, per account *)
Definition same_acct (p y : pool) (a : N) : Prop :=
  map m_tx (txs_of y a) = map m_tx (txs_of p a) /\ map evs (txs_of y a) = map evs (txs_of p a) /\
  aget (p_spent y) a = aget (p_spent p) a.

(* the tracked, not yet rechecked account: a permutation of the running account's transactions *)
Definition ready (p x : pool) (a : N) : Prop :=
  match aget (p_index p) a with
  | Some s => exists l0, aget (p_index x) a = Some l0 /\ Permutation (map m_tx l0) (map m_tx s) /\
                         aget (p_spent x) a = Some (sum_cost l0)
  | None => aget (p_index x) a = None /\ aget (p_spent x) a = None
  end.

(* guards on the running pool *)
Definition within_cap (p : pool) : Prop := forall a l, aget (p_index p) a = Some l -> (length l <= maxTxsPerAccount)%nat.
Definition strict_nonces (p : pool) : Prop := forall a l, aget (p_index p) a = Some l -> StronglySorted tx_lt (map m_tx l).

Section RestartMain.
Variable prioE prioB : N -> N -> Z.
Variable p : pool.
Hypothesis HI : Inv p.
Hypothesis HR : RInv p.
Hypothesis Hcap : within_cap p.
Hypothesis Hstrict : strict_nonces p.

Lemma same_ready x a : p_nonce x = p_nonce p -> same_acct p x a -> wf_acct x a -> ready p x a.
Proof.
  intros _ [S1 [_ S3]] Hwf. unfold ready. pose proof (HI a) as Hok. unfold acct_ok in Hok.
  unfold txs_of in S1. unfold wf_acct in Hwf.
  destruct (aget (p_index p) a) as [s|] eqn:Ep.
  - destruct Hok as [Hne [_ [_ [Hsp _]]]]. destruct (aget (p_index x) a) as [l0|] eqn:Ex.
    + exists l0. split; [reflexivity|]. split; [rewrite S1; reflexivity|]. destruct Hwf as [_ Hs]. exact Hs.
    + destruct s; [contradiction | discriminate].
  - destruct (aget (p_index x) a) as [l0|] eqn:Ex.
    + destruct Hwf as [Hne _]. destruct l0; [contradiction | discriminate].
    + split; [reflexivity | exact Hwf].
Qed.

Lemma restart_recheck_fold : forall rem x q,
  fold_left (fun r a => do q0 <- r ; if ahas (p_index q0) a then recheck prioE prioB false a None q0 else Ok q0)
            rem (Ok x) = Ok q ->
  p_nonce x = p_nonce p -> p_bal x = p_bal p ->
  (forall a, ready p x a) -> (forall a, ~ In a rem -> same_acct p x a) ->
  (forall a, same_acct p q a) /\ exists idx spent, q = set_spent spent (set_index idx x).
Proof.
  induction rem as [|a0 rem IH]; intros x q H Hn Hb Hrd Hdone; cbn [fold_left] in H.
  - inversion H; subst. split; [intro a; apply Hdone; intro K; exact K|]. exists (p_index q), (p_spent q). destruct q; reflexivity.
  - cbn [bind] in H.
    assert (K : exists y, (if ahas (p_index x) a0 then recheck prioE prioB false a0 None x else Ok x) = Ok y /\
                          frame a0 x y /\ same_acct p y a0 /\ wf_acct y a0 /\ exists idx spent, y = set_spent spent (set_index idx x)).
    { pose proof (Hrd a0) as Hr0. unfold ready in Hr0. pose proof (HI a0) as Hok.
      destruct (aget (p_index p) a0) as [s|] eqn:Ep.
      - destruct Hr0 as [l0 [Ex [Hperm Hsp]]]. unfold ahas. rewrite Ex.
        destruct (reopen_account_perm prioE prioB a0 p x s l0 Ep Hok (fun l Hl => HR a0 l Hl) (Hcap a0 s Ep) (Hstrict a0 s Ep) Hn Hb Ex Hperm Hsp)
          as [y [s2 [Hy [Y1 [Y2 [Y3 Y4]]]]]].
        exists y. split; [exact Hy|].
        assert (Hwf : wf_acct x a0).
        { unfold wf_acct. rewrite Ex. split; [|exact Hsp]. intro E0. subst l0. apply Permutation_nil in Hperm.
          unfold acct_ok in Hok. rewrite Ep in Hok. destruct Hok as [Hne _]. destruct s; [contradiction | discriminate]. }
        destruct (recheck_ok prioE prioB a0 None x y Hy Hwf) as [F [A0 _]].
        split; [exact F|]. split; [|split; [apply acct_ok_wf; exact A0|]].
        + unfold same_acct, txs_of. rewrite Y1, Ep. repeat split; assumption.
        + (* the shape of y *)
          destruct l0 as [|m0 r0]; [exfalso; apply Permutation_nil in Hperm; unfold acct_ok in Hok; rewrite Ep in Hok; destruct Hok as [Hne _]; destruct s; [contradiction|discriminate]|].
          destruct (sort_metas (m0 :: r0)) as [|f1 t1] eqn:Es.
          { exfalso. destruct (sort_metas_spec (m0 :: r0)) as [_ Hp]. rewrite Es in Hp. apply Permutation_sym, Permutation_nil in Hp. discriminate. }
          assert (Hsrt : map m_tx (f1 :: t1) = map m_tx s) by (rewrite <- Es; apply sort_restores; [exact Hperm | apply (Hstrict a0 s Ep)]).
          unfold acct_ok in Hok. rewrite Ep in Hok. destruct Hok as [Hne [Hc [Hst [Hsps Hle]]]].
          assert (Hnon : map m_nonce (f1 :: t1) = map m_nonce s) by (apply map_tx_nonce; exact Hsrt).
          rewrite (recheck_keeps_wellformed prioE prioB a0 x (m0 :: r0) f1 t1 Ex Es) in Hy.
          * inversion Hy as [Hy']. exists (aset (aset (p_index x) a0 (f1 :: t1)) a0 (reev None (f1 :: t1) 0)), (p_spent x).
            destruct x; reflexivity.
          * eapply chain_ext; [symmetry; exact Hnon | exact Hc].
          * destruct s as [|ms rs]; [discriminate|]. cbn in Hnon, Hst. inversion Hnon as [[E1 E2]].
            unfold nonce_of. rewrite Hn. fold (nonce_of p a0). congruence.
          * exact Hsp.
          * unfold bal_of. rewrite Hb. fold (bal_of p a0).
            destruct (sort_metas_spec (m0 :: r0)) as [_ Hp]. rewrite Es in Hp.
            rewrite (sum_cost_perm _ _ Hp), (map_tx_cost _ _ Hsrt). exact Hle.
          * rewrite <- (map_length m_tx), Hsrt, map_length. apply (Hcap a0 s Ep).
      - destruct Hr0 as [Ex Hsx]. unfold ahas. rewrite Ex. exists x. split; [reflexivity|]. split; [apply frame_refl|].
        split; [|split].
        + unfold same_acct, txs_of. rewrite Ex, Ep, Hsx. unfold acct_ok in Hok. rewrite Ep in Hok. rewrite Hok. repeat split.
        + unfold wf_acct. rewrite Ex. exact Hsx.
        + exists (p_index x), (p_spent x). destruct x; reflexivity. }
    destruct K as [y [Ey [F [S0 [W0 [idx [spent Eshape]]]]]]]. rewrite Ey in H.
    destruct (IH y q H) as [I1 [idx2 [spent2 I2]]].
    + rewrite (proj1 (proj2 F)). exact Hn.
    + rewrite (proj2 (proj2 F)). exact Hb.
    + intro a. destruct (N.eq_dec a a0) as [->|Ha].
      * apply same_ready; [rewrite (proj1 (proj2 F)); exact Hn | exact S0 | exact W0].
      * pose proof (Hrd a) as Hr. unfold ready in *. destruct F as [Ff _]. destruct (Ff a Ha) as [Fi Fs]. rewrite Fi, Fs. exact Hr.
    + intros a Ha. destruct (N.eq_dec a a0) as [->|Hne]; [exact S0|].
      assert (Hd : same_acct p x a) by (apply Hdone; intros [K|K]; [congruence | exact (Ha K)]).
      unfold same_acct, txs_of in *. destruct F as [Ff _]. destruct (Ff a Hne) as [Fi Fs]. rewrite Fi, Fs. exact Hd.
    + split; [exact I1|]. exists idx2, spent2. rewrite I2, Eshape. reflexivity.
Qed.
End RestartMain.
