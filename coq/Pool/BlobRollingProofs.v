(* Pool/BlobRollingProofs.v — the eviction fields of every pooled transaction are the minima
   over the prefix of its account's list (all three dimensions), through every history of Add
   and SetGasTip.  The proof needs addLocked's recomputation to run from the replaced index to
   the tail: a variant that stops early does not satisfy [reev_rolling]. *)
From Coq Require Import List NArith ZArith Bool Lia.
From GV Require Import Lib.Tactics Pool.Blob Pool.BlobProofs Pool.BlobAddProofs.
Import ListNotations.
Local Open Scope N_scope.

(* ------------------------------------------------------------------ list level *)
Definition lasto (o : option meta) (l : list meta) : option meta :=
  match last_opt l with Some x => Some x | None => o end.

Lemma lasto_cons o x l : lasto o (x :: l) = lasto (Some x) l.
Proof.
  unfold lasto. destruct l as [|y r]; [reflexivity|].
  rewrite last_opt_cons by discriminate. destruct (last_opt (y :: r)) eqn:E; [reflexivity|].
  exfalso. unfold last_opt in E. cbn [rev] in E. destruct (rev r ++ [y]) eqn:E2; [destruct (rev r); discriminate | discriminate].
Qed.

Lemma rolling_app : forall l1 o l2, rolling o l1 -> rolling (lasto o l1) l2 -> rolling o (l1 ++ l2).
Proof.
  induction l1 as [|x r IH]; intros o l2 H1 H2; [exact H2|].
  rewrite lasto_cons in H2. cbn [app]. inversion H1; subst.
  - apply roll_first; [assumption|]. apply IH; assumption.
  - apply roll_next; [assumption|]. apply IH; assumption.
Qed.

Lemma rolling_app_l : forall l1 o l2, rolling o (l1 ++ l2) -> rolling o l1.
Proof.
  induction l1 as [|x r IH]; intros o l2 H; [constructor|].
  cbn [app] in H. inversion H; subst.
  - apply roll_first; [assumption|]. eapply IH; eauto.
  - apply roll_next; [assumption|]. eapply IH; eauto.
Qed.

Lemma rolling_firstn n o l : rolling o l -> rolling o (firstn n l).
Proof. intro H. rewrite <- (firstn_skipn n l) in H. eapply rolling_app_l; eauto. Qed.

Lemma rolling_removelast o l : rolling o l -> rolling o (removelast l).
Proof.
  intro H. destruct l as [|x r]; [constructor|].
  destruct (@removelast_app_last _ (x :: r)) as [y [E _]]; [discriminate|].
  rewrite E in H. eapply rolling_app_l; eauto.
Qed.

Lemma firstn_list_set {A} : forall (l : list A) n x, firstn n (list_set l n x) = firstn n l.
Proof. induction l as [|y r IH]; intros [|n] x; cbn; try reflexivity. f_equal. apply IH. Qed.

Lemma list_set_length {A} : forall (l : list A) n x, length (list_set l n x) = length l.
Proof. induction l as [|y r IH]; intros [|n] x; cbn; try reflexivity. f_equal. apply IH. Qed.

Lemma last_firstn : forall (l : list meta) n, (n < length l)%nat -> last_opt (firstn (S n) l) = nth_error l n.
Proof.
  induction l as [|x r IH]; intros n Hn; [cbn in Hn; lia|].
  destruct n as [|n].
  - destruct r; reflexivity.
  - cbn [length] in Hn. change (firstn (S (S n)) (x :: r)) with (x :: firstn (S n) r).
    rewrite last_opt_cons; [apply IH; lia|]. destruct r; [cbn in Hn; lia | discriminate].
Qed.

(* the list addLocked leaves behind: untouched prefix, recomputed from the replaced index on *)
Lemma rebuilt_rolling (l1 : list meta) off :
  (off <= length l1)%nat -> rolling None (firstn off l1) ->
  rolling None (firstn off l1 ++ reev (match off with O => None | S o => nth_error l1 o end) (skipn off l1) 0).
Proof.
  intros Hoff Hr. apply rolling_app; [exact Hr|].
  assert (E : lasto None (firstn off l1) = match off with O => None | S o => nth_error l1 o end).
  { destruct off as [|o]; [reflexivity|]. unfold lasto. rewrite last_firstn by lia.
    destruct (nth_error l1 o) eqn:En; [reflexivity|]. apply nth_error_None in En. lia. }
  rewrite E. apply reev_rolling.
Qed.

(* ------------------------------------------------------------------ pool level *)
Definition RInv (p : pool) : Prop := forall a l, aget (p_index p) a = Some l -> rolling None l.

Lemma rinv_index p q : p_index q = p_index p -> RInv p -> RInv q.
Proof. intros E H a l Ha. rewrite E in Ha. eapply H; eauto. Qed.

Lemma rinv_aset p q a l : p_index q = aset (p_index p) a l -> rolling None l -> RInv p -> RInv q.
Proof.
  intros E Hl H a2 l2 Ha. rewrite E, aget_aset in Ha. destruct (a =? a2); [inversion Ha; subst; exact Hl | eapply H; eauto].
Qed.
Lemma rinv_adel p q a : p_index q = adel (p_index p) a -> RInv p -> RInv q.
Proof.
  intros E H a2 l2 Ha. rewrite E, aget_adel in Ha. destruct (a =? a2); [discriminate | eapply H; eauto].
Qed.

Section Rolling.
Variable prioE prioB : N -> N -> Z.
Variable gtE gtB : N -> N -> bool.
Variable c : cfg.

Lemma drop_rinv p q : RInv p -> drop prioE prioB gtE gtB p = Ok q -> RInv q.
Proof.
  intros HR H. unfold drop in H.
  destruct (p_heap p) as [|from hr]; [discriminate|].
  destruct (last_opt (txs_of p from)) as [d|] eqn:El; [|discriminate].
  inv_bind_as H p1. inv_bind_as H p3. apply store_del_core in H. destruct H as [Hi _].
  assert (Hi3 : p_index p3 = p_index p1).
  { destruct (Nat.eqb (length (txs_of p from)) 1).
    - inv_bind_as E0 h. inversion E0; subst. reflexivity.
    - destruct (last_opt (removelast (txs_of p from))); [|discriminate].
      destruct (_ || _); [inv_bind_as E0 h; inversion E0; subst; reflexivity | inversion E0; subst; reflexivity]. }
  apply (rinv_index p1); [congruence|].
  destruct (Nat.eqb (length (txs_of p from)) 1).
  - inversion E; subst p1. eapply rinv_adel; [reflexivity | exact HR].
  - apply sub_spent_get in E. destruct E as [s [_ [_ [Ei _]]]].
    eapply rinv_aset; [exact Ei | | exact HR].
    apply rolling_removelast. unfold txs_of. destruct (aget (p_index p) from) as [l|] eqn:Ea; [eapply HR; eauto | constructor].
Qed.

Lemma drop_loop_rinv fuel : forall p q, RInv p -> drop_loop prioE prioB gtE gtB c fuel p = Ok q -> RInv q.
Proof.
  induction fuel as [|f IH]; intros p q HR H; cbn [drop_loop] in H; [discriminate|].
  destruct (c_datacap c <? p_stored p); [|inversion H; subst; exact HR].
  inv_bind_as H p1. eapply IH; [|exact H]. eapply drop_rinv; eauto.
Qed.

(* addLocked: after an append or a replacement at ANY position every transaction of the account
   again carries the prefix minima in all three dimensions *)
Lemma add_core_rinv t p q e :
  RInv p -> add_core prioE prioB gtE gtB c t p = Ok (q, e) -> RInv q.
Proof.
  intros HR H. unfold add_core in H.
  destruct (negb (validate_tx c t p =? E_ok)) eqn:Ev.
  { destruct (validate_tx c t p =? E_noncehigh).
    - destruct ((1 <=? gapped_allowance p (t_from t))%Z && Nat.ltb (length (p_gsrc p)) maxGapped);
        inversion H; subst; [eapply rinv_index; [|exact HR]; reflexivity | exact HR].
    - inversion H; subst. exact HR. }
  apply negb_false_iff, N.eqb_eq in Ev.
  destruct (billy_put (p_store p) (t_shelf t) (mkItem t 0)) as [[b id]|]; [|inversion H; subst; exact HR].
  set (from := t_from t) in *. set (m := mkMeta t id 0 0 0) in *.
  set (p' := set_store b p) in *.
  assert (HR' : RInv p') by (eapply rinv_index; [|exact HR]; reflexivity).
  assert (Hv : validate_tx c t p' = E_ok) by exact Ev.
  clearbody p'. clear HR Ev p. rename p' into p.
  inv_bind_as H old0. clear E.
  set (next := nonce_of p from) in *. set (txs := txs_of p from) in *.
  set (off := N.to_nat (t_nonce t - next)) in *.
  inv_bind_as H r1. destruct r1 as [p1 newacc].
  cut (RInv (set_index (aset (p_index p1) from
              (firstn off (txs_of p1 from) ++
               reev (match off with O => None | S o => nth_error (txs_of p1 from) o end) (skipn off (txs_of p1 from)) 0)) p1)).
  { intro HI2. inv_bind_as H p3. inv_bind_as H p4. inversion H; subst.
    eapply drop_loop_rinv; [|exact E1]. eapply rinv_index; [|exact HI2].
    destruct newacc.
    - inv_bind_as E0 h. inversion E0; subst. reflexivity.
    - destruct (Nat.eqb _ 1).
      + apply heap_fix_core in E0. apply E0.
      + destruct old0; [|discriminate]. destruct (last_opt _); [|discriminate].
        destruct (_ || _); [apply heap_fix_core in E0; apply E0 | inversion E0; subst; reflexivity]. }
  clear H.
  assert (Htxs : rolling None txs).
  { unfold txs, txs_of. destruct (aget (p_index p) from) as [l|] eqn:Ea; [eapply HR'; eauto | constructor]. }
  destruct (nth_error txs off) as [prev|] eqn:En.
  - (* replacement at position off *)
    inv_bind_as E pa. apply store_del_core in E0. destruct E0 as [Ei0 _].
    inv_bind_as E pb. apply sub_spent_get in E0. destruct E0 as [s [_ [_ [Ei1 _]]]].
    inv_bind_as E pc. apply add_spent_get in E0. destruct E0 as [s2 [_ [_ [Ei2 _]]]].
    injection E as Hp1 Hna. clear Hna.
    assert (Hix : p_index p1 = aset (p_index p) from (list_set txs off m)).
    { rewrite <- Hp1. cbn [p_index set_stored track untrack set_lookup]. rewrite Ei2, Ei1. cbn [p_index set_index]. rewrite Ei0. reflexivity. }
    clear Hp1. unfold txs_of at 1 2 3. rewrite Hix, aget_aset, N.eqb_refl.
    eapply rinv_aset with (p := p) (a := from); [cbn [p_index set_index]; rewrite aset_aset; reflexivity | | exact HR'].
    assert (Hlen : (off < length txs)%nat) by (apply nth_error_Some; congruence).
    apply rebuilt_rolling.
    + rewrite list_set_length. lia.
    + rewrite firstn_list_set. apply rolling_firstn. exact Htxs.
  - (* extension *)
    destruct (validate_append c t p Hv En) as [Hnext _].
    fold from next txs in Hnext.
    assert (Hoff : off = length txs).
    { unfold off. rewrite Hnext. unfold lenN. lia. }
    inv_bind_as E pa. apply add_spent_get in E0. destruct E0 as [s [_ [_ [Ei1 _]]]].
    injection E as Hp1 Hna. clear Hna.
    assert (Hix : p_index p1 = aset (p_index p) from (txs ++ [m])).
    { rewrite <- Hp1. cbn [p_index add_stored set_stored track set_lookup]. rewrite Ei1. destruct (negb _); reflexivity. }
    clear Hp1. unfold txs_of at 1 2 3. rewrite Hix, aget_aset, N.eqb_refl.
    eapply rinv_aset with (p := p) (a := from); [cbn [p_index set_index]; rewrite aset_aset; reflexivity | | exact HR'].
    apply rebuilt_rolling.
    + rewrite app_length. cbn. lia.
    + rewrite Hoff, firstn_app, Nat.sub_diag, firstn_all. cbn [firstn]. rewrite app_nil_r. exact Htxs.
Qed.

Lemma promote_rinv from : forall gtxs p rest q,
  RInv p -> promote prioE prioB gtE gtB c from gtxs p = Ok (rest, q) -> RInv q.
Proof.
  induction gtxs as [|t r IH]; intros p rest q HR H; cbn [promote] in H.
  - inversion H; subst. exact HR.
  - destruct (wrap64 (nonce_of p from + lenN (txs_of p from)) <? t_nonce t).
    + inversion H; subst. exact HR.
    + assert (HR1 : RInv (set_gapped (p_gapped p) (remove_id (t_id t) (p_gsrc p)) p))
        by (eapply rinv_index; [|exact HR]; reflexivity).
      destruct (t_nonce t <? nonce_of p from).
      * eapply IH; eauto.
      * inv_bind_as H x. destruct x as [p2 e2]. eapply IH; [|exact H]. eapply add_core_rinv; eauto.
Qed.

Lemma pool_add_rinv t p q e :
  RInv p -> pool_add prioE prioB gtE gtB c t p = Ok (q, e) -> RInv q.
Proof.
  intros HR H. unfold pool_add in H. destruct (p_tip p) as [tip|]; [|discriminate].
  destruct (t_tip t <? tip); [inversion H; subst; exact HR|].
  unfold add_locked in H. inv_bind_as H x. destruct x as [p1 e1].
  pose proof (add_core_rinv t p p1 e1 HR E) as HR1.
  destruct (e1 =? E_buffered); [inversion H; subst; exact HR1|].
  destruct (negb (e1 =? E_ok)); [inversion H; subst; exact HR1|].
  destruct (aget (p_gapped p1) (t_from t)) as [[|g gs]|]; try (inversion H; subst; exact HR1).
  inv_bind_as H r. destruct r as [rest p2]. inversion H; subst.
  eapply rinv_index; [|eapply promote_rinv; [exact HR1 | exact E0]]. reflexivity.
Qed.
End Rolling.
