(* Pool/LegacyInv9.v — promoteExecutables keeps the pending lists gapless and the pending nonces exact. *)
From GV Require Import Lib.Tactics Pool.Legacy Pool.LegacyProofs Pool.LegacyInv Pool.LegacyInv2 Pool.LegacyInv3 Pool.LegacyInv4 Pool.LegacyInv5 Pool.LegacyInv6 Pool.LegacyInv7 Pool.LegacyInv8.
From Coq Require Import Sorting.Sorted.
Local Open Scope N_scope.

(* a promotion schedule: every tx is promoted exactly at the pending nonce of its sender at that time *)
Fixpoint Sched (f : N -> N) (T : list tx) (g : N -> N) : Prop :=
  match T with
  | [] => forall b, g b = f b
  | t :: T' => t_nonce t = f (t_from t) /\ Sched (upd f (t_from t) (t_nonce t + 1)) T' g
  end.

Lemma Sched_ext : forall T f f' g, (forall b, f b = f' b) -> Sched f T g -> Sched f' T g.
Proof.
  induction T as [|t T IH]; intros f f' g E H; cbn [Sched] in *.
  - intros b. rewrite (H b). apply E.
  - destruct H as [H1 H2]. split; [rewrite <- E; exact H1|]. eapply IH; [|exact H2].
    intros b. unfold upd. destruct (b =? t_from t); [reflexivity | apply E].
Qed.

Lemma Sched_app : forall A f g1 B g, Sched f A g1 -> Sched g1 B g -> Sched f (A ++ B) g.
Proof.
  induction A as [|t A IH]; intros f g1 B g H1 H2; cbn [Sched app] in *.
  - eapply Sched_ext; [exact H1 | exact H2].
  - destruct H1 as [H1a H1b]. split; [exact H1a | eapply IH; eassumption].
Qed.

Lemma Sched_run : forall R a f g, (forall x, In x R -> t_from x = a) -> contig (f a) R ->
  (forall b, g b = if b =? a then f a + N.of_nat (length R) else f b) -> Sched f R g.
Proof.
  induction R as [|x R IH]; intros a f g Hfrom Hc Hg; cbn [Sched].
  - intros b. rewrite Hg. cbn [length]. destruct (b =? a) eqn:E; [apply N.eqb_eq in E; subst; change (N.of_nat 0) with 0; lia | reflexivity].
  - destruct Hc as [Hx Hr]. pose proof (Hfrom x (or_introl eq_refl)) as Hfx. rewrite Hfx. split; [exact Hx|].
    apply (IH a); [intros y Hy; apply Hfrom; right; exact Hy | rewrite upd_same, Hx; exact Hr|].
    intros b. rewrite Hg. cbn [length]. unfold upd. destruct (b =? a) eqn:E; [rewrite N.eqb_refl; lia | reflexivity].
Qed.

Lemma g_at_same' : forall st st' a, p_pending st' a = p_pending st a -> pn_get a st' = pn_get a st -> p_chain st' = p_chain st ->
  g_at st a -> g_at st' a.
Proof. intros st st' a P N C [G1 G2]. unfold g_at, pending_len in *. rewrite P, N, C. split; assumption. Qed.

(* promoteTx of a limbo tx, explicitly *)
Lemma promote_tx_shape : forall s L T t, SL s L -> PO s (t :: T) ->
  exists l1, (forall b, p_pending (promote_tx t s) b = upd (p_pending s) (t_from t) (Some l1) b) /\
    l_txs l1 = sm_put t (match p_pending s (t_from t) with Some l => l_txs l | None => [] end) /\
    (forall b, pn_get b (promote_tx t s) = upd (fun b => pn_get b s) (t_from t) (t_nonce t + 1) b) /\
    p_chain (promote_tx t s) = p_chain s.
Proof.
  intros s L T t HS HP. set (a := t_from t).
  pose proof (po_ok _ _ HP t (or_introl eq_refl)) as Hk.
  set (l0 := match p_pending s a with Some l => l | None => new_list true end).
  assert (L0 : lok (p_cfg s) true a l0) by (unfold l0; destruct (p_pending s a) eqn:E; [apply (l_pw _ _ HS a t0 E) | apply lok_new]).
  assert (N0 : sm_get (t_nonce t) (l_txs l0) = None) by (unfold l0; destruct (p_pending s a) eqn:E; [apply (po_np _ _ HP t t0 (or_introl eq_refl) E) | reflexivity]).
  destruct (list_add_fresh _ _ _ _ t (c_bump (p_cfg s)) L0 eq_refl Hk N0) as [l1 [Ha [Ht L1]]].
  exists l1. unfold promote_tx. fold a. fold l0. rewrite Ha.
  set (s1 := put_pending a l1 s). set (s' := q_bump a (pn_set a (t_nonce t + 1) s1)).
  assert (Hc : core s' = core s1) by (unfold s'; rewrite core_q_bump, core_pn_set; reflexivity). core_inv Hc.
  split; [intros b; rewrite Epend; unfold s1; apply pend_put_pending|].
  split; [rewrite Ht; unfold l0; destruct (p_pending s a); reflexivity|].
  assert (Ch1 : p_chain s1 = p_chain s) by (unfold s1, put_pending; rewrite chain_chk; reflexivity).
  split; [|rewrite Echain; exact Ch1].
  intros b. unfold pn_get. rewrite Echain, Ch1. unfold s'. rewrite pn_q_bump. cbn [pn_set set_pn p_pn]. unfold upd.
  destruct (b =? a); [reflexivity|]. unfold s1, put_pending. rewrite pn_chk. reflexivity.
Qed.

Lemma promote_fold_G : forall T s L g, SL s L -> PO s T -> (forall t, In t T -> In t L) -> GInv s ->
  Sched (fun b => pn_get b s) T g ->
  GInv (fold_left (fun s t => promote_tx t s) T s) /\ (forall b, pn_get b (fold_left (fun s t => promote_tx t s) T s) = g b).
Proof.
  induction T as [|t T IH]; intros s L g HS HP HT HG Hs; cbn [fold_left Sched] in *.
  - split; [exact HG | intros b; symmetry; apply Hs].
  - destruct Hs as [Hn Hs]. set (a := t_from t) in *.
    destruct (promote_tx_SL s L T t HS HP (HT t (or_introl eq_refl))) as [S1 [P1 _]].
    destruct (promote_tx_shape s L T t HS HP) as [l1 [Hp [Htx [Hpn Hch]]]]. fold a in Hp, Htx, Hpn.
    pose proof (po_nd _ _ HP) as Hnd. cbn [map] in Hnd. inversion Hnd as [|? ? Hkt _]; subst.
    apply (IH (promote_tx t s) _ g S1 P1).
    + intros x Hx. apply In_filter_ne. split; [apply HT; right; exact Hx|]. intros ->. apply Hkt. apply in_map. exact Hx.
    + (* the bookkeeping for one promotion *)
      destruct (HG a) as [G1 G2]. intros b. destruct (N.eq_dec b a) as [->|Hne].
      * unfold g_at, pending_len. rewrite Hp, Hpn, Hch. rewrite (upd_same (p_pending s) a (Some l1)), (upd_same (fun b0 => pn_get b0 s) a (t_nonce t + 1)). unfold pending_len in G2.
        destruct (p_pending s a) as [l|] eqn:Ep.
        -- specialize (G1 l eq_refl). assert (Happ : sm_put t (l_txs l) = l_txs l ++ [t]) by (eapply sm_put_append; [exact G1 | unfold l_len in G2; lia]).
           split; [intros l0 H0; inversion H0; subst; rewrite Htx, Happ; apply contig_app_one; [exact G1 | unfold l_len in G2; lia]|].
           unfold l_len in *. rewrite Htx, Happ, app_length. cbn [length]. lia.
        -- split; [intros l0 H0; inversion H0; subst; rewrite Htx; cbn; split; [cbn in G2; lia | exact I]|].
           unfold l_len. rewrite Htx. cbn. cbn in G2. lia.
      * apply (g_at_same' s); [rewrite Hp; apply upd_other, Hne | rewrite Hpn; unfold upd; destruct (b =? a) eqn:Eb; [apply N.eqb_eq in Eb; contradiction | reflexivity] | exact Hch | apply HG].
    + eapply Sched_ext; [|exact Hs]. intros b. symmetry. apply Hpn.
Qed.

Lemma contig_cover : forall l s n, contig s l -> s <= n -> n < s + N.of_nat (length l) -> exists y, In y l /\ t_nonce y = n.
Proof.
  induction l as [|x l IH]; intros s n H H1 H2; cbn [length] in *; [lia|]. destruct H as [Hx Hr].
  destruct (N.eq_dec n s) as [->|Hne]; [exists x; split; [left; reflexivity | exact Hx]|].
  destruct (IH (s + 1) n Hr) as [y [Hy1 Hy2]]; [lia | lia|]. exists y. split; [right; exact Hy1 | exact Hy2].
Qed.

Lemma q_promote_one_frames : forall a s rd dr s1, q_promote_one a s = (rd, dr, s1) ->
  p_pending s1 = p_pending s /\ p_pn s1 = p_pn s /\ p_chain s1 = p_chain s /\ p_cfg s1 = p_cfg s /\
  (forall b, b <> a -> p_queue s1 b = p_queue s b).
Proof.
  intros a s rd dr s1 E. unfold q_promote_one in E. destruct (p_queue s a) as [l|]; [|inversion E; subst; repeat split; reflexivity].
  destruct (list_forward _ l) as [fw l1]. destruct (list_filter _ _ l1) as [[drops inv] l2].
  destruct (list_ready _ l2) as [r l3]. destruct (list_cap _ l3) as [caps l4]. inversion E; subst; clear E.
  destruct (l_empty l4); unfold put_queue; rewrite ?pend_chk, ?pn_chk, ?chain_chk; unfold chk; destruct (_ <? _)%Z; cbn;
    repeat split; try reflexivity; intros b Hb; apply upd_other, Hb.
Qed.

(* the txs one account hands over for promotion form a run starting at its pending nonce *)
Lemma q_promote_one_run : forall a s rd dr s1,
  (forall l, p_queue s a = Some l -> lok (p_cfg s) false a l) ->
  (forall pl ql x, p_pending s a = Some pl -> p_queue s a = Some ql -> In x (l_txs ql) -> sm_get (t_nonce x) (l_txs pl) = None) ->
  g_at s a -> q_promote_one a s = (rd, dr, s1) ->
  (forall x, In x rd -> t_from x = a) /\ contig (pn_get a s) rd.
Proof.
  intros a s rd dr s1 HL HD [G1 G2] E. unfold q_promote_one in E.
  destruct (p_queue s a) as [l|] eqn:Eq; [|inversion E; subst; split; [intros x [] | exact I]].
  pose proof (HL l eq_refl) as Lq.
  destruct (list_forward (ch_nonce (p_chain s) a) l) as [fw l1] eqn:E1.
  destruct (list_filter (ch_bal (p_chain s) a) (ch_gaslimit (p_chain s)) l1) as [[drops inv] l2] eqn:E2.
  destruct (list_ready (pn_get a s) l2) as [r l3] eqn:E3. destruct (list_cap _ l3) as [caps l4]. inversion E; subst r dr s1; clear E.
  destruct (list_forward_spec _ _ _ _ _ _ _ Lq E1) as [L1 [M1 [_ Hlow1]]].
  destruct (list_filter_spec _ _ _ _ _ _ _ _ _ L1 E2) as [L2 [M2 _]].
  destruct (list_ready_spec _ _ _ _ _ _ _ L2 E3) as [_ [M3 _]].
  assert (Hl2_l : forall x, In x (l_txs l2) -> In x (l_txs l) /\ ch_nonce (p_chain s) a <= t_nonce x).
  { intros x Hx. assert (H1 : In x (l_txs l1)) by (apply M2; left; exact Hx). split; [apply M1; left; exact H1 | apply Hlow1, H1]. }
  split; [intros x Hx; apply (lk_mem _ _ _ _ Lq), Hl2_l, M3; right; exact Hx|].
  destruct (l_txs l2) as [|x r] eqn:El2.
  - unfold list_ready, sm_ready in E3. rewrite El2 in E3. inversion E3; subst. exact I.
  - destruct (Hl2_l x (or_introl eq_refl)) as [Hxl Hxlow].
    assert (Hpn : pn_get a s <= t_nonce x).
    { destruct (N.le_gt_cases (pn_get a s) (t_nonce x)) as [H|H]; [exact H|exfalso].
      unfold pending_len in G2. destruct (p_pending s a) as [pl|] eqn:Ep; [|cbn in G2; lia].
      destruct (contig_cover (l_txs pl) _ (t_nonce x) (G1 pl eq_refl) Hxlow) as [y [Hy1 Hy2]]; [unfold l_len in G2; lia|].
      pose proof (HD pl l x eq_refl eq_refl Hxl) as Hd. rewrite <- Hy2 in Hd. eapply In_sm_get; eassumption. }
    destruct (list_ready_contig (pn_get a s) l2 rd l3 x r El2 Hpn E3) as [->|[_ Hc]]; [exact I | exact Hc].
Qed.

Lemma promote_acc_sched : forall st, SInv st -> GInv st -> forall accts done s P D P' D' s1,
  NoDup accts -> (forall a, In a accts -> ~ In a done) ->
  p_pending s = p_pending st -> p_pn s = p_pn st -> p_chain s = p_chain st -> p_cfg s = p_cfg st ->
  (forall b, ~ In b done -> p_queue s b = p_queue st b) ->
  (exists g, Sched (fun b => pn_get b st) P g /\ forall b, ~ In b done -> g b = pn_get b st) ->
  fold_left (fun '(p, d, s) a => let '(p1, d1, s1) := q_promote_one a s in (p ++ p1, d ++ d1, s1)) accts (P, D, s) = (P', D', s1) ->
  (exists g, Sched (fun b => pn_get b st) P' g) /\ p_pending s1 = p_pending st /\ p_pn s1 = p_pn st /\ p_chain s1 = p_chain st.
Proof.
  intros st HS HG. induction accts as [|a accts IH]; intros done s P D P' D' s1 Hnd Hdone Pe Pn Ch Cf Qe [g [Hs Hg]] E; cbn [fold_left] in E.
  - inversion E; subst. split; [exists g; exact Hs | tauto].
  - inversion Hnd as [|? ? Ha Hnd']; subst.
    destruct (q_promote_one a s) as [[p1 d1] s2] eqn:Eq.
    destruct (q_promote_one_frames _ _ _ _ _ Eq) as [P2 [N2 [Ch2 [C2 Q2]]]].
    assert (Hna : ~ In a done) by (apply Hdone; left; reflexivity).
    destruct (q_promote_one_run a s p1 d1 s2) as [Hfrom Hrun]; try exact Eq.
    + intros l Hl. rewrite Cf. rewrite (Qe a Hna) in Hl. apply (s_qw _ HS a l Hl).
    + intros pl ql x Hp Hq Hx. rewrite Pe in Hp. rewrite (Qe a Hna) in Hq. apply (s_disj _ HS a pl ql x Hp Hq Hx).
    + apply (g_at_same st); [rewrite Pe; reflexivity | rewrite Pn; reflexivity | exact Ch | apply HG].
    + assert (Hpa : pn_get a s = g a) by (rewrite (Hg a Hna); unfold pn_get; rewrite Pn, Ch; reflexivity).
      apply (IH (a :: done) s2 (P ++ p1) (D ++ d1) P' D' s1 Hnd').
      * intros b Hb [->|Hd]; [contradiction | apply (Hdone b (or_intror Hb) Hd)].
      * congruence.
      * congruence.
      * congruence.
      * congruence.
      * intros b Hb. assert (b <> a) by (intros ->; apply Hb; left; reflexivity). rewrite (Q2 b H). apply Qe. intros Hd. apply Hb. right. exact Hd.
      * exists (fun b => if b =? a then g a + N.of_nat (length p1) else g b). split.
        -- eapply Sched_app; [exact Hs|]. apply (Sched_run p1 a g); [exact Hfrom | rewrite <- Hpa; exact Hrun | intros b; reflexivity].
        -- intros b Hb. destruct (b =? a) eqn:Eb; [apply N.eqb_eq in Eb; subst b; exfalso; apply Hb; left; reflexivity|].
           apply Hg. intros Hd. apply Hb. right. exact Hd.
      * exact E.
Qed.

Lemma chain_fold_all_remove : forall D s, p_chain (fold_left (fun s t => all_remove t s) D s) = p_chain s.
Proof. induction D as [|d D IH]; intros s; cbn [fold_left]; [reflexivity|]. rewrite IH. unfold all_remove. destruct (all_has d s); reflexivity. Qed.

(* promoteExecutables *)
Lemma promote_executables_G : forall accts st, SInv st -> GInv st -> NoDup accts -> GInv (promote_executables accts st).
Proof.
  intros accts st HS HG Hnd. unfold promote_executables.
  destruct (fold_left (fun '(p, d, s) a => let '(p1, d1, s1) := q_promote_one a s in (p ++ p1, d ++ d1, s1)) accts ([], [], st))
    as [[P D] st1] eqn:E.
  destruct (promote_acc_SL accts st [] [] [] P D st1 (SL_of_SInv _ HS)) as [L1 [S1 [PO1 [M1 [D1 [_ [Pe1 [C1 Ch1]]]]]]]]; try exact E.
  { split; [intros t [] | intros t pl [] | intros t ql [] | constructor]. }
  { intros y. cbn. tauto. }
  { intros y []. }
  { intros y []. }
  destruct (promote_acc_sched st HS HG accts [] st [] [] P D st1 Hnd) as [[g Hs] [Pe [Pn Ch]]]; try reflexivity; try exact E.
  { intros a _ []. }
  { exists (fun b => pn_get b st). split; [intros b; reflexivity | intros b _; reflexivity]. }
  assert (G1 : GInv st1) by (intros a; apply (g_at_same st); [rewrite Pe; reflexivity | rewrite Pn; reflexivity | exact Ch | apply HG]).
  assert (Hs1 : Sched (fun b => pn_get b st1) P g).
  { eapply Sched_ext; [|exact Hs]. intros b. unfold pn_get. rewrite Pn, Ch. reflexivity. }
  destruct (promote_fold_G P st1 L1 g S1 PO1 (fun t Ht => proj2 (M1 t) (or_introl Ht)) G1 Hs1) as [G2 _].
  set (st2 := fold_left (fun s t => promote_tx t s) P st1) in *.
  set (st3 := fold_left (fun s t => all_remove t s) D st2).
  pose proof (core_priced_removed (length D) st3) as Hc. core_inv Hc.
  intros a. apply (g_at_same st2).
  - rewrite Epend. unfold st3. rewrite (fold_pend_same (fun s t => all_remove t s) (fun s t => pend_all_remove t s)). reflexivity.
  - rewrite pn_priced_removed. unfold st3. rewrite (pn_fold_same (fun s t => all_remove t s) (fun s t => pn_all_remove t s)). reflexivity.
  - rewrite Echain. unfold st3. apply chain_fold_all_remove.
  - apply G2.
Qed.

Lemma add_txs_locked_dirty_NoDup : forall txs errs st dirty, NoDup dirty -> NoDup (snd (add_txs_locked txs errs st dirty)).
Proof.
  induction txs as [|t ts IH]; intros errs st dirty Hd; cbn [add_txs_locked]; [exact Hd|].
  destruct errs as [|e es]; [exact Hd|]. destruct (negb (e =? E_OK)).
  - pose proof (IH es st dirty Hd) as H. destruct (add_txs_locked ts es st dirty) as [[s' es'] d']. exact H.
  - destruct (pool_add t st) as [[st1 e1] rep].
    match goal with |- context [add_txs_locked ts es st1 ?d] =>
      assert (Hd1 : NoDup d); [|pose proof (IH es st1 d Hd1) as H; destruct (add_txs_locked ts es st1 d) as [[s' es'] d']; exact H] end.
    destruct ((e1 =? E_OK) && negb rep && negb (existsb (N.eqb (t_from t)) dirty)) eqn:Ec; [|exact Hd].
    apply andb_true_iff in Ec. destruct Ec as [_ Ec]. apply negb_true_iff in Ec.
    apply NoDup_app_intro; [exact Hd | constructor; [intros [] | constructor]|].
    intros x Hx [<-|[]]. assert (existsb (N.eqb (t_from t)) dirty = true) by (apply existsb_exists; exists (t_from t); split; [exact Hx | apply N.eqb_refl]). congruence.
Qed.

Lemma run_reorg_promote_SG : forall dirty st, SG st -> NoDup dirty -> SG (run_reorg_promote dirty st).
Proof.
  intros dirty st [HS HG] Hnd. split; [apply (run_reorg_promote_RS dirty st HS)|]. unfold run_reorg_promote.
  pose proof (promote_executables_RS dirty st HS) as [S1 _]. pose proof (promote_executables_G dirty st HS HG Hnd) as G1.
  pose proof (truncate_pending_RS _ S1) as [S2 _]. pose proof (truncate_pending_G _ S1 G1) as G2.
  pose proof (truncate_queue_G _ S2 G2) as G3.
  eapply GInv_core_pn; [apply core_set_changes | reflexivity | exact G3].
Qed.

(* LegacyPool.Add(txs, sync): the whole Add cycle *)
Lemma pool_Add_SG : forall txs st, SG st -> (forall t, In t txs -> okt (p_cfg st) t) -> SG (fst (pool_Add txs st)).
Proof.
  intros txs st H Hk. unfold pool_Add. destruct (negb _); [exact H|].
  match goal with |- context [add_txs_locked txs ?e st []] =>
    pose proof (add_txs_locked_SG txs e st [] H Hk) as R1; pose proof (add_txs_locked_dirty_NoDup txs e st [] (NoDup_nil _)) as Hd;
    destruct (add_txs_locked txs e st []) as [[st1 e1] d] end.
  cbn [fst snd] in *. apply run_reorg_promote_SG; assumption.
Qed.

(* ---------- histories without head changes ---------- *)
Lemma GInv_init : forall c tip g, GInv (pool_init c tip g).
Proof. intros c tip g a. split; [intros l H; discriminate | unfold pn_get, pending_len; cbn; lia]. Qed.

Lemma step_SG : forall st o, SG st -> op_ok (p_cfg st) o -> SG (step st o).
Proof.
  intros st [txs|b o n|tip| |a| ] [HS HG] Hok; cbn [step].
  - apply pool_Add_SG; [split; assumption | exact Hok].
  - destruct Hok.
  - split; [apply (pool_SetGasTip_RS tip st HS) | apply pool_SetGasTip_G; assumption].
  - split; [apply (pool_Content_RS st HS) | apply pool_Content_G, HG].
  - split; [apply (pool_ContentFrom_RS a st HS) | apply pool_ContentFrom_G, HG].
  - split; [apply (pool_Pending_RS st HS) | apply pool_Pending_G, HG].
Qed.

Lemma history_SG : forall h st, SG st -> Forall (op_ok (p_cfg st)) h -> SG (run_history st h).
Proof.
  unfold run_history. induction h as [|o h IH]; intros st H Hok; cbn [fold_left]; [exact H|].
  inversion Hok as [|? ? Ho Hh]; subst. pose proof (step_SG st o H Ho) as H1.
  destruct (step_RS st o (proj1 H) Ho) as [_ [C1 _]]. apply IH; [exact H1 | rewrite C1; exact Hh].
Qed.
