(* Pool/BlobLimboCons.v — consistency of the limbo's three structures (hash index, per-block
   groups, billy store) through set / push / getAndDrop / pull, using the billy id laws:
   index and groups name the same (hash, id) pairs, every grouped id is live in the store and
   holds the item with that hash and block number.  Consequence: pull (reinject) removes every
   group entry of the pulled hash. *)
From Coq Require Import List NArith ZArith Bool Lia.
From GV Require Import Lib.Tactics Pool.Blob Pool.BlobProofs Pool.BlobAddProofs Pool.BlobRollingProofs Pool.BlobResetProofs Pool.BlobLimboProofs Pool.BlobLimboReset Pool.BlobLimboFrame Pool.BlobLimboEntry Pool.BlobLimboRecheck Pool.BlobLimboSound Pool.BillyLawsProofs Pool.BillyIdLaws.
Import ListNotations.
Local Open Scope N_scope.

Definition gent (gs : list (N * list (N * N))) (b i h : N) : Prop :=
  exists g, aget gs b = Some g /\ aget g i = Some h.

Lemma gentry_gent l b i h : gentry l b i h <-> gent (l_groups l) b i h.
Proof. reflexivity. Qed.

Definition lcons (l : limbo) : Prop :=
  billy_wf (l_store l) /\
  (forall h id, aget (l_index l) h = Some id -> exists blk, gentry l blk id h) /\
  (forall blk id h, gentry l blk id h ->
     aget (l_index l) h = Some id /\ live_id (l_store l) id /\
     exists it, billy_get (l_store l) id = Ok (Some it) /\ t_id (i_tx it) = h /\ i_block it = blk).

Definition shelves_small (b : billy) : Prop := forall k s, nth_error b k = Some s -> lenN (sh_slots s) < two28.

(* the groups after getAndDrop's bookkeeping: exactly the old entries except (blk, id) *)
Lemma drop_groups gs blk id b i h :
  gent (match adel (match aget gs blk with Some g => g | None => [] end) id with
        | [] => adel gs blk
        | _ :: _ => aset gs blk (adel (match aget gs blk with Some g => g | None => [] end) id) end) b i h <->
  gent gs b i h /\ ~ (b = blk /\ i = id).
Proof.
  set (G := match aget gs blk with Some g => g | None => [] end).
  assert (HG : forall j, aget G j = match aget gs blk with Some g => aget g j | None => None end)
    by (intro j; unfold G; destruct (aget gs blk); reflexivity).
  split.
  - intros [g [Hg Hi]]. destruct (adel G id) as [|x r] eqn:Ed.
    + rewrite aget_adel in Hg. destruct (blk =? b) eqn:Eb; [discriminate|]. apply N.eqb_neq in Eb.
      split; [exists g; split; assumption | intros [K _]; congruence].
    + rewrite aget_aset in Hg. destruct (blk =? b) eqn:Eb.
      * apply N.eqb_eq in Eb. subst b. inversion Hg; subst g. rewrite <- Ed, aget_adel in Hi.
        destruct (id =? i) eqn:Ei; [discriminate|]. apply N.eqb_neq in Ei. rewrite HG in Hi.
        split; [|intros [_ K]; congruence].
        destruct (aget gs blk) as [g0|] eqn:Eg; [exists g0; split; [exact Eg | exact Hi] | discriminate].
      * apply N.eqb_neq in Eb. split; [exists g; split; assumption | intros [K _]; congruence].
  - intros [[g [Hg Hi]] Hne]. destruct (N.eq_dec b blk) as [->|Hb].
    + assert (Hid : id <> i) by (intro K; apply Hne; split; congruence).
      assert (Hai : aget (adel G id) i = Some h).
      { rewrite aget_adel. apply N.eqb_neq in Hid. rewrite Hid, HG, Hg. exact Hi. }
      destruct (adel G id) as [|x r] eqn:Ed; [cbn in Hai; discriminate|].
      exists (x :: r). split; [rewrite aget_aset, N.eqb_refl; reflexivity | exact Hai].
    + assert (Hb' : (blk =? b) = false) by (apply N.eqb_neq; congruence).
      destruct (adel G id) as [|x r]; exists g; (split; [|exact Hi]).
      * rewrite aget_adel, Hb'. exact Hg.
      * rewrite aget_aset, Hb'. exact Hg.
Qed.

(* the groups after set's bookkeeping *)
Lemma set_groups gs blk id h b i x :
  gent (aset gs blk (aset (match aget gs blk with Some g => g | None => [] end) id h)) b i x <->
  (b = blk /\ i = id /\ x = h) \/ (gent gs b i x /\ ~ (b = blk /\ i = id)).
Proof.
  set (G := match aget gs blk with Some g => g | None => [] end).
  assert (HG : forall j, aget G j = match aget gs blk with Some g => aget g j | None => None end)
    by (intro j; unfold G; destruct (aget gs blk); reflexivity).
  split.
  - intros [g [Hg Hi]]. rewrite aget_aset in Hg. destruct (blk =? b) eqn:Eb.
    + apply N.eqb_eq in Eb. subst b. inversion Hg; subst g. rewrite aget_aset in Hi. destruct (id =? i) eqn:Ei.
      * apply N.eqb_eq in Ei. inversion Hi; subst. left. repeat split.
      * apply N.eqb_neq in Ei. right. rewrite HG in Hi. split; [|intros [_ K]; congruence].
        destruct (aget gs blk) as [g0|] eqn:Eg; [exists g0; split; [exact Eg | exact Hi] | discriminate].
    + apply N.eqb_neq in Eb. right. split; [exists g; split; assumption | intros [K _]; congruence].
  - intros [[-> [-> ->]]|[[g [Hg Hi]] Hne]].
    + eexists. split; [rewrite aget_aset, N.eqb_refl; reflexivity | rewrite aget_aset, N.eqb_refl; reflexivity].
    + destruct (N.eq_dec b blk) as [->|Hb].
      * assert (Hid : id <> i) by (intro K; apply Hne; split; congruence).
        eexists. split; [rewrite aget_aset, N.eqb_refl; reflexivity|].
        rewrite aget_aset. apply N.eqb_neq in Hid. rewrite Hid, HG, Hg. exact Hi.
      * exists g. split; [|exact Hi]. rewrite aget_aset. assert (Hb' : (blk =? b) = false) by (apply N.eqb_neq; congruence).
        rewrite Hb'. exact Hg.
Qed.

(* getAndDrop of a grouped id *)
Theorem get_drop_lcons l blk0 id h0 l' o :
  lcons l -> gentry l blk0 id h0 -> limbo_get_drop l id = Ok (l', o) ->
  lcons l' /\ (forall b i, ~ gentry l' b i h0) /\
  exists it, o = Some it /\ t_id (i_tx it) = h0 /\ i_block it = blk0.
Proof.
  intros [Hwf [I1 I2]] He H. destruct (I2 _ _ _ He) as [Hix [Hlive [it [Hget [Hh Hb]]]]].
  unfold limbo_get_drop in H. rewrite Hget in H. cbn [bind] in H. cbv zeta in H. inv_bind_as H st.
  destruct (billy_delete_laws _ _ _ Hwf Hlive E) as [D1 [D2 D3]].
  rewrite Hb, Hh in H. inversion H; subst l' o. clear H.
  assert (Hent : forall b i h, gentry (mkLimbo st (adel (l_index l) h0)
                   (match adel (match aget (l_groups l) blk0 with Some g => g | None => [] end) id with
                    | [] => adel (l_groups l) blk0
                    | _ :: _ => aset (l_groups l) blk0 (adel (match aget (l_groups l) blk0 with Some g => g | None => [] end) id) end)) b i h <->
                 gentry l b i h /\ ~ (b = blk0 /\ i = id)).
  { intros b i h. rewrite !gentry_gent. cbn [l_groups]. apply drop_groups. }
  assert (Hother : forall b i h, gentry l b i h -> ~ (b = blk0 /\ i = id) -> i <> id /\ h <> h0).
  { intros b i h Hg Hne. destruct (I2 _ _ _ Hg) as [Jx [_ [it' [Jg [Jh Jb]]]]].
    assert (Hi : i <> id).
    { intro K. subst i. rewrite Hget in Jg. inversion Jg; subst it'. apply Hne. split; [congruence | reflexivity]. }
    split; [exact Hi|]. intro K. rewrite K, Hix in Jx. inversion Jx. congruence. }
  split; [|split].
  - split; [exact D1|]. split.
    + intros h i Hi. cbn [l_index] in Hi. rewrite aget_adel in Hi. destruct (h0 =? h) eqn:E0; [discriminate|].
      destruct (I1 _ _ Hi) as [b Hg]. exists b. apply Hent. split; [exact Hg|].
      intros [-> ->]. destruct (I2 _ _ _ Hg) as [_ [_ [it' [Jg [Jh _]]]]]. rewrite Hget in Jg. inversion Jg; subst it'.
      apply N.eqb_neq in E0. congruence.
    + intros b i h Hg. apply Hent in Hg. destruct Hg as [Hg Hne]. destruct (Hother _ _ _ Hg Hne) as [Hi Hhh].
      destruct (I2 _ _ _ Hg) as [Jx [Jl [it' [Jg [Jh Jb]]]]]. cbn [l_index l_store].
      destruct (D3 _ Jl Hi) as [K1 K2]. split; [|split; [exact K1|]].
      * rewrite aget_adel. assert (E0 : (h0 =? h) = false) by (apply N.eqb_neq; congruence). rewrite E0. exact Jx.
      * exists it'. rewrite K2. repeat split; assumption.
  - intros b i Hg. apply Hent in Hg. destruct Hg as [Hg Hne]. destruct (Hother _ _ _ Hg Hne) as [_ K]. apply K. reflexivity.
  - exists it. repeat split; assumption.
Qed.

(* pull by hash: afterwards no group lists that hash *)
Theorem pull_lcons l h l' o :
  lcons l -> limbo_pull l h = Ok (l', o) -> lcons l' /\ forall b i, ~ gentry l' b i h.
Proof.
  intros Hc H. unfold limbo_pull in H. destruct (aget (l_index l) h) as [id|] eqn:Ei.
  - destruct Hc as [Hwf [I1 I2]]. destruct (I1 _ _ Ei) as [blk Hg].
    inv_bind_as H r. destruct r as [l1 o1]. inversion H; subst. cbn [fst].
    destruct (get_drop_lcons l blk id h l' o1 (conj Hwf (conj I1 I2)) Hg E) as [K1 [K2 _]]. split; assumption.
  - inversion H; subst. split; [exact Hc|]. intros b i Hg. destruct Hc as [_ [_ I2]].
    destruct (I2 _ _ _ Hg) as [Jx _]. rewrite Ei in Jx. discriminate.
Qed.

(* set of a hash the index does not hold *)
Theorem set_lcons l t blk :
  lcons l -> shelves_small (l_store l) -> aget (l_index l) (t_id t) = None -> lcons (limbo_set l t blk).
Proof.
  intros [Hwf [I1 I2]] Hsm Hn. unfold limbo_set. destruct (billy_put (l_store l) (t_shelf t) (mkItem t blk)) as [[st id]|] eqn:Ep.
  2:{ split; [exact Hwf | split; assumption]. }
  assert (Hs : exists s, nth_error (l_store l) (N.to_nat (t_shelf t)) = Some s).
  { unfold billy_put in Ep. destruct (nth_error (l_store l) (N.to_nat (t_shelf t))) as [s|]; [exists s; reflexivity | discriminate]. }
  destruct Hs as [s Hs].
  destruct (billy_put_laws _ _ _ _ _ _ Hwf Hs (Hsm _ _ Hs) Ep) as [P1 [P2 [P3 [P4 P5]]]].
  assert (Hent : forall b i x, gentry (mkLimbo st (aset (l_index l) (t_id t) id)
                   (aset (l_groups l) blk (aset (match aget (l_groups l) blk with Some g => g | None => [] end) id (t_id t)))) b i x <->
                 (b = blk /\ i = id /\ x = t_id t) \/ (gentry l b i x /\ ~ (b = blk /\ i = id))).
  { intros b i x. rewrite !gentry_gent. cbn [l_groups]. apply set_groups. }
  assert (Hfresh : forall b i x, gentry l b i x -> i <> id).
  { intros b i x Hg K. subst i. destruct (I2 _ _ _ Hg) as [_ [Jl _]]. exact (P1 Jl). }
  split; [exact P4|]. split.
  - intros x i Hi. cbn [l_index] in Hi. rewrite aget_aset in Hi. destruct (t_id t =? x) eqn:Ex.
    + apply N.eqb_eq in Ex. inversion Hi; subst. exists blk. apply Hent. left. repeat split.
    + destruct (I1 _ _ Hi) as [b Hg]. exists b. apply Hent. right. split; [exact Hg|].
      intros [_ K]. exact (Hfresh _ _ _ Hg K).
  - intros b i x Hg. apply Hent in Hg. cbn [l_index l_store]. destruct Hg as [[-> [-> ->]]|[Hg Hne]].
    + split; [rewrite aget_aset, N.eqb_refl; reflexivity|]. split; [exact P2|].
      exists (mkItem t blk). repeat split. exact P3.
    + destruct (I2 _ _ _ Hg) as [Jx [Jl [it' [Jg [Jh Jb]]]]]. destruct (P5 _ Jl) as [K1 K2].
      split; [|split; [exact K1|]].
      * rewrite aget_aset. destruct (t_id t =? x) eqn:Ex; [|exact Jx].
        apply N.eqb_eq in Ex. rewrite <- Ex, Hn in Jx. discriminate.
      * exists it'. rewrite K2. repeat split; assumption.
Qed.

Theorem push_lcons l t blk :
  lcons l -> shelves_small (l_store l) -> lcons (limbo_push l t blk).
Proof.
  intros Hc Hsm. unfold limbo_push, ahas. destruct (aget (l_index l) (t_id t)) eqn:E; [exact Hc|].
  apply set_lcons; assumption.
Qed.

(* reinject pulls by hash: afterwards the limbo is consistent and lists the hash nowhere *)
Theorem reinject_clears a hh p q :
  lcons (p_limbo p) -> reinject a hh p = Ok q ->
  lcons (p_limbo q) /\ forall b i, ~ gentry (p_limbo q) b i hh.
Proof.
  intros Hc H. unfold reinject in H. inv_bind_as H r. destruct r as [l1 o1]. cbn [fst snd] in H.
  cut (p_limbo q = l1); [intros ->; eapply pull_lcons; eauto|].
  destruct o1 as [t|]; [|inversion H; subst; reflexivity].
  destruct (billy_put _ _ _) as [[st id]|]; [|inversion H; subst; reflexivity].
  cbv zeta in H. inv_bind_as H p1.
  assert (K : p_limbo p1 = l1).
  { destruct (aget _ a).
    - apply add_spent_limbo in E0. rewrite E0. reflexivity.
    - destruct (_ <? _); [inversion E0; subst; reflexivity | discriminate]. }
  inversion H. rewrite <- K. reflexivity.
Qed.
