(* Pool/OrderingProofs.v — proofs about Pool/Ordering.v:
   container/heap (Init / Fix at the root / Pop) on a list-as-array keeps the heap
   order, permutes the elements and never runs out of fuel; the iterator refines an
   abstract per-account queue machine, from which the ordering theorems follow. *)
From GV Require Import Lib.Tactics Pool.Ordering.
From Coq Require Import Permutation Sorted.
Local Open Scope nat_scope.

(* ------------------------------------------------------------------------- *)
(* arrays as lists *)
Section Arr.
  Context {A : Type}.

  Lemma length_set_nth (l : list A) i x : length (set_nth l i x) = length l.
  Proof. revert i; induction l as [|a l IH]; intros [|i]; cbn; auto. Qed.

  Lemma nth_set_eq (l : list A) i x : i < length l -> nth_error (set_nth l i x) i = Some x.
  Proof.
    revert i; induction l as [|a l IH]; intros [|i] H; cbn in *; try lia; auto.
    apply IH; lia.
  Qed.

  Lemma nth_set_neq (l : list A) i k x : k <> i -> nth_error (set_nth l i x) k = nth_error l k.
  Proof.
    revert i k; induction l as [|a l IH]; intros [|i] [|k] H; cbn; auto; try lia.
    all: try (apply IH; lia).
  Qed.

  Lemma set_nth_perm1 (r : list A) j a b :
    nth_error r j = Some b -> Permutation (a :: r) (b :: set_nth r j a).
  Proof.
    revert j; induction r as [|c r IH]; intros [|j] H; cbn in *; try discriminate.
    - injection H as ->. apply perm_swap.
    - eapply perm_trans; [apply perm_swap|].
      eapply perm_trans; [apply perm_skip, IH, H|]. apply perm_swap.
  Qed.

  Lemma swap_perm (h : list A) i j a b :
    nth_error h i = Some a -> nth_error h j = Some b ->
    Permutation h (set_nth (set_nth h i b) j a).
  Proof.
    revert i j; induction h as [|x r IH]; intros [|i] [|j] Hi Hj; cbn in *; try discriminate.
    - injection Hi as ->. injection Hj as ->. apply Permutation_refl.
    - injection Hi as ->. apply set_nth_perm1, Hj.
    - injection Hj as ->. apply set_nth_perm1, Hi.
    - apply perm_skip, IH; auto.
  Qed.

  Lemma swap_spec (h h' : list A) i j :
    swap h i j = Ok h' ->
    exists a b, nth_error h i = Some a /\ nth_error h j = Some b /\
      length h' = length h /\ nth_error h' i = Some b /\ nth_error h' j = Some a /\
      (forall k, k <> i -> k <> j -> nth_error h' k = nth_error h k) /\ Permutation h h'.
  Proof.
    unfold swap. destruct (nth_error h i) as [a|] eqn:Hi; [|discriminate].
    destruct (nth_error h j) as [b|] eqn:Hj; [|discriminate].
    intros E; injection E as <-. exists a, b.
    assert (Li : i < length h) by (apply nth_error_Some; congruence).
    assert (Lj : j < length h) by (apply nth_error_Some; congruence).
    repeat split; auto.
    - now rewrite !length_set_nth.
    - destruct (Nat.eq_dec i j) as [->|N].
      + rewrite nth_set_eq by (now rewrite length_set_nth). congruence.
      + rewrite nth_set_neq by auto. now apply nth_set_eq.
    - apply nth_set_eq. now rewrite length_set_nth.
    - intros k Ki Kj. now rewrite !nth_set_neq by auto.
    - now apply swap_perm.
  Qed.

  Lemma swap_total (h : list A) i j :
    i < length h -> j < length h -> exists h', swap h i j = Ok h'.
  Proof.
    intros Li Lj. unfold swap.
    destruct (nth_error h i) eqn:Hi; [|apply nth_error_None in Hi; lia].
    destruct (nth_error h j) eqn:Hj; [|apply nth_error_None in Hj; lia].
    eauto.
  Qed.

  Lemma nth_error_firstn_lt (l : list A) n k : k < n -> nth_error (firstn n l) k = nth_error l k.
  Proof.
    revert n k; induction l as [|a l IH]; intros [|n] [|k] H; cbn; auto; try lia.
    apply IH; lia.
  Qed.

  Lemma firstn_last_split (l : list A) n x :
    length l = S n -> nth_error l n = Some x -> l = firstn n l ++ [x].
  Proof.
    revert n; induction l as [|a l IH]; intros [|n] L H; cbn in *; try discriminate.
    - injection H as ->. destruct l; [reflexivity|discriminate].
    - f_equal. apply IH; auto.
  Qed.
End Arr.

(* ------------------------------------------------------------------------- *)
(* container/heap *)
Section HeapProofs.
  Context {A : Type}.
  Variable less : A -> A -> bool.
  Hypothesis less_asym : forall a b, less a b = true -> less b a = false.
  Hypothesis nless_trans : forall a b c, less a b = false -> less b c = false -> less a c = false.

  Lemma less_irrefl a : less a a = false.
  Proof. destruct (less a a) eqn:E; auto. now rewrite (less_asym _ _ E) in E. Qed.

  (* "h[c] is not less than h[p]" *)
  Definition nl (h : list A) (c p : nat) : Prop :=
    forall x y, nth_error h c = Some x -> nth_error h p = Some y -> less x y = false.

  (* heap order below [n] for every child whose parent index is >= lo *)
  Definition hfrom (lo n : nat) (h : list A) : Prop :=
    forall j, 0 < j < n -> lo <= (j - 1) / 2 -> nl h j ((j - 1) / 2).

  (* the loop invariant of [down]: order holds except between [i] and its children,
     and the children of [i] are in order with the parent of [i] *)
  Definition dinv (lo i n : nat) (h : list A) : Prop :=
    (forall j, 0 < j < n -> lo <= (j - 1) / 2 -> (j - 1) / 2 <> i -> nl h j ((j - 1) / 2)) /\
    (0 < i -> lo <= (i - 1) / 2 ->
     forall c, 0 < c < n -> (c - 1) / 2 = i -> nl h c ((i - 1) / 2)).

  Lemma heap_inv_hfrom h : heap_inv less h <-> hfrom 0 (length h) h.
  Proof.
    unfold heap_inv, hfrom, nl. split.
    - intros H j Hj _ x y Hx Hy. apply (H j x y); auto; lia.
    - intros H j x y Hj Hx Hy. apply (H j); auto; try lia.
      split; auto. apply nth_error_Some. congruence.
  Qed.

  Lemma down_loop_spec lo n : forall fuel h i,
    n <= length h -> n - i < fuel -> dinv lo i n h ->
    exists h' i', down_loop less fuel h i n = Ok (h', i') /\
      length h' = length h /\ Permutation h h' /\
      (forall k, k < i \/ n <= k -> nth_error h' k = nth_error h k) /\
      hfrom lo n h'.
  Proof.
    induction fuel as [|f IH]; intros h i Ln Lf [D1 D2]; [lia|].
    cbn [down_loop].
    destruct (n <=? 2 * i + 1) eqn:Eb.
    { (* no child in range *)
      exists h, i. repeat split; auto.
      intros j Hj Hlo. destruct (Nat.eq_dec ((j - 1) / 2) i) as [E|E]; [lia|]. now apply D1. }
    assert (Li : i < length h) by lia.
    assert (L1 : 2 * i + 1 < length h) by lia.
    destruct (nth_error h i) as [xi|] eqn:Hi; [|apply nth_error_None in Hi; lia].
    destruct (nth_error h (2 * i + 1)) as [x1|] eqn:H1; [|apply nth_error_None in H1; lia].
    (* pick the child *)
    assert (Hc : exists c j xj,
      (if 2 * i + 1 + 1 <? n then less_at less h (2 * i + 1 + 1) (2 * i + 1) else Ok false) = Ok c /\
      j = (if c then 2 * i + 1 + 1 else 2 * i + 1) /\ nth_error h j = Some xj /\ j < n /\
      (forall k xk, 0 < k < n -> (k - 1) / 2 = i -> nth_error h k = Some xk -> less xk xj = false)).
    { destruct (2 * i + 1 + 1 <? n) eqn:E2.
      - assert (L2 : 2 * i + 1 + 1 < length h) by lia.
        destruct (nth_error h (2 * i + 1 + 1)) as [x2|] eqn:H2; [|apply nth_error_None in H2; lia].
        unfold less_at. rewrite H2, H1.
        destruct (less x2 x1) eqn:E21.
        + exists true, (2 * i + 1 + 1), x2. repeat split; auto; try lia.
          intros k xk Hk Hp Hxk.
          assert (k = 2 * i + 1 \/ k = 2 * i + 1 + 1) as [->| ->] by lia.
          * rewrite H1 in Hxk. injection Hxk as <-. now apply less_asym.
          * rewrite H2 in Hxk. injection Hxk as <-. apply less_irrefl.
        + exists false, (2 * i + 1), x1. repeat split; auto; try lia.
          intros k xk Hk Hp Hxk.
          assert (k = 2 * i + 1 \/ k = 2 * i + 1 + 1) as [->| ->] by lia.
          * rewrite H1 in Hxk. injection Hxk as <-. apply less_irrefl.
          * rewrite H2 in Hxk. injection Hxk as <-. exact E21.
      - exists false, (2 * i + 1), x1. repeat split; auto; try lia.
        intros k xk Hk Hp Hxk.
        assert (k = 2 * i + 1) as -> by lia.
        rewrite H1 in Hxk. injection Hxk as <-. apply less_irrefl. }
    destruct Hc as (c & j & xj & -> & Hj & Hxj & Ljn & Hbest).
    cbn [bind]. rewrite <- Hj.
    assert (Hji : i < j /\ (j - 1) / 2 = i) by (destruct c; lia).
    unfold less_at at 1. rewrite Hxj, Hi. cbn [bind].
    destruct (less xj xi) eqn:Elt; cbn [negb].
    { (* swap and continue *)
      destruct (swap_total h i j) as [h1 Hsw]; try lia.
      rewrite Hsw. cbn [bind].
      destruct (swap_spec _ _ _ _ Hsw) as (a & b & Ha & Hb & Lh1 & H1i & H1j & H1k & P1).
      rewrite Hi in Ha. injection Ha as <-. rewrite Hxj in Hb. injection Hb as <-.
      destruct (IH h1 j) as (h' & i' & Hd & Lh' & P' & Fr & Hf); try lia.
      { split.
        - intros k Hk Hlo Hne x y Hx Hy.
          destruct (Nat.eq_dec k i) as [->|Ki].
          + (* k = i: its new content is xj, a child of i in h *)
            rewrite H1i in Hx. injection Hx as <-.
            rewrite H1k in Hy by lia.
            eapply (D2 ltac:(lia) Hlo j); eauto; lia.
          + destruct (Nat.eq_dec k j) as [->|Kj].
            * replace ((j - 1) / 2) with i in Hy by lia.
              rewrite H1j in Hx. rewrite H1i in Hy. injection Hx as <-. injection Hy as <-.
              now apply less_asym.
            * rewrite H1k in Hx by auto.
              destruct (Nat.eq_dec ((k - 1) / 2) i) as [Kp|Kp].
              -- rewrite Kp in Hy. rewrite H1i in Hy. injection Hy as <-.
                 eapply Hbest; eauto.
              -- rewrite H1k in Hy by auto. eapply D1; eauto.
        - intros _ Hlo c' Hc' Hp x y Hx Hy.
          replace ((j - 1) / 2) with i in * by lia.
          rewrite H1i in Hy. injection Hy as <-.
          rewrite H1k in Hx by lia.
          eapply (D1 c'); eauto; try lia. rewrite Hp. exact Hxj. }
      exists h', i'. repeat split; auto.
      - lia.
      - eapply perm_trans; eauto.
      - intros k Hk. rewrite Fr by lia. apply H1k; lia. }
    (* no swap: order holds at i *)
    exists h, i. repeat split; auto.
    intros k Hk Hlo x y Hx Hy.
    destruct (Nat.eq_dec ((k - 1) / 2) i) as [Kp|Kp].
    - rewrite Kp in Hy. rewrite Hi in Hy. injection Hy as <-.
      eapply nless_trans; [eapply Hbest; eauto|exact Elt].
    - eapply D1; eauto.
  Qed.

  Lemma dinv_vacuous i n h : dinv n i n h.
  Proof. split; intros; lia. Qed.

  Lemma down_spec lo n h i :
    n <= length h -> dinv lo i n h ->
    exists h' m, down less h i n = Ok (h', m) /\
      length h' = length h /\ Permutation h h' /\
      (forall k, k < i \/ n <= k -> nth_error h' k = nth_error h k) /\
      hfrom lo n h'.
  Proof.
    intros Ln D. unfold down.
    destruct (down_loop_spec lo n (S n) h i Ln ltac:(lia) D) as (h' & i' & -> & R).
    cbn [bind]. eauto.
  Qed.

  Lemma init_loop_spec n : forall k h,
    n <= length h -> hfrom k n h ->
    exists h', init_loop less k h n = Ok h' /\ length h' = length h /\ Permutation h h' /\
               hfrom 0 n h'.
  Proof.
    induction k as [|i IH]; intros h Ln Hf.
    - exists h. cbn. auto.
    - cbn [init_loop].
      destruct (down_spec i n h i Ln) as (h1 & m & -> & L1 & P1 & _ & F1).
      { split.
        - intros j Hj Hlo Hne. apply Hf; auto. lia.
        - intros; lia. }
      cbn [bind]. destruct (IH h1) as (h' & -> & L' & P' & F'); try lia; auto.
      exists h'. repeat split; auto; try lia. eapply perm_trans; eauto.
  Qed.

  (* heap.Init: total (never panics, never out of fuel) on every slice *)
  Lemma heap_init_spec h :
    exists h', heap_init less h = Ok h' /\ Permutation h h' /\ heap_inv less h'.
  Proof.
    unfold heap_init.
    destruct (init_loop_spec (length h) (length h / 2) h) as (h' & -> & L & P & F); auto.
    { intros j Hj Hlo. lia. }
    exists h'. repeat split; auto. apply heap_inv_hfrom. now rewrite L.
  Qed.

  Lemma up_fuel : forall fuel h j, j < fuel -> up_loop less fuel h j <> OutOfFuel.
  Proof.
    induction fuel as [|f IH]; intros h j Hj; [lia|]. cbn [up_loop].
    destruct ((j - 1) / 2 =? j) eqn:E; [discriminate|].
    destruct (less_at less h j ((j - 1) / 2)) as [lt| |] eqn:El; cbn [bind]; try discriminate.
    - destruct lt; cbn [negb]; [|discriminate].
      destruct (swap h ((j - 1) / 2) j) eqn:Es; cbn [bind]; try discriminate.
      + apply IH. lia.
      + unfold swap in Es. destruct (nth_error h ((j - 1) / 2)), (nth_error h j); discriminate.
    - unfold less_at in El. destruct (nth_error h j), (nth_error h ((j - 1) / 2)); discriminate.
  Qed.

  (* heap.Fix(h, 0) after the root was overwritten (the only use in ordering.go) *)
  Lemma heap_fix0_spec x w r :
    heap_inv less (x :: r) ->
    exists h', heap_fix less (w :: r) 0 = Ok h' /\ Permutation (w :: r) h' /\ heap_inv less h'.
  Proof.
    intros H. unfold heap_fix.
    destruct (down_spec 0 (length (w :: r)) (w :: r) 0) as (h' & m & -> & L & P & _ & F); auto.
    { split; [|intros; lia].
      intros j Hj _ Hne a b Ha Hb.
      assert (j <> 0 /\ (j - 1) / 2 <> 0) as [J0 P0] by lia.
      destruct j as [|j']; [lia|]. destruct ((S j' - 1) / 2) as [|p'] eqn:Ep; [lia|].
      cbn in Ha, Hb. eapply (H (S j')); eauto; try lia. rewrite Ep. exact Hb. }
    cbn [bind]. exists h'.
    assert (Hinv : heap_inv less h') by (apply heap_inv_hfrom; now rewrite L).
    destruct m; cbn [negb]; auto.
  Qed.

  (* heap.Pop *)
  Lemma heap_pop_spec h :
    h <> [] -> heap_inv less h ->
    exists x h', heap_pop less h = Ok (x, h') /\ nth_error h 0 = Some x /\
                 Permutation h (x :: h') /\ heap_inv less h'.
  Proof.
    intros Hne H. unfold heap_pop.
    destruct (length h) as [|n] eqn:Lh; [destruct h; [congruence|discriminate]|].
    destruct (swap_total h 0 n) as [h1 Hsw]; try lia. rewrite Hsw. cbn [bind].
    destruct (swap_spec _ _ _ _ Hsw) as (x & b & Hx & Hb & L1 & H10 & H1n & H1k & P1).
    destruct (down_spec 0 n h1 0) as (h2 & m & -> & L2 & P2 & Fr & F); try lia.
    { split; [|intros; lia].
      intros j Hj _ Hp a c Ha Hc.
      rewrite H1k in Ha by lia. rewrite H1k in Hc by lia.
      eapply (H j); eauto. lia. }
    cbn [bind]. rewrite (Fr n) by lia. rewrite H1n.
    exists x, (firstn n h2). repeat split; auto.
    - eapply perm_trans; [exact P1|]. eapply perm_trans; [exact P2|].
      rewrite (firstn_last_split h2 n x) at 1; try lia.
      + apply Permutation_sym, Permutation_cons_append.
      + rewrite (Fr n) by lia. exact H1n.
    - intros j a c Hj Ha Hc.
      assert (j < n).
      { assert (j < length (firstn n h2)) by (apply nth_error_Some; congruence).
        rewrite firstn_length in *. lia. }
      rewrite nth_error_firstn_lt in Ha by lia. rewrite nth_error_firstn_lt in Hc by lia.
      eapply (F j); eauto; lia.
  Qed.

  Lemma heap_pop_empty : heap_pop less (@nil A) = Panic.
  Proof. reflexivity. Qed.

  (* the root of a heap is a maximum: nothing is [less] than it *)
  Lemma heap_root_best h r :
    heap_inv less h -> nth_error h 0 = Some r ->
    forall y, In y h -> less y r = false.
  Proof.
    intros H Hr y Hy. apply In_nth_error in Hy as [k Hk]. revert y Hk.
    induction k as [k IH] using lt_wf_ind. intros y Hk.
    destruct k as [|k'].
    - rewrite Hr in Hk. injection Hk as <-. apply less_irrefl.
    - assert (Lp : (S k' - 1) / 2 < length h).
      { assert (S k' < length h) by (apply nth_error_Some; congruence). lia. }
      destruct (nth_error h ((S k' - 1) / 2)) as [z|] eqn:Hz; [|apply nth_error_None in Hz; lia].
      eapply nless_trans.
      + eapply (H (S k')); eauto. lia.
      + eapply (IH ((S k' - 1) / 2)); eauto. lia.
  Qed.
End HeapProofs.

(* ------------------------------------------------------------------------- *)
(* txByPriceAndTime.Less is a strict weak order *)
Local Open Scope N_scope.

Lemma less_asym a b : less a b = true -> less b a = false.
Proof.
  unfold less. rewrite (N.compare_antisym (it_fee a) (it_fee b)).
  destruct (it_fee a ?= it_fee b); cbn [CompOpp]; try discriminate; auto.
  intros H. lia.
Qed.

Lemma less_false_iff a b :
  less a b = false <->
  it_fee a < it_fee b \/
  (it_fee a = it_fee b /\ (tx_time (it_tx b) <= tx_time (it_tx a))%Z).
Proof.
  unfold less. destruct (N.compare_spec (it_fee a) (it_fee b)); split; intros H'; try lia;
    try discriminate.
Qed.

Lemma nless_trans a b c : less a b = false -> less b c = false -> less a c = false.
Proof. rewrite !less_false_iff. lia. Qed.

Lemma new_fee_spec t a bf :
  new_tx_with_miner_fee t a bf =
  if affordable bf t then Some (mkItem t a (eff_fee bf t)) else None.
Proof.
  unfold new_tx_with_miner_fee, affordable, eff_fee. destruct bf as [b|]; auto.
  destruct (tx_feecap t <? b); cbn [negb]; auto.
  do 2 f_equal. destruct (N.ltb_spec (tx_tipcap t) (tx_feecap t - b)); lia.
Qed.

(* ------------------------------------------------------------------------- *)
(* association lists *)
Lemma lookup_update_eq a v m : lookup a (update a v m) = Some v.
Proof.
  induction m as [|[b w] m IH]; cbn.
  - now rewrite N.eqb_refl.
  - destruct (b =? a) eqn:E; cbn; rewrite E; auto.
Qed.

Lemma lookup_update_neq a b v m : b <> a -> lookup b (update a v m) = lookup b m.
Proof.
  intros Hne. induction m as [|[c w] m IH]; cbn.
  - destruct (N.eqb_spec a b); congruence.
  - destruct (N.eqb_spec c a) as [->|]; cbn.
    + destruct (N.eqb_spec a b); congruence.
    + now rewrite IH.
Qed.

Lemma update_app_mid pre a x v r :
  ~ In a (map fst pre) -> update a v (pre ++ (a, x) :: r) = pre ++ (a, v) :: r.
Proof.
  induction pre as [|[b w] pre IH]; cbn; intros H.
  - now rewrite N.eqb_refl.
  - destruct (N.eqb_spec b a) as [->|]; [tauto|]. f_equal. apply IH. tauto.
Qed.

Lemma delete_notin a m : ~ In a (map fst m) -> delete a m = m.
Proof.
  unfold delete. induction m as [|[b w] m IH]; cbn; intros H; auto.
  destruct (N.eqb_spec b a) as [->|]; [tauto|]. cbn. f_equal. apply IH. tauto.
Qed.

Lemma delete_app_mid pre a x r :
  ~ In a (map fst pre) -> ~ In a (map fst r) -> delete a (pre ++ (a, x) :: r) = pre ++ r.
Proof.
  intros H1 H2. unfold delete. rewrite filter_app. cbn. rewrite N.eqb_refl. cbn.
  fold (delete a pre). fold (delete a r). now rewrite !delete_notin.
Qed.

Lemma lookup_In a l m : NoDup (map fst m) -> In (a, l) m -> lookup a m = Some l.
Proof.
  induction m as [|[b w] m IH]; cbn; intros ND H; [tauto|].
  inversion ND as [|? ? Hn ND']; subst.
  destruct H as [E|H].
  - injection E as -> ->. now rewrite N.eqb_refl.
  - destruct (N.eqb_spec b a) as [->|]; auto.
    exfalso. apply Hn. apply (in_map fst) in H. exact H.
Qed.

Lemma lookup_Some_In a l m : lookup a m = Some l -> In (a, l) m.
Proof.
  induction m as [|[b w] m IH]; cbn; [discriminate|].
  destruct (N.eqb_spec b a) as [->|]; intros H; auto. injection H as ->. auto.
Qed.

Lemma lookup_None_notin a m : lookup a m = None -> ~ In a (map fst m).
Proof.
  induction m as [|[b w] m IH]; cbn; auto.
  destruct (N.eqb_spec b a) as [->|]; [discriminate|]. intros H [E|H']; auto. now apply IH.
Qed.

Lemma In_unique (a : N) (q q' : list tx) (aq : list (N * list tx)) :
  NoDup (map fst aq) -> In (a, q) aq -> In (a, q') aq -> q = q'.
Proof.
  intros ND H H'. apply (lookup_In _ _ _ ND) in H. apply (lookup_In _ _ _ ND) in H'. congruence.
Qed.

(* ------------------------------------------------------------------------- *)
(* the abstract queue machine *)
Lemma head_items_app bf l1 l2 : head_items bf (l1 ++ l2) = head_items bf l1 ++ head_items bf l2.
Proof. apply flat_map_app. Qed.

Lemma astep_notin o a l : ~ In a (map fst l) -> astep o a l = l.
Proof.
  unfold astep. induction l as [|[b q] l IH]; cbn; intros H; auto.
  destruct (N.eqb_spec b a) as [->|]; [tauto|]. cbn. f_equal. apply IH. tauto.
Qed.

Definition astep_entry (o : op) (a : N) (q : list tx) : aqueues :=
  match o, q with OShift, _ :: ((_ :: _) as r) => [(a, r)] | _, _ => [] end.

Lemma astep_split o a q aq1 aq2 :
  ~ In a (map fst aq1) -> ~ In a (map fst aq2) ->
  astep o a (aq1 ++ (a, q) :: aq2) = aq1 ++ astep_entry o a q ++ aq2.
Proof.
  intros H1 H2. unfold astep. rewrite flat_map_app. cbn [flat_map fst snd].
  rewrite N.eqb_refl. fold (astep o a aq1). fold (astep o a aq2).
  rewrite !astep_notin by auto. reflexivity.
Qed.

Lemma astep_keys o a aq b : In b (map fst (astep o a aq)) -> In b (map fst aq).
Proof.
  unfold astep. induction aq as [|[c q] aq IH]; cbn; auto.
  destruct (N.eqb_spec c a) as [->|].
  - rewrite map_app, in_app_iff. intros [H|H]; auto.
    left. destruct o, q as [|? [|? ?]]; cbn in H; tauto.
  - cbn. intros [H|H]; auto.
Qed.

Lemma astep_NoDup o a aq : NoDup (map fst aq) -> NoDup (map fst (astep o a aq)).
Proof.
  induction aq as [|[c q] aq IH]; intros ND; [constructor|].
  inversion ND as [|? ? Hn ND']; subst.
  change (astep o a ((c, q) :: aq)) with
    ((if c =? a then astep_entry o c q else [(c, q)]) ++ astep o a aq).
  assert (Hc : ~ In c (map fst (astep o a aq))) by (intros H; apply Hn; eapply astep_keys; eauto).
  destruct (c =? a).
  - destruct o, q as [|? [|? ?]]; cbn; auto. constructor; auto.
  - cbn. constructor; auto.
Qed.

Lemma astep_removed_or_kept o a aq :
  NoDup (map fst aq) ->
  forall b q, In (b, q) aq -> b <> a -> In (b, q) (astep o a aq).
Proof.
  intros _ b q H Hne. unfold astep. apply in_flat_map. exists (b, q). split; auto.
  cbn. destruct (N.eqb_spec b a); [congruence|]. now left.
Qed.

Lemma aq_after_NoDup tr : forall aq, NoDup (map fst aq) -> NoDup (map fst (aq_after aq tr)).
Proof.
  induction tr as [|[it o] tr IH]; intros aq ND; cbn; auto. apply IH, astep_NoDup, ND.
Qed.

Lemma aq_after_app tr1 tr2 aq : aq_after aq (tr1 ++ tr2) = aq_after (aq_after aq tr1) tr2.
Proof. revert aq; induction tr1 as [|[it o] tr1 IH]; intros aq; cbn; auto. Qed.

Lemma head_in_split bf aq it :
  NoDup (map fst aq) -> In it (head_items bf aq) ->
  exists aq1 q aq2,
    aq = aq1 ++ (it_from it, it_tx it :: q) :: aq2 /\
    it = mkItem (it_tx it) (it_from it) (eff_fee bf (it_tx it)) /\
    ~ In (it_from it) (map fst aq1) /\ ~ In (it_from it) (map fst aq2).
Proof.
  intros ND H. apply in_flat_map in H as ([a q] & Hin & Hit).
  destruct q as [|t q]; cbn in Hit; [contradiction|]. destruct Hit as [<-|[]]. cbn.
  apply in_split in Hin as (aq1 & aq2 & ->). exists aq1, q, aq2.
  rewrite map_app in ND. cbn in ND. apply NoDup_remove_2 in ND. rewrite in_app_iff in ND.
  repeat split; auto.
Qed.

(* abstract traces: every yield is an available head that no available head beats *)
Fixpoint atrace (bf : option N) (aq : aqueues) (tr : list (item * op)) : Prop :=
  match tr with
  | [] => True
  | (it, o) :: r =>
      In it (head_items bf aq) /\
      (forall it', In it' (head_items bf aq) -> less it' it = false) /\
      atrace bf (astep o (it_from it) aq) r
  end.

Lemma atrace_app bf tr1 tr2 : forall aq,
  atrace bf aq (tr1 ++ tr2) -> atrace bf aq tr1 /\ atrace bf (aq_after aq tr1) tr2.
Proof.
  induction tr1 as [|[it o] tr1 IH]; intros aq H; cbn in *; auto.
  destruct H as (H1 & H2 & H3). apply IH in H3. tauto.
Qed.

Lemma proj_cons a it o tr :
  proj a ((it, o) :: tr) = if it_from it =? a then it_tx it :: proj a tr else proj a tr.
Proof. unfold proj. cbn. destruct (it_from it =? a); reflexivity. Qed.

Lemma proj_app a tr1 tr2 : proj a (tr1 ++ tr2) = proj a tr1 ++ proj a tr2.
Proof. unfold proj. now rewrite filter_app, map_app. Qed.

(* A1: per account, what is yielded is a prefix of the account's queue; accounts
   without a queue yield nothing *)
Lemma atrace_prefix bf tr : forall aq,
  NoDup (map fst aq) -> atrace bf aq tr ->
  (forall a q, In (a, q) aq -> exists s, q = proj a tr ++ s) /\
  (forall a, ~ In a (map fst aq) -> proj a tr = []).
Proof.
  induction tr as [|[it o] tr IH]; intros aq ND H.
  { split; intros; cbn; eauto. }
  destruct H as (Hin & _ & Hr).
  destruct (head_in_split _ _ _ ND Hin) as (aq1 & q0 & aq2 & Eaq & _ & N1 & N2).
  set (b := it_from it) in *.
  assert (ND' := astep_NoDup o b aq ND).
  destruct (IH _ ND' Hr) as [IH1 IH2].
  assert (Estep : astep o b aq = aq1 ++ astep_entry o b (it_tx it :: q0) ++ aq2)
    by (rewrite Eaq; now apply astep_split).
  split.
  - intros a q Hq. rewrite proj_cons. fold b.
    destruct (N.eqb_spec b a) as [<-|Hne].
    + assert (q = it_tx it :: q0) as ->.
      { apply (In_unique b _ _ aq ND Hq). rewrite Eaq. apply in_or_app. right. now left. }
      assert (Hcase : In (b, q0) (astep o b aq) \/ ~ In b (map fst (astep o b aq))).
      { rewrite Estep. destruct o, q0 as [|t1 q1]; cbn [astep_entry app].
        - right. rewrite map_app, in_app_iff. tauto.
        - left. apply in_or_app. right. now left.
        - right. rewrite map_app, in_app_iff. tauto.
        - right. rewrite map_app, in_app_iff. tauto. }
      destruct Hcase as [Hk|Hk].
      * destruct (IH1 _ _ Hk) as [s Hs]. exists s. cbn. now f_equal.
      * rewrite (IH2 _ Hk). exists q0. reflexivity.
    + apply IH1. apply astep_removed_or_kept; auto.
  - intros a Ha. rewrite proj_cons. fold b.
    destruct (N.eqb_spec b a) as [<-|Hne].
    + exfalso. apply Ha. rewrite Eaq, map_app, in_app_iff. right. now left.
    + apply IH2. intros H'. apply Ha. eapply astep_keys; eauto.
Qed.

(* A2: an all-Shift trace that empties the machine yields every queue entirely *)
Lemma atrace_complete bf tr : forall aq,
  NoDup (map fst aq) -> atrace bf aq tr -> Forall (fun p => snd p = OShift) tr ->
  aq_after aq tr = [] ->
  forall a q, In (a, q) aq -> proj a tr = q.
Proof.
  induction tr as [|[it o] tr IH]; intros aq ND H Hs He a q Hq.
  { cbn in He. subst. contradiction. }
  inversion Hs as [|? ? Ho Hs']; subst. cbn in Ho. subst o.
  destruct H as (Hin & _ & Hr). cbn in He.
  destruct (head_in_split _ _ _ ND Hin) as (aq1 & q0 & aq2 & Eaq & _ & N1 & N2).
  set (b := it_from it) in *.
  assert (ND' := astep_NoDup OShift b aq ND).
  assert (Estep : astep OShift b aq = aq1 ++ astep_entry OShift b (it_tx it :: q0) ++ aq2)
    by (rewrite Eaq; now apply astep_split).
  rewrite proj_cons. fold b.
  destruct (N.eqb_spec b a) as [<-|Hne].
  - assert (q = it_tx it :: q0) as ->.
    { apply (In_unique b _ _ aq ND Hq). rewrite Eaq. apply in_or_app. right. now left. }
    f_equal. destruct q0 as [|t1 q1].
    + apply (atrace_prefix bf tr _ ND' Hr). rewrite Estep. cbn.
      rewrite map_app, in_app_iff. tauto.
    + apply (IH _ ND' Hr Hs' He). rewrite Estep. cbn. apply in_or_app. right. now left.
  - apply (IH _ ND' Hr Hs' He). apply astep_removed_or_kept; auto.
Qed.

Lemma total_len_app l1 l2 : total_len (l1 ++ l2) = (total_len l1 + total_len l2)%nat.
Proof. unfold total_len. induction l1 as [|p l1 IH]; cbn; auto. rewrite IH. lia. Qed.

Lemma atrace_total bf tr : forall aq,
  NoDup (map fst aq) -> atrace bf aq tr -> Forall (fun p => snd p = OShift) tr ->
  (total_len (aq_after aq tr) + length tr = total_len aq)%nat.
Proof.
  induction tr as [|[it o] tr IH]; intros aq ND H Hs; cbn [aq_after length]; [lia|].
  inversion Hs as [|? ? Ho Hs']; subst. cbn in Ho. subst o.
  destruct H as (Hin & _ & Hr).
  destruct (head_in_split _ _ _ ND Hin) as (aq1 & q0 & aq2 & Eaq & _ & N1 & N2).
  pose proof (IH _ (astep_NoDup _ _ _ ND) Hr Hs') as HI.
  assert (E : (total_len (astep OShift (it_from it) aq) + 1 = total_len aq)%nat).
  { rewrite Eaq. rewrite astep_split by auto.
    rewrite !total_len_app. destruct q0 as [|t1 q1]; cbn. Show. all: lia. }
  lia.
Qed.
