(* Pool/OrderingProofs.v — proofs about Pool/Ordering.v:
   container/heap (Init / Fix at the root / Pop) on a list-as-array keeps the heap
   order, permutes the elements and never runs out of fuel; the iterator refines an
   abstract per-account queue machine, from which the ordering theorems follow. *)
From GV Require Import Lib.Tactics Pool.Ordering.
From Coq Require Import Permutation Sorted.
Local Open Scope nat_scope.

(* ------------------------------------------------------------------------- *)
(* arrays as lists *)
Section Arr.
  Context {A : Type}.

  Lemma length_set_nth (l : list A) i x : length (set_nth l i x) = length l.
  Proof. revert i; induction l as [|a l IH]; intros [|i]; cbn; auto. Qed.

  Lemma nth_set_eq (l : list A) i x : i < length l -> nth_error (set_nth l i x) i = Some x.
  Proof.
    revert i; induction l as [|a l IH]; intros [|i] H; cbn in *; try lia; auto.
    apply IH; lia.
  Qed.

  Lemma nth_set_neq (l : list A) i k x : k <> i -> nth_error (set_nth l i x) k = nth_error l k.
  Proof.
    revert i k; induction l as [|a l IH]; intros [|i] [|k] H; cbn; auto; try lia.
    all: try (apply IH; lia).
  Qed.

  Lemma set_nth_perm1 (r : list A) j a b :
    nth_error r j = Some b -> Permutation (a :: r) (b :: set_nth r j a).
  Proof.
    revert j; induction r as [|c r IH]; intros [|j] H; cbn in *; try discriminate.
    - injection H as ->. apply perm_swap.
    - eapply perm_trans; [apply perm_swap|].
      eapply perm_trans; [apply perm_skip, IH, H|]. apply perm_swap.
  Qed.

  Lemma swap_perm (h : list A) i j a b :
    nth_error h i = Some a -> nth_error h j = Some b ->
    Permutation h (set_nth (set_nth h i b) j a).
  Proof.
    revert i j; induction h as [|x r IH]; intros [|i] [|j] Hi Hj; cbn in *; try discriminate.
    - injection Hi as ->. injection Hj as ->. apply Permutation_refl.
    - injection Hi as ->. apply set_nth_perm1, Hj.
    - injection Hj as ->. apply set_nth_perm1, Hi.
    - apply perm_skip, IH; auto.
  Qed.

  Lemma swap_spec (h h' : list A) i j :
    swap h i j = Ok h' ->
    exists a b, nth_error h i = Some a /\ nth_error h j = Some b /\
      length h' = length h /\ nth_error h' i = Some b /\ nth_error h' j = Some a /\
      (forall k, k <> i -> k <> j -> nth_error h' k = nth_error h k) /\ Permutation h h'.
  Proof.
    unfold swap. destruct (nth_error h i) as [a|] eqn:Hi; [|discriminate].
    destruct (nth_error h j) as [b|] eqn:Hj; [|discriminate].
    intros E; injection E as <-. exists a, b.
    assert (Li : i < length h) by (apply nth_error_Some; congruence).
    assert (Lj : j < length h) by (apply nth_error_Some; congruence).
    repeat split; auto.
    - now rewrite !length_set_nth.
    - destruct (Nat.eq_dec i j) as [->|N].
      + rewrite nth_set_eq by (now rewrite length_set_nth). congruence.
      + rewrite nth_set_neq by auto. now apply nth_set_eq.
    - apply nth_set_eq. now rewrite length_set_nth.
    - intros k Ki Kj. now rewrite !nth_set_neq by auto.
    - now apply swap_perm.
  Qed.

  Lemma swap_total (h : list A) i j :
    i < length h -> j < length h -> exists h', swap h i j = Ok h'.
  Proof.
    intros Li Lj. unfold swap.
    destruct (nth_error h i) eqn:Hi; [|apply nth_error_None in Hi; lia].
    destruct (nth_error h j) eqn:Hj; [|apply nth_error_None in Hj; lia].
    eauto.
  Qed.

  Lemma nth_error_firstn_lt (l : list A) n k : k < n -> nth_error (firstn n l) k = nth_error l k.
  Proof.
    revert n k; induction l as [|a l IH]; intros [|n] [|k] H; cbn; auto; try lia.
    apply IH; lia.
  Qed.

  Lemma firstn_last_split (l : list A) n x :
    length l = S n -> nth_error l n = Some x -> l = firstn n l ++ [x].
  Proof.
    revert n; induction l as [|a l IH]; intros [|n] L H; cbn in *; try discriminate.
    - injection H as ->. destruct l; [reflexivity|discriminate].
    - f_equal. apply IH; auto.
  Qed.
End Arr.

(* ------------------------------------------------------------------------- *)
(* container/heap *)
Section HeapProofs.
  Context {A : Type}.
  Variable less : A -> A -> bool.
  Hypothesis less_asym : forall a b, less a b = true -> less b a = false.
  Hypothesis nless_trans : forall a b c, less a b = false -> less b c = false -> less a c = false.

  Lemma less_irrefl a : less a a = false.
  Proof. destruct (less a a) eqn:E; auto. now rewrite (less_asym _ _ E) in E. Qed.

  (* "h[c] is not less than h[p]" *)
  Definition nl (h : list A) (c p : nat) : Prop :=
    forall x y, nth_error h c = Some x -> nth_error h p = Some y -> less x y = false.

  (* heap order below [n] for every child whose parent index is >= lo *)
  Definition hfrom (lo n : nat) (h : list A) : Prop :=
    forall j, 0 < j < n -> lo <= (j - 1) / 2 -> nl h j ((j - 1) / 2).

  (* the loop invariant of [down]: order holds except between [i] and its children,
     and the children of [i] are in order with the parent of [i] *)
  Definition dinv (lo i n : nat) (h : list A) : Prop :=
    (forall j, 0 < j < n -> lo <= (j - 1) / 2 -> (j - 1) / 2 <> i -> nl h j ((j - 1) / 2)) /\
    (0 < i -> lo <= (i - 1) / 2 ->
     forall c, 0 < c < n -> (c - 1) / 2 = i -> nl h c ((i - 1) / 2)).

  Lemma heap_inv_hfrom h : heap_inv less h <-> hfrom 0 (length h) h.
  Proof.
    unfold heap_inv, hfrom, nl. split.
    - intros H j Hj _ x y Hx Hy. apply (H j x y); auto; lia.
    - intros H j x y Hj Hx Hy. apply (H j); auto; try lia.
      split; auto. apply nth_error_Some. congruence.
  Qed.

  Lemma down_loop_spec lo n : forall fuel h i,
    n <= length h -> n - i < fuel -> dinv lo i n h ->
    exists h' i', down_loop less fuel h i n = Ok (h', i') /\
      length h' = length h /\ Permutation h h' /\
      (forall k, k < i \/ n <= k -> nth_error h' k = nth_error h k) /\
      hfrom lo n h'.
  Proof.
    induction fuel as [|f IH]; intros h i Ln Lf [D1 D2]; [lia|].
    cbn [down_loop].
    destruct (n <=? 2 * i + 1) eqn:Eb.
    { (* no child in range *)
      exists h, i. repeat split; auto.
      intros j Hj Hlo. destruct (Nat.eq_dec ((j - 1) / 2) i) as [E|E]; [lia|]. now apply D1. }
    assert (Li : i < length h) by lia.
    assert (L1 : 2 * i + 1 < length h) by lia.
    destruct (nth_error h i) as [xi|] eqn:Hi; [|apply nth_error_None in Hi; lia].
    destruct (nth_error h (2 * i + 1)) as [x1|] eqn:H1; [|apply nth_error_None in H1; lia].
    (* pick the child *)
    assert (Hc : exists c j xj,
      (if 2 * i + 1 + 1 <? n then less_at less h (2 * i + 1 + 1) (2 * i + 1) else Ok false) = Ok c /\
      j = (if c then 2 * i + 1 + 1 else 2 * i + 1) /\ nth_error h j = Some xj /\ j < n /\
      (forall k xk, 0 < k < n -> (k - 1) / 2 = i -> nth_error h k = Some xk -> less xk xj = false)).
    { destruct (2 * i + 1 + 1 <? n) eqn:E2.
      - assert (L2 : 2 * i + 1 + 1 < length h) by lia.
        destruct (nth_error h (2 * i + 1 + 1)) as [x2|] eqn:H2; [|apply nth_error_None in H2; lia].
        unfold less_at. rewrite H2, H1.
        destruct (less x2 x1) eqn:E21.
        + exists true, (2 * i + 1 + 1), x2. repeat split; auto; try lia.
          intros k xk Hk Hp Hxk.
          assert (k = 2 * i + 1 \/ k = 2 * i + 1 + 1) as [->| ->] by lia.
          * rewrite H1 in Hxk. injection Hxk as <-. now apply less_asym.
          * rewrite H2 in Hxk. injection Hxk as <-. apply less_irrefl.
        + exists false, (2 * i + 1), x1. repeat split; auto; try lia.
          intros k xk Hk Hp Hxk.
          assert (k = 2 * i + 1 \/ k = 2 * i + 1 + 1) as [->| ->] by lia.
          * rewrite H1 in Hxk. injection Hxk as <-. apply less_irrefl.
          * rewrite H2 in Hxk. injection Hxk as <-. exact E21.
      - exists false, (2 * i + 1), x1. repeat split; auto; try lia.
        intros k xk Hk Hp Hxk.
        assert (k = 2 * i + 1) as -> by lia.
        rewrite H1 in Hxk. injection Hxk as <-. apply less_irrefl. }
    destruct Hc as (c & j & xj & -> & Hj & Hxj & Ljn & Hbest).
    cbn [bind]. rewrite <- Hj.
    assert (Hji : i < j /\ (j - 1) / 2 = i) by (destruct c; lia).
    unfold less_at at 1. rewrite Hxj, Hi. cbn [bind].
    destruct (less xj xi) eqn:Elt; cbn [negb].
    { (* swap and continue *)
      destruct (swap_total h i j) as [h1 Hsw]; try lia.
      rewrite Hsw. cbn [bind].
      destruct (swap_spec _ _ _ _ Hsw) as (a & b & Ha & Hb & Lh1 & H1i & H1j & H1k & P1).
      rewrite Hi in Ha. injection Ha as <-. rewrite Hxj in Hb. injection Hb as <-.
      destruct (IH h1 j) as (h' & i' & Hd & Lh' & P' & Fr & Hf); try lia.
      { split.
        - intros k Hk Hlo Hne x y Hx Hy.
          destruct (Nat.eq_dec k i) as [->|Ki].
          + (* k = i: its new content is xj, a child of i in h *)
            rewrite H1i in Hx. injection Hx as <-.
            rewrite H1k in Hy by lia.
            eapply (D2 ltac:(lia) Hlo j); eauto; lia.
          + destruct (Nat.eq_dec k j) as [->|Kj].
            * replace ((j - 1) / 2) with i in Hy by lia.
              rewrite H1j in Hx. rewrite H1i in Hy. injection Hx as <-. injection Hy as <-.
              now apply less_asym.
            * rewrite H1k in Hx by auto.
              destruct (Nat.eq_dec ((k - 1) / 2) i) as [Kp|Kp].
              -- rewrite Kp in Hy. rewrite H1i in Hy. injection Hy as <-.
                 eapply Hbest; eauto.
              -- rewrite H1k in Hy by auto. eapply D1; eauto.
        - intros _ Hlo c' Hc' Hp x y Hx Hy.
          replace ((j - 1) / 2) with i in * by lia.
          rewrite H1i in Hy. injection Hy as <-.
          rewrite H1k in Hx by lia.
          eapply (D1 c'); eauto; try lia. rewrite Hp. exact Hxj. }
      exists h', i'. repeat split; auto.
      - lia.
      - eapply perm_trans; eauto.
      - intros k Hk. rewrite Fr by lia. apply H1k; lia. }
    (* no swap: order holds at i *)
    exists h, i. repeat split; auto.
    intros k Hk Hlo x y Hx Hy.
    destruct (Nat.eq_dec ((k - 1) / 2) i) as [Kp|Kp].
    - rewrite Kp in Hy. rewrite Hi in Hy. injection Hy as <-.
      eapply nless_trans; [eapply Hbest; eauto|exact Elt].
    - eapply D1; eauto.
  Qed.

  Lemma dinv_vacuous i n h : dinv n i n h.
  Proof. split; intros; lia. Qed.

  Lemma down_spec lo n h i :
    n <= length h -> dinv lo i n h ->
    exists h' m, down less h i n = Ok (h', m) /\
      length h' = length h /\ Permutation h h' /\
      (forall k, k < i \/ n <= k -> nth_error h' k = nth_error h k) /\
      hfrom lo n h'.
  Proof.
    intros Ln D. unfold down.
    destruct (down_loop_spec lo n (S n) h i Ln ltac:(lia) D) as (h' & i' & -> & R).
    cbn [bind]. eauto.
  Qed.

  Lemma init_loop_spec n : forall k h,
    n <= length h -> hfrom k n h ->
    exists h', init_loop less k h n = Ok h' /\ length h' = length h /\ Permutation h h' /\
               hfrom 0 n h'.
  Proof.
    induction k as [|i IH]; intros h Ln Hf.
    - exists h. cbn. auto.
    - cbn [init_loop].
      destruct (down_spec i n h i Ln) as (h1 & m & -> & L1 & P1 & _ & F1).
      { split.
        - intros j Hj Hlo Hne. apply Hf; auto. lia.
        - intros; lia. }
      cbn [bind]. destruct (IH h1) as (h' & -> & L' & P' & F'); try lia; auto.
      exists h'. repeat split; auto; try lia. eapply perm_trans; eauto.
  Qed.

  (* heap.Init: total (never panics, never out of fuel) on every slice *)
  Lemma heap_init_spec h :
    exists h', heap_init less h = Ok h' /\ Permutation h h' /\ heap_inv less h'.
  Proof.
    unfold heap_init.
    destruct (init_loop_spec (length h) (length h / 2) h) as (h' & -> & L & P & F); auto.
    { intros j Hj Hlo. lia. }
    exists h'. repeat split; auto. apply heap_inv_hfrom. now rewrite L.
  Qed.

  Lemma up_fuel : forall fuel h j, j < fuel -> up_loop less fuel h j <> OutOfFuel.
  Proof.
    induction fuel as [|f IH]; intros h j Hj; [lia|]. cbn [up_loop].
    destruct ((j - 1) / 2 =? j) eqn:E; [discriminate|].
    destruct (less_at less h j ((j - 1) / 2)) as [lt| |] eqn:El; cbn [bind]; try discriminate.
    - destruct lt; cbn [negb]; [|discriminate].
      destruct (swap h ((j - 1) / 2) j) eqn:Es; cbn [bind]; try discriminate.
      + apply IH. lia.
      + unfold swap in Es. destruct (nth_error h ((j - 1) / 2)), (nth_error h j); discriminate.
    - unfold less_at in El. destruct (nth_error h j), (nth_error h ((j - 1) / 2)); discriminate.
  Qed.

  (* heap.Fix(h, 0) after the root was overwritten (the only use in ordering.go) *)
  Lemma heap_fix0_spec x w r :
    heap_inv less (x :: r) ->
    exists h', heap_fix less (w :: r) 0 = Ok h' /\ Permutation (w :: r) h' /\ heap_inv less h'.
  Proof.
    intros H. unfold heap_fix.
    destruct (down_spec 0 (length (w :: r)) (w :: r) 0) as (h' & m & -> & L & P & _ & F); auto.
    { split; [|intros; lia].
      intros j Hj _ Hne a b Ha Hb.
      assert (j <> 0 /\ (j - 1) / 2 <> 0) as [J0 P0] by lia.
      destruct j as [|j']; [lia|]. destruct ((S j' - 1) / 2) as [|p'] eqn:Ep; [lia|].
      cbn in Ha, Hb. eapply (H (S j')); eauto; try lia. rewrite Ep. exact Hb. }
    cbn [bind]. exists h'.
    assert (Hinv : heap_inv less h') by (apply heap_inv_hfrom; now rewrite L).
    destruct m; cbn [negb]; auto.
  Qed.

  (* heap.Pop *)
  Lemma heap_pop_spec h :
    h <> [] -> heap_inv less h ->
    exists x h', heap_pop less h = Ok (x, h') /\ nth_error h 0 = Some x /\
                 Permutation h (x :: h') /\ heap_inv less h'.
  Proof.
    intros Hne H. unfold heap_pop.
    destruct (length h) as [|n] eqn:Lh; [destruct h; [congruence|discriminate]|].
    destruct (swap_total h 0 n) as [h1 Hsw]; try lia. rewrite Hsw. cbn [bind].
    destruct (swap_spec _ _ _ _ Hsw) as (x & b & Hx & Hb & L1 & H10 & H1n & H1k & P1).
    destruct (down_spec 0 n h1 0) as (h2 & m & -> & L2 & P2 & Fr & F); try lia.
    { split; [|intros; lia].
      intros j Hj _ Hp a c Ha Hc.
      rewrite H1k in Ha by lia. rewrite H1k in Hc by lia.
      eapply (H j); eauto. lia. }
    cbn [bind]. rewrite (Fr n) by lia. rewrite H1n.
    exists x, (firstn n h2). repeat split; auto.
    - eapply perm_trans; [exact P1|]. eapply perm_trans; [exact P2|].
      rewrite (firstn_last_split h2 n x) at 1; try lia.
      + apply Permutation_sym, Permutation_cons_append.
      + rewrite (Fr n) by lia. exact H1n.
    - intros j a c Hj Ha Hc.
      assert (j < n).
      { assert (j < length (firstn n h2)) by (apply nth_error_Some; congruence).
        rewrite firstn_length in *. lia. }
      rewrite nth_error_firstn_lt in Ha by lia. rewrite nth_error_firstn_lt in Hc by lia.
      eapply (F j); eauto; lia.
  Qed.

  Lemma heap_pop_empty : heap_pop less (@nil A) = Panic.
  Proof. reflexivity. Qed.

  (* the root of a heap is a maximum: nothing is [less] than it *)
  Lemma heap_root_best h r :
    heap_inv less h -> nth_error h 0 = Some r ->
    forall y, In y h -> less y r = false.
  Proof.
    intros H Hr y Hy. apply In_nth_error in Hy as [k Hk]. revert y Hk.
    induction k as [k IH] using lt_wf_ind. intros y Hk.
    destruct k as [|k'].
    - rewrite Hr in Hk. injection Hk as <-. apply less_irrefl.
    - assert (Lp : (S k' - 1) / 2 < length h).
      { assert (S k' < length h) by (apply nth_error_Some; congruence). lia. }
      destruct (nth_error h ((S k' - 1) / 2)) as [z|] eqn:Hz; [|apply nth_error_None in Hz; lia].
      eapply nless_trans.
      + eapply (H (S k')); eauto. lia.
      + eapply (IH ((S k' - 1) / 2)); eauto. lia.
  Qed.
End HeapProofs.

(* ------------------------------------------------------------------------- *)
(* txByPriceAndTime.Less is a strict weak order *)
Local Open Scope N_scope.

Lemma less_asym a b : less a b = true -> less b a = false.
Proof.
  unfold less. rewrite (N.compare_antisym (it_fee a) (it_fee b)).
  destruct (it_fee a ?= it_fee b); cbn [CompOpp]; try discriminate; auto.
  intros H. lia.
Qed.

Lemma less_false_iff a b :
  less a b = false <->
  it_fee a < it_fee b \/
  (it_fee a = it_fee b /\ (tx_time (it_tx b) <= tx_time (it_tx a))%Z).
Proof.
  unfold less. destruct (N.compare_spec (it_fee a) (it_fee b)); split; intros H'; try lia;
    try discriminate.
Qed.

Lemma nless_trans a b c : less a b = false -> less b c = false -> less a c = false.
Proof. rewrite !less_false_iff. lia. Qed.

Lemma new_fee_spec t a bf :
  new_tx_with_miner_fee t a bf =
  if affordable bf t then Some (mkItem t a (eff_fee bf t)) else None.
Proof.
  unfold new_tx_with_miner_fee, affordable, eff_fee. destruct bf as [b|]; auto.
  destruct (tx_feecap t <? b); cbn [negb]; auto.
  do 2 f_equal. destruct (N.ltb_spec (tx_tipcap t) (tx_feecap t - b)); lia.
Qed.

(* ------------------------------------------------------------------------- *)
(* association lists *)
Lemma lookup_update_eq a v m : lookup a (update a v m) = Some v.
Proof.
  induction m as [|[b w] m IH]; cbn.
  - now rewrite N.eqb_refl.
  - destruct (b =? a) eqn:E; cbn; rewrite E; auto.
Qed.

Lemma lookup_update_neq a b v m : b <> a -> lookup b (update a v m) = lookup b m.
Proof.
  intros Hne. induction m as [|[c w] m IH]; cbn.
  - destruct (N.eqb_spec a b); congruence.
  - destruct (N.eqb_spec c a) as [->|]; cbn.
    + destruct (N.eqb_spec a b); congruence.
    + now rewrite IH.
Qed.

Lemma update_app_mid pre a x v r :
  ~ In a (map fst pre) -> update a v (pre ++ (a, x) :: r) = pre ++ (a, v) :: r.
Proof.
  induction pre as [|[b w] pre IH]; cbn; intros H.
  - now rewrite N.eqb_refl.
  - destruct (N.eqb_spec b a) as [->|]; [tauto|]. f_equal. apply IH. tauto.
Qed.

Lemma delete_notin a m : ~ In a (map fst m) -> delete a m = m.
Proof.
  unfold delete. induction m as [|[b w] m IH]; cbn; intros H; auto.
  destruct (N.eqb_spec b a) as [->|]; [tauto|]. cbn. f_equal. apply IH. tauto.
Qed.

Lemma delete_app_mid pre a x r :
  ~ In a (map fst pre) -> ~ In a (map fst r) -> delete a (pre ++ (a, x) :: r) = pre ++ r.
Proof.
  intros H1 H2. unfold delete. rewrite filter_app. cbn. rewrite N.eqb_refl. cbn.
  fold (delete a pre). fold (delete a r). now rewrite !delete_notin.
Qed.

Lemma lookup_In a l m : NoDup (map fst m) -> In (a, l) m -> lookup a m = Some l.
Proof.
  induction m as [|[b w] m IH]; cbn; intros ND H; [tauto|].
  inversion ND as [|? ? Hn ND']; subst.
  destruct H as [E|H].
  - injection E as -> ->. now rewrite N.eqb_refl.
  - destruct (N.eqb_spec b a) as [->|]; auto.
    exfalso. apply Hn. apply (in_map fst) in H. exact H.
Qed.

Lemma lookup_Some_In a l m : lookup a m = Some l -> In (a, l) m.
Proof.
  induction m as [|[b w] m IH]; cbn; [discriminate|].
  destruct (N.eqb_spec b a) as [->|]; intros H; auto. injection H as ->. auto.
Qed.

Lemma lookup_None_notin a m : lookup a m = None -> ~ In a (map fst m).
Proof.
  induction m as [|[b w] m IH]; cbn; auto.
  destruct (N.eqb_spec b a) as [->|]; [discriminate|]. intros H [E|H']; auto. now apply IH.
Qed.

Lemma In_unique (a : N) (q q' : list tx) (aq : list (N * list tx)) :
  NoDup (map fst aq) -> In (a, q) aq -> In (a, q') aq -> q = q'.
Proof.
  intros ND H H'. apply (lookup_In _ _ _ ND) in H. apply (lookup_In _ _ _ ND) in H'. congruence.
Qed.

(* ------------------------------------------------------------------------- *)
(* the abstract queue machine *)
Lemma head_items_app bf l1 l2 : head_items bf (l1 ++ l2) = head_items bf l1 ++ head_items bf l2.
Proof. apply flat_map_app. Qed.

Lemma astep_notin o a l : ~ In a (map fst l) -> astep o a l = l.
Proof.
  unfold astep. induction l as [|[b q] l IH]; cbn; intros H; auto.
  destruct (N.eqb_spec b a) as [->|]; [tauto|]. cbn. f_equal. apply IH. tauto.
Qed.

Definition astep_entry (o : op) (a : N) (q : list tx) : aqueues :=
  match o, q with OShift, _ :: ((_ :: _) as r) => [(a, r)] | _, _ => [] end.

Lemma astep_split o a q aq1 aq2 :
  ~ In a (map fst aq1) -> ~ In a (map fst aq2) ->
  astep o a (aq1 ++ (a, q) :: aq2) = aq1 ++ astep_entry o a q ++ aq2.
Proof.
  intros H1 H2. unfold astep. rewrite flat_map_app. cbn [flat_map fst snd].
  rewrite N.eqb_refl. fold (astep o a aq1). fold (astep o a aq2).
  rewrite !astep_notin by auto. reflexivity.
Qed.

Lemma astep_keys o a aq b : In b (map fst (astep o a aq)) -> In b (map fst aq).
Proof.
  unfold astep. induction aq as [|[c q] aq IH]; cbn; auto.
  destruct (N.eqb_spec c a) as [->|].
  - rewrite map_app, in_app_iff. intros [H|H]; auto.
    left. destruct o, q as [|? [|? ?]]; cbn in H; tauto.
  - cbn. intros [H|H]; auto.
Qed.

Lemma astep_NoDup o a aq : NoDup (map fst aq) -> NoDup (map fst (astep o a aq)).
Proof.
  induction aq as [|[c q] aq IH]; intros ND; [constructor|].
  inversion ND as [|? ? Hn ND']; subst.
  change (astep o a ((c, q) :: aq)) with
    ((if c =? a then astep_entry o c q else [(c, q)]) ++ astep o a aq).
  assert (Hc : ~ In c (map fst (astep o a aq))) by (intros H; apply Hn; eapply astep_keys; eauto).
  destruct (c =? a).
  - destruct o, q as [|? [|? ?]]; cbn; auto. constructor; auto.
  - cbn. constructor; auto.
Qed.

Lemma astep_removed_or_kept o a aq :
  NoDup (map fst aq) ->
  forall b q, In (b, q) aq -> b <> a -> In (b, q) (astep o a aq).
Proof.
  intros _ b q H Hne. unfold astep. apply in_flat_map. exists (b, q). split; auto.
  cbn. destruct (N.eqb_spec b a); [congruence|]. now left.
Qed.

Lemma aq_after_NoDup tr : forall aq, NoDup (map fst aq) -> NoDup (map fst (aq_after aq tr)).
Proof.
  induction tr as [|[it o] tr IH]; intros aq ND; cbn; auto. apply IH, astep_NoDup, ND.
Qed.

Lemma aq_after_app tr1 tr2 aq : aq_after aq (tr1 ++ tr2) = aq_after (aq_after aq tr1) tr2.
Proof. revert aq; induction tr1 as [|[it o] tr1 IH]; intros aq; cbn; auto. Qed.

Lemma head_in_split bf aq it :
  NoDup (map fst aq) -> In it (head_items bf aq) ->
  exists aq1 q aq2,
    aq = aq1 ++ (it_from it, it_tx it :: q) :: aq2 /\
    it = mkItem (it_tx it) (it_from it) (eff_fee bf (it_tx it)) /\
    ~ In (it_from it) (map fst aq1) /\ ~ In (it_from it) (map fst aq2).
Proof.
  intros ND H. apply in_flat_map in H as ([a q] & Hin & Hit).
  destruct q as [|t q]; cbn in Hit; [contradiction|]. destruct Hit as [<-|[]]. cbn.
  apply in_split in Hin as (aq1 & aq2 & ->). exists aq1, q, aq2.
  rewrite map_app in ND. cbn in ND. apply NoDup_remove_2 in ND. rewrite in_app_iff in ND.
  repeat split; auto.
Qed.

(* abstract traces: every yield is an available head that no available head beats *)
Fixpoint atrace (bf : option N) (aq : aqueues) (tr : list (item * op)) : Prop :=
  match tr with
  | [] => True
  | (it, o) :: r =>
      In it (head_items bf aq) /\
      (forall it', In it' (head_items bf aq) -> less it' it = false) /\
      atrace bf (astep o (it_from it) aq) r
  end.

Lemma atrace_app bf tr1 tr2 : forall aq,
  atrace bf aq (tr1 ++ tr2) -> atrace bf aq tr1 /\ atrace bf (aq_after aq tr1) tr2.
Proof.
  induction tr1 as [|[it o] tr1 IH]; intros aq H; cbn in *; auto.
  destruct H as (H1 & H2 & H3). apply IH in H3. tauto.
Qed.

Lemma proj_cons a it o tr :
  proj a ((it, o) :: tr) = if it_from it =? a then it_tx it :: proj a tr else proj a tr.
Proof. unfold proj. cbn. destruct (it_from it =? a); reflexivity. Qed.

Lemma proj_app a tr1 tr2 : proj a (tr1 ++ tr2) = proj a tr1 ++ proj a tr2.
Proof. unfold proj. now rewrite filter_app, map_app. Qed.

(* A1: per account, what is yielded is a prefix of the account's queue; accounts
   without a queue yield nothing *)
Lemma atrace_prefix bf tr : forall aq,
  NoDup (map fst aq) -> atrace bf aq tr ->
  (forall a q, In (a, q) aq -> exists s, q = proj a tr ++ s) /\
  (forall a, ~ In a (map fst aq) -> proj a tr = []).
Proof.
  induction tr as [|[it o] tr IH]; intros aq ND H.
  { split; intros; cbn; eauto. }
  destruct H as (Hin & _ & Hr).
  destruct (head_in_split _ _ _ ND Hin) as (aq1 & q0 & aq2 & Eaq & _ & N1 & N2).
  set (b := it_from it) in *.
  assert (ND' := astep_NoDup o b aq ND).
  destruct (IH _ ND' Hr) as [IH1 IH2].
  assert (Estep : astep o b aq = aq1 ++ astep_entry o b (it_tx it :: q0) ++ aq2)
    by (rewrite Eaq; now apply astep_split).
  split.
  - intros a q Hq. rewrite proj_cons. fold b.
    destruct (N.eqb_spec b a) as [<-|Hne].
    + assert (q = it_tx it :: q0) as ->.
      { apply (In_unique b _ _ aq ND Hq). rewrite Eaq. apply in_or_app. right. now left. }
      assert (Hcase : In (b, q0) (astep o b aq) \/ ~ In b (map fst (astep o b aq))).
      { rewrite Estep. destruct o, q0 as [|t1 q1]; cbn [astep_entry app].
        - right. rewrite map_app, in_app_iff. tauto.
        - left. apply in_or_app. right. now left.
        - right. rewrite map_app, in_app_iff. tauto.
        - right. rewrite map_app, in_app_iff. tauto. }
      destruct Hcase as [Hk|Hk].
      * destruct (IH1 _ _ Hk) as [s Hs]. exists s. cbn. now f_equal.
      * rewrite (IH2 _ Hk). exists q0. reflexivity.
    + apply IH1. apply astep_removed_or_kept; auto.
  - intros a Ha. rewrite proj_cons. fold b.
    destruct (N.eqb_spec b a) as [<-|Hne].
    + exfalso. apply Ha. rewrite Eaq, map_app, in_app_iff. right. now left.
    + apply IH2. intros H'. apply Ha. eapply astep_keys; eauto.
Qed.

(* A2: an all-Shift trace that empties the machine yields every queue entirely *)
Lemma atrace_complete bf tr : forall aq,
  NoDup (map fst aq) -> atrace bf aq tr -> Forall (fun p => snd p = OShift) tr ->
  aq_after aq tr = [] ->
  forall a q, In (a, q) aq -> proj a tr = q.
Proof.
  induction tr as [|[it o] tr IH]; intros aq ND H Hs He a q Hq.
  { cbn in He. subst. contradiction. }
  inversion Hs as [|? ? Ho Hs']; subst. cbn in Ho. subst o.
  destruct H as (Hin & _ & Hr). cbn in He.
  destruct (head_in_split _ _ _ ND Hin) as (aq1 & q0 & aq2 & Eaq & _ & N1 & N2).
  set (b := it_from it) in *.
  assert (ND' := astep_NoDup OShift b aq ND).
  assert (Estep : astep OShift b aq = aq1 ++ astep_entry OShift b (it_tx it :: q0) ++ aq2)
    by (rewrite Eaq; now apply astep_split).
  rewrite proj_cons. fold b.
  destruct (N.eqb_spec b a) as [<-|Hne].
  - assert (q = it_tx it :: q0) as ->.
    { apply (In_unique b _ _ aq ND Hq). rewrite Eaq. apply in_or_app. right. now left. }
    f_equal. destruct q0 as [|t1 q1].
    + apply (atrace_prefix bf tr _ ND' Hr). rewrite Estep. cbn.
      rewrite map_app, in_app_iff. tauto.
    + apply (IH _ ND' Hr Hs' He). rewrite Estep. cbn. apply in_or_app. right. now left.
  - apply (IH _ ND' Hr Hs' He). apply astep_removed_or_kept; auto.
Qed.

Lemma total_len_app l1 l2 : total_len (l1 ++ l2) = (total_len l1 + total_len l2)%nat.
Proof. unfold total_len. induction l1 as [|p l1 IH]; cbn; auto. rewrite IH. lia. Qed.

Lemma atrace_total bf tr : forall aq,
  NoDup (map fst aq) -> atrace bf aq tr -> Forall (fun p => snd p = OShift) tr ->
  (total_len (aq_after aq tr) + length tr = total_len aq)%nat.
Proof.
  induction tr as [|[it o] tr IH]; intros aq ND H Hs; cbn [aq_after length]; [lia|].
  inversion Hs as [|? ? Ho Hs']; subst. cbn in Ho. subst o.
  destruct H as (Hin & _ & Hr).
  destruct (head_in_split _ _ _ ND Hin) as (aq1 & q0 & aq2 & Eaq & _ & N1 & N2).
  pose proof (IH _ (astep_NoDup _ _ _ ND) Hr Hs') as HI.
  assert (E : (total_len (astep OShift (it_from it) aq) + 1 = total_len aq)%nat).
  { rewrite Eaq. rewrite astep_split by auto.
    rewrite !total_len_app. destruct q0 as [|t1 q1]; unfold total_len; cbn; lia. }
  lia.
Qed.

(* ------------------------------------------------------------------------- *)
(* the iterator refines the queue machine *)

Definition R (bf : option N) (st : state) (aq : aqueues) : Prop :=
  st_basefee st = bf /\ heap_inv less (st_heads st) /\
  Permutation (st_heads st) (head_items bf aq) /\ NoDup (map fst aq) /\
  (forall a q, In (a, q) aq ->
     exists t r, q = t :: r /\ afford_prefix bf (txs_of a (st_txs st)) = r).

Lemma R_best bf st aq h0 hr :
  R bf st aq -> st_heads st = h0 :: hr ->
  In h0 (head_items bf aq) /\
  (forall it', In it' (head_items bf aq) -> less it' h0 = false).
Proof.
  intros (Hb & Hh & Hp & ND & Hq) E. split.
  - eapply Permutation_in; [exact Hp|]. rewrite E. now left.
  - intros it' Hin.
    apply (heap_root_best less less_asym nless_trans (st_heads st)); auto.
    + rewrite E. reflexivity.
    + eapply Permutation_in; [apply Permutation_sym; exact Hp|auto].
Qed.

Lemma head_items_mid bf aq1 a t q aq2 :
  head_items bf (aq1 ++ (a, t :: q) :: aq2) =
  head_items bf aq1 ++ mkItem t a (eff_fee bf t) :: head_items bf aq2.
Proof. rewrite head_items_app. reflexivity. Qed.

Lemma drop_R bf st aq h0 hr o :
  R bf st aq -> st_heads st = h0 :: hr ->
  (forall q, In (it_from h0, it_tx h0 :: q) aq ->
             astep_entry o (it_from h0) (it_tx h0 :: q) = []) ->
  exists st', pop st = Ok st' /\ R bf st' (astep o (it_from h0) aq).
Proof.
  intros HR E Hdrop. destruct (R_best _ _ _ _ _ HR E) as [Hin _].
  destruct HR as (Hb & Hh & Hp & ND & Hq).
  destruct (heap_pop_spec less less_asym nless_trans (st_heads st))
    as (x & h' & Hpop & Hx & Pp & Hh'); auto.
  { rewrite E; discriminate. }
  rewrite E in Hx. cbn in Hx. injection Hx as <-.
  unfold pop. rewrite Hpop. cbn [bind]. eexists; split; [reflexivity|].
  destruct (head_in_split _ _ _ ND Hin) as (aq1 & q0 & aq2 & Eaq & Eit & N1 & N2).
  assert (Estep : astep o (it_from h0) aq = aq1 ++ aq2).
  { rewrite Eaq. rewrite astep_split by auto. rewrite Hdrop; auto.
    rewrite Eaq. apply in_or_app. right. now left. }
  rewrite Estep. unfold R. cbn [st_basefee st_heads st_txs].
  repeat split; auto.
  - assert (P : Permutation (h0 :: h') (head_items bf aq1 ++ h0 :: head_items bf aq2)).
    { eapply perm_trans; [apply Permutation_sym, Pp|]. eapply perm_trans; [exact Hp|].
      rewrite Eaq, head_items_mid, <- Eit. apply Permutation_refl. }
    apply Permutation_cons_app_inv in P. now rewrite head_items_app.
  - rewrite Eaq in ND. rewrite map_app in *. cbn in ND. now apply NoDup_remove_1 in ND.
  - intros a q Hin'. apply Hq. rewrite Eaq. apply in_app_or in Hin'. apply in_or_app.
    destruct Hin'; [left|right; right]; auto.
Qed.

Lemma pop_R bf st aq h0 hr :
  R bf st aq -> st_heads st = h0 :: hr ->
  exists st', pop st = Ok st' /\ R bf st' (astep OPop (it_from h0) aq).
Proof. intros HR E. eapply drop_R; eauto. Qed.

Lemma shift_R bf st aq h0 hr :
  R bf st aq -> st_heads st = h0 :: hr ->
  exists st', shift st = Ok st' /\ R bf st' (astep OShift (it_from h0) aq).
Proof.
  intros HR E.
  assert (Hq0 : forall q, In (it_from h0, it_tx h0 :: q) aq ->
                q = afford_prefix bf (txs_of (it_from h0) (st_txs st))).
  { intros q Hin. destruct HR as (_ & _ & _ & _ & Hq).
    destruct (Hq _ _ Hin) as (t & r & Et & Er). injection Et as <- <-. now symmetry. }
  assert (Hdrop : afford_prefix bf (txs_of (it_from h0) (st_txs st)) = [] ->
                  exists st', pop st = Ok st' /\ R bf st' (astep OShift (it_from h0) aq)).
  { intros En. eapply drop_R; eauto. intros q Hin. rewrite (Hq0 _ Hin), En. reflexivity. }
  assert (Hb : st_basefee st = bf) by apply HR.
  unfold shift. rewrite E.
  destruct (lookup (it_from h0) (st_txs st)) as [[|t1 rest]|] eqn:El.
  - apply Hdrop. unfold txs_of. now rewrite El.
  - rewrite new_fee_spec, Hb.
    destruct (affordable bf t1) eqn:Ea.
    + destruct (R_best _ _ _ _ _ HR E) as [Hin _].
      destruct HR as (_ & Hh & Hp & ND & Hq).
      cbn [set_nth].
      set (w := mkItem t1 (it_from h0) (eff_fee bf t1)).
      rewrite E in Hh, Hp.
      destruct (heap_fix0_spec less less_asym nless_trans h0 w hr Hh) as (hs & Hfix & Pf & Hhs).
      rewrite Hfix. cbn [bind]. eexists; split; [reflexivity|].
      destruct (head_in_split _ _ _ ND Hin) as (aq1 & q0 & aq2 & Eaq & Eit & N1 & N2).
      assert (Eq0 : q0 = t1 :: afford_prefix bf rest).
      { rewrite (Hq0 q0).
        - unfold txs_of. rewrite El. cbn. now rewrite Ea.
        - rewrite Eaq. apply in_or_app. right. now left. }
      assert (Estep : astep OShift (it_from h0) aq =
                      aq1 ++ (it_from h0, t1 :: afford_prefix bf rest) :: aq2).
      { rewrite Eaq. rewrite astep_split by auto. rewrite Eq0. reflexivity. }
      rewrite Estep. unfold R. cbn [st_basefee st_heads st_txs].
      repeat split; auto.
      * rewrite head_items_mid. fold w.
        eapply perm_trans; [apply Permutation_sym, Pf|].
        apply Permutation_cons_app.
        rewrite Eaq, head_items_mid, <- Eit in Hp.
        now apply Permutation_cons_app_inv in Hp.
      * rewrite Eaq in ND. rewrite map_app in *. exact ND.
      * intros a q Hin'.
        assert (Hcase : (a <> it_from h0 /\ In (a, q) aq) \/
                        (a = it_from h0 /\ q = t1 :: afford_prefix bf rest)).
        { apply in_app_or in Hin'. destruct Hin' as [H|[H|H]].
          - left. split.
            + intros ->. apply N1. apply (in_map fst) in H. exact H.
            + rewrite Eaq. apply in_or_app. now left.
          - right. injection H as <- <-. auto.
          - left. split.
            + intros ->. apply N2. apply (in_map fst) in H. exact H.
            + rewrite Eaq. apply in_or_app. right. now right. }
        destruct Hcase as [[Hne Hold]|[-> ->]].
        -- destruct (Hq _ _ Hold) as (t & r & -> & Hr). exists t, r. split; auto.
           unfold txs_of in *. now rewrite lookup_update_neq.
        -- exists t1, (afford_prefix bf rest). split; auto.
           unfold txs_of. now rewrite lookup_update_eq.
    + apply Hdrop. unfold txs_of. rewrite El. cbn. now rewrite Ea.
  - apply Hdrop. unfold txs_of. now rewrite El.
Qed.

Lemma shift_empty_panics st : st_heads st = [] -> shift st = Panic /\ pop st = Panic.
Proof. intros E. unfold shift, pop. rewrite E. split; reflexivity. Qed.

(* ------------------------------------------------------------------------- *)
(* the constructor *)

Definition rest_map (bf : option N) (es : amap) : amap :=
  flat_map (fun p => match snd p with
                     | t0 :: rest => if affordable bf t0 then [(fst p, rest)] else []
                     | [] => []
                     end) es.

Lemma flat_map_keys_NoDup {B} (f : N * B -> list (N * B)) l :
  (forall p q, In q (f p) -> fst q = fst p) -> (forall p, (length (f p) <= 1)%nat) ->
  NoDup (map fst l) -> NoDup (map fst (flat_map f l)).
Proof.
  intros Hk Hl. induction l as [|p l IH]; intros ND; cbn; [constructor|].
  inversion ND as [|? ? Hn ND']; subst. specialize (IH ND').
  rewrite map_app.
  destruct (f p) as [|q [|q' r]] eqn:Ef; cbn; auto.
  - constructor; auto. intros Hin. apply Hn.
    apply in_map_iff in Hin as (q2 & E2 & Hin). apply in_flat_map in Hin as (p2 & Hp2 & Hq2).
    apply Hk in Hq2. apply in_map_iff. exists p2. split; auto.
    rewrite <- Hq2, E2. apply Hk. rewrite Ef. now left.
  - specialize (Hl p). rewrite Ef in Hl. cbn in Hl. lia.
Qed.

Lemma aq_init_NoDup bf pend : NoDup (map fst pend) -> NoDup (map fst (aq_init bf pend)).
Proof.
  apply flat_map_keys_NoDup.
  - intros p q. destruct (afford_prefix bf (snd p)); cbn; [tauto|]. intros [<-|[]]. reflexivity.
  - intros p. destruct (afford_prefix bf (snd p)); cbn; lia.
Qed.

Lemma rest_map_NoDup bf pend : NoDup (map fst pend) -> NoDup (map fst (rest_map bf pend)).
Proof.
  apply flat_map_keys_NoDup.
  - intros p q. destruct (snd p) as [|t0 rest]; cbn; [tauto|].
    destruct (affordable bf t0); cbn; [|tauto]. intros [<-|[]]. reflexivity.
  - intros p. destruct (snd p) as [|t0 rest]; cbn; [lia|]. destruct (affordable bf t0); cbn; lia.
Qed.

Lemma aq_init_In bf pend a q :
  In (a, q) (aq_init bf pend) <->
  exists l, In (a, l) pend /\ q = afford_prefix bf l /\ q <> [].
Proof.
  unfold aq_init. rewrite in_flat_map. split.
  - intros ([b l] & Hin & H). cbn in H. destruct (afford_prefix bf l) as [|t r] eqn:E; [contradiction|].
    destruct H as [H|[]]. injection H as <- <-. exists l. repeat split; auto. discriminate.
  - intros (l & Hin & -> & Hne). exists (a, l). split; auto. cbn.
    destruct (afford_prefix bf l); [congruence|]. now left.
Qed.

Lemma aq_init_lookup bf pend a q :
  NoDup (map fst pend) ->
  (In (a, q) (aq_init bf pend) <-> q = afford_prefix bf (txs_of a pend) /\ q <> []).
Proof.
  intros ND. rewrite aq_init_In. unfold txs_of. split.
  - intros (l & Hin & -> & Hne). now rewrite (lookup_In _ _ _ ND Hin).
  - intros [-> Hne]. destruct (lookup a pend) as [l|] eqn:El; [|now cbn in Hne].
    exists l. split; auto. now apply lookup_Some_In.
Qed.

Lemma aq_init_cons bf a l r :
  aq_init bf ((a, l) :: r) =
  match afford_prefix bf l with [] => [] | q => [(a, q)] end ++ aq_init bf r.
Proof. reflexivity. Qed.

Lemma new_loop_spec bf : forall es hs pre,
  NoDup (map fst (pre ++ es)) -> Forall (fun p => snd p <> []) es ->
  new_loop bf es hs (pre ++ es) =
  Ok (hs ++ head_items bf (aq_init bf es), pre ++ rest_map bf es).
Proof.
  induction es as [|[a l] es IH]; intros hs pre ND Hne.
  { cbn. now rewrite !app_nil_r. }
  inversion Hne as [|? ? Hl Hne']; subst. cbn in Hl.
  destruct l as [|t0 rest]; [congruence|].
  assert (Hk : ~ In a (map fst pre) /\ ~ In a (map fst es)).
  { rewrite map_app in ND. cbn in ND. apply NoDup_remove_2 in ND. rewrite in_app_iff in ND. tauto. }
  destruct Hk as [K1 K2].
  cbn [new_loop]. rewrite new_fee_spec, aq_init_cons. cbn [afford_prefix].
  unfold rest_map. cbn [flat_map fst snd]. fold (rest_map bf es).
  destruct (affordable bf t0) eqn:Ea.
  - rewrite update_app_mid by auto.
    change (pre ++ (a, rest) :: es) with (pre ++ [(a, rest)] ++ es). rewrite app_assoc.
    rewrite IH; auto.
    + rewrite <- !app_assoc. reflexivity.
    + rewrite <- app_assoc. cbn. rewrite map_app in *. exact ND.
  - rewrite delete_app_mid by auto. rewrite IH; auto.
    rewrite map_app in *. cbn in ND. now apply NoDup_remove_1 in ND.
Qed.

Lemma new_loop_panics bf : forall es hs m a,
  In (a, []) es -> new_loop bf es hs m = Panic.
Proof.
  induction es as [|[b l] es IH]; intros hs m a Hin; [contradiction|].
  cbn [new_loop]. destruct l as [|t0 rest]; auto.
  destruct Hin as [H|H]; [discriminate|].
  destruct (new_tx_with_miner_fee t0 b bf); eapply IH; eauto.
Qed.

Lemma new_loop_ok_nonempty bf : forall es hs m r,
  new_loop bf es hs m = Ok r -> Forall (fun p => snd p <> []) es.
Proof.
  induction es as [|[b l] es IH]; intros hs m r H; [constructor|].
  cbn [new_loop] in H. destruct l as [|t0 rest]; [discriminate|].
  constructor; [discriminate|].
  destruct (new_tx_with_miner_fee t0 b bf); eapply IH; eauto.
Qed.

Lemma new_R pend bf :
  NoDup (map fst pend) -> Forall (fun p => snd p <> []) pend ->
  exists st, new_by_price_and_nonce pend bf = Ok st /\ R bf st (aq_init bf pend).
Proof.
  intros ND Hne. unfold new_by_price_and_nonce.
  pose proof (new_loop_spec bf pend [] [] ND Hne) as Hl. cbn [app] in Hl.
  rewrite Hl. cbn [bind].
  destruct (heap_init_spec less less_asym nless_trans (head_items bf (aq_init bf pend)))
    as (h' & -> & P & Hh).
  cbn [bind]. eexists; split; [reflexivity|].
  unfold R. cbn [st_basefee st_heads st_txs]. repeat split; auto.
  - now apply Permutation_sym.
  - now apply aq_init_NoDup.
  - intros a q Hin. apply aq_init_In in Hin as (l & Hin & -> & Hq).
    destruct l as [|t0 rest]; [now cbn in Hq|]. cbn in *.
    destruct (affordable bf t0) eqn:Ea; [|congruence].
    exists t0, (afford_prefix bf rest). split; auto.
    unfold txs_of. rewrite (lookup_In a rest); auto.
    + now apply rest_map_NoDup.
    + unfold rest_map. apply in_flat_map. exists (a, t0 :: rest). split; auto.
      cbn. rewrite Ea. now left.
Qed.

Lemma new_ok_nonempty pend bf st :
  new_by_price_and_nonce pend bf = Ok st -> Forall (fun p => snd p <> []) pend.
Proof.
  unfold new_by_price_and_nonce.
  destruct (new_loop bf pend [] pend) as [r| |] eqn:E; try discriminate.
  intros _. eapply new_loop_ok_nonempty; eauto.
Qed.

Lemma new_panics pend bf a : In (a, []) pend -> new_by_price_and_nonce pend bf = Panic.
Proof.
  intros H. unfold new_by_price_and_nonce. now rewrite (new_loop_panics bf pend [] pend a H).
Qed.

(* ------------------------------------------------------------------------- *)
(* the builder's loop *)

Lemma run_sim bf : forall script st aq,
  R bf st aq ->
  exists tr st', run st script = Ok (tr, st') /\ R bf st' (aq_after aq tr) /\
    atrace bf aq tr /\ map snd tr = firstn (length tr) script /\
    ((length tr < length script)%nat -> st_heads st' = []).
Proof.
  induction script as [|o script IH]; intros st aq HR.
  { exists [], st. cbn. split; [reflexivity|]. split; [exact HR|]. split; [exact I|].
    split; [reflexivity|]. lia. }
  cbn [run]. unfold peek.
  destruct (st_heads st) as [|h0 hr] eqn:E.
  { exists [], st. cbn. split; [reflexivity|]. split; [exact HR|]. split; [exact I|].
    split; [reflexivity|]. auto. }
  assert (Hstep : exists st1, apply_op o st = Ok st1 /\ R bf st1 (astep o (it_from h0) aq)).
  { destruct o; cbn [apply_op]; [eapply shift_R|eapply pop_R]; eauto. }
  destruct Hstep as (st1 & -> & HR1). cbn [bind].
  destruct (IH st1 _ HR1) as (tr & st' & -> & HR' & Ht & Hs & He). cbn [bind].
  exists ((h0, o) :: tr), st'. cbn [aq_after atrace length map snd firstn].
  destruct (R_best _ _ _ _ _ HR E) as [Hin Hbest].
  split; [reflexivity|]. split; [exact HR'|].
  split; [split; [exact Hin|split; [exact Hbest|exact Ht]]|].
  split; [now rewrite Hs|]. intros Hl. apply He. lia.
Qed.

Lemma run_from_new pend bf st script tr st' :
  NoDup (map fst pend) -> new_by_price_and_nonce pend bf = Ok st ->
  run st script = Ok (tr, st') ->
  atrace bf (aq_init bf pend) tr /\ R bf st' (aq_after (aq_init bf pend) tr) /\
  map snd tr = firstn (length tr) script /\
  ((length tr < length script)%nat -> st_heads st' = []).
Proof.
  intros ND Hnew Hrun.
  destruct (new_R pend bf ND (new_ok_nonempty _ _ _ Hnew)) as (st0 & E0 & HR).
  rewrite Hnew in E0. injection E0 as <-.
  destruct (run_sim bf script st _ HR) as (tr0 & st0 & E1 & H).
  rewrite Hrun in E1. injection E1 as <- <-. tauto.
Qed.

(* ------------------------------------------------------------------------- *)
(* the ordering theorems, for every input map, base fee and Shift/Pop script *)

Section FromNew.
  Variables (pend : amap) (bf : option N) (st : state).
  Hypothesis ND : NoDup (map fst pend).
  Hypothesis Hnew : new_by_price_and_nonce pend bf = Ok st.

  Lemma run_total script : exists tr st', run st script = Ok (tr, st').
  Proof.
    destruct (new_R pend bf ND (new_ok_nonempty _ _ _ Hnew)) as (st0 & E0 & HR).
    rewrite Hnew in E0. injection E0 as <-.
    destruct (run_sim bf script st _ HR) as (tr & st' & E & _). eauto.
  Qed.

  Section Run.
  Variables (script : list op) (tr : list (item * op)) (st' : state).
  Hypothesis Hrun : run st script = Ok (tr, st').

  Lemma reach_heap_inv : heap_inv less (st_heads st').
  Proof. destruct (run_from_new _ _ _ _ _ _ ND Hnew Hrun) as (_ & HR & _). apply HR. Qed.

  Lemma peek_is_best tr1 it o tr2 :
    tr = tr1 ++ (it, o) :: tr2 ->
    In it (avail bf pend tr1) /\
    (forall it', In it' (avail bf pend tr1) -> less it' it = false).
  Proof.
    intros E. destruct (run_from_new _ _ _ _ _ _ ND Hnew Hrun) as (Ht & _).
    rewrite E in Ht. apply atrace_app in Ht as [_ Ht]. cbn in Ht. unfold avail. tauto.
  Qed.

  Lemma peek_final_is_best it :
    peek st' = Some it ->
    In it (avail bf pend tr) /\
    (forall it', In it' (avail bf pend tr) -> less it' it = false).
  Proof.
    unfold peek. destruct (st_heads st') as [|h0 hr] eqn:E; [discriminate|].
    intros H; injection H as <-.
    destruct (run_from_new _ _ _ _ _ _ ND Hnew Hrun) as (_ & HR & _).
    exact (R_best _ _ _ _ _ HR E).
  Qed.

  Lemma empty_iff : empty st' = true <-> avail bf pend tr = [].
  Proof.
    destruct (run_from_new _ _ _ _ _ _ ND Hnew Hrun) as (_ & HR & _).
    destruct HR as (_ & _ & P & _). unfold avail, empty.
    destruct (st_heads st') as [|h0 hr]; split; intros H; auto.
    - now apply Permutation_nil in P.
    - discriminate.
    - rewrite H in P. apply Permutation_sym, Permutation_nil in P. discriminate.
  Qed.

  Lemma per_account_prefix a : exists s, afford_prefix bf (txs_of a pend) = proj a tr ++ s.
  Proof.
    destruct (run_from_new _ _ _ _ _ _ ND Hnew Hrun) as (Ht & _).
    destruct (atrace_prefix bf tr _ (aq_init_NoDup bf pend ND) Ht) as [P1 P2].
    destruct (afford_prefix bf (txs_of a pend)) as [|t q] eqn:E.
    - exists []. rewrite P2; auto. intros Hin.
      apply in_map_iff in Hin as ([b q] & Eb & Hin). cbn in Eb. subst b.
      apply (aq_init_lookup bf pend a q ND) in Hin as [-> Hne]. congruence.
    - apply P1. apply (aq_init_lookup bf pend a _ ND). rewrite E. split; [reflexivity|discriminate].
  Qed.

  Lemma afford_prefix_is_prefix l : exists s, l = afford_prefix bf l ++ s.
  Proof.
    induction l as [|t l [s IH]]; cbn; [now exists []|].
    destruct (affordable bf t); [|now exists (t :: l)].
    exists s. cbn. now f_equal.
  Qed.

  Lemma input_prefix a : exists s, txs_of a pend = proj a tr ++ s.
  Proof.
    destruct (per_account_prefix a) as [s Hs].
    destruct (afford_prefix_is_prefix (txs_of a pend)) as [s' Hs'].
    exists (s ++ s'). rewrite Hs' at 1. rewrite Hs. now rewrite app_assoc.
  Qed.

  Lemma never_before_predecessor tr1 it o tr2 :
    tr = tr1 ++ (it, o) :: tr2 ->
    nth_error (txs_of (it_from it) pend) (length (proj (it_from it) tr1)) = Some (it_tx it) /\
    firstn (length (proj (it_from it) tr1)) (txs_of (it_from it) pend) = proj (it_from it) tr1.
  Proof.
    intros E. destruct (input_prefix (it_from it)) as [s Hs].
    rewrite E, proj_app, proj_cons, N.eqb_refl, <- app_assoc in Hs. rewrite Hs. split.
    - rewrite nth_error_app2 by lia. now rewrite Nat.sub_diag.
    - rewrite firstn_app, Nat.sub_diag, firstn_all. cbn. apply app_nil_r.
  Qed.

  Lemma sorted_app_l {B} (Rel : B -> B -> Prop) l1 l2 :
    StronglySorted Rel (l1 ++ l2) -> StronglySorted Rel l1.
  Proof.
    induction l1 as [|x l1 IH]; cbn; intros H; [constructor|].
    inversion H as [|? ? Hs Hf]; subst. constructor; auto.
    apply Forall_app in Hf. tauto.
  Qed.

  Lemma per_account_nonce_order :
    (forall a l, In (a, l) pend -> StronglySorted N.lt (map tx_nonce l)) ->
    forall a, StronglySorted N.lt (map tx_nonce (proj a tr)).
  Proof.
    intros Hs a. destruct (input_prefix a) as [s E].
    assert (H : StronglySorted N.lt (map tx_nonce (txs_of a pend))).
    { unfold txs_of. destruct (lookup a pend) as [l|] eqn:El; [|constructor].
      apply (Hs a). apply lookup_Some_In, El. }
    rewrite E, map_app in H. eapply sorted_app_l; eauto.
  Qed.

  Lemma astep_pop_notin a aq : ~ In a (map fst (astep OPop a aq)).
  Proof.
    unfold astep. induction aq as [|[c q] aq IH]; cbn; auto.
    destruct (N.eqb_spec c a) as [->|Hne]; cbn; auto.
    intros [H|H]; auto.
  Qed.

  Lemma pop_drops_account tr1 it tr2 :
    tr = tr1 ++ (it, OPop) :: tr2 -> proj (it_from it) tr2 = [].
  Proof.
    intros E. destruct (run_from_new _ _ _ _ _ _ ND Hnew Hrun) as (Ht & _).
    rewrite E in Ht. apply atrace_app in Ht as [_ Ht]. cbn in Ht. destruct Ht as (_ & _ & Ht).
    assert (ND1 := aq_after_NoDup tr1 _ (aq_init_NoDup bf pend ND)).
    eapply atrace_prefix; [apply astep_NoDup, ND1|exact Ht|apply astep_pop_notin].
  Qed.

  Lemma yields_affordable it o : In (it, o) tr ->
    affordable bf (it_tx it) = true /\ it_fee it = eff_fee bf (it_tx it) /\
    In (it_tx it) (txs_of (it_from it) pend).
  Proof.
    intros Hin. apply in_split in Hin as (tr1 & tr2 & E).
    destruct (peek_is_best _ _ _ _ E) as [Hav _]. unfold avail in Hav.
    assert (ND1 := aq_after_NoDup tr1 _ (aq_init_NoDup bf pend ND)).
    destruct (head_in_split _ _ _ ND1 Hav) as (_ & _ & _ & _ & Eit & _).
    destruct (never_before_predecessor _ _ _ _ E) as [Hn _].
    destruct (per_account_prefix (it_from it)) as [s Hs].
    rewrite E, proj_app, proj_cons, N.eqb_refl in Hs.
    repeat split.
    - assert (Hall : forall l t, In t (afford_prefix bf l) -> affordable bf t = true).
      { intros l t. induction l as [|x l IH]; cbn; [tauto|].
        destruct (affordable bf x) eqn:Ex; cbn; [|tauto]. intros [<-|H]; auto. }
      eapply Hall. rewrite Hs. apply in_or_app. left. apply in_or_app. right. now left.
    - rewrite Eit. reflexivity.
    - eapply nth_error_In; eauto.
  Qed.
  End Run.

  Lemma all_shift : forall (tr : list (item * op)) m k,
    map snd tr = firstn k (repeat OShift m) -> Forall (fun p => snd p = OShift) tr.
  Proof.
    induction tr as [|p tr IH]; intros m k H; [constructor|].
    destruct k as [|k], m as [|m]; cbn in H; try discriminate.
    injection H as Hp Ht. constructor; eauto.
  Qed.

  Lemma R_heads_nil s aq : R bf s aq -> st_heads s = [] -> aq = [].
  Proof.
    intros (_ & _ & P & _ & Hq) E. destruct aq as [|[a q] aq]; auto.
    destruct (Hq a q (or_introl eq_refl)) as (t & r & -> & _).
    rewrite E in P. apply Permutation_nil in P. discriminate.
  Qed.

  Lemma R_total_zero s aq : R bf s aq -> total_len aq = O -> aq = [].
  Proof.
    intros (_ & _ & _ & _ & Hq) E. destruct aq as [|[a q] aq]; auto.
    destruct (Hq a q (or_introl eq_refl)) as (t & r & -> & _). cbn in E. lia.
  Qed.

  (* all-Shift to exhaustion enumerates exactly the affordable prefixes *)
  Lemma yields_all m :
    (total_len (aq_init bf pend) <= m)%nat ->
    exists tr st', run st (repeat OShift m) = Ok (tr, st') /\ empty st' = true /\
      length tr = total_len (aq_init bf pend) /\
      forall a, proj a tr = afford_prefix bf (txs_of a pend).
  Proof.
    intros Hm. destruct (run_total (repeat OShift m)) as (tr & st' & Hrun).
    exists tr, st'. split; auto.
    destruct (run_from_new _ _ _ _ _ _ ND Hnew Hrun) as (Ht & HR & Hs & He).
    assert (NDq := aq_init_NoDup bf pend ND).
    assert (Hall := all_shift _ _ _ Hs).
    assert (Htot := atrace_total bf tr _ NDq Ht Hall).
    assert (Hlen : (length tr <= m)%nat).
    { apply (f_equal (@length op)) in Hs. rewrite map_length, firstn_length, repeat_length in Hs. lia. }
    assert (Hnil : aq_after (aq_init bf pend) tr = []).
    { destruct (Nat.lt_ge_cases (length tr) m) as [Hlt|Hge].
      - eapply R_heads_nil; eauto. apply He. now rewrite repeat_length.
      - eapply R_total_zero; eauto. lia. }
    rewrite Hnil in Htot. cbn in Htot.
    split; [|split; [lia|]].
    - unfold empty. destruct HR as (_ & _ & P & _). rewrite Hnil in P. cbn in P.
      apply Permutation_sym, Permutation_nil in P. now rewrite P.
    - intros a. destruct (atrace_prefix bf tr _ NDq Ht) as [_ P2].
      destruct (afford_prefix bf (txs_of a pend)) as [|t q] eqn:E.
      + apply P2. intros Hin.
        apply in_map_iff in Hin as ([b q] & Eb & Hin). cbn in Eb. subst b.
        apply (aq_init_lookup bf pend a q ND) in Hin as [-> Hne]. congruence.
      + apply (atrace_complete bf tr _ NDq Ht Hall Hnil).
        apply (aq_init_lookup bf pend a _ ND). rewrite E. split; [reflexivity|discriminate].
  Qed.
End FromNew.

(* ------------------------------------------------------------------------- *)
(* what [avail] is, in terms of the input and the earlier trace only *)

Lemma astep_In_other o b aq a q : In (a, q) (astep o b aq) -> a <> b -> In (a, q) aq.
Proof.
  unfold astep. intros H Hne. apply in_flat_map in H as ([c q'] & Hin & H). cbn in H.
  destruct (N.eqb_spec c b) as [->|].
  - destruct o, q' as [|? [|? ?]]; cbn in H; try contradiction.
    destruct H as [H|[]]. injection H as ? ?; subst. congruence.
  - destruct H as [H|[]]. injection H as ? ?; subst. auto.
Qed.

Lemma aq_after_char bf tr : forall aq, NoDup (map fst aq) -> atrace bf aq tr ->
  forall a q,
  (In (a, q) (aq_after aq tr) -> In (a, proj a tr ++ q) aq /\ no_pop a tr) /\
  (q <> [] -> In (a, proj a tr ++ q) aq -> no_pop a tr -> In (a, q) (aq_after aq tr)).
Proof.
  induction tr as [|[it o] tr IH]; intros aq ND H a q.
  { cbn. split; [intros Hin; split; auto; intros it []|auto]. }
  destruct H as (Hin & _ & Hr). cbn [aq_after].
  destruct (head_in_split _ _ _ ND Hin) as (aq1 & q0 & aq2 & Eaq & _ & N1 & N2).
  set (b := it_from it) in *.
  assert (ND' := astep_NoDup o b aq ND).
  assert (Estep : astep o b aq = aq1 ++ astep_entry o b (it_tx it :: q0) ++ aq2)
    by (rewrite Eaq; now apply astep_split).
  destruct (IH _ ND' Hr a q) as [IH1 IH2].
  rewrite proj_cons. fold b.
  assert (Hhead : In (b, it_tx it :: q0) aq) by (rewrite Eaq; apply in_or_app; right; now left).
  destruct (N.eqb_spec b a) as [<-|Hne].
  - split.
    + intros Hq. destruct (IH1 Hq) as [Hq' Hnp].
      assert (o = OShift /\ q0 = proj b tr ++ q) as [-> ->].
      { rewrite Estep in Hq'. apply in_app_or in Hq' as [Hq'|Hq'].
        - exfalso. apply N1. apply (in_map fst) in Hq'. exact Hq'.
        - apply in_app_or in Hq' as [Hq'|Hq'].
          + destruct o, q0 as [|t1 q1]; cbn in Hq'; try contradiction.
            destruct Hq' as [Hq'|[]]. injection Hq' as Hq'. split; auto.
          + exfalso. apply N2. apply (in_map fst) in Hq'. exact Hq'. }
      split; [exact Hhead|].
      intros it' [E|Hin']; [discriminate|]. now apply Hnp.
    + intros Hqne Hq Hnp.
      assert (E : it_tx it :: q0 = (it_tx it :: proj b tr) ++ q) by (apply (In_unique b _ _ aq ND Hhead Hq)).
      injection E as E.
      assert (o = OShift).
      { destruct o; auto. exfalso. apply (Hnp it); [now left|reflexivity]. }
      subst o. apply IH2; auto.
      * rewrite Estep, E. destruct (proj b tr ++ q) as [|t1 q1] eqn:Ep.
        { destruct (proj b tr); cbn in Ep; congruence. }
        cbn. apply in_or_app. right. now left.
      * intros it' Hin'. apply Hnp. now right.
  - split.
    + intros Hq. destruct (IH1 Hq) as [Hq' Hnp]. split.
      * eapply astep_In_other; eauto.
      * intros it' [E|Hin']; [|now apply Hnp]. injection E as <- _. exact Hne.
    + intros Hqne Hin' Hnp. apply IH2; auto.
      * apply astep_removed_or_kept; auto.
      * intros it' Hin''. apply Hnp. now right.
Qed.

(* an item is available after [tr] iff its account was not popped and the item is the
   first transaction after those already yielded of the account's affordable prefix *)
Lemma avail_char pend bf st script tr st' :
  NoDup (map fst pend) -> new_by_price_and_nonce pend bf = Ok st ->
  run st script = Ok (tr, st') ->
  forall it, In it (avail bf pend tr) <->
    (it_fee it = eff_fee bf (it_tx it) /\ no_pop (it_from it) tr /\
     exists s, afford_prefix bf (txs_of (it_from it) pend) =
               proj (it_from it) tr ++ it_tx it :: s).
Proof.
  intros ND Hnew Hrun it.
  destruct (run_from_new _ _ _ _ _ _ ND Hnew Hrun) as (Ht & _).
  assert (NDq := aq_init_NoDup bf pend ND).
  assert (ND1 := aq_after_NoDup tr _ NDq).
  unfold avail. split.
  - intros Hin. destruct (head_in_split _ _ _ ND1 Hin) as (aq1 & q0 & aq2 & Eaq & Eit & _).
    assert (Hq : In (it_from it, it_tx it :: q0) (aq_after (aq_init bf pend) tr))
      by (rewrite Eaq; apply in_or_app; right; now left).
    apply (aq_after_char bf tr _ NDq Ht) in Hq as [Hq Hnp].
    apply (aq_init_lookup bf pend _ _ ND) in Hq as [Hq _].
    split; [rewrite Eit; reflexivity|]. split; auto. exists q0. now symmetry.
  - intros (Hfee & Hnp & s & Hs).
    assert (Hq : In (it_from it, it_tx it :: s) (aq_after (aq_init bf pend) tr)).
    { apply (aq_after_char bf tr _ NDq Ht); auto; [discriminate|].
      apply (aq_init_lookup bf pend _ _ ND). split; [now symmetry|].
      destruct (proj (it_from it) tr); discriminate. }
    unfold head_items. apply in_flat_map. eexists; split; [exact Hq|].
    cbn. left. destruct it; cbn in *. now subst.
Qed.
