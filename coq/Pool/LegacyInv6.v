(* Pool/LegacyInv6.v — pending_affordable through all histories: every pending transaction is
   individually payable from its sender's balance and fits the block gas limit of the current head. *)
From GV Require Import Lib.Tactics Pool.Legacy Pool.LegacyProofs Pool.LegacyInv Pool.LegacyInv2 Pool.LegacyInv3 Pool.LegacyInv4 Pool.LegacyInv5.
From Coq Require Import Sorting.Sorted.
Local Open Scope N_scope.

Definition aff (ch : chain) (x : tx) : Prop :=
  cost x <= ch_bal ch (t_from x) /\ t_gas x <= ch_gaslimit ch /\ ch_nonce ch (t_from x) <= t_nonce x.
(* pending_affordable *)
Definition PAff (st : pool) : Prop :=
  forall b x, in_opt x (p_pending st b) -> t_from x = b /\ aff (p_chain st) x.

(* pending lists only shrink *)
Definition PSub (st st' : pool) : Prop := forall b x, in_opt x (p_pending st' b) -> in_opt x (p_pending st b).
Lemma PSub_refl : forall st, PSub st st. Proof. intros st b x H. exact H. Qed.
Lemma PSub_trans : forall a b c, PSub a b -> PSub b c -> PSub a c.
Proof. intros a b c H1 H2 k x H. apply H1, H2, H. Qed.
Lemma PSub_eq : forall st st', p_pending st' = p_pending st -> PSub st st'.
Proof. intros st st' E b x H. rewrite E in H. exact H. Qed.
Lemma PSub_core : forall st st', core st' = core st -> PSub st st'.
Proof. intros st st' Hc. core_inv Hc. apply PSub_eq, Epend. Qed.

Lemma pend_chk : forall l s, p_pending (chk l s) = p_pending s.
Proof. intros. unfold chk. destruct (_ <? _)%Z; reflexivity. Qed.
Lemma pend_put_queue : forall a l s, p_pending (put_queue a l s) = p_pending s.
Proof. intros. unfold put_queue. rewrite pend_chk. reflexivity. Qed.
Lemma pend_all_remove : forall t s, p_pending (all_remove t s) = p_pending s.
Proof. intros. unfold all_remove. destruct (all_has t s); reflexivity. Qed.
Lemma pend_q_remove : forall a t s, p_pending (q_remove a t s) = p_pending s.
Proof.
  intros. unfold q_remove. destruct (p_queue s a) as [fl|]; [|reflexivity].
  destruct (sm_get (t_nonce t) (l_txs fl)) as [o|].
  - destruct (negb (tx_eqb o t)); [reflexivity|]. destruct (list_remove t fl) as [[b inv] fl'].
    destruct (l_empty fl'); [rewrite pend_chk; reflexivity | apply pend_put_queue].
  - destruct (l_empty fl); reflexivity.
Qed.
Lemma pend_q_add : forall t s, p_pending (snd (q_add t s)) = p_pending s.
Proof.
  intros. unfold q_add. destruct (list_add t _ _) as [[old| |] l1]; cbn [snd].
  - destruct (p_beats (put_queue (t_from t) l1 s) (t_from t)); cbn; apply pend_put_queue.
  - apply pend_put_queue.
  - cbn. apply pend_put_queue.
Qed.

Lemma list_remove_sub : forall t l b inv l', list_remove t l = (b, inv, l') -> forall x, In x (l_txs l') -> In x (l_txs l).
Proof.
  intros t l b inv l' E x Hx. unfold list_remove, sm_remove in E. destruct (sm_get (t_nonce t) (l_txs l)); [|inversion E; subst; exact Hx].
  destruct (l_strict l); [unfold sm_filter in E|]; inversion E; subst; cbn [with_txs l_txs] in Hx; repeat (apply filter_In in Hx; destruct Hx as [Hx _]); exact Hx.
Qed.
Lemma list_cap_sub : forall n l d l', list_cap n l = (d, l') -> forall x, In x (l_txs l') -> In x (l_txs l).
Proof.
  intros n l d l' E x Hx. unfold list_cap, sm_cap in E. destruct (Nat.leb _ _); inversion E; subst; cbn [with_txs l_txs] in Hx; [exact Hx | eapply In_firstn', Hx].
Qed.

(* removeTx / enqueueTx never add to a pending list *)
Lemma remove_enqueue_PSub : forall fuel,
  (forall t oob st, PSub st (fst (remove_tx fuel t oob st))) /\ (forall t b st, PSub st (fst (enqueue_tx fuel t b st))).
Proof.
  induction fuel as [|k [IHr IHe]]; split; intros; cbn [remove_tx enqueue_tx fst]; try (apply PSub_core, core_set_fuel).
  - destruct (negb (all_has t st)); [apply PSub_refl|].
    set (st2 := if oob then priced_removed 1 (all_remove t st) else all_remove t st).
    assert (P2 : p_pending st2 = p_pending st).
    { unfold st2. destruct oob; [|apply pend_all_remove]. pose proof (core_priced_removed 1 (all_remove t st)) as Hc. core_inv Hc. rewrite Epend. apply pend_all_remove. }
    assert (Hq : PSub st (q_remove (t_from t) t st2)) by (apply PSub_eq; rewrite pend_q_remove; exact P2).
    rewrite P2. destruct (p_pending st (t_from t)) as [pl|] eqn:Ep; [|exact Hq].
    destruct (list_remove t pl) as [[found inv] pl'] eqn:Er. destruct found; [|exact Hq]. cbn [fst].
    eapply PSub_trans; [|apply PSub_core, core_pn_set_if_lower].
    set (st3 := if l_empty pl' then chk pl' (del_pending (t_from t) st2) else put_pending (t_from t) pl' st2).
    assert (H3 : PSub st st3).
    { intros b x Hx. unfold st3, put_pending in Hx. destruct (l_empty pl'); rewrite pend_chk in Hx; cbn in Hx; rewrite P2 in Hx;
        unfold upd in Hx; destruct (b =? t_from t) eqn:E; try exact Hx; try destruct Hx.
      apply N.eqb_eq in E. subst b. rewrite Ep. cbn [in_opt] in *. eapply list_remove_sub; eassumption. }
    eapply PSub_trans; [exact H3|]. clear Er. generalize st3. induction inv as [|y inv IHi]; intros s; cbn [fold_left]; [apply PSub_refl|].
    eapply PSub_trans; [apply IHe | apply IHi].
  - pose proof (pend_q_add t st) as Hq. destruct (q_add t st) as [[|replaced] st1]; cbn [snd fst] in *; [apply PSub_eq, Hq|].
    assert (H2 : PSub st (match replaced with Some o => fst (remove_tx k o true st1) | None => st1 end)).
    { destruct replaced; [eapply PSub_trans; [apply PSub_eq, Hq | apply IHr] | apply PSub_eq, Hq]. }
    destruct b; [|exact H2]. eapply PSub_trans; [exact H2|]. apply PSub_eq. reflexivity.
Qed.

Lemma fold_pend_same {A} (g : pool -> A -> pool) : (forall s x, p_pending (g s x) = p_pending s) ->
  forall l s, p_pending (fold_left g l s) = p_pending s.
Proof. intros Hg l. induction l as [|x l IH]; intros s; cbn [fold_left]; [reflexivity | rewrite IH; apply Hg]. Qed.

Lemma pend_put_pending : forall a l s b, p_pending (put_pending a l s) b = upd (p_pending s) a (Some l) b.
Proof. intros. unfold put_pending. rewrite pend_chk. reflexivity. Qed.

Lemma trunc_one_PSub : forall a st, PSub st (trunc_one a st).
Proof.
  intros a st. unfold trunc_one. destruct (p_pending st a) as [l|] eqn:Ep; [|apply PSub_refl].
  destruct (list_cap (Nat.pred (l_len l)) l) as [caps l'] eqn:Ec.
  eapply PSub_trans; [|apply PSub_core, core_priced_removed].
  intros b x Hx. rewrite fold_pend_same in Hx.
  - rewrite pend_put_pending in Hx. unfold upd in Hx. destruct (b =? a) eqn:E; [|exact Hx].
    apply N.eqb_eq in E. subst b. rewrite Ep. cbn [in_opt] in *. eapply list_cap_sub; eassumption.
  - intros s t. pose proof (core_pn_set_if_lower a (t_nonce t) (all_remove t s)) as Hc. core_inv Hc. rewrite Epend. apply pend_all_remove.
Qed.

Lemma trunc_fold_PSub : forall offs p st, PSub st (snd (fold_left (fun '(p, s) a => (Nat.pred p, trunc_one a s)) offs (p, st))).
Proof.
  induction offs as [|a offs IH]; intros p st; cbn [fold_left snd]; [apply PSub_refl|].
  eapply PSub_trans; [apply trunc_one_PSub | apply IH].
Qed.
Lemma trunc_equalize_PSub : forall fuel g offs lb th p st, PSub st (snd (trunc_equalize fuel g offs lb th p st)).
Proof.
  induction fuel as [|k IH]; intros; cbn [trunc_equalize]; [apply PSub_core, core_set_fuel|].
  destruct (_ && _); [|apply PSub_refl].
  pose proof (trunc_fold_PSub offs p st) as H1.
  destruct (fold_left (fun '(p0, s) a => (Nat.pred p0, trunc_one a s)) offs (p, st)) as [p' st']. cbn [snd] in H1.
  eapply PSub_trans; [exact H1 | apply IH].
Qed.
Lemma trunc_phase1_PSub : forall fuel g sp offs p st, PSub st (snd (trunc_phase1 fuel g sp offs p st)).
Proof.
  intros fuel g sp. induction sp as [|[n off] rest IH]; intros; cbn [trunc_phase1]; [apply PSub_refl|].
  destruct (Nat.ltb g p); [|apply PSub_refl]. destruct (rev offs) as [|lb r]; [apply IH|].
  pose proof (trunc_equalize_PSub fuel g offs lb (pending_len off st) p st) as H1.
  destruct (trunc_equalize fuel g offs lb (pending_len off st) p st) as [p' st']. cbn [snd] in H1.
  eapply PSub_trans; [exact H1 | apply IH].
Qed.
Lemma trunc_phase2_PSub : forall fuel g a offs lo p st, PSub st (snd (trunc_phase2 fuel g a offs lo p st)).
Proof.
  induction fuel as [|k IH]; intros; cbn [trunc_phase2]; [apply PSub_core, core_set_fuel|].
  destruct (_ && _); [|apply PSub_refl].
  pose proof (trunc_fold_PSub offs p st) as H1.
  destruct (fold_left (fun '(p0, s) a0 => (Nat.pred p0, trunc_one a0 s)) offs (p, st)) as [p' st']. cbn [snd] in H1.
  eapply PSub_trans; [exact H1 | apply IH].
Qed.
Lemma truncate_pending_PSub : forall st, PSub st (truncate_pending st).
Proof.
  intros st. unfold truncate_pending. destruct (Nat.leb _ _); [apply PSub_refl|].
  match goal with |- context [trunc_phase1 ?f ?g ?sp ?o ?p ?s] =>
    pose proof (trunc_phase1_PSub f g sp o p s) as H1; destruct (trunc_phase1 f g sp o p s) as [[offenders p1] st1] end.
  cbn [snd] in H1. destruct (rev offenders) as [|lo r]; [exact H1|]. destruct (Nat.ltb _ p1); [|exact H1].
  eapply PSub_trans; [exact H1 | apply trunc_phase2_PSub].
Qed.

(* promoteTx adds at most the promoted tx *)
Lemma promote_tx_PG : forall t st b x, in_opt x (p_pending (promote_tx t st) b) -> in_opt x (p_pending st b) \/ (x = t /\ b = t_from t).
Proof.
  intros t st b x Hx. unfold promote_tx in Hx.
  set (l0 := match p_pending st (t_from t) with Some l => l | None => new_list true end) in *.
  assert (Hl0 : forall y, In y (l_txs l0) -> in_opt y (p_pending st (t_from t))) by (intros y Hy; unfold l0 in Hy; destruct (p_pending st (t_from t)); [exact Hy | destruct Hy]).
  destruct (list_add t (c_bump (p_cfg st)) l0) as [[old| |] l1] eqn:Ea.
  - destruct (list_add_ok_inv _ _ _ _ _ Ea) as [_ [Ht _]].
    assert (Hc : p_pending (q_bump (t_from t) (pn_set (t_from t) (t_nonce t + 1)
                   (match old with Some o => priced_removed 1 (all_remove o (put_pending (t_from t) l1 st)) | None => put_pending (t_from t) l1 st end))) b
                 = upd (p_pending st) (t_from t) (Some l1) b).
    { pose proof (core_q_bump (t_from t) (pn_set (t_from t) (t_nonce t + 1) (match old with Some o => priced_removed 1 (all_remove o (put_pending (t_from t) l1 st)) | None => put_pending (t_from t) l1 st end))) as H1.
      core_inv H1. rewrite Epend. cbn [pn_set set_pn p_pending]. destruct old as [o|]; [|apply pend_put_pending].
      pose proof (core_priced_removed 1 (all_remove o (put_pending (t_from t) l1 st))) as H2. core_inv H2. rewrite Epend0, pend_all_remove. apply pend_put_pending. }
    rewrite Hc in Hx. unfold upd in Hx. destruct (b =? t_from t) eqn:E; [|left; exact Hx].
    apply N.eqb_eq in E. subst b. cbn [in_opt] in Hx. rewrite Ht in Hx. apply sm_put_In in Hx.
    destruct Hx as [->|Hx]; [right; split; reflexivity | left; apply Hl0, Hx].
  - left. pose proof (core_priced_removed 1 (all_remove t (put_pending (t_from t) l0 st))) as H2. core_inv H2.
    rewrite Epend, pend_all_remove, pend_put_pending in Hx. unfold upd in Hx. destruct (b =? t_from t) eqn:E; [|exact Hx].
    apply N.eqb_eq in E. subst b. apply Hl0, Hx.
  - left. cbn [set_ovf p_pending] in Hx. pose proof (core_priced_removed 1 (all_remove t (put_pending (t_from t) l0 st))) as H2. core_inv H2.
    change (p_pending (set_ovf (priced_removed 1 (all_remove t (put_pending (t_from t) l0 st))))) with (p_pending (priced_removed 1 (all_remove t (put_pending (t_from t) l0 st)))) in Hx.
    rewrite Epend, pend_all_remove, pend_put_pending in Hx. unfold upd in Hx. destruct (b =? t_from t) eqn:E; [|exact Hx].
    apply N.eqb_eq in E. subst b. apply Hl0, Hx.
Qed.

Lemma promote_fold_PG : forall T st b x, in_opt x (p_pending (fold_left (fun s t => promote_tx t s) T st) b) ->
  in_opt x (p_pending st b) \/ (In x T /\ b = t_from x).
Proof.
  induction T as [|t T IH]; intros st b x Hx; cbn [fold_left] in Hx; [left; exact Hx|].
  apply IH in Hx. destruct Hx as [Hx|[Hx Hb]]; [|right; split; [right; exact Hx | exact Hb]].
  apply promote_tx_PG in Hx. destruct Hx as [Hx|[-> Hb]]; [left; exact Hx | right; split; [left; reflexivity | exact Hb]].
Qed.

(* promoteExecutables adds only txs that passed Filter(balance, gasLimit) *)
Lemma promote_executables_PG : forall accts st, SInv st -> forall b x,
  in_opt x (p_pending (promote_executables accts st) b) ->
  in_opt x (p_pending st b) \/ (t_from x = b /\ aff (p_chain st) x).
Proof.
  intros accts st HS b x Hx. unfold promote_executables in Hx.
  destruct (fold_left (fun '(p, d, s) a => let '(p1, d1, s1) := q_promote_one a s in (p ++ p1, d ++ d1, s1)) accts ([], [], st))
    as [[P D] st1] eqn:E.
  destruct (promote_acc_SL accts st [] [] [] P D st1 (SL_of_SInv _ HS)) as [L1 [S1 [PO1 [M1 [D1 [Haf [Pe1 [C1 Ch1]]]]]]]]; try exact E.
  { split; [intros t [] | intros t pl [] | intros t ql [] | constructor]. }
  { intros y. cbn. tauto. }
  { intros y []. }
  { intros y []. }
  pose proof (core_priced_removed (length D) (fold_left (fun s t => all_remove t s) D (fold_left (fun s t => promote_tx t s) P st1))) as Hc.
  core_inv Hc. rewrite Epend in Hx. rewrite (fold_pend_same (fun s t => all_remove t s) (fun s t => pend_all_remove t s)) in Hx.
  apply promote_fold_PG in Hx. rewrite Pe1 in Hx. destruct Hx as [Hx|[Hx Hb]]; [left; exact Hx|].
  right. split; [congruence | apply Haf, Hx].
Qed.

(* ---------- LegacyPool.add ---------- *)
Lemma validate_state_ok : forall t st, validate_state t st = E_OK ->
  cost t <= ch_bal (p_chain st) (t_from t) /\ ch_nonce (p_chain st) (t_from t) <= t_nonce t.
Proof.
  intros t st H. unfold validate_state in H.
  destruct (t_nonce t <? ch_nonce (p_chain st) (t_from t)) eqn:En; [discriminate|].
  destruct (Z.of_N (ch_bal (p_chain st) (t_from t)) <? Z.of_N (cost t))%Z eqn:E; [discriminate|].
  apply Z.ltb_ge in E. apply N.ltb_ge in En. split; [lia | exact En].
Qed.

Lemma validate_basics_ok : forall t st, validate_basics t st = E_OK -> t_gas t <= ch_gaslimit (p_chain st).
Proof.
  intros t st H. unfold validate_basics in H. destruct (4 <? t_slots t); [discriminate|].
  destruct (ch_gaslimit (p_chain st) <? t_gas t) eqn:E; [discriminate|]. apply N.ltb_ge in E. exact E.
Qed.

Lemma evict_PSub : forall t st, PSub st (snd (evict_of t st)).
Proof.
  intros t st. unfold evict_of. destruct (negb _); [apply PSub_refl|].
  pose proof (core_priced_underpriced t st) as H1. destruct (priced_underpriced t st) as [under st1]. cbn [snd] in H1.
  pose proof (PSub_core _ _ H1) as G1.
  destruct under; [exact G1|]. destruct (_ <? _); [exact G1|].
  match goal with |- context [priced_discard ?z st1] => pose proof (core_priced_discard z st1) as H2; destruct (priced_discard z st1) as [[drop|] st2] end; cbn [snd] in H2;
    pose proof (PSub_trans _ _ _ G1 (PSub_core _ _ H2)) as G2; [|exact G2].
  destruct (_ && _); cbn [snd].
  - clear -G2. revert st2 G2. induction drop as [|d drop IH]; intros s G; cbn [fold_left]; [exact G|].
    apply IH. eapply PSub_trans; [exact G | apply PSub_core, core_priced_put].
  - clear -G2. revert st2 G2. induction drop as [|d drop IH]; intros s G; cbn [fold_left]; [exact G|].
    apply IH. pose proof (proj1 (remove_enqueue_PSub FUEL) d false s) as Hr.
    destruct (remove_tx FUEL d false s) as [s' n]. cbn [fst] in Hr.
    eapply PSub_trans; [exact G|]. eapply PSub_trans; [exact Hr | apply PSub_core, core_set_changes].
Qed.

Lemma tail_PG : forall t c st1 b x, in_opt x (p_pending (fst (fst (tail_of t c st1))) b) ->
  in_opt x (p_pending st1 b) \/ (x = t /\ b = t_from t).
Proof.
  intros t c st1 b x Hx. unfold tail_of in Hx.
  assert (Henq : forall r, in_opt x (p_pending (fst (fst (match enqueue_tx FUEL t true st1 with
                        | (st2, None) => (st2, E_REPLACEUNDER, false) | (st2, Some r0) => (st2, E_OK, r0) end))) b) ->
                      in_opt x (p_pending st1 b) \/ r).
  { intros r H. left. pose proof (proj2 (remove_enqueue_PSub FUEL) t true st1 b x) as He.
    destruct (enqueue_tx FUEL t true st1) as [s2 [r0|]]; cbn [fst] in *; apply He, H. }
  destruct (p_pending st1 (t_from t)) as [l|] eqn:Ep; [|apply Henq, Hx].
  unfold l_contains in Hx. destruct (sm_get (t_nonce t) (l_txs l)) as [o|] eqn:Eg; [|apply Henq, Hx].
  destruct (list_add t (c_bump c) l) as [[old| |] l'] eqn:Ea; cbn [fst] in Hx.
  - destruct (list_add_ok_inv _ _ _ _ _ Ea) as [_ [Ht _]].
    match type of Hx with in_opt x (p_pending (q_bump ?a (priced_put t (all_add t ?s3))) b) =>
      assert (Hc : p_pending (q_bump a (priced_put t (all_add t s3))) b = upd (p_pending st1) (t_from t) (Some l') b) end.
    { match goal with |- p_pending (q_bump ?a ?s) b = _ => pose proof (core_q_bump a s) as H1; core_inv H1; rewrite Epend end.
      cbn [priced_put set_priced p_pending all_add set_all].
      destruct old as [o'|]; [|apply pend_put_pending].
      pose proof (core_priced_removed 1 (all_remove o' (put_pending (t_from t) l' st1))) as H2. core_inv H2. rewrite Epend0, pend_all_remove. apply pend_put_pending. }
    rewrite Hc in Hx. unfold upd in Hx. destruct (b =? t_from t) eqn:E; [|left; exact Hx].
    apply N.eqb_eq in E. subst b. cbn [in_opt] in Hx. rewrite Ht in Hx. apply sm_put_In in Hx.
    destruct Hx as [->|Hx]; [right; split; reflexivity | left; rewrite Ep; exact Hx].
  - left. exact Hx.
  - left. exact Hx.
Qed.

Lemma pool_add_PG : forall t st b x, in_opt x (p_pending (fst (fst (pool_add t st))) b) ->
  in_opt x (p_pending st b) \/ (x = t /\ b = t_from t /\ validate_state t st = E_OK).
Proof.
  intros t st b x Hx. rewrite pool_add_unfold in Hx.
  destruct (all_has t st); [left; exact Hx|]. cbv zeta in Hx.
  destruct (validate_state t st =? E_OK) eqn:Ev; cbn [negb] in Hx; [|left; exact Hx].
  apply N.eqb_eq in Ev. pose proof (evict_PSub t st) as He.
  destruct (evict_of t st) as [[err|] st1]; cbn [snd fst] in *; [left; apply He, Hx|].
  apply tail_PG in Hx. destruct Hx as [Hx|[-> ->]]; [left; apply He, Hx | right; tauto].
Qed.

Lemma add_txs_locked_PG : forall txs errs st dirty, SInv st -> (forall t, In t txs -> okt (p_cfg st) t) ->
  forall b x, in_opt x (p_pending (fst (fst (add_txs_locked txs errs st dirty))) b) ->
  in_opt x (p_pending st b) \/
  (b = t_from x /\ (cost x <= ch_bal (p_chain st) (t_from x) /\ ch_nonce (p_chain st) (t_from x) <= t_nonce x) /\
   In (x, E_OK) (combine txs errs)).
Proof.
  induction txs as [|t ts IH]; intros errs st dirty HS Hk b x Hx; cbn [add_txs_locked] in Hx; [left; exact Hx|].
  destruct errs as [|e es]; [left; exact Hx|].
  destruct (negb (e =? E_OK)) eqn:Ee.
  - pose proof (IH es st dirty HS (fun y Hy => Hk y (or_intror Hy)) b x) as H.
    destruct (add_txs_locked ts es st dirty) as [[s' es'] d']. cbn [fst] in *.
    destruct (H Hx) as [H1|[H1 [H2 H3]]]; [left; exact H1 | right; split; [exact H1 | split; [exact H2 | right; exact H3]]].
  - apply negb_false_iff, N.eqb_eq in Ee. subst e.
    pose proof (pool_add_RS t st HS (Hk t (or_introl eq_refl))) as [S1 [C1 Ch1]].
    pose proof (pool_add_PG t st) as Hpg.
    destruct (pool_add t st) as [[st1 e1] rep]. cbn [fst] in *.
    match type of Hx with context [add_txs_locked ts es st1 ?d] =>
      pose proof (IH es st1 d S1 (fun y Hy => eq_ind_r (fun c => okt c y) (Hk y (or_intror Hy)) C1) b x) as H;
      destruct (add_txs_locked ts es st1 d) as [[s' es'] d'] end. cbn [fst] in *.
    destruct (H Hx) as [H1|[H1 [H2 H3]]].
    + destruct (Hpg b x H1) as [H4|[-> [-> Hv]]]; [left; exact H4|].
      right. split; [reflexivity|]. split; [apply validate_state_ok, Hv | left; reflexivity].
    + right. split; [exact H1|]. split; [rewrite <- Ch1; exact H2 | right; exact H3].
Qed.

Lemma in_combine_map {A B} (f : A -> B) (l : list A) x y : In (x, y) (combine l (map f l)) -> y = f x.
Proof. induction l as [|a l IH]; intros H; [destruct H|]. cbn in H. destruct H as [H|H]; [inversion H; reflexivity | apply IH, H]. Qed.

(* the operations preserve pending_affordable *)
Lemma pool_Add_PAff : forall txs st, SInv st -> (forall t, In t txs -> okt (p_cfg st) t) -> PAff st -> PAff (fst (pool_Add txs st)).
Proof.
  intros txs st HS Hk HA. pose proof (pool_Add_RS txs st HS Hk) as [_ [_ Chf]].
  unfold pool_Add in *. destruct (negb _); [exact HA|].
  match goal with |- context [add_txs_locked txs ?e st []] =>
    pose proof (add_txs_locked_RS txs e st [] HS Hk) as [S1 [C1 Ch1]];
    pose proof (add_txs_locked_PG txs e st [] HS Hk) as Hpg; remember e as errs eqn:Ee;
    destruct (add_txs_locked txs errs st []) as [[st1 e1] d] end.
  cbn [fst] in *. intros b x Hx. rewrite Chf.
  unfold run_reorg_promote in Hx.
  pose proof (promote_executables_RS d st1 S1) as [S2 [C2 Ch2]].
  pose proof (truncate_pending_RS _ S2) as [S3 [C3 Ch3]].
  destruct (truncate_queue_SInv _ S3) as [_ [_ [_ P4]]].
  change (p_pending (set_changes (truncate_queue (truncate_pending (promote_executables d st1))) 0)) with
         (p_pending (truncate_queue (truncate_pending (promote_executables d st1)))) in Hx.
  rewrite P4 in Hx. apply truncate_pending_PSub in Hx.
  apply (promote_executables_PG d st1 S1) in Hx. destruct Hx as [Hx|[Hf Ha]]; [|split; [exact Hf | rewrite <- Ch1; exact Ha]].
  apply Hpg in Hx. destruct Hx as [Hx|[Hb [Hc Hi]]]; [apply HA, Hx|].
  split; [symmetry; exact Hb|]. destruct Hc as [Hc Hn]. split; [exact Hc|]. split; [|exact Hn].
  subst errs. apply in_combine_map in Hi. destruct (all_has x st); [discriminate|]. apply validate_basics_ok. symmetry. exact Hi.
Qed.

Lemma PAff_sub : forall st st', PSub st st' -> p_chain st' = p_chain st -> PAff st -> PAff st'.
Proof. intros st st' Hs Hc HA b x Hx. rewrite Hc. apply HA, Hs, Hx. Qed.

Lemma pool_SetGasTip_PAff : forall tip st, SInv st -> PAff st -> PAff (pool_SetGasTip tip st).
Proof.
  intros tip st HS HA. pose proof (pool_SetGasTip_RS tip st HS) as [_ [_ Ch]].
  apply (PAff_sub st); [|exact Ch | exact HA]. unfold pool_SetGasTip.
  destruct (p_gastip st <? tip); [|apply PSub_core, core_set_gastip].
  eapply PSub_trans; [|apply PSub_core, core_priced_removed].
  generalize (filter (fun t => t_tip t <? tip) (p_all (set_gastip st tip))). intros drop.
  assert (H0 : PSub st (set_gastip st tip)) by (apply PSub_core, core_set_gastip). revert H0. generalize (set_gastip st tip).
  induction drop as [|d drop IH]; intros s H; cbn [fold_left]; [exact H|].
  apply IH. eapply PSub_trans; [exact H | apply (proj1 (remove_enqueue_PSub FUEL))].
Qed.

Lemma flatten_pending_PSub : forall a st, PSub st (snd (flatten_pending a st)).
Proof.
  intros a st. unfold flatten_pending. destruct (p_pending st a) as [l|] eqn:Ep; [|apply PSub_refl].
  unfold list_flatten. cbn [snd]. intros b x Hx. cbn in Hx. unfold upd in Hx. destruct (b =? a) eqn:E; [|exact Hx].
  apply N.eqb_eq in E. subst b. rewrite Ep. exact Hx.
Qed.
Lemma flatten_queue_PSub : forall a st, PSub st (snd (flatten_queue a st)).
Proof. intros a st. unfold flatten_queue. destruct (p_queue st a); [|apply PSub_refl]. unfold list_flatten. cbn [snd]. apply PSub_eq. reflexivity. Qed.
Lemma pool_ContentFrom_PSub : forall a st, PSub st (snd (pool_ContentFrom a st)).
Proof.
  intros a st. unfold pool_ContentFrom. pose proof (flatten_pending_PSub a st) as H1. destruct (flatten_pending a st) as [p st1].
  pose proof (flatten_queue_PSub a st1) as H2. destruct (flatten_queue a st1) as [q st2]. cbn [snd] in *. eapply PSub_trans; eassumption.
Qed.
Lemma pool_Content_PSub : forall st, PSub st (snd (pool_Content st)).
Proof.
  intros st. unfold pool_Content. generalize (c_accts (p_cfg st)). intros accts.
  assert (H : forall acc s, PSub st s -> PSub st (snd (fold_left (fun '(acc, s) a => let '(pq, s') := pool_ContentFrom a s in (acc ++ [pq], s')) accts (acc, s)))).
  { induction accts as [|a accts IH]; intros acc s Hs; cbn [fold_left snd]; [exact Hs|].
    pose proof (pool_ContentFrom_PSub a s) as H1. destruct (pool_ContentFrom a s) as [pq s']. apply IH. eapply PSub_trans; eassumption. }
  apply H, PSub_refl.
Qed.
Lemma pool_Pending_PSub : forall st, PSub st (snd (pool_Pending st)).
Proof.
  intros st. unfold pool_Pending. generalize (c_accts (p_cfg st)). intros accts.
  assert (H : forall acc s, PSub st s -> PSub st (snd (fold_left (fun '(acc, s) a => let '(p, s') := flatten_pending a s in (acc ++ [p], s')) accts (acc, s)))).
  { induction accts as [|a accts IH]; intros acc s Hs; cbn [fold_left snd]; [exact Hs|].
    pose proof (flatten_pending_PSub a s) as H1. destruct (flatten_pending a s) as [p s']. apply IH. eapply PSub_trans; eassumption. }
  apply H, PSub_refl.
Qed.

Definition aff_at (s : pool) (a : N) : Prop := forall x, in_opt x (p_pending s a) -> t_from x = a /\ aff (p_chain s) x.

Lemma demote_fold_aff : forall accts st0 s (done : list N), RS st0 s -> (forall a, In a done -> aff_at s a) ->
  forall a, In a (done ++ accts) -> aff_at (fold_left (fun s a => demote_one a s) accts s) a.
Proof.
  induction accts as [|a accts IH]; intros st0 s done R Hd; cbn [fold_left].
  - intros b Hb. rewrite app_nil_r in Hb. apply Hd, Hb.
  - destruct R as [S1 [C1 Ch1]]. destruct (demote_one_RS a s S1) as [[S2 [C2 Ch2]] [Ho [_ [Haf [Hlow _]]]]].
    intros b Hb. apply (IH st0 (demote_one a s) (done ++ [a])).
    + split; [exact S2 | split; congruence].
    + intros c Hc x Hx. rewrite Ch2. destruct (N.eq_dec c a) as [->|Hne].
      * destruct (p_pending (demote_one a s) a) as [l|] eqn:El; [|destruct Hx].
        destruct (s_pw _ S2 a l El) as [Ll _]. destruct (lk_mem _ _ _ _ Ll x Hx) as [Hf _].
        split; [exact Hf|]. unfold aff. rewrite Hf. destruct (Haf x Hx) as [H1 H2]. split; [exact H1|]. split; [exact H2 | apply Hlow, Hx].
      * apply in_app_iff in Hc. destruct Hc as [Hc|[Hc|[]]]; [|congruence]. rewrite (Ho c Hne) in Hx. apply (Hd c Hc x Hx).
    + rewrite <- app_assoc. exact Hb.
Qed.

Lemma demote_unexecutables_PAff : forall st, SInv st -> PAff (demote_unexecutables st).
Proof.
  intros st HS b x Hx. destruct (demote_unexecutables_RS st HS) as [[S' [C' _]] _].
  unfold demote_unexecutables in *.
  destruct (p_pending (fold_left (fun s a => demote_one a s) (c_accts (p_cfg st)) st) b) as [l|] eqn:El; [|destruct Hx].
  destruct (s_pw _ S' b l El) as [_ Hb]. rewrite C' in Hb.
  apply (demote_fold_aff (c_accts (p_cfg st)) st st [] (RS_refl _ HS) (fun a H => match H with end) b Hb). rewrite El. exact Hx.
Qed.

(* the Reset cycle re-establishes pending_affordable against the new head, whatever the old state was *)
Lemma run_reorg_reset_PAff : forall blocks old new st, SInv st -> blocks_ok (p_cfg st) blocks old new ->
  PAff (run_reorg_reset blocks old new st).
Proof.
  intros blocks old new st HS Hok. unfold run_reorg_reset.
  destruct (pool_reset_RC blocks old new st HS Hok) as [S1 _].
  set (st1 := pool_reset blocks old new st) in *.
  pose proof (promote_executables_RS (queue_addresses st1) st1 S1) as [S2 _].
  set (st2 := promote_executables (queue_addresses st1) st1) in *.
  destruct (demote_unexecutables_RS st2 S2) as [[S3 _] P3]. pose proof (demote_unexecutables_PAff st2 S2) as A3.
  set (st3 := demote_unexecutables st2) in *.
  set (st4 := priced_set_basefee (b_basefee new) st3).
  assert (S4 : SInv st4) by (eapply SInv_core; [apply core_priced_set_basefee | exact S3]).
  assert (A4 : PAff st4) by exact A3.
  assert (P4 : forall a, pne_at st4 a) by (intros a l Hl; apply (P3 a l Hl)).
  destruct (set_all_nonces_RC st4 S4 P4) as [[S5 _] [Ch5 M5]].
  set (st5 := set_all_nonces st4) in *.
  assert (A5 : PAff st5) by (intros b x Hx; rewrite Ch5; apply A4, M5, Hx).
  pose proof (truncate_pending_RS st5 S5) as [S6 [_ Ch6]].
  assert (A6 : PAff (truncate_pending st5)) by (apply (PAff_sub st5); [apply truncate_pending_PSub | exact Ch6 | exact A5]).
  destruct (truncate_queue_SInv _ S6) as [_ [_ [Ch7 P7]]].
  intros b x Hx.
  change (p_pending (set_changes (truncate_queue (truncate_pending st5)) 0)) with (p_pending (truncate_queue (truncate_pending st5))) in Hx.
  change (p_chain (set_changes (truncate_queue (truncate_pending st5)) 0)) with (p_chain (truncate_queue (truncate_pending st5))).
  rewrite P7 in Hx. rewrite Ch7. apply A6, Hx.
Qed.

(* ---------- all histories ---------- *)
Lemma step_PAff : forall st o, SInv st -> op_okR (p_cfg st) o -> PAff st -> PAff (step st o).
Proof.
  intros st [txs|b o n|tip| |a| ] HS Hok HA; cbn [step].
  - apply pool_Add_PAff; assumption.
  - apply run_reorg_reset_PAff; assumption.
  - apply pool_SetGasTip_PAff; assumption.
  - apply (PAff_sub st); [apply pool_Content_PSub | apply (pool_Content_RS st HS) | exact HA].
  - apply (PAff_sub st); [apply pool_ContentFrom_PSub | apply (pool_ContentFrom_RS a st HS) | exact HA].
  - apply (PAff_sub st); [apply pool_Pending_PSub | apply (pool_Pending_RS st HS) | exact HA].
Qed.

Lemma history_PAff : forall h st, SInv st -> PAff st -> Forall (op_okR (p_cfg st)) h -> PAff (run_history st h).
Proof.
  unfold run_history. induction h as [|o h IH]; intros st HS HA Hok; cbn [fold_left]; [exact HA|].
  inversion Hok as [|? ? Ho Hh]; subst. destruct (step_RC st o HS Ho) as [S1 C1].
  apply IH; [exact S1 | apply step_PAff; assumption | rewrite C1; exact Hh].
Qed.

Lemma PAff_init : forall c tip g, PAff (pool_init c tip g).
Proof. intros c tip g b x H. destruct H. Qed.
