(* Pool/BlobRestartProofs.v — clean restart: Init on the image a clean Close leaves behind rebuilds
   every account's list with the same transactions in the same order, the same eviction fields
   and the same spent total.  Pieces: billy_open_close (Pool/BillyOpenProofs.v), the track fold,
   reopen_account_perm per account, SetGasTip / Datacap being no-ops under their guards. *)
From Coq Require Import List NArith ZArith Bool Lia Sorted Permutation.
From GV Require Import Lib.Tactics Pool.Blob Pool.BlobProofs Pool.BlobAddProofs Pool.BlobRollingProofs Pool.BlobResetProofs Pool.BlobInitProofs Pool.BlobReopenProofs Pool.BlobReopenPerm Pool.BillyOpenProofs.
Import ListNotations.
Local Open Scope N_scope.

(* ------------------------------------------------------------------ SetGasTip / Datacap no-ops *)
Lemma split_tip_all tip l : Forall (fun m => tip <= t_tip (m_tx m)) l -> split_tip tip l = (l, []).
Proof.
  induction 1 as [|m r Hm _ IH]; [reflexivity|]. cbn [split_tip].
  apply N.ltb_ge in Hm. rewrite Hm, IH. reflexivity.
Qed.

Definition tips_ok (tip : N) (p : pool) : Prop :=
  forall a l, aget (p_index p) a = Some l -> Forall (fun m => tip <= t_tip (m_tx m)) l.

Section Restart.
Variable prioE prioB : N -> N -> Z.
Variable gtE gtB : N -> N -> bool.
Variable c : cfg.

Lemma set_gas_tip_noop tip p q :
  tips_ok tip p -> set_gas_tip prioE prioB tip p = Ok q -> q = set_tip (Some tip) p.
Proof.
  intros Ht H. unfold set_gas_tip in H.
  destruct (match p_tip p with None => true | Some o => o <? tip end); [|inversion H; reflexivity].
  assert (Ht0 : tips_ok tip (set_tip (Some tip) p)) by exact Ht.
  revert H. generalize (akeys (p_index (set_tip (Some tip) p))). generalize dependent (set_tip (Some tip) p).
  intros p0 Ht0 accts. induction accts as [|a r IH]; intro H; cbn [fold_left] in H; [inversion H; reflexivity|].
  cbn [bind] in H. unfold txs_of in H. destruct (aget (p_index p0) a) as [l|] eqn:Ea.
  - rewrite (split_tip_all tip l (Ht0 a l Ea)) in H. apply IH. exact H.
  - cbn [split_tip] in H. apply IH. exact H.
Qed.

Lemma drop_loop_noop fuel p q :
  p_stored p <= c_datacap c -> drop_loop prioE prioB gtE gtB c (S fuel) p = Ok q -> q = p.
Proof.
  intros Hs H. cbn [drop_loop] in H. apply N.ltb_ge in Hs. rewrite Hs in H. inversion H. reflexivity.
Qed.
End Restart.

(* ------------------------------------------------------------------ the track fold *)
Definition call_tx (cl : N * item) : tx := i_tx (snd cl).
Definition txs_by (a : N) (cs : list (N * item)) : list tx :=
  filter (fun t => t_from t =? a) (map call_tx cs).

Lemma track_step id t p p' :
  track_transaction id t p = Ok (Some p') ->
  (forall a, map m_tx (txs_of p' a) = map m_tx (txs_of p a) ++ (if t_from t =? a then [t] else [])) /\
  p_lookup p' = aset (p_lookup p) (t_id t) id /\
  p_stored p' = wrap64 (p_stored p + t_size t) /\
  p_nonce p' = p_nonce p /\ p_bal p' = p_bal p.
Proof.
  intro H. unfold track_transaction in H.
  destruct (ahas (p_lookup p) (t_id t)); [discriminate|]. cbv zeta in H.
  set (a0 := t_from t) in *.
  set (p1 := if ahas (p_index p) a0 then p
             else set_spent (aset (p_spent p) a0 0) (set_index (aset (p_index p) a0 []) p)) in *.
  inv_bind_as H p3. inversion H; subst p'. clear H.
  unfold add_spent in E. cbn [p_spent set_index] in E.
  destruct (aget (p_spent p1) a0) as [s|]; [|discriminate]. destruct (s + t_cost t <? two256); [|discriminate].
  inversion E; subst p3. clear E.
  assert (Hp1 : p_lookup p1 = p_lookup p /\ p_stored p1 = p_stored p /\ p_nonce p1 = p_nonce p /\ p_bal p1 = p_bal p
                /\ forall a, txs_of p1 a = txs_of p a).
  { unfold p1. destruct (ahas (p_index p) a0) eqn:Eh; [repeat split|]. repeat split.
    intro a. unfold txs_of. cbn [p_index set_index set_spent]. rewrite aget_aset. destruct (a0 =? a) eqn:Ea; [|reflexivity].
    apply N.eqb_eq in Ea. subst a. unfold ahas in Eh. destruct (aget (p_index p) a0); [discriminate | reflexivity]. }
  destruct Hp1 as [L1 [L2 [L3 [L4 L5]]]].
  cbn [p_index p_lookup p_stored p_nonce p_bal add_stored set_stored track set_lookup set_spent set_index m_id m_sid m_tx].
  split; [|rewrite L1, L2, L3, L4; repeat split].
  intro a. unfold txs_of at 1. cbn [p_index add_stored set_stored track set_lookup set_spent set_index]. rewrite aget_aset.
  fold a0. destruct (a0 =? a) eqn:Ea.
  - apply N.eqb_eq in Ea. subst a. rewrite map_app, L5. reflexivity.
  - rewrite app_nil_r. fold (txs_of p1 a). rewrite L5. reflexivity.
Qed.

Lemma track_fold_shape : forall (calls : list (N * item)) p0 d0 p1 del,
  fold_left (fun r '(id, it) =>
               do x <- r ;
               let '(p, del) := x in
               do o <- track_transaction id (i_tx it) p ;
               match o with Some p' => Ok (p', del) | None => Ok (p, del ++ [id]) end)
            calls (Ok (p0, d0)) = Ok (p1, del) ->
  NoDup (map (fun cl => t_id (call_tx cl)) calls) ->
  (forall cl, In cl calls -> ahas (p_lookup p0) (t_id (call_tx cl)) = false) ->
  del = d0 /\
  (forall a, map m_tx (txs_of p1 a) = map m_tx (txs_of p0 a) ++ txs_by a calls) /\
  p_nonce p1 = p_nonce p0 /\ p_bal p1 = p_bal p0.
Proof.
  induction calls as [|[id it] r IH]; intros p0 d0 p1 del E Hnd Hfresh; cbn [fold_left] in E.
  - inversion E; subst. split; [reflexivity|]. split; [intro a; unfold txs_by; cbn; rewrite app_nil_r; reflexivity | split; reflexivity].
  - cbn [bind] in E. unfold track_transaction in E at 1.
    assert (Hf : ahas (p_lookup p0) (t_id (i_tx it)) = false) by (apply (Hfresh (id, it)); left; reflexivity).
    fold (track_transaction id (i_tx it) p0) in E.
    destruct (track_transaction id (i_tx it) p0) as [[px|]|e] eqn:Et; cbn [bind] in E.
    + destruct (track_step _ _ _ _ Et) as [T1 [T2 [_ [T4 T5]]]].
      inversion Hnd as [|? ? Hni Hnd']; subst.
      destruct (IH px d0 p1 del E Hnd') as [I1 [I2 [I3 I4]]].
      { intros cl Hin. unfold ahas. rewrite T2, aget_aset.
        destruct (t_id (i_tx it) =? t_id (call_tx cl)) eqn:Eq.
        - exfalso. apply Hni. apply N.eqb_eq in Eq. change (t_id (call_tx (id, it))) with (t_id (i_tx it)).
          rewrite Eq. apply (in_map (fun cl0 => t_id (call_tx cl0))). exact Hin.
        - apply (Hfresh cl). right. exact Hin. }
      split; [exact I1|]. split; [|split; congruence].
      intro a. rewrite I2, T1, <- app_assoc. f_equal. unfold txs_by. cbn [map filter].
      change (call_tx (id, it)) with (i_tx it). destruct (t_from (i_tx it) =? a); reflexivity.
    + exfalso. unfold track_transaction in Et. rewrite Hf in Et. cbv zeta in Et.
      match type of Et with bind ?X _ = _ => destruct X; cbn [bind] in Et; discriminate end.
    + rewrite fold_err in E; [discriminate | intros ? [? ?]; reflexivity].
Qed.
