(* Pool/BlobProofs.v — lemmas about the blob pool model Pool/Blob.v. *)
From Coq Require Import List NArith ZArith Bool Lia Permutation Sorted.
From GV Require Import Lib.Tactics Pool.Blob.
Import ListNotations.
Local Open Scope N_scope.

(* ------------------------------------------------------------------ Go maps *)
Lemma aget_aset {V} (m : list (N * V)) k v k2 :
  aget (aset m k v) k2 = if k =? k2 then Some v else aget m k2.
Proof.
  induction m as [|[k' v'] r IH]; cbn [aset aget].
  - destruct (k =? k2); reflexivity.
  - destruct (k' =? k) eqn:E1.
    + apply N.eqb_eq in E1; subst k'. cbn [aget]. destruct (k =? k2); reflexivity.
    + destruct (k <? k') eqn:E2; cbn [aget].
      * destruct (k =? k2); reflexivity.
      * rewrite IH. destruct (k' =? k2) eqn:E3; [|reflexivity].
        apply N.eqb_eq in E3; subst k2. rewrite N.eqb_sym, E1. reflexivity.
Qed.

Lemma aget_adel {V} (m : list (N * V)) k k2 :
  aget (adel m k) k2 = if k =? k2 then None else aget m k2.
Proof.
  induction m as [|[k' v'] r IH]; cbn [adel aget].
  - destruct (k =? k2); reflexivity.
  - destruct (k' =? k) eqn:E1.
    + apply N.eqb_eq in E1; subst k'. rewrite IH. destruct (k =? k2); reflexivity.
    + cbn [aget]. rewrite IH. destruct (k' =? k2) eqn:E3; [|reflexivity].
      apply N.eqb_eq in E3; subst k2. rewrite N.eqb_sym, E1. reflexivity.
Qed.

(* ------------------------------------------------------------------ machine words *)
Lemma wrap64_small v : v < two64 -> wrap64 v = v.
Proof. intro H. unfold wrap64. apply N.ltb_lt in H. rewrite H. reflexivity. Qed.
Lemma wrap256_small v : v < two256 -> wrap256 v = v.
Proof. intro H. unfold wrap256. apply N.ltb_lt in H. rewrite H. reflexivity. Qed.
Lemma sub256_exact a b : b <= a -> sub256 a b = a - b.
Proof. intro H. unfold sub256. apply N.leb_le in H. rewrite H. reflexivity. Qed.

(* ------------------------------------------------------------------ nonce chains *)
(* consecutive nonces (modulo 2^64, as the code compares them) *)
Inductive chain : list meta -> Prop :=
| chain_nil : chain []
| chain_one m : chain [m]
| chain_cons a b r : m_nonce b = wrap64 (m_nonce a + 1) -> chain (b :: r) -> chain (a :: b :: r).

Lemma chain_tail m l : chain (m :: l) -> chain l.
Proof. intro H. inversion H; subst; [constructor | assumption]. Qed.

Lemma last_opt_cons {A} (a : A) l : l <> [] -> last_opt (a :: l) = last_opt l.
Proof.
  intro H. unfold last_opt. cbn [rev]. destruct (rev l) eqn:E.
  - exfalso. apply H. rewrite <- (rev_involutive l), E. reflexivity.
  - reflexivity.
Qed.

Lemma chain_snoc l prev m :
  chain l -> last_opt l = Some prev -> m_nonce m = wrap64 (m_nonce prev + 1) -> chain (l ++ [m]).
Proof.
  intros Hc. revert prev. induction Hc as [|x|a b r Hab Hc IH]; intros prev Hl Hm.
  - discriminate.
  - cbv in Hl. inversion Hl; subst. cbn. constructor; [assumption | constructor].
  - cbn [app]. constructor; [assumption|]. apply (IH prev); [|assumption].
    rewrite last_opt_cons in Hl; [exact Hl | discriminate].
Qed.

Lemma chain_app_l l1 l2 : chain (l1 ++ l2) -> chain l1.
Proof.
  revert l2. induction l1 as [|a l1 IH]; intros l2 H; [constructor|].
  destruct l1 as [|b r]; [constructor|].
  cbn [app] in H. inversion H; subst. constructor; [assumption|]. apply (IH l2). assumption.
Qed.

Lemma removelast_app_last {A} (l : list A) : l <> [] -> exists x, l = removelast l ++ [x] /\ last_opt l = Some x.
Proof.
  intro H. destruct (exists_last H) as [l' [x E]]. subst l. exists x.
  rewrite removelast_last. split; [reflexivity|].
  unfold last_opt. rewrite rev_app_distr. reflexivity.
Qed.

Lemma chain_removelast l : chain l -> chain (removelast l).
Proof.
  intro H. destruct l as [|x r]; [constructor|].
  destruct (@removelast_app_last _ (x :: r)) as [y [E _]]; [discriminate|].
  rewrite E in H. apply chain_app_l in H. exact H.
Qed.

Lemma chain_firstn n l : chain l -> chain (firstn n l).
Proof. intro H. rewrite <- (firstn_skipn n l) in H. apply chain_app_l in H. exact H. Qed.

Lemma chain_skipn n l : chain l -> chain (skipn n l).
Proof.
  revert l. induction n; intros l H; [exact H|]. destruct l; [constructor|].
  cbn. apply IHn. eapply chain_tail; eauto.
Qed.

(* the rolling eviction fields do not touch the nonce *)
Lemma nonce_ev_next p m : m_nonce (ev_next p m) = m_nonce m. Proof. reflexivity. Qed.
Lemma nonce_ev_first m : m_nonce (ev_first m) = m_nonce m. Proof. reflexivity. Qed.

(* ------------------------------------------------------------------ rolling minima *)
(* evictionExecTip / fee-cap minima are the minimum over the prefix *)
Inductive rolling : option meta -> list meta -> Prop :=
| roll_nil o : rolling o []
| roll_first m r : m = ev_first m -> rolling (Some m) r -> rolling None (m :: r)
| roll_next q m r : m = ev_next q m -> rolling (Some m) r -> rolling (Some q) (m :: r).

Lemma ev_first_idem m : ev_first (ev_first m) = ev_first m. Proof. reflexivity. Qed.
Lemma ev_next_idem q m : ev_next q (ev_next q m) = ev_next q m. Proof. reflexivity. Qed.

Lemma reev_rolling o l : rolling o (reev o l 0).
Proof.
  revert o. induction l as [|m r IH]; intro o; cbn [reev]; [constructor|].
  destruct o as [q|].
  - apply roll_next; [symmetry; apply ev_next_idem | apply IH].
  - apply roll_first; [symmetry; apply ev_first_idem | apply IH].
Qed.

(* what the minima mean: every rolling field is a lower bound of the tx's own cap and of
   the previous rolling field *)
Lemma ev_next_le q m :
  m_evtip (ev_next q m) <= m_evtip q /\ m_evtip (ev_next q m) <= t_tip (m_tx m) /\
  m_evfee (ev_next q m) <= m_evfee q /\ m_evfee (ev_next q m) <= t_fee (m_tx m) /\
  m_evbfee (ev_next q m) <= m_evbfee q /\ m_evbfee (ev_next q m) <= t_bfee (m_tx m).
Proof. unfold ev_next, with_ev; cbn. lia. Qed.

(* ------------------------------------------------------------------ monadic plumbing *)
Ltac inv_bind H :=
  match type of H with
  | bind ?e _ = Ok _ => let E := fresh "E" in destruct e eqn:E; [cbn [bind] in H | discriminate H]
  end.

Tactic Notation "inv_bind_as" hyp(H) ident(x) :=
  match type of H with
  | bind ?e _ = Ok _ => let E := fresh "E" in destruct e as [x|] eqn:E; [cbn [bind] in H | discriminate H]
  end.

(* ------------------------------------------------------------------ recheck_scan *)
(* the kept list of recheck's threshold loop is a chain with rolling minima, whatever the
   input list and whatever the pool *)
Lemma recheck_scan_chain : forall rest a prev acc p l p',
  recheck_scan a prev rest acc p = Ok (l, p') ->
  chain acc -> last_opt acc = Some prev -> chain l.
Proof.
  induction rest as [|m r IH]; intros a prev acc p l p' H Hc Hl; cbn [recheck_scan] in H.
  - inversion H; subst. exact Hc.
  - destruct (m_nonce m =? wrap64 (m_nonce prev + 1)) eqn:E1.
    + apply N.eqb_eq in E1.
      eapply IH; [exact H | |].
      * eapply chain_snoc; eauto.
      * unfold last_opt. rewrite rev_app_distr. reflexivity.
    + destruct (m_nonce m =? m_nonce prev) eqn:E2.
      * inv_bind H. inv_bind H. eapply IH; eauto.
      * inv_bind H. inv_bind H. inversion H; subst. exact Hc.
Qed.

Lemma recheck_scan_prefix : forall rest a prev acc p l p',
  recheck_scan a prev rest acc p = Ok (l, p') -> exists k, l = acc ++ k.
Proof.
  induction rest as [|m r IH]; intros a prev acc p l p' H; cbn [recheck_scan] in H.
  - inversion H; subst. exists []. rewrite app_nil_r. reflexivity.
  - destruct (m_nonce m =? wrap64 (m_nonce prev + 1)).
    + apply IH in H. destruct H as [k Hk]. exists (ev_next prev m :: k). rewrite Hk, <- app_assoc. reflexivity.
    + destruct (m_nonce m =? m_nonce prev).
      * inv_bind H. inv_bind H. eapply IH; eauto.
      * inv_bind H. inv_bind H. inversion H; subst. exists []. rewrite app_nil_r. reflexivity.
Qed.

(* ------------------------------------------------------------------ SetGasTip split *)
Lemma split_tip_spec tip l keep dropped :
  split_tip tip l = (keep, dropped) ->
  l = keep ++ dropped /\ Forall (fun m => tip <= t_tip (m_tx m)) keep /\
  match dropped with [] => True | m :: _ => t_tip (m_tx m) < tip end.
Proof.
  revert keep dropped. induction l as [|m r IH]; intros keep dropped H; cbn [split_tip] in H.
  - inversion H; subst. repeat split; constructor.
  - destruct (t_tip (m_tx m) <? tip) eqn:E.
    + inversion H; subst. apply N.ltb_lt in E. repeat split; [constructor | exact E].
    + destruct (split_tip tip r) as [k d] eqn:Es. inversion H; subst.
      destruct (IH k dropped eq_refl) as [H1 [H2 H3]].
      apply N.ltb_ge in E. split; [cbn; rewrite H1; reflexivity|]. split; [constructor; assumption | exact H3].
Qed.

Lemma split_tip_chain tip l keep dropped :
  split_tip tip l = (keep, dropped) -> chain l -> chain keep.
Proof. intros H Hc. apply split_tip_spec in H. destruct H as [H _]. subst l. eapply chain_app_l; eauto. Qed.

(* ------------------------------------------------------------------ sorting *)
Definition nonce_le (a b : meta) : Prop := m_nonce a <= m_nonce b.

Lemma ins_meta_perm m l : Permutation (m :: l) (ins_meta m l).
Proof.
  induction l as [|x r IH]; cbn [ins_meta]; [reflexivity|].
  destruct (m_nonce m <? m_nonce x); [reflexivity|].
  rewrite perm_swap. constructor. exact IH.
Qed.

Lemma ins_meta_sorted m l : Sorted nonce_le l -> Sorted nonce_le (ins_meta m l).
Proof.
  induction l as [|x r IH]; intro Hs; cbn [ins_meta].
  - repeat constructor.
  - destruct (m_nonce m <? m_nonce x) eqn:E.
    + apply N.ltb_lt in E. constructor; [exact Hs|]. constructor. unfold nonce_le. lia.
    + apply N.ltb_ge in E. inversion Hs as [|? ? Hs' Hh]; subst.
      constructor; [apply IH; exact Hs'|].
      destruct r as [|y r']; cbn [ins_meta].
      * constructor. exact E.
      * destruct (m_nonce m <? m_nonce y); constructor; [exact E|].
        inversion Hh; subst. assumption.
Qed.

Lemma sort_metas_aux acc l :
  Sorted nonce_le acc ->
  Sorted nonce_le (fold_left (fun acc m => ins_meta m acc) l acc) /\
  Permutation (l ++ acc) (fold_left (fun acc m => ins_meta m acc) l acc).
Proof.
  revert acc. induction l as [|m r IH]; intros acc Hs; cbn [fold_left app].
  - split; [exact Hs | reflexivity].
  - destruct (IH (ins_meta m acc) (ins_meta_sorted m acc Hs)) as [H1 H2].
    split; [exact H1|]. rewrite <- H2. rewrite <- ins_meta_perm.
    rewrite Permutation_middle. reflexivity.
Qed.

(* recheck's sort: a nonce-sorted permutation of the account's entries *)
Lemma sort_metas_spec l : Sorted nonce_le (sort_metas l) /\ Permutation l (sort_metas l).
Proof.
  unfold sort_metas. destruct (sort_metas_aux [] l (Sorted_nil _)) as [H1 H2].
  split; [exact H1|]. rewrite app_nil_r in H2. exact H2.
Qed.

Ltac boolhyps :=
  repeat match goal with
         | H : (_ <? _) = false |- _ => apply N.ltb_ge in H
         | H : (_ <=? _) = false |- _ => apply N.leb_gt in H
         | H : (_ =? _) = false |- _ => apply N.eqb_neq in H
         | H : (_ <? _)%Z = false |- _ => apply Z.ltb_ge in H
         | H : Nat.leb _ _ = false |- _ => apply Nat.leb_gt in H
         end.

(* ------------------------------------------------------------------ validation *)
Section Validate.
Variable c : cfg.

(* validateTx accepts a replacement only with the configured bump on all three fee caps
   (and strictly more than the replaced transaction) *)
Lemma validate_replacement_bump t p prev :
  validate_tx c t p = E_ok ->
  nth_error (txs_of p (t_from t)) (N.to_nat (t_nonce t - nonce_of p (t_from t))) = Some prev ->
  t_fee (m_tx prev) < t_fee t /\ t_tip (m_tx prev) < t_tip t /\ t_bfee (m_tx prev) < t_bfee t /\
  wrap256 ((100 + c_bump c) * t_fee (m_tx prev)) / 100 <= t_fee t /\
  wrap256 ((100 + c_bump c) * t_tip (m_tx prev)) / 100 <= t_tip t /\
  wrap256 ((100 + c_bump c) * t_bfee (m_tx prev)) / 100 <= t_bfee t /\
  m_id prev <> t_id t /\
  (Z.of_N (spent_of p (t_from t)) + (Z.of_N (t_cost t) - Z.of_N (m_cost prev)) <= Z.of_N (bal_of p (t_from t)))%Z.
Proof.
  unfold validate_tx. intros H Hn. rewrite Hn in H.
  repeat match type of H with
         | (if ?b then _ else _) = _ => let E := fresh "E" in destruct b eqn:E; [discriminate H|]
         end.
  boolhyps. repeat split; assumption.
Qed.

(* validateTx accepts a new nonce only directly behind the pooled ones, within the balance
   and below the per-account cap *)
Lemma validate_append t p :
  validate_tx c t p = E_ok ->
  nth_error (txs_of p (t_from t)) (N.to_nat (t_nonce t - nonce_of p (t_from t))) = None ->
  t_nonce t = nonce_of p (t_from t) + lenN (txs_of p (t_from t)) /\
  nonce_of p (t_from t) + lenN (txs_of p (t_from t)) < two64 /\
  spent_of p (t_from t) + t_cost t <= bal_of p (t_from t) /\
  (length (txs_of p (t_from t)) < maxTxsPerAccount)%nat.
Proof.
  unfold validate_tx. intros H Hn. rewrite Hn in H.
  repeat match type of H with
         | (if ?b then _ else _) = _ => let E := fresh "E" in destruct b eqn:E; [discriminate H|]
         end.
  boolhyps.
  apply nth_error_None in Hn.
  set (next := nonce_of p (t_from t)) in *. set (len := lenN (txs_of p (t_from t))) in *.
  assert (Hlen : len <= t_nonce t - next) by (unfold len, lenN; lia).
  assert (Hw : wrap64 (next + len) <= next + len).
  { unfold wrap64. destruct (next + len <? two64); [lia|]. apply N.mod_le. unfold two64. lia. }
  assert (Heq : t_nonce t = next + len) by lia.
  repeat split; try assumption.
  unfold wrap64 in E0. destruct (next + len <? two64) eqn:E9; [apply N.ltb_lt in E9; exact E9|].
  apply N.ltb_ge in E9. exfalso.
  assert ((next + len) mod two64 < two64) by (apply N.mod_lt; unfold two64; lia). lia.
Qed.
End Validate.

(* appending the validated nonce keeps the list a chain that starts at the state nonce *)
Lemma chain_starts_append n l m :
  chain l -> (match l with [] => True | x :: _ => m_nonce x = n end) ->
  n + lenN l < two64 -> m_nonce m = n + lenN l -> chain (l ++ [m]).
Proof.
  intros Hc. revert n. induction Hc as [|x|a b r Hab Hc IH]; intros n Hh Hlt Hm.
  - constructor.
  - cbn in *. constructor; [|constructor]. subst n. rewrite Hm. unfold lenN in *. cbn in *.
    rewrite wrap64_small; lia.
  - cbn [app]. constructor; [exact Hab|].
    apply (IH (n + 1)).
    + subst n. rewrite Hab. apply wrap64_small. unfold lenN in Hlt. cbn [length] in Hlt. lia.
    + unfold lenN in *. cbn [length] in *. lia.
    + unfold lenN in *. cbn [length] in *. lia.
Qed.

(* ------------------------------------------------------------------ billy *)
(* an abrupt stop only adds entries with respect to a clean shutdown: every slot that a
   clean Close leaves on disk is on disk, with the same content, after a crash *)
Lemma nth_combine_seq {A} (l : list A) : forall st i j o,
  nth_error (combine (seq st (length l)) l) i = Some (j, o) -> nth_error l i = Some o.
Proof.
  induction l as [|x r IH]; intros st i j o H.
  - destruct i; discriminate H.
  - cbn [length seq combine] in H. destruct i as [|i].
    + cbn [nth_error] in *. inversion H; subst. reflexivity.
    + cbn [nth_error] in *. eapply IH; eauto.
Qed.

Lemma close_in_crash (s : shelf) i it :
  nth_error (shelf_close_image s) i = Some (Some it) -> nth_error (sh_slots s) i = Some (Some it).
Proof.
  unfold shelf_close_image. intro H.
  rewrite nth_error_map in H.
  destruct (nth_error (combine (seq 0 (length (sh_slots s))) (sh_slots s)) i) as [[j o]|] eqn:E; [|discriminate].
  cbn in H. destruct (existsb (N.eqb (N.of_nat j)) (sh_gaps s)); [discriminate|].
  inversion H; subst. eapply nth_combine_seq; eauto.
Qed.

(* Put never overwrites a slot other than the one it returns *)
Lemma list_set_other {A} (l : list A) i j x : i <> j -> nth_error (list_set l i x) j = nth_error l j.
Proof.
  revert i j. induction l as [|y r IH]; intros i j H; destruct i, j; cbn; try reflexivity; try congruence.
  apply IH. congruence.
Qed.

Lemma shelf_put_other s it s' slot j :
  shelf_put s it = (s', slot) -> j <> N.to_nat slot -> (j < length (sh_slots s))%nat ->
  nth_error (sh_slots s') j = nth_error (sh_slots s) j.
Proof.
  unfold shelf_put. destruct (sh_gaps s) as [|g gs]; intros H Hj Hl; inversion H; subst; cbn.
  - rewrite nth_error_app1; [reflexivity | exact Hl].
  - apply list_set_other. congruence.
Qed.

(* ------------------------------------------------------------------ pool invariant *)
Definition sum_cost (l : list meta) : N := fold_right (fun m s => m_cost m + s) 0 l.
Definition starts (n : N) (l : list meta) : Prop := match l with [] => True | x :: _ => m_nonce x = n end.

(* every account's list: non-empty, consecutive nonces starting at the state nonce, the
   spent total is exactly the sum of the costs and within the balance *)
Definition acct_ok (p : pool) (a : N) : Prop :=
  match aget (p_index p) a with
  | None => aget (p_spent p) a = None
  | Some l => l <> [] /\ chain l /\ starts (nonce_of p a) l /\
              aget (p_spent p) a = Some (sum_cost l) /\ sum_cost l <= bal_of p a
  end.
Definition Inv (p : pool) : Prop := forall a, acct_ok p a.

Definition same_core (p q : pool) : Prop :=
  p_index q = p_index p /\ p_spent q = p_spent p /\ p_nonce q = p_nonce p /\ p_bal q = p_bal p.
Definition upd_some (p q : pool) (a : N) (l : list meta) : Prop :=
  p_index q = aset (p_index p) a l /\ p_spent q = aset (p_spent p) a (sum_cost l) /\
  p_nonce q = p_nonce p /\ p_bal q = p_bal p.
Definition upd_none (p q : pool) (a : N) : Prop :=
  p_index q = adel (p_index p) a /\ p_spent q = adel (p_spent p) a /\
  p_nonce q = p_nonce p /\ p_bal q = p_bal p.

Lemma same_core_refl p : same_core p p. Proof. repeat split. Qed.
Lemma same_core_trans p q r : same_core p q -> same_core q r -> same_core p r.
Proof. unfold same_core. intuition congruence. Qed.

Lemma inv_same_core p q : Inv p -> same_core p q -> Inv q.
Proof.
  intros H1 [Hi [Hs [Hn Hb]]].
  intro a. specialize (H1 a). unfold acct_ok, nonce_of, bal_of in *. rewrite Hi, Hs, Hn, Hb. exact H1.
Qed.

Lemma inv_upd_some p q a l :
  Inv p -> upd_some p q a l -> l <> [] -> chain l -> starts (nonce_of p a) l -> sum_cost l <= bal_of p a -> Inv q.
Proof.
  intros H1 [Hi [Hs [Hn Hb]]] Hne Hc Hst Hle.
  intro a2. specialize (H1 a2). unfold acct_ok, nonce_of, bal_of in *. rewrite Hi, Hs, Hn, Hb.
  rewrite !aget_aset. destruct (a =? a2) eqn:E.
  - apply N.eqb_eq in E; subst a2. repeat split; assumption.
  - exact H1.
Qed.

Lemma inv_upd_none p q a : Inv p -> upd_none p q a -> Inv q.
Proof.
  intros H1 [Hi [Hs [Hn Hb]]].
  intro a2. specialize (H1 a2). unfold acct_ok, nonce_of, bal_of in *. rewrite Hi, Hs, Hn, Hb.
  rewrite !aget_adel. destruct (a =? a2); [reflexivity | exact H1].
Qed.

Lemma sum_cost_app l1 l2 : sum_cost (l1 ++ l2) = sum_cost l1 + sum_cost l2.
Proof.
  induction l1 as [|x r IH]; [reflexivity|].
  change (sum_cost ((x :: r) ++ l2)) with (m_cost x + sum_cost (r ++ l2)).
  change (sum_cost (x :: r)) with (m_cost x + sum_cost r). rewrite IH. lia.
Qed.

Lemma starts_removelast n l : (2 <= length l)%nat -> starts n l -> starts n (removelast l).
Proof. destruct l as [|x [|y r]]; cbn; intros; try lia; assumption. Qed.

(* frames: the steps that touch neither index, spent nor the chain state *)
Lemma store_del_core id p q : store_del id p = Ok q -> same_core p q.
Proof. unfold store_del. intro H. inv_bind H. inversion H; subst. repeat split. Qed.
Lemma store_dels_core ids : forall p q, store_dels ids p = Ok q -> same_core p q.
Proof.
  induction ids as [|i r IH]; intros p q H; cbn [store_dels] in H.
  - inversion H; subst. apply same_core_refl.
  - inv_bind H. eapply same_core_trans; [eapply store_del_core; eauto | eapply IH; eauto].
Qed.

Section PoolProofs.
Variable prioE prioB : N -> N -> Z.
Variable gtE gtB : N -> N -> bool.
Variable c : cfg.

Lemma heap_fix_core p a q : heap_fix_addr prioE prioB p a = Ok q -> same_core p q.
Proof. unfold heap_fix_addr. intro H. inv_bind H. inversion H; subst. repeat split. Qed.
Lemma heap_remove_core p a q : heap_remove_addr prioE prioB p a = Ok q -> same_core p q.
Proof. unfold heap_remove_addr. intro H. inv_bind H. inversion H; subst. repeat split. Qed.

Lemma sub_spent_get a n p q : sub_spent a n p = Ok q ->
  exists s, aget (p_spent p) a = Some s /\ p_spent q = aset (p_spent p) a (sub256 s n) /\
            p_index q = p_index p /\ p_nonce q = p_nonce p /\ p_bal q = p_bal p.
Proof.
  unfold sub_spent. destruct (aget (p_spent p) a) as [s|] eqn:E; intro H; [|discriminate].
  inversion H; subst. exists s. repeat split.
Qed.

(* drop() keeps the invariant: it removes the last transaction of one account *)
Lemma drop_inv p q : Inv p -> drop prioE prioB gtE gtB p = Ok q -> Inv q.
Proof.
  intros HI H. unfold drop in H.
  destruct (p_heap p) as [|from hr] eqn:Eh; [discriminate|].
  destruct (last_opt (txs_of p from)) as [d|] eqn:El; [|discriminate].
  unfold txs_of in *. destruct (aget (p_index p) from) as [txs|] eqn:Ei; [|discriminate El].
  pose proof (HI from) as Hok. unfold acct_ok in Hok. rewrite Ei in Hok.
  destruct Hok as [Hne [Hc [Hst [Hsp Hle]]]].
  destruct (removelast_app_last txs Hne) as [x [Ex Elx]]. rewrite El in Elx. inversion Elx; subst x.
  destruct (Nat.eqb (length txs) 1) eqn:E1.
  - (* the whole account goes *)
    cbn [bind] in H. inv_bind H. inv_bind E. inversion E; subst. clear E.
    apply store_del_core in H.
    eapply inv_same_core; [|exact H].
    eapply inv_upd_none with (a := from); [exact HI|]. repeat split.
  - inv_bind_as H p0. apply sub_spent_get in E. destruct E as [s [Es [Es' [Ei' [En' Eb']]]]].
    cbn [p_spent p_index set_index p_nonce p_bal] in *. rewrite Hsp in Es. inversion Es; subst s.
    assert (Hsum : sum_cost txs = sum_cost (removelast txs) + m_cost d).
    { rewrite Ex at 1. rewrite sum_cost_app. cbn. lia. }
    assert (Hlen : (2 <= length txs)%nat).
    { apply Nat.eqb_neq in E1. destruct txs as [|? [|? ?]]; cbn in *; try lia. contradiction. }
    assert (HI1 : Inv p0).
    { eapply inv_upd_some with (a := from) (l := removelast txs); [exact HI | | | | |].
      - repeat split; try assumption. rewrite Es'. f_equal. rewrite sub256_exact; lia.
      - destruct txs as [|? [|? ?]]; cbn in *; try lia; discriminate.
      - apply chain_removelast; assumption.
      - apply starts_removelast; assumption.
      - lia. }
    inv_bind_as H p3. apply store_del_core in H. eapply inv_same_core; [|exact H].
    eapply inv_same_core; [exact HI1|].
    destruct (last_opt (removelast txs)); [|discriminate].
    destruct (gtE (m_evfee m) (m_evfee d) || gtB (m_evbfee m) (m_evbfee d)).
    + inv_bind E. inversion E; subst. repeat split.
    + inversion E; subst. repeat split.
Qed.

Lemma drop_loop_inv fuel : forall p q, Inv p -> drop_loop prioE prioB gtE gtB c fuel p = Ok q -> Inv q.
Proof.
  induction fuel as [|f IH]; intros p q HI H; cbn [drop_loop] in H; [discriminate|].
  destruct (c_datacap c <? p_stored p); [|inversion H; subst; exact HI].
  inv_bind H. eapply IH; [|exact H]. eapply drop_inv; eauto.
Qed.
End PoolProofs.

(* ------------------------------------------------------------------ SetGasTip *)
Lemma aset_aset {V} (m : list (N * V)) k v1 v2 : aset (aset m k v1) k v2 = aset m k v2.
Proof.
  induction m as [|[k' v'] r IH]; cbn [aset].
  - rewrite N.eqb_refl. reflexivity.
  - destruct (k' =? k) eqn:E1; cbn [aset].
    + rewrite N.eqb_refl. reflexivity.
    + destruct (k <? k') eqn:E2; cbn [aset].
      * rewrite N.eqb_refl. reflexivity.
      * rewrite E1, E2, IH. reflexivity.
Qed.

Lemma adel_aset {V} (m : list (N * V)) k v : adel (aset m k v) k = adel m k.
Proof.
  induction m as [|[k' v'] r IH]; cbn [aset adel].
  - rewrite N.eqb_refl. reflexivity.
  - destruct (k' =? k) eqn:E1; cbn [adel].
    + rewrite N.eqb_refl. reflexivity.
    + destruct (k <? k') eqn:E2; cbn [adel].
      * rewrite N.eqb_refl, E1. reflexivity.
      * rewrite E1, IH. reflexivity.
Qed.

Lemma fold_err {A B} (f : res A -> B -> res A) (Hf : forall e b, f (Err e) b = Err e) l e :
  fold_left f l (Err e) = Err e.
Proof. induction l as [|x r IH]; cbn; [reflexivity|]. rewrite Hf. exact IH. Qed.

Lemma unaccount_get a m p q : unaccount a m p = Ok q ->
  exists s, aget (p_spent p) a = Some s /\ p_spent q = aset (p_spent p) a (sub256 s (m_cost m)) /\
            p_index q = p_index p /\ p_nonce q = p_nonce p /\ p_bal q = p_bal p.
Proof.
  unfold unaccount. intro H. inv_bind_as H p1. apply sub_spent_get in E.
  destruct E as [s [E1 [E2 [E3 [E4 E5]]]]]. inversion H; subst. exists s. repeat split; assumption.
Qed.

Lemma fold_unaccount a : forall dropped q q1 s,
  fold_left (fun r2 m => do x <- r2 ; unaccount a m x) dropped (Ok q) = Ok q1 ->
  aget (p_spent q) a = Some s -> sum_cost dropped <= s ->
  (dropped = [] /\ q1 = q \/ p_spent q1 = aset (p_spent q) a (s - sum_cost dropped)) /\
  p_index q1 = p_index q /\ p_nonce q1 = p_nonce q /\ p_bal q1 = p_bal q.
Proof.
  induction dropped as [|m r IH]; intros q q1 s H Hs Hle; cbn [fold_left] in H.
  - inversion H; subst. split; [left; split; reflexivity|]. repeat split.
  - cbn [bind] in H. destruct (unaccount a m q) as [q0|e] eqn:E.
    2:{ rewrite fold_err in H; [discriminate | intros; reflexivity]. }
    apply unaccount_get in E. destruct E as [s0 [E1 [E2 [E3 [E4 E5]]]]].
    rewrite Hs in E1. inversion E1; subst s0.
    change (sum_cost (m :: r)) with (m_cost m + sum_cost r) in *.
    rewrite sub256_exact in E2 by lia.
    assert (Hs0 : aget (p_spent q0) a = Some (s - m_cost m)).
    { rewrite E2, aget_aset, N.eqb_refl. reflexivity. }
    destruct (IH q0 q1 (s - m_cost m) H Hs0 ltac:(lia)) as [Hc [Hi [Hn Hb]]].
    split; [right | repeat split; congruence].
    destruct Hc as [[Hr Hq]|Hc].
    + subst. cbn. rewrite E2. f_equal. change (sum_cost []) with 0. lia.
    + rewrite Hc, E2, aset_aset. f_equal. lia.
Qed.

Lemma starts_app n k d : k <> [] -> starts n (k ++ d) -> starts n k.
Proof. destruct k; [contradiction | intros _ H; exact H]. Qed.

Section TipProofs.
Variable prioE prioB : N -> N -> Z.

(* SetGasTip keeps the invariant (it truncates lists at the first underpriced transaction) *)
Lemma set_gas_tip_inv tip p q : Inv p -> set_gas_tip prioE prioB tip p = Ok q -> Inv q.
Proof.
  intros HI H. unfold set_gas_tip in H.
  assert (HI0 : Inv (set_tip (Some tip) p)) by (eapply inv_same_core; [exact HI | repeat split]).
  destruct (match p_tip p with None => true | Some o => o <? tip end); [|inversion H; subst; exact HI0].
  revert H. generalize (akeys (p_index (set_tip (Some tip) p))). generalize dependent (set_tip (Some tip) p).
  intros p0 HI1 accts. clear HI p. revert p0 HI1.
  induction accts as [|a r IH]; intros p0 HI1 H; cbn [fold_left] in H.
  - inversion H; subst. exact HI1.
  - cbn [bind] in H.
    destruct (split_tip tip (txs_of p0 a)) as [keep dropped] eqn:Es.
    destruct dropped as [|d0 dr].
    + apply IH in H; assumption.
    + match type of H with fold_left ?f r ?x = _ => destruct x as [p1|e] eqn:Ex end.
      2:{ rewrite fold_err in H; [discriminate | intros ? ?; reflexivity]. }
      apply IH in H; [exact H|]. clear IH H.
      pose proof (split_tip_spec _ _ _ _ Es) as [Hl _].
      unfold txs_of in Hl, Es. destruct (aget (p_index p0) a) as [l|] eqn:Ei; [|destruct keep; discriminate Hl].
      pose proof (HI1 a) as Hok. unfold acct_ok in Hok. rewrite Ei in Hok.
      destruct Hok as [Hne [Hc [Hst [Hsp Hle]]]].
      inv_bind_as Ex q1.
      assert (Hsum : sum_cost l = sum_cost keep + sum_cost (d0 :: dr)) by (rewrite Hl; apply sum_cost_app).
      destruct (fold_unaccount a (d0 :: dr) p0 q1 (sum_cost l) E Hsp ltac:(lia)) as [Hsq [Hi [Hn Hb]]].
      destruct Hsq as [[Hx _]|Hsq]; [discriminate|].
      inv_bind_as Ex q2. apply store_dels_core in Ex. eapply inv_same_core; [|exact Ex].
      destruct keep as [|k0 kr].
      * apply heap_remove_core in E0. eapply inv_same_core; [|exact E0].
        eapply inv_upd_none with (a := a); [exact HI1|]. unfold upd_none.
        cbn [p_index p_spent p_nonce p_bal set_index set_spent]. rewrite Hi, Hsq, adel_aset, Hn, Hb. repeat split.
      * apply heap_fix_core in E0. eapply inv_same_core; [|exact E0].
        eapply inv_upd_some with (a := a) (l := k0 :: kr); [exact HI1 | | discriminate | | |].
        -- unfold upd_some. cbn [p_index p_spent p_nonce p_bal set_index]. rewrite Hi, Hsq, Hn, Hb.
           repeat split. f_equal. lia.
        -- rewrite Hl in Hc. eapply chain_app_l; eauto.
        -- rewrite Hl in Hst. exact Hst.
        -- lia.
Qed.
End TipProofs.

(* ------------------------------------------------------------------ a concrete Inv state *)
Definition ex_tx (id nonce tip : N) : tx := mkTx id 0 nonce tip 100 7 3017972 1.
Definition m_ex0 : meta := mkMeta (ex_tx 0 0 10) 0 10 100 7.
Definition m_ex1 : meta := mkMeta (ex_tx 1 1 5) 1 5 100 7.
Definition p_ex : pool :=
  mkPool empty_billy 282752 (mkLimbo empty_billy [] []) [] [] [(0, 0)] [(0, 1125899906842624)] 0 (Some 1)
         [(0, 0); (1, 1)] [(0, [m_ex0; m_ex1])] [(0, 6035944)] [0] 10 1.

Lemma p_ex_inv : Inv p_ex.
Proof.
  intro a.
  unfold acct_ok, p_ex. cbn [p_index p_spent aget]. destruct (0 =? a) eqn:E; [|reflexivity].
  repeat split.
  - discriminate.
  - constructor; [vm_compute; reflexivity | constructor].
  - unfold nonce_of. cbn [p_nonce aget]. rewrite E. reflexivity.
  - unfold bal_of. cbn [p_bal aget]. rewrite E. apply N.leb_le. vm_compute. reflexivity.
Qed.

Lemma p_ex_evicts :
  exists q, drop_loop (fun _ _ => 0%Z) (fun _ _ => 0%Z) (fun a b => b <? a) (fun a b => b <? a)
                      (mkCfg 141376 100) 3 p_ex = Ok q /\ map m_id (txs_of q 0) = [0].
Proof. eexists. split; vm_compute; reflexivity. Qed.
