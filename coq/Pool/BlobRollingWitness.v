(* Pool/BlobRollingWitness.v — a recomputation of the eviction fields that stops at the first
   transaction whose tip and exec-fee minima did not change (the shape of seeded change C42-1)
   does NOT leave prefix minima behind: the blob-fee minimum two positions after a replaced
   blob-fee bottleneck stays stale. *)
From Coq Require Import List NArith ZArith Bool Lia.
From GV Require Import Lib.Tactics Pool.Blob Pool.BlobProofs.
Import ListNotations.
Local Open Scope N_scope.

Fixpoint reev_early (first : bool) (prev : option meta) (l : list meta) : list meta :=
  match l with
  | [] => []
  | m :: r =>
      let m' := match prev with None => ev_first m | Some q => ev_next q m end in
      if negb first && (m_evtip m' =? m_evtip m) && (m_evfee m' =? m_evfee m)
      then m' :: r
      else m' :: reev_early false (Some m') r
  end.

Definition bt (id nonce tip fee bfee : N) : tx := mkTx id 0 nonce tip fee bfee 0 1.
(* account list after the replacement of position 0 (fresh meta) by a tx with all caps doubled;
   positions 1 and 2 still carry the minima computed with the old tx (blob cap 7) *)
Definition early_in : list meta :=
  [ mkMeta (bt 3 0 20 200 20) 9 0 0 0; mkMeta (bt 1 1 5 50 100) 1 5 50 7; mkMeta (bt 2 2 5 50 100) 2 5 50 7 ].

Lemma early_exit_not_rolling : ~ rolling None (reev_early true None early_in).
Proof.
  intro H. vm_compute in H.
  inversion H as [| ? ? E1 H1 |]; subst. inversion H1 as [| | ? ? ? E2 H2]; subst.
  inversion H2 as [| | ? ? ? E3 H3]; subst. vm_compute in E3. discriminate E3.
Qed.

Lemma full_recompute_rolling : rolling None (reev None early_in 0).
Proof. apply reev_rolling. Qed.

Lemma early_exit_refuted :
  ~ rolling None (reev_early true None early_in) /\ rolling None (reev None early_in 0).
Proof. split; [exact early_exit_not_rolling | exact full_recompute_rolling]. Qed.
