(* Pool/BillyIdLaws.v — the store laws at the level of billy ids (slot | shelf<<28): Put returns
   an id no live id equals, Get after Put returns the item, Put and Delete leave every other live
   id alive with its content, Delete kills its id.  Guards: every shelf's gap list is in range and
   strictly increasing (preserved), and the shelf Put writes to holds fewer than 2^28 slots
   (otherwise the slot number spills into the shelf bits of the id). *)
From Coq Require Import List NArith ZArith Bool Lia Sorted.
From GV Require Import Lib.Tactics Pool.Blob Pool.BlobProofs Pool.BlobRollingProofs Pool.BillyLawsProofs.
Import ListNotations.
Local Open Scope N_scope.

Definition two28 : N := 268435456.
Definition live_id (b : billy) (id : N) : Prop :=
  exists s, nth_error b (id_shelf id) = Some s /\ live_slot s (N.of_nat (id_slot id)).
Definition billy_wf (b : billy) : Prop := Forall shelf_wf b.

Lemma id_decode k slot : slot < two28 ->
  id_shelf (mk_id k slot) = N.to_nat k /\ id_slot (mk_id k slot) = N.to_nat slot.
Proof.
  intro H. unfold id_shelf, id_slot, mk_id. fold two28. split; f_equal.
  - rewrite N.div_add by (unfold two28; lia). rewrite N.div_small by exact H. lia.
  - rewrite N.mod_add by (unfold two28; lia). apply N.mod_small. exact H.
Qed.

Lemma id_decode_inj i j : id_shelf j = id_shelf i -> id_slot j = id_slot i -> j = i.
Proof.
  unfold id_shelf, id_slot. fold two28. intros H1 H2. apply N2Nat.inj in H1. apply N2Nat.inj in H2.
  rewrite (N.div_mod' j two28), (N.div_mod' i two28). rewrite H1, H2. reflexivity.
Qed.

Lemma Forall_list_set {A} (P : A -> Prop) : forall (l : list A) i x, Forall P l -> P x -> Forall P (list_set l i x).
Proof.
  induction l as [|y r IH]; intros [|i] x H Hx; cbn [list_set]; try exact H.
  - inversion H; subst. constructor; assumption.
  - inversion H; subst. constructor; [assumption | apply IH; assumption].
Qed.

Lemma shelf_put_slot_le s it s' slot : shelf_wf s -> shelf_put s it = (s', slot) -> slot <= lenN (sh_slots s).
Proof.
  intros [Hr _] H. unfold shelf_put in H. destruct (sh_gaps s) as [|g gs]; inversion H; subst; [lia|].
  inversion Hr; subst. lia.
Qed.

Lemma billy_get_slot b id s : nth_error b (id_shelf id) = Some s ->
  billy_get b id = match slot_get s (N.of_nat (id_slot id)) with Some (Some it) => Ok (Some it) | _ => Ok None end.
Proof. intro H. unfold billy_get, slot_get. rewrite H, Nat2N.id. reflexivity. Qed.

Theorem billy_put_laws b k s it b' id :
  billy_wf b -> nth_error b (N.to_nat k) = Some s -> lenN (sh_slots s) < two28 ->
  billy_put b k it = Some (b', id) ->
  ~ live_id b id /\ live_id b' id /\ billy_get b' id = Ok (Some it) /\ billy_wf b' /\
  (forall j, live_id b j -> live_id b' j /\ billy_get b' j = billy_get b j).
Proof.
  intros Hwf Hk Hsmall H. unfold billy_put in H. rewrite Hk in H.
  destruct (shelf_put s it) as [s' slot] eqn:Ep. inversion H; subst b' id. clear H.
  assert (Hs : shelf_wf s) by (unfold billy_wf in Hwf; rewrite Forall_forall in Hwf; apply Hwf; eapply nth_error_In; eauto).
  pose proof (shelf_put_slot_le _ _ _ _ Hs Ep) as Hle.
  destruct (shelf_put_laws _ _ _ _ Hs Ep) as [L1 [L2 [L3 [L4 L5]]]].
  destruct (id_decode k slot ltac:(lia)) as [D1 D2].
  assert (Hklt : (N.to_nat k < length b)%nat) by (apply nth_error_Some; rewrite Hk; discriminate).
  assert (Hnew : nth_error (list_set b (N.to_nat k) s') (N.to_nat k) = Some s') by (apply list_set_same; exact Hklt).
  split; [|split; [|split; [|split]]].
  - intros [s0 [H0 Hl]]. rewrite D1, Hk in H0. inversion H0; subst s0. rewrite D2, N2Nat.id in Hl. exact (L1 Hl).
  - exists s'. rewrite D1, D2, N2Nat.id. split; assumption.
  - rewrite (billy_get_slot _ _ s') by (rewrite D1; exact Hnew). rewrite D2, N2Nat.id, L3. reflexivity.
  - apply Forall_list_set; assumption.
  - intros j [sj [Hj Hl]]. destruct (Nat.eq_dec (id_shelf j) (N.to_nat k)) as [E|E].
    + rewrite E, Hk in Hj. inversion Hj; subst sj. destruct (L5 _ Hl) as [M1 M2]. split.
      * exists s'. rewrite E. split; assumption.
      * rewrite (billy_get_slot _ _ s') by (rewrite E; exact Hnew).
        rewrite (billy_get_slot _ _ s) by (rewrite E; exact Hk). rewrite M2. reflexivity.
    + assert (Hsame : nth_error (list_set b (N.to_nat k) s') (id_shelf j) = Some sj)
        by (rewrite list_set_other by (intro K; apply E; symmetry; exact K); exact Hj).
      split; [exists sj; split; assumption|].
      rewrite (billy_get_slot _ _ sj Hsame), (billy_get_slot _ _ sj Hj). reflexivity.
Qed.

Theorem billy_delete_laws b id b' :
  billy_wf b -> live_id b id -> billy_delete b id = Ok b' ->
  billy_wf b' /\ ~ live_id b' id /\
  (forall j, live_id b j -> j <> id -> live_id b' j /\ billy_get b' j = billy_get b j).
Proof.
  intros Hwf [s [Hk Hl]] H. unfold billy_delete in H. rewrite Hk in H. inversion H; subst b'. clear H.
  assert (Hs : shelf_wf s) by (unfold billy_wf in Hwf; rewrite Forall_forall in Hwf; apply Hwf; eapply nth_error_In; eauto).
  destruct (shelf_delete_laws s (N.of_nat (id_slot id)) Hs (proj1 Hl)) as [L1 [L2 L3]].
  set (s' := shelf_delete s (N.of_nat (id_slot id))) in *.
  assert (Hklt : (id_shelf id < length b)%nat) by (apply nth_error_Some; rewrite Hk; discriminate).
  assert (Hnew : nth_error (list_set b (id_shelf id) s') (id_shelf id) = Some s') by (apply list_set_same; exact Hklt).
  split; [|split].
  - apply Forall_list_set; assumption.
  - intros [s0 [H0 Hl0]]. rewrite Hnew in H0. inversion H0; subst s0. exact (L2 Hl0).
  - intros j [sj [Hj Hlj]] Hne. destruct (Nat.eq_dec (id_shelf j) (id_shelf id)) as [E|E].
    + rewrite E, Hk in Hj. inversion Hj; subst sj.
      assert (Hsl : N.of_nat (id_slot j) <> N.of_nat (id_slot id)).
      { intro K. apply Nat2N.inj in K. apply Hne. apply id_decode_inj; assumption. }
      destruct (L3 _ Hlj Hsl) as [M1 M2]. split.
      * exists s'. rewrite E. split; assumption.
      * rewrite (billy_get_slot _ _ s') by (rewrite E; exact Hnew).
        rewrite (billy_get_slot _ _ s) by (rewrite E; exact Hk). rewrite M2. reflexivity.
    + assert (Hsame : nth_error (list_set b (id_shelf id) s') (id_shelf j) = Some sj)
        by (rewrite list_set_other by (intro K; apply E; symmetry; exact K); exact Hj).
      split; [exists sj; split; assumption|].
      rewrite (billy_get_slot _ _ sj Hsame), (billy_get_slot _ _ sj Hj). reflexivity.
Qed.
