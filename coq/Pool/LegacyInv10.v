(* Pool/LegacyInv10.v — the Reset cycle under the guard "no account's state nonce moves below its
   pending txs": gapless pending lists and exact pending nonces are re-established. *)
From GV Require Import Lib.Tactics Pool.Legacy Pool.LegacyProofs Pool.LegacyInv Pool.LegacyInv2 Pool.LegacyInv3 Pool.LegacyInv4 Pool.LegacyInv5 Pool.LegacyInv6 Pool.LegacyInv7 Pool.LegacyInv8 Pool.LegacyInv9.
From Coq Require Import Sorting.Sorted.
Local Open Scope N_scope.

Definition keepf (n : N) (l : list tx) : list tx := filter (fun x => negb (t_nonce x <? n)) l.
Definition sn (st : pool) (a : N) : N := ch_nonce (p_chain st) a.

(* mid-Reset invariant: what Forward(state nonce) will keep of each pending list is gapless from the
   state nonce, and no pending nonce (noncer) is above the state nonce *)
Definition k_at (st : pool) (a : N) : Prop :=
  (forall l, p_pending st a = Some l -> contig (sn st a) (keepf (sn st a) (l_txs l))) /\ pn_get a st <= sn st a.
Definition KInv (st : pool) : Prop := forall a, k_at st a.

Lemma k_at_same : forall st st' a, p_pending st' a = p_pending st a -> pn_get a st' = pn_get a st -> p_chain st' = p_chain st ->
  k_at st a -> k_at st' a.
Proof. intros st st' a P N C [K1 K2]. unfold k_at, sn in *. rewrite P, N, C. split; assumption. Qed.

Lemma KInv_core_pn : forall s s', core s' = core s -> p_pn s' = p_pn s -> KInv s -> KInv s'.
Proof.
  intros s s' Hc Hn HK a. core_inv Hc. apply (k_at_same s); [rewrite Epend; reflexivity | unfold pn_get; rewrite Hn, Echain; reflexivity | exact Echain | apply HK].
Qed.

Lemma keepf_filter_lt : forall n m l, keepf n (filter (fun x => t_nonce x <? m) l) = filter (fun x => t_nonce x <? m) (keepf n l).
Proof. intros. unfold keepf. rewrite !filter_filter'. apply filter_ext. intros x. apply andb_comm. Qed.

(* removeTx *)
Lemma remove_tx_K : forall k t oob st, SInv st -> KInv st -> KInv (fst (remove_tx (S (S k)) t oob st)).
Proof.
  intros k t oob st HS HK. cbn [remove_tx]. destruct (all_has t st) eqn:Eh; cbn [negb fst]; [|exact HK].
  apply all_has_In in Eh. set (a := t_from t).
  set (st2 := if oob then priced_removed 1 (all_remove t st) else all_remove t st).
  assert (F2 : p_pending st2 = p_pending st /\ p_queue st2 = p_queue st /\ p_pn st2 = p_pn st /\ p_chain st2 = p_chain st /\ p_cfg st2 = p_cfg st).
  { destruct (all_remove_spec t st (SInv_AInv _ HS)) as [_ [_ [C1 [Ch1 [P1 [Q1 [_ Pn1]]]]]]].
    unfold st2. destruct oob; [|tauto]. pose proof (core_priced_removed 1 (all_remove t st)) as Hc. core_inv Hc.
    rewrite pn_priced_removed, Epend, Equeue, Echain, Ecfg. tauto. }
  destruct F2 as [P2 [Q2 [N2 [Ch2 C2]]]].
  assert (Hqcase : KInv (q_remove a t st2)).
  { destruct (pn_q_remove a t st2) as [Nq Chq]. intros b. apply (k_at_same st); [rewrite pend_q_remove, P2; reflexivity | unfold pn_get; rewrite Nq, N2, Chq, Ch2; reflexivity | rewrite Chq, Ch2; reflexivity | apply HK]. }
  assert (Hloc : inP st t \/ inQ st t) by (apply (s_union _ HS), Eh).
  rewrite P2. destruct (p_pending st a) as [pl|] eqn:Ep; [|exact Hqcase].
  destruct (s_pw _ HS a pl Ep) as [Lp Ha].
  destruct (list_remove t pl) as [[found inv] pl'] eqn:Er. destruct found; [|exact Hqcase].
  assert (Hin : In t (l_txs pl)).
  { destruct Hloc as [Hp|Hq]; [unfold inP in Hp; fold a in Hp; rewrite Ep in Hp; exact Hp|]. exfalso.
    unfold inQ in Hq. fold a in Hq. destruct (p_queue st a) as [ql|] eqn:Eq; [|destruct Hq].
    pose proof (s_disj _ HS a pl ql t Ep Eq Hq) as Hd. unfold list_remove, sm_remove in Er. rewrite Hd in Er. discriminate. }
  destruct (list_remove_spec _ _ _ _ t Lp Hin) as [inv0 [pl0 [Er0 [Lp' [Mp' [Minv Sinv]]]]]]. rewrite Er in Er0. inversion Er0; subst inv0 pl0; clear Er0.
  pose proof (list_remove_strict_txs t pl inv pl' (lk_strict _ _ _ _ Lp) Er) as Htx.
  set (st3 := if l_empty pl' then chk pl' (del_pending a st2) else put_pending a pl' st2).
  assert (F3 : (forall b, p_pending st3 b = upd (p_pending st) a (stored pl') b) /\ p_queue st3 = p_queue st /\
               p_pn st3 = p_pn st /\ p_chain st3 = p_chain st /\ p_cfg st3 = p_cfg st).
  { unfold st3, stored, put_pending. rewrite !(chk_ok _ _ _ _ _ Lp'). destruct (l_empty pl'); cbn; rewrite ?P2, ?Q2, ?N2, ?Ch2, ?C2; repeat split; reflexivity. }
  destruct F3 as [P3 [Q3 [N3 [Ch3 C3]]]].
  assert (Hinv : forall x, In x inv -> In x (l_txs pl) /\ t_nonce t < t_nonce x) by (intros x Hx; apply Minv in Hx; tauto).
  destruct (enqueue_many k inv st3 a) as [_ [_ [_ F4]]].
  { intros ql Hq0. rewrite C3. rewrite Q3 in Hq0. apply (s_qw _ HS a ql Hq0). }
  { intros x Hx. rewrite C3. apply (lk_mem _ _ _ _ Lp), Hinv, Hx. }
  { exact Sinv. }
  { intros x ql Hx Hq0. rewrite Q3 in Hq0. destruct (sm_get (t_nonce x) (l_txs ql)) as [o|] eqn:Eo; [|reflexivity].
    apply sm_get_In in Eo. destruct Eo as [Ho1 Ho2]. pose proof (s_disj _ HS a pl ql o Ep Hq0 Ho1) as Hd. rewrite Ho2 in Hd.
    exfalso. eapply In_sm_get; [apply (Hinv x Hx) | exact Hd]. }
  set (st4 := fold_left (fun s x => fst (enqueue_tx (S k) x false s)) inv st3) in *.
  destruct F4 as [_ [Ch4 [P4 [_ [_ [_ N4]]]]]]. cbn [fst].
  assert (Hch4 : p_chain st4 = p_chain st) by congruence.
  pose proof (core_pn_set_if_lower a (t_nonce t) st4) as Hc. core_inv Hc.
  intros b. destruct (N.eq_dec b a) as [->|Hne].
  - destruct (HK a) as [K1 K2]. unfold k_at, sn in *. rewrite Echain, Hch4, Epend, P4, P3, upd_same. split.
    + intros l0 Hl0. unfold stored in Hl0. destruct (l_empty pl'); inversion Hl0; subst l0. rewrite Htx, keepf_filter_lt. apply contig_filter_lt, (K1 pl Ep).
    + rewrite pn_set_if_lower_get, N.eqb_refl. assert (Hg : pn_get a st4 = pn_get a st) by (unfold pn_get; rewrite N4, N3, Hch4; reflexivity). rewrite Hg. lia.
  - apply (k_at_same st); [rewrite Epend, P4, P3; apply upd_other, Hne | | congruence | apply HK].
    rewrite pn_set_if_lower_get. destruct (b =? a) eqn:Eb; [apply N.eqb_eq in Eb; contradiction|]. unfold pn_get. rewrite N4, N3, Hch4. reflexivity.
Qed.

Definition SK (s : pool) : Prop := SInv s /\ KInv s.

Lemma evict_SK : forall t st, SK st -> SK (snd (evict_of t st)).
Proof.
  intros t st [HS HK]. pose proof (evict_Good t st HS) as [[S' _] _]. split; [exact S'|]. clear S'.
  unfold evict_of. destruct (negb _); [exact HK|].
  pose proof (core_priced_underpriced t st) as H1. pose proof (pn_priced_underpriced t st) as N1.
  destruct (priced_underpriced t st) as [under st1]. cbn [snd] in *.
  assert (G1 : SK st1) by (split; [eapply SInv_core; eassumption | eapply KInv_core_pn; eassumption]).
  destruct under; [apply G1|]. destruct (_ <? _); [apply G1|].
  match goal with |- context [priced_discard ?z st1] => pose proof (core_priced_discard z st1) as H2; pose proof (pn_priced_discard z st1) as N2; destruct (priced_discard z st1) as [[drop|] st2] end; cbn [snd] in *;
    assert (G2 : SK st2) by (destruct G1 as [A B]; split; [eapply SInv_core; eassumption | eapply KInv_core_pn; eassumption]); [|apply G2].
  destruct (_ && _); cbn [snd].
  - clear -G2. revert st2 G2. induction drop as [|d drop IH]; intros s G; cbn [fold_left]; [apply G|].
    apply IH. destruct G as [A B]. split; [eapply SInv_core; [apply core_priced_put | exact A] | eapply KInv_core_pn; [apply core_priced_put | reflexivity | exact B]].
  - clear -G2. revert st2 G2. induction drop as [|d drop IH]; intros s [A B]; cbn [fold_left]; [exact B|].
    apply IH. pose proof (remove_tx_SInv 4 d false s A) as [S2 _]. pose proof (remove_tx_K 4 d false s A B) as G3.
    change (S (S 4)) with FUEL in *. destruct (remove_tx FUEL d false s) as [s' n]. cbn [fst] in *.
    split; [eapply SInv_core; [apply core_set_changes | exact S2] | eapply KInv_core_pn; [apply core_set_changes | reflexivity | exact G3]].
Qed.

Lemma keepf_put_contig : forall t l s n o, sorted l -> sm_get (t_nonce t) l = Some o ->
  contig s (keepf n l) -> contig s (keepf n (sm_put t l)).
Proof.
  unfold sorted. induction l as [|y l IH]; intros s n o Hs Hg Hc; [discriminate|].
  pose proof (StronglySorted_inv Hs) as [Hs' Hf]. rewrite Forall_forall in Hf.
  unfold sm_get in Hg. cbn [find] in Hg. cbn [sm_put].
  destruct (t_nonce y =? t_nonce t) eqn:E.
  - apply N.eqb_eq in E. destruct (t_nonce t <? t_nonce y) eqn:E1; [lia|]. destruct (t_nonce t =? t_nonce y) eqn:E2; [|lia].
    unfold keepf in *. cbn [filter] in *. rewrite <- E. destruct (negb (t_nonce y <? n)); [|exact Hc].
    destruct Hc as [Hy Hr]. split; [lia | exact Hr].
  - apply N.eqb_neq in E. fold (sm_get (t_nonce t) l) in Hg. pose proof (sm_get_In _ _ _ Hg) as [Ho1 Ho2].
    pose proof (Hf o Ho1) as Hlt. unfold nlt in Hlt.
    destruct (t_nonce t <? t_nonce y) eqn:E1; [lia|]. destruct (t_nonce t =? t_nonce y) eqn:E2; [lia|].
    unfold keepf in *. cbn [filter] in *. destruct (negb (t_nonce y <? n)).
    + destruct Hc as [Hy Hr]. split; [exact Hy | apply (IH (s + 1) n o Hs' Hg Hr)].
    + apply (IH s n o Hs' Hg Hc).
Qed.

Lemma tail_K : forall t c st1, SInv st1 -> KInv st1 -> ~ In t (p_all st1) -> KInv (fst (fst (tail_of t c st1))).
Proof.
  intros t c st1 HS HK Hnt. unfold tail_of.
  assert (Henq : (forall pl, p_pending st1 (t_from t) = Some pl -> sm_get (t_nonce t) (l_txs pl) = None) ->
                 KInv (fst (fst (match enqueue_tx FUEL t true st1 with
                        | (st2, None) => (st2, E_REPLACEUNDER, false) | (st2, Some r0) => (st2, E_OK, r0) end)))).
  { intros Hnp. pose proof (enqueue_true_frames 4 t st1 HS Hnt Hnp) as [P [N Ch]]. change (S (S 4)) with FUEL in *.
    destruct (enqueue_tx FUEL t true st1) as [s2 [r0|]]; cbn [fst] in *; intros b; (apply (k_at_same st1); [rewrite P; reflexivity | unfold pn_get; rewrite N, Ch; reflexivity | exact Ch | apply HK]). }
  destruct (p_pending st1 (t_from t)) as [l|] eqn:Ep; [|apply Henq; intros pl H; discriminate].
  unfold l_contains. destruct (sm_get (t_nonce t) (l_txs l)) as [o|] eqn:Eg; [|apply Henq; intros pl H; inversion H; subst; exact Eg].
  destruct (list_add t (c_bump c) l) as [[old| |] l'] eqn:Ea; cbn [fst]; [| exact HK | eapply KInv_core_pn; [apply core_set_ovf | reflexivity | exact HK]].
  destruct (list_add_ok_inv _ _ _ _ _ Ea) as [_ [Ht _]].
  set (a := t_from t) in *.
  set (st3 := match old with Some o0 => priced_removed 1 (all_remove o0 (put_pending a l' st1)) | None => put_pending a l' st1 end).
  assert (F3 : (forall b, p_pending st3 b = upd (p_pending st1) a (Some l') b) /\ p_pn st3 = p_pn st1 /\ p_chain st3 = p_chain st1).
  { unfold st3. destruct old as [o0|].
    - pose proof (core_priced_removed 1 (all_remove o0 (put_pending a l' st1))) as Hc. core_inv Hc.
      split; [intros b; rewrite Epend, pend_all_remove; apply pend_put_pending|].
      rewrite pn_priced_removed, pn_all_remove, Echain. unfold put_pending. rewrite pn_chk. unfold all_remove. destruct (all_has o0 _); cbn; rewrite chain_chk; split; reflexivity.
    - split; [intros b; apply pend_put_pending|]. unfold put_pending. rewrite pn_chk, chain_chk. split; reflexivity. }
  destruct F3 as [P3 [N3 Ch3]].
  set (st' := q_bump a (priced_put t (all_add t st3))).
  assert (F' : (forall b, p_pending st' b = upd (p_pending st1) a (Some l') b) /\ p_pn st' = p_pn st1 /\ p_chain st' = p_chain st1).
  { unfold st'. pose proof (core_q_bump a (priced_put t (all_add t st3))) as Hc. core_inv Hc.
    split; [intros b; rewrite Epend; cbn; apply P3|]. rewrite pn_q_bump, Echain. cbn. split; assumption. }
  destruct F' as [P' [N' Ch']].
  destruct (s_pw _ HS a l Ep) as [Lp _].
  intros b. destruct (N.eq_dec b a) as [->|Hne].
  - destruct (HK a) as [K1 K2]. unfold k_at, sn, pn_get in *. rewrite P', N', Ch', upd_same. split; [|exact K2].
    intros l0 H0. inversion H0; subst. rewrite Ht. eapply keepf_put_contig; [apply (lw_sorted _ (lk_wf _ _ _ _ Lp)) | exact Eg | apply (K1 l Ep)].
  - apply (k_at_same st1); [rewrite P'; apply upd_other, Hne | unfold pn_get; rewrite N', Ch'; reflexivity | exact Ch' | apply HK].
Qed.

Lemma pool_add_SK : forall t st, SK st -> okt (p_cfg st) t -> SK (fst (fst (pool_add t st))).
Proof.
  intros t st [HS HK] Hk. split; [apply (pool_add_RS t st HS Hk)|].
  rewrite pool_add_unfold. destruct (all_has t st) eqn:Eh; [exact HK|]. cbv zeta.
  destruct (negb (validate_state t st =? E_OK)); [exact HK|].
  pose proof (evict_SK t st (conj HS HK)) as [S1 G1]. pose proof (evict_Good t st HS) as [_ Hsub].
  destruct (evict_of t st) as [[err|] st1]; cbn [snd fst] in *; [exact G1|].
  apply tail_K; [exact S1 | exact G1|]. intros H. apply Hsub in H. apply all_has_In in H. congruence.
Qed.

Lemma add_txs_locked_SK : forall txs errs st dirty, SK st -> (forall t, In t txs -> okt (p_cfg st) t) ->
  SK (fst (fst (add_txs_locked txs errs st dirty))).
Proof.
  induction txs as [|t ts IH]; intros errs st dirty H Hk; cbn [add_txs_locked]; [exact H|].
  destruct errs as [|e es]; [exact H|].
  destruct (negb (e =? E_OK)).
  - pose proof (IH es st dirty H (fun x Hx => Hk x (or_intror Hx))) as R.
    destruct (add_txs_locked ts es st dirty) as [[s' es'] d']. exact R.
  - pose proof (pool_add_SK t st H (Hk t (or_introl eq_refl))) as R1.
    pose proof (pool_add_RS t st (proj1 H) (Hk t (or_introl eq_refl))) as [_ [C1 _]].
    destruct (pool_add t st) as [[st1 e1] rep]. cbn [fst] in *.
    match goal with |- context [add_txs_locked ts es st1 ?d] =>
      pose proof (IH es st1 d R1 (fun x Hx => eq_ind_r (fun c => okt c x) (Hk x (or_intror Hx)) C1)) as R2; destruct (add_txs_locked ts es st1 d) as [[s' es'] d'] end.
    exact R2.
Qed.

(* ---------- the promote phase of the Reset cycle ---------- *)
Definition K1Inv (st : pool) : Prop := forall a l, p_pending st a = Some l -> contig (sn st a) (keepf (sn st a) (l_txs l)).
Definition ptxs (st : pool) (a : N) : list tx := match p_pending st a with Some l => l_txs l | None => [] end.
(* the nonce at which the next promotion of an account has to happen *)
Definition vf (st : pool) (a : N) : N := sn st a + N.of_nat (length (keepf (sn st a) (ptxs st a))).

Lemma sm_put_max : forall t l, (forall x, In x l -> t_nonce x < t_nonce t) -> sm_put t l = l ++ [t].
Proof.
  induction l as [|y l IH]; intros H; cbn [sm_put app]; [reflexivity|].
  pose proof (H y (or_introl eq_refl)) as Hy. destruct (t_nonce t <? t_nonce y) eqn:E1; [lia|]. destruct (t_nonce t =? t_nonce y) eqn:E2; [lia|].
  f_equal. apply IH. intros x Hx. apply H. right. exact Hx.
Qed.

Lemma keepf_app : forall n a b, keepf n (a ++ b) = keepf n a ++ keepf n b.
Proof. intros. unfold keepf. apply filter_app. Qed.

Lemma promote_fold_K1 : forall T s L g, SL s L -> PO s T -> (forall t, In t T -> In t L) -> K1Inv s ->
  Sched (vf s) T g -> K1Inv (fold_left (fun s t => promote_tx t s) T s).
Proof.
  induction T as [|t T IH]; intros s L g HS HP HT HK Hs; cbn [fold_left Sched] in *; [exact HK|].
  destruct Hs as [Hn Hs]. set (a := t_from t) in *.
  destruct (promote_tx_SL s L T t HS HP (HT t (or_introl eq_refl))) as [S1 [P1 _]].
  destruct (promote_tx_shape s L T t HS HP) as [l1 [Hp [Htx [_ Hch]]]]. fold a in Hp, Htx.
  pose proof (po_nd _ _ HP) as Hnd. cbn [map] in Hnd. inversion Hnd as [|? ? Hkt _]; subst.
  (* promotion appends *)
  assert (Hk0 : contig (sn s a) (keepf (sn s a) (ptxs s a))).
  { unfold ptxs. destruct (p_pending s a) as [l|] eqn:Ep; [apply (HK a l Ep) | exact I]. }
  assert (Hmax : forall x, In x (ptxs s a) -> t_nonce x < t_nonce t).
  { intros x Hx. unfold vf in Hn. fold a in Hn. destruct (t_nonce x <? sn s a) eqn:E; [apply N.ltb_lt in E; lia|].
    assert (Hxk : In x (keepf (sn s a) (ptxs s a))) by (apply filter_In; split; [exact Hx | rewrite E; reflexivity]).
    pose proof (contig_length_bound _ _ _ Hk0 Hxk). lia. }
  assert (Happ : l_txs l1 = ptxs s a ++ [t]) by (rewrite Htx; apply sm_put_max, Hmax).
  assert (Hkeep : keepf (sn s a) (l_txs l1) = keepf (sn s a) (ptxs s a) ++ [t]).
  { rewrite Happ, keepf_app. f_equal. unfold keepf. cbn [filter]. unfold vf in Hn. fold a in Hn.
    destruct (t_nonce t <? sn s a) eqn:E; [apply N.ltb_lt in E; lia | reflexivity]. }
  apply (IH (promote_tx t s) _ g S1 P1).
  - intros x Hx. apply In_filter_ne. split; [apply HT; right; exact Hx|]. intros ->. apply Hkt. apply in_map. exact Hx.
  - intros b l Hl. unfold sn. rewrite Hch. rewrite Hp in Hl. unfold upd in Hl. destruct (b =? a) eqn:Eb.
    + apply N.eqb_eq in Eb. subst b. inversion Hl; subst l. fold (sn s a). rewrite Hkeep. apply contig_app_one; [exact Hk0 | exact Hn].
    + apply (HK b l Hl).
  - eapply Sched_ext; [|exact Hs]. intros b. unfold vf, sn, ptxs. rewrite Hch, Hp. unfold upd. destruct (b =? a) eqn:Eb; [|reflexivity].
    apply N.eqb_eq in Eb. subst b. fold (sn s a). rewrite Hkeep, app_length. cbn [length]. unfold vf in Hn. fold a in Hn. lia.
Qed.

Lemma q_promote_one_runK : forall a s rd dr s1,
  (forall l, p_queue s a = Some l -> lok (p_cfg s) false a l) ->
  (forall pl ql x, p_pending s a = Some pl -> p_queue s a = Some ql -> In x (l_txs ql) -> sm_get (t_nonce x) (l_txs pl) = None) ->
  k_at s a -> q_promote_one a s = (rd, dr, s1) ->
  (forall x, In x rd -> t_from x = a) /\ contig (vf s a) rd.
Proof.
  intros a s rd dr s1 HL HD [K1 K2] E. unfold q_promote_one in E.
  destruct (p_queue s a) as [l|] eqn:Eq; [|inversion E; subst; split; [intros x [] | exact I]].
  pose proof (HL l eq_refl) as Lq.
  destruct (list_forward (ch_nonce (p_chain s) a) l) as [fw l1] eqn:E1.
  destruct (list_filter (ch_bal (p_chain s) a) (ch_gaslimit (p_chain s)) l1) as [[drops inv] l2] eqn:E2.
  destruct (list_ready (pn_get a s) l2) as [r l3] eqn:E3. destruct (list_cap _ l3) as [caps l4]. inversion E; subst r dr s1; clear E.
  destruct (list_forward_spec _ _ _ _ _ _ _ Lq E1) as [L1 [M1 [_ Hlow1]]].
  destruct (list_filter_spec _ _ _ _ _ _ _ _ _ L1 E2) as [L2 [M2 _]].
  destruct (list_ready_spec _ _ _ _ _ _ _ L2 E3) as [_ [M3 _]].
  assert (Hl2_l : forall x, In x (l_txs l2) -> In x (l_txs l) /\ sn s a <= t_nonce x).
  { intros x Hx. assert (H1 : In x (l_txs l1)) by (apply M2; left; exact Hx). split; [apply M1; left; exact H1 | apply Hlow1, H1]. }
  split; [intros x Hx; apply (lk_mem _ _ _ _ Lq), Hl2_l, M3; right; exact Hx|].
  destruct (l_txs l2) as [|x r] eqn:El2.
  - unfold list_ready, sm_ready in E3. rewrite El2 in E3. inversion E3; subst. exact I.
  - destruct (Hl2_l x (or_introl eq_refl)) as [Hxl Hxlow].
    assert (Hpn : pn_get a s <= t_nonce x) by lia.
    destruct (list_ready_contig (pn_get a s) l2 rd l3 x r El2 Hpn E3) as [->|[Hxe Hc]]; [exact I|].
    assert (Hsn : pn_get a s = sn s a) by lia.
    assert (Hke : keepf (sn s a) (ptxs s a) = []).
    { unfold ptxs. destruct (p_pending s a) as [pl|] eqn:Ep; [|reflexivity]. specialize (K1 pl eq_refl).
      destruct (keepf (sn s a) (l_txs pl)) as [|y ys] eqn:Ek; [reflexivity|exfalso]. destruct K1 as [Hy _].
      assert (Hyin : In y (l_txs pl)) by (assert (Hi : In y (keepf (sn s a) (l_txs pl))) by (rewrite Ek; left; reflexivity); apply filter_In in Hi; tauto).
      pose proof (HD pl l x eq_refl eq_refl Hxl) as Hd. eapply In_sm_get; [exact Hyin|]. rewrite Hy, <- Hsn, <- Hxe. exact Hd. }
    unfold vf. rewrite Hke. cbn [length]. change (N.of_nat 0) with 0. rewrite N.add_0_r, <- Hsn. exact Hc.
Qed.

Lemma promote_acc_schedK : forall st, SInv st -> KInv st -> forall accts done s P D P' D' s1,
  NoDup accts -> (forall a, In a accts -> ~ In a done) ->
  p_pending s = p_pending st -> p_pn s = p_pn st -> p_chain s = p_chain st -> p_cfg s = p_cfg st ->
  (forall b, ~ In b done -> p_queue s b = p_queue st b) ->
  (exists g, Sched (vf st) P g /\ forall b, ~ In b done -> g b = vf st b) ->
  fold_left (fun '(p, d, s) a => let '(p1, d1, s1) := q_promote_one a s in (p ++ p1, d ++ d1, s1)) accts (P, D, s) = (P', D', s1) ->
  (exists g, Sched (vf st) P' g) /\ p_pending s1 = p_pending st /\ p_pn s1 = p_pn st /\ p_chain s1 = p_chain st.
Proof.
  intros st HS HK. induction accts as [|a accts IH]; intros done s P D P' D' s1 Hnd Hdone Pe Pn Ch Cf Qe [g [Hs Hg]] E; cbn [fold_left] in E.
  - inversion E; subst. split; [exists g; exact Hs | tauto].
  - inversion Hnd as [|? ? Ha Hnd']; subst.
    destruct (q_promote_one a s) as [[p1 d1] s2] eqn:Eq.
    destruct (q_promote_one_frames _ _ _ _ _ Eq) as [P2 [N2 [Ch2 [C2 Q2]]]].
    assert (Hna : ~ In a done) by (apply Hdone; left; reflexivity).
    destruct (q_promote_one_runK a s p1 d1 s2) as [Hfrom Hrun]; try exact Eq.
    + intros l Hl. rewrite Cf. rewrite (Qe a Hna) in Hl. apply (s_qw _ HS a l Hl).
    + intros pl ql x Hp Hq Hx. rewrite Pe in Hp. rewrite (Qe a Hna) in Hq. apply (s_disj _ HS a pl ql x Hp Hq Hx).
    + apply (k_at_same st); [rewrite Pe; reflexivity | unfold pn_get; rewrite Pn, Ch; reflexivity | exact Ch | apply HK].
    + assert (Hpa : vf s a = g a) by (rewrite (Hg a Hna); unfold vf, sn, ptxs; rewrite Pe, Ch; reflexivity).
      apply (IH (a :: done) s2 (P ++ p1) (D ++ d1) P' D' s1 Hnd').
      * intros b Hb [->|Hd]; [contradiction | apply (Hdone b (or_intror Hb) Hd)].
      * congruence.
      * congruence.
      * congruence.
      * congruence.
      * intros b Hb. assert (b <> a) by (intros ->; apply Hb; left; reflexivity). rewrite (Q2 b H). apply Qe. intros Hd. apply Hb. right. exact Hd.
      * exists (fun b => if b =? a then g a + N.of_nat (length p1) else g b). split.
        -- eapply Sched_app; [exact Hs|]. apply (Sched_run p1 a g); [exact Hfrom | rewrite <- Hpa; exact Hrun | intros b; reflexivity].
        -- intros b Hb. destruct (b =? a) eqn:Eb; [apply N.eqb_eq in Eb; subst b; exfalso; apply Hb; left; reflexivity|].
           apply Hg. intros Hd. apply Hb. right. exact Hd.
      * exact E.
Qed.

Lemma promote_executables_K1 : forall accts st, SInv st -> KInv st -> NoDup accts -> K1Inv (promote_executables accts st).
Proof.
  intros accts st HS HK Hnd. unfold promote_executables.
  destruct (fold_left (fun '(p, d, s) a => let '(p1, d1, s1) := q_promote_one a s in (p ++ p1, d ++ d1, s1)) accts ([], [], st))
    as [[P D] st1] eqn:E.
  destruct (promote_acc_SL accts st [] [] [] P D st1 (SL_of_SInv _ HS)) as [L1 [S1 [PO1 [M1 [D1 [_ [Pe1 [C1 Ch1]]]]]]]]; try exact E.
  { split; [intros t [] | intros t pl [] | intros t ql [] | constructor]. }
  { intros y. cbn. tauto. }
  { intros y []. }
  { intros y []. }
  destruct (promote_acc_schedK st HS HK accts [] st [] [] P D st1 Hnd) as [[g Hs] [Pe [Pn Ch]]]; try reflexivity; try exact E.
  { intros a _ []. }
  { exists (vf st). split; [intros b; reflexivity | intros b _; reflexivity]. }
  assert (K1 : K1Inv st1) by (intros a l Hl; unfold sn; rewrite Ch; rewrite Pe in Hl; apply (proj1 (HK a) l Hl)).
  assert (Hs1 : Sched (vf st1) P g).
  { eapply Sched_ext; [|exact Hs]. intros b. unfold vf, sn, ptxs. rewrite Pe, Ch. reflexivity. }
  pose proof (promote_fold_K1 P st1 L1 g S1 PO1 (fun t Ht => proj2 (M1 t) (or_introl Ht)) K1 Hs1) as K2.
  set (st2 := fold_left (fun s t => promote_tx t s) P st1) in *.
  set (st3 := fold_left (fun s t => all_remove t s) D st2).
  pose proof (core_priced_removed (length D) st3) as Hc. core_inv Hc.
  intros a l Hl. unfold sn. rewrite Echain. unfold st3. rewrite chain_fold_all_remove.
  rewrite Epend in Hl. unfold st3 in Hl. rewrite (fold_pend_same (fun s t => all_remove t s) (fun s t => pend_all_remove t s)) in Hl.
  apply (K2 a l Hl).
Qed.

(* ---------- demoteUnexecutables and setAll ---------- *)
Lemma keepf_contig_id : forall l s, contig s l -> keepf s l = l.
Proof.
  intros l s H. unfold keepf. apply filter_all_true. intros x Hx. pose proof (contig_lower _ _ _ H Hx). apply negb_true_iff, N.ltb_ge. lia.
Qed.

Definition c_at (s : pool) (a : N) : Prop := forall l, p_pending s a = Some l -> contig (sn s a) (l_txs l).

Lemma demote_fold_contig : forall accts st0 s, RS st0 s -> K1Inv s ->
  RS st0 (fold_left (fun s a => demote_one a s) accts s) /\ K1Inv (fold_left (fun s a => demote_one a s) accts s) /\
  (forall a, c_at s a \/ In a accts -> c_at (fold_left (fun s a => demote_one a s) accts s) a).
Proof.
  induction accts as [|a accts IH]; intros st0 s R HK; cbn [fold_left].
  - split; [exact R|]. split; [exact HK|]. intros b [H|[]]. exact H.
  - destruct R as [S1 [C1 Ch1]]. destruct (demote_one_RS a s S1) as [[S2 [C2 Ch2]] [Ho [_ [_ [_ [_ Hctg]]]]]].
    assert (Hca : c_at (demote_one a s) a).
    { intros l' Hl'. unfold sn. rewrite Ch2. destruct (p_pending s a) as [l0|] eqn:E0.
      - apply (Hctg l0 l' _ eq_refl Hl'). apply (HK a l0 E0).
      - exfalso. unfold demote_one in Hl'. rewrite E0 in Hl'. congruence. }
    assert (HK2 : K1Inv (demote_one a s)).
    { intros b l Hl. destruct (N.eq_dec b a) as [->|Hne].
      - rewrite (keepf_contig_id _ _ (Hca l Hl)). apply (Hca l Hl).
      - unfold sn. rewrite Ch2. rewrite (Ho b Hne) in Hl. apply (HK b l Hl). }
    destruct (IH st0 (demote_one a s)) as [R' [K' C']]; [split; [exact S2 | split; congruence] | exact HK2|].
    split; [exact R'|]. split; [exact K'|]. intros b Hb. apply C'.
    destruct (N.eq_dec b a) as [->|Hne]; [left; exact Hca|].
    destruct Hb as [Hb|[Hb|Hb]]; [left | congruence | right; exact Hb].
    intros l Hl. unfold sn. rewrite Ch2. rewrite (Ho b Hne) in Hl. apply (Hb l Hl).
Qed.

Lemma demote_unexecutables_contig : forall st, SInv st -> K1Inv st -> forall a, c_at (demote_unexecutables st) a.
Proof.
  intros st HS HK a l Hl. destruct (demote_fold_contig (c_accts (p_cfg st)) st st (RS_refl _ HS) HK) as [[S' [C' _]] [_ Hc]].
  unfold demote_unexecutables in *. apply (Hc a); [|exact Hl]. right. rewrite <- C'. apply (s_pw _ S' a l Hl).
Qed.

Lemma last_contig : forall l s x, contig s (x :: l) -> exists t, last (map Some (x :: l)) None = Some t /\ t_nonce t + 1 = s + N.of_nat (length (x :: l)).
Proof.
  induction l as [|y l IH]; intros s x H.
  - exists x. destruct H as [Hx _]. split; [reflexivity | cbn; lia].
  - destruct H as [Hx Hr]. destruct (IH (s + 1) y Hr) as [t [H1 H2]]. exists t. split; [exact H1 | cbn [length] in *; lia].
Qed.

(* setAll: with gapless non-empty pending lists, the pending nonces become exact *)
Lemma set_all_nonces_G : forall st, SInv st -> (forall a, pne_at st a) -> (forall a, c_at st a) -> GInv (set_all_nonces st).
Proof.
  intros st HS Hpne Hc. unfold set_all_nonces.
  set (step := fun s a => match p_pending st a with
               | None => s
               | Some l => match list_last l with
                           | (Some t, l') => pn_set a (t_nonce t + 1) (set_pending s (upd (p_pending s) a (Some l')))
                           | (None, l') => set_panic (set_pending s (upd (p_pending s) a (Some l'))) end
               end).
  set (J := fun (done : list N) (s : pool) => p_chain s = p_chain st /\
     (forall b, match p_pending st b with
                | Some l => (exists l', p_pending s b = Some l' /\ l_txs l' = l_txs l) /\
                            (p_pn s b = None \/ p_pn s b = Some (sn st b + N.of_nat (l_len l))) /\
                            (In b done -> p_pn s b = Some (sn st b + N.of_nat (l_len l)))
                | None => p_pending s b = None /\ p_pn s b = None end)).
  assert (J0 : J [] (set_pn st (fun _ => None))).
  { split; [reflexivity|]. intros b. destruct (p_pending st b) as [l|] eqn:E; cbn; rewrite ?E.
    - split; [exists l; split; reflexivity|]. split; [left; reflexivity | intros []].
    - split; reflexivity. }
  assert (Hfold : forall accts done s, J done s -> J (done ++ accts) (fold_left step accts s)).
  { induction accts as [|a accts IH]; intros done s Js; cbn [fold_left]; [rewrite app_nil_r; exact Js|].
    replace (done ++ a :: accts) with ((done ++ [a]) ++ accts) by (rewrite <- app_assoc; reflexivity). apply IH.
    destruct Js as [Chs Js]. unfold step. destruct (p_pending st a) as [l|] eqn:Ep.
    2:{ split; [exact Chs|]. intros b. specialize (Js b). destruct (p_pending st b) as [lb|] eqn:Eb; [|exact Js].
        destruct Js as [J1 [J2 J3]]. split; [exact J1|]. split; [exact J2|]. intros Hi. apply in_app_iff in Hi. destruct Hi as [Hi|[->|[]]]; [apply J3, Hi | congruence]. }
    destruct (s_pw _ HS a l Ep) as [Lp _].
    unfold list_last. destruct (list_flatten l) as [c l'] eqn:Ef.
    destruct (lok_flatten _ _ _ _ _ _ Lp Ef) as [_ [Hcl Ht]].
    pose proof (Hpne a l Ep) as Hne. pose proof (Hc a l Ep) as Hct.
    destruct (l_txs l) as [|x r] eqn:El; [contradiction|].
    destruct (last_contig r _ x Hct) as [t [Hl1 Hl2]]. subst c. rewrite Hl1.
    assert (Hval : t_nonce t + 1 = sn st a + N.of_nat (l_len l)) by (unfold l_len; rewrite El; exact Hl2).
    split; [cbn; exact Chs|]. intros b. specialize (Js b). cbn [pn_set set_pn set_pending p_pending p_pn]. unfold upd.
    destruct (b =? a) eqn:Eb.
    - apply N.eqb_eq in Eb. subst b. rewrite Ep. split; [exists l'; split; [reflexivity | rewrite Ht, El; reflexivity]|].
      rewrite Hval. split; [right; reflexivity | intros _; reflexivity].
    - apply N.eqb_neq in Eb. destruct (p_pending st b) as [lb|] eqn:Epb; [|exact Js].
      destruct Js as [J1 [J2 J3]]. split; [exact J1|]. split; [exact J2|]. intros Hi. apply in_app_iff in Hi. destruct Hi as [Hi|[->|[]]]; [apply J3, Hi | congruence]. }
  destruct (Hfold (c_accts (p_cfg st)) [] _ J0) as [Ch' J']. cbn [app] in J'. fold step.
  intros b. specialize (J' b). unfold g_at, pn_get, pending_len. rewrite Ch'. fold (sn st b).
  destruct (p_pending st b) as [l|] eqn:Ep.
  - destruct J' as [[l' [Hp Htx]] [_ J3]]. destruct (s_pw _ HS b l Ep) as [_ Hb]. rewrite Hp, (J3 Hb). unfold l_len. rewrite Htx.
    split; [intros l0 H0; inversion H0; subst; rewrite Htx; apply (Hc b l Ep) | reflexivity].
  - destruct J' as [Hp Hn]. rewrite Hp, Hn. split; [intros l0 H0; discriminate | cbn; lia].
Qed.

(* ---------- the guarded Reset cycle ---------- *)
(* no account's state nonce moves below its (non-empty) pending list *)
Definition reset_guard (st : pool) (new : block) : Prop :=
  forall a l, p_pending st a = Some l -> l_txs l <> [] -> sn st a <= ch_nonce (block_chain new) a.

Lemma pool_reset_cases : forall blocks old new st, SG st -> reset_guard st new -> blocks_ok (p_cfg st) blocks old new ->
  pool_reset blocks old new st = st \/ SK (pool_reset blocks old new st).
Proof.
  intros blocks old new st [HS HG] Hgd Hok. unfold pool_reset.
  assert (Hlost : forall lost, (forall t, In t lost -> okt (p_cfg st) t) ->
            SK (let st1 := set_pn (set_chain st (block_chain new)) (fun _ => None) in
                let '(st2, _, _) := add_txs_locked lost (map (fun _ => E_OK) lost) st1 [] in st2)).
  { intros lost Hl. cbv zeta. set (st1 := set_pn (set_chain st (block_chain new)) (fun _ => None)).
    assert (S1 : SInv st1) by (eapply SInv_same; [| | | | | | exact HS]; reflexivity).
    assert (K1 : KInv st1).
    { intros a. split.
      - intros l Hl0. change (p_pending st1 a) with (p_pending st a) in Hl0. destruct (HG a) as [G1 _]. specialize (G1 l Hl0).
        destruct (l_txs l) as [|x r] eqn:El; [exact I|]. unfold keepf. eapply contig_forward; [exact G1|].
        apply (Hgd a l Hl0). rewrite El. discriminate.
      - unfold pn_get, sn. cbn. lia. }
    pose proof (add_txs_locked_SK lost (map (fun _ => E_OK) lost) st1 [] (conj S1 K1) Hl) as R.
    destruct (add_txs_locked lost (map (fun _ => E_OK) lost) st1 []) as [[st2 e] d]. exact R. }
  destruct (negb (b_id old =? b_parent new)); [|right; apply Hlost; intros t []].
  destruct (64 <? _); [right; apply Hlost; intros t []|].
  destruct (reorg_walk _ blocks old new [] []) as [[disc incl]|] eqn:Ew; [|left; reflexivity].
  right. apply Hlost. intros t Ht. unfold tx_difference in Ht. apply filter_In in Ht. destruct Ht as [Ht _].
  eapply (reorg_walk_ok (p_cfg st) blocks _ old new [] [] disc incl); [| | | exact Ew | exact Ht].
  - apply Hok. left. reflexivity.
  - intros b Hb. apply Hok. right. right. exact Hb.
  - intros x [].
Qed.

Lemma run_reorg_reset_SG : forall blocks old new st, SG st -> reset_guard st new -> blocks_ok (p_cfg st) blocks old new ->
  NoDup (c_accts (p_cfg st)) -> SG (run_reorg_reset blocks old new st).
Proof.
  intros blocks old new st H Hgd Hok Hnd. split; [apply (run_reorg_reset_RC blocks old new st (proj1 H) Hok)|].
  unfold run_reorg_reset.
  destruct (pool_reset_RC blocks old new st (proj1 H) Hok) as [S1 C1].
  pose proof (pool_reset_cases blocks old new st H Hgd Hok) as Hcase.
  set (st1 := pool_reset blocks old new st) in *.
  assert (Hq : NoDup (queue_addresses st1)) by (unfold queue_addresses; apply NoDup_filter; rewrite C1; exact Hnd).
  pose proof (promote_executables_RS (queue_addresses st1) st1 S1) as [S2 _].
  assert (K2 : K1Inv (promote_executables (queue_addresses st1) st1)).
  { destruct Hcase as [He|[_ HK]].
    - assert (G1 : GInv st1) by (rewrite He; apply H).
      pose proof (promote_executables_G (queue_addresses st1) st1 S1 G1 Hq) as G2.
      intros a l Hl. destruct (G2 a) as [Ga _]. specialize (Ga l Hl). unfold sn. rewrite (keepf_contig_id _ _ Ga). exact Ga.
    - apply promote_executables_K1; assumption. }
  set (st2 := promote_executables (queue_addresses st1) st1) in *.
  destruct (demote_unexecutables_RS st2 S2) as [[S3 _] P3]. pose proof (demote_unexecutables_contig st2 S2 K2) as C3.
  set (st3 := demote_unexecutables st2) in *.
  set (st4 := priced_set_basefee (b_basefee new) st3).
  assert (S4 : SInv st4) by (eapply SInv_core; [apply core_priced_set_basefee | exact S3]).
  assert (P4 : forall a, pne_at st4 a) by (intros a l Hl; apply (P3 a l Hl)).
  assert (C4 : forall a, c_at st4 a) by (intros a l Hl; apply (C3 a l Hl)).
  pose proof (set_all_nonces_G st4 S4 P4 C4) as G5. destruct (set_all_nonces_RC st4 S4 P4) as [[S5 _] _].
  set (st5 := set_all_nonces st4) in *.
  pose proof (truncate_pending_RS st5 S5) as [S6 _]. pose proof (truncate_pending_G st5 S5 G5) as G6.
  pose proof (truncate_queue_G _ S6 G6) as G7.
  eapply GInv_core_pn; [apply core_set_changes | reflexivity | exact G7].
Qed.

(* ---------- all guarded histories ---------- *)
Fixpoint hist_okG (c : cfg) (st : pool) (h : list op) : Prop :=
  match h with
  | [] => True
  | o :: h' => op_okR c o /\ (match o with OpReset _ _ new => reset_guard st new | _ => True end) /\ hist_okG c (step st o) h'
  end.

Lemma step_SG_all : forall st o, SG st -> NoDup (c_accts (p_cfg st)) -> op_okR (p_cfg st) o ->
  (match o with OpReset _ _ new => reset_guard st new | _ => True end) -> SG (step st o).
Proof.
  intros st [txs|b o n|tip| |a| ] [HS HG] Hnd Hok Hgd; cbn [step].
  - apply pool_Add_SG; [split; assumption | exact Hok].
  - apply run_reorg_reset_SG; [split; assumption | exact Hgd | exact Hok | exact Hnd].
  - split; [apply (pool_SetGasTip_RS tip st HS) | apply pool_SetGasTip_G; assumption].
  - split; [apply (pool_Content_RS st HS) | apply pool_Content_G, HG].
  - split; [apply (pool_ContentFrom_RS a st HS) | apply pool_ContentFrom_G, HG].
  - split; [apply (pool_Pending_RS st HS) | apply pool_Pending_G, HG].
Qed.

Lemma history_SG_all : forall h st, SG st -> NoDup (c_accts (p_cfg st)) -> hist_okG (p_cfg st) st h -> SG (run_history st h).
Proof.
  unfold run_history. induction h as [|o h IH]; intros st H Hnd Hok; cbn [fold_left hist_okG] in *; [exact H|].
  destruct Hok as [Ho [Hgd Hh]]. pose proof (step_SG_all st o H Hnd Ho Hgd) as H1.
  destruct (step_RC st o (proj1 H) Ho) as [_ C1]. apply IH; [exact H1 | rewrite C1; exact Hnd | rewrite C1; exact Hh].
Qed.
