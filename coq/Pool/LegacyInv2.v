(* Pool/LegacyInv2.v — structural invariant, part 2: the maintenance operations
   (truncatePending, truncateQueue, promoteExecutables, demoteUnexecutables). *)
From GV Require Import Lib.Tactics Pool.Legacy Pool.LegacyProofs Pool.LegacyInv.
From Coq Require Import Sorting.Sorted.
Local Open Scope N_scope.

(* the invariant with a "limbo" list L of txs that are in the lookup but (momentarily) in no list *)
Record SL (st : pool) (L : list tx) : Prop := {
  l_pw : forall a l, p_pending st a = Some l -> lok (p_cfg st) true a l /\ In a (c_accts (p_cfg st));
  l_qw : forall a l, p_queue st a = Some l -> lok (p_cfg st) false a l /\ In a (c_accts (p_cfg st));
  l_disj : forall a pl ql t, p_pending st a = Some pl -> p_queue st a = Some ql ->
           In t (l_txs ql) -> sm_get (t_nonce t) (l_txs pl) = None;
  l_union : forall t, In t (p_all st) <-> inP st t \/ inQ st t \/ In t L;
  l_limbo : forall t, In t L -> ~ inP st t /\ ~ inQ st t;
  l_ainv : AInv st;
  l_panic : p_panic st = false }.

Lemma SL_of_SInv : forall st, SInv st -> SL st [].
Proof.
  intros st S. split.
  - apply (s_pw _ S).
  - apply (s_qw _ S).
  - apply (s_disj _ S).
  - intros t. rewrite (s_union _ S t). cbn [In]. tauto.
  - intros t [].
  - apply SInv_AInv, S.
  - apply (s_panic _ S).
Qed.
Lemma SInv_of_SL : forall st L, SL st L -> (forall t, ~ In t L) -> SInv st.
Proof.
  intros st L S HL. split.
  - apply (l_pw _ _ S).
  - apply (l_qw _ _ S).
  - apply (l_disj _ _ S).
  - intros t. rewrite (l_union _ _ S t). split; [intros [H|[H|H]]; [tauto | tauto | exfalso; apply (HL t H)] | tauto].
  - apply (l_ainv _ _ S).
  - apply (l_ainv _ _ S).
  - apply (l_panic _ _ S).
Qed.

Lemma SL_core : forall st st' L, core st' = core st -> SL st L -> SL st' L.
Proof.
  intros st st' L Hc S. core_inv Hc. unfold inP, inQ, AInv in *.
  split; unfold inP, inQ, AInv; rewrite ?Ecfg, ?Epend, ?Equeue, ?Eall, ?Eslots, ?Epanic; apply S.
Qed.
Lemma SInv_core : forall st st', core st' = core st -> SInv st -> SInv st'.
Proof. intros st st' Hc S. eapply SInv_of_SL; [eapply SL_core; [exact Hc | apply SL_of_SInv, S] | intros t []]. Qed.

Lemma SL_ext : forall st L L', SL st L -> (forall t, In t L' <-> In t L) -> SL st L'.
Proof.
  intros st L L' S H. split; try apply S.
  - intros t. rewrite (l_union _ _ S t), H. reflexivity.
  - intros t Ht. apply (l_limbo _ _ S), H, Ht.
Qed.

(* change confined to one account *)
Lemma SL_upd1 : forall st st' L L' a po qo,
  SL st L -> p_cfg st' = p_cfg st ->
  (forall b, p_pending st' b = upd (p_pending st) a po b) -> (forall b, p_queue st' b = upd (p_queue st) a qo b) ->
  (forall l, po = Some l -> lok (p_cfg st) true a l /\ In a (c_accts (p_cfg st))) ->
  (forall l, qo = Some l -> lok (p_cfg st) false a l /\ In a (c_accts (p_cfg st))) ->
  (forall pl ql t, po = Some pl -> qo = Some ql -> In t (l_txs ql) -> sm_get (t_nonce t) (l_txs pl) = None) ->
  (forall t, In t (p_all st') <-> inP st' t \/ inQ st' t \/ In t L') ->
  (forall t, In t L' -> ~ inP st' t /\ ~ inQ st' t) ->
  AInv st' -> p_panic st' = false -> SL st' L'.
Proof.
  intros st st' L L' a po qo S Hc Hp Hq Hpo Hqo Hd Hu Hl Ha Hpa.
  split; try assumption; rewrite ?Hc.
  - intros a0 l H. rewrite Hp in H. unfold upd in H. destruct (a0 =? a) eqn:E.
    + apply N.eqb_eq in E. subst a0. apply Hpo, H.
    + apply (l_pw _ _ S), H.
  - intros a0 l H. rewrite Hq in H. unfold upd in H. destruct (a0 =? a) eqn:E.
    + apply N.eqb_eq in E. subst a0. apply Hqo, H.
    + apply (l_qw _ _ S), H.
  - intros a0 pl ql t H1 H2. rewrite Hp in H1. rewrite Hq in H2. unfold upd in H1, H2. destruct (a0 =? a) eqn:E.
    + apply Hd; assumption.
    + apply (l_disj _ _ S a0); assumption.
Qed.

(* lookup.Remove of a tx that is in no list *)
Lemma SL_all_remove : forall t st L, SL st L -> ~ inP st t -> ~ inQ st t ->
  SL (all_remove t st) (filter (fun y => negb (tx_eqb t y)) L) /\
  p_pending (all_remove t st) = p_pending st /\ p_queue (all_remove t st) = p_queue st /\
  p_cfg (all_remove t st) = p_cfg st /\ p_chain (all_remove t st) = p_chain st.
Proof.
  intros t st L S Hnp Hnq.
  destruct (all_remove_spec t st (l_ainv _ _ S)) as [A1 [M1 [C1 [Ch1 [P1 [Q1 [Pa1 _]]]]]]].
  split; [|tauto].
  split; unfold inP, inQ; rewrite ?C1, ?P1, ?Q1, ?Pa1; try apply S; try assumption.
  - intros x. rewrite M1, (l_union _ _ S x), In_filter_ne. unfold inP, inQ. split.
    + intros [[H|[H|H]] Hne]; tauto.
    + intros [H|[H|[H Hne]]]; (split; [tauto|]); try exact Hne; intros ->; [apply Hnp, H | apply Hnq, H].
  - intros x Hx. apply In_filter_ne in Hx. apply (l_limbo _ _ S x), Hx.
Qed.

Lemma SL_fold_all_remove : forall (g : tx -> pool -> pool), (forall t s, core (g t s) = core s) ->
  forall R st L, SL st L -> (forall x, In x R -> ~ inP st x /\ ~ inQ st x) ->
  let st' := fold_left (fun s t => g t (all_remove t s)) R st in
  (exists L', SL st' L' /\ (forall x, In x L' <-> In x L /\ ~ In x R)) /\
  p_pending st' = p_pending st /\ p_queue st' = p_queue st /\ p_cfg st' = p_cfg st /\ p_chain st' = p_chain st.
Proof.
  intros g Hg R. induction R as [|t R IH]; intros st L S HR; cbn [fold_left].
  - split; [exists L; split; [exact S | intros x; cbn; tauto] | tauto].
  - destruct (HR t (or_introl eq_refl)) as [Hnp Hnq].
    destruct (SL_all_remove t st L S Hnp Hnq) as [S1 [P1 [Q1 [C1 Ch1]]]].
    pose proof (Hg t (all_remove t st)) as Hc.
    pose proof (SL_core _ _ _ Hc S1) as S2. core_inv Hc.
    destruct (IH (g t (all_remove t st)) _ S2) as [[L' [S' M']] [P' [Q' [C' Ch']]]].
    + intros x Hx. unfold inP, inQ. rewrite Epend, Equeue, P1, Q1. apply HR. right. exact Hx.
    + split; [|repeat split; congruence].
      exists L'. split; [exact S'|]. intros x. rewrite M', In_filter_ne. cbn [In]. split.
      * intros [[H1 H2] H3]. split; [exact H1|]. intros [->|H]; [apply H2; reflexivity | apply H3, H].
      * intros [H1 H2]. split; [split; [exact H1|]; intros ->; apply H2; left; reflexivity | intros H; apply H2; right; exact H].
Qed.

Lemma sm_get_none_sub : forall l l' n, sm_get n l = None -> (forall x, In x l' -> In x l) -> sm_get n l' = None.
Proof. intros l l' n H Hs. apply sm_get_none_intro. intros x Hx. eapply sm_get_none_notin; [exact H | apply Hs, Hx]. Qed.

(* txs leave the pending list of one account and wait in limbo *)
Lemma SL_shrink_pending : forall st st' L a pl po R,
  SL st L -> p_pending st a = Some pl ->
  (forall l, po = Some l -> lok (p_cfg st) true a l) ->
  (forall x, In x (l_txs pl) <-> in_opt x po \/ In x R) -> (forall x, In x R -> ~ in_opt x po) ->
  (forall b, p_pending st' b = upd (p_pending st) a po b) -> p_queue st' = p_queue st ->
  p_all st' = p_all st -> p_slots st' = p_slots st -> p_cfg st' = p_cfg st -> p_panic st' = p_panic st ->
  SL st' (R ++ L).
Proof.
  intros st st' L a pl po R S Ep Hlok Hmem Hdis Hp Hq Hall Hsl Hc Hpa.
  destruct (l_pw _ _ S a pl Ep) as [Lp Ha].
  assert (Hfrom : forall x, In x (l_txs pl) -> t_from x = a) by (intros x Hx; apply (lk_mem _ _ _ _ Lp), Hx).
  assert (HinP' : forall x, inP st' x <-> (t_from x = a /\ in_opt x po) \/ (t_from x <> a /\ inP st x)).
  { intros x. unfold inP. rewrite Hp. unfold upd. destruct (t_from x =? a) eqn:E.
    - apply N.eqb_eq in E. intuition. - apply N.eqb_neq in E. intuition. }
  assert (HinQ' : forall x, inQ st' x <-> inQ st x) by (intros x; unfold inQ; rewrite Hq; reflexivity).
  assert (HPa : forall x, t_from x = a -> (inP st x <-> In x (l_txs pl))).
  { intros x E. unfold inP. rewrite E, Ep. reflexivity. }
  apply (SL_upd1 st st' L (R ++ L) a po (p_queue st a) S Hc Hp).
  - intros b. rewrite Hq. unfold upd. destruct (b =? a) eqn:E; [apply N.eqb_eq in E; subst; reflexivity | reflexivity].
  - intros l Hl. split; [apply Hlok, Hl | exact Ha].
  - intros l Hl. apply (l_qw _ _ S a l Hl).
  - intros pl0 ql t Hp0 Hq0 Ht. subst po. eapply sm_get_none_sub; [apply (l_disj _ _ S a pl ql t Ep Hq0 Ht)|].
    intros x Hx. apply Hmem. left. exact Hx.
  - intros x. rewrite Hall, (l_union _ _ S x), HinP', HinQ', in_app_iff.
    destruct (N.eq_dec (t_from x) a) as [E|E].
    + rewrite (HPa x E), Hmem. tauto.
    + split; [tauto|]. intros [[[H _]|H]|[H|[H|H]]]; try tauto. exfalso. apply E, Hfrom, Hmem. right. exact H.
  - intros x Hx. rewrite HinP', HinQ'. apply in_app_iff in Hx. destruct Hx as [Hx|Hx].
    + assert (Hxp : In x (l_txs pl)) by (apply Hmem; right; exact Hx). pose proof (Hfrom x Hxp) as E. split.
      * intros [[_ H]|[H _]]; [apply (Hdis x Hx H) | contradiction].
      * unfold inQ. rewrite E. destruct (p_queue st a) as [ql|] eqn:Eq; [|intros []]. intros Hq0.
        eapply In_sm_get; [exact Hxp | apply (l_disj _ _ S a pl ql x Ep Eq Hq0)].
    + destruct (l_limbo _ _ S x Hx) as [H1 H2]. split; [|exact H2].
      intros [[E H]|[_ H]]; [|contradiction]. apply H1. apply (HPa x E), Hmem. left. exact H.
  - unfold AInv. rewrite Hall, Hsl. apply (l_ainv _ _ S).
  - rewrite Hpa. apply (l_panic _ _ S).
Qed.

(* the same for the queue of one account *)
Lemma SL_shrink_queue : forall st st' L a ql qo R,
  SL st L -> p_queue st a = Some ql ->
  (forall l, qo = Some l -> lok (p_cfg st) false a l) ->
  (forall x, In x (l_txs ql) <-> in_opt x qo \/ In x R) -> (forall x, In x R -> ~ in_opt x qo) ->
  (forall b, p_queue st' b = upd (p_queue st) a qo b) -> p_pending st' = p_pending st ->
  p_all st' = p_all st -> p_slots st' = p_slots st -> p_cfg st' = p_cfg st -> p_panic st' = p_panic st ->
  SL st' (R ++ L).
Proof.
  intros st st' L a ql qo R S Eq Hlok Hmem Hdis Hq Hp Hall Hsl Hc Hpa.
  destruct (l_qw _ _ S a ql Eq) as [Lq Ha].
  assert (Hfrom : forall x, In x (l_txs ql) -> t_from x = a) by (intros x Hx; apply (lk_mem _ _ _ _ Lq), Hx).
  assert (HinQ' : forall x, inQ st' x <-> (t_from x = a /\ in_opt x qo) \/ (t_from x <> a /\ inQ st x)).
  { intros x. unfold inQ. rewrite Hq. unfold upd. destruct (t_from x =? a) eqn:E.
    - apply N.eqb_eq in E. intuition. - apply N.eqb_neq in E. intuition. }
  assert (HinP' : forall x, inP st' x <-> inP st x) by (intros x; unfold inP; rewrite Hp; reflexivity).
  assert (HQa : forall x, t_from x = a -> (inQ st x <-> In x (l_txs ql))).
  { intros x E. unfold inQ. rewrite E, Eq. reflexivity. }
  apply (SL_upd1 st st' L (R ++ L) a (p_pending st a) qo S Hc).
  - intros b. rewrite Hp. unfold upd. destruct (b =? a) eqn:E; [apply N.eqb_eq in E; subst; reflexivity | reflexivity].
  - exact Hq.
  - intros l Hl. apply (l_pw _ _ S a l Hl).
  - intros l Hl. split; [apply Hlok, Hl | exact Ha].
  - intros pl ql0 t Hp0 Hq0 Ht. subst qo. apply (l_disj _ _ S a pl ql t Hp0 Eq). apply Hmem. left. exact Ht.
  - intros x. rewrite Hall, (l_union _ _ S x), HinP', HinQ', in_app_iff.
    destruct (N.eq_dec (t_from x) a) as [E|E].
    + rewrite (HQa x E), Hmem. tauto.
    + split; [tauto|]. intros [H|[[[H _]|H]|[H|H]]]; try tauto. exfalso. apply E, Hfrom, Hmem. right. exact H.
  - intros x Hx. rewrite HinP', HinQ'. apply in_app_iff in Hx. destruct Hx as [Hx|Hx].
    + assert (Hxq : In x (l_txs ql)) by (apply Hmem; right; exact Hx). pose proof (Hfrom x Hxq) as E. split.
      * unfold inP. rewrite E. destruct (p_pending st a) as [pl|] eqn:Ep; [|intros []]. intros Hp0.
        eapply In_sm_get; [exact Hp0 | apply (l_disj _ _ S a pl ql x Ep Eq Hxq)].
      * intros [[_ H]|[H _]]; [apply (Hdis x Hx H) | contradiction].
    + destruct (l_limbo _ _ S x Hx) as [H1 H2]. split; [exact H1|].
      intros [[E H]|[_ H]]; [|contradiction]. apply H2. apply (HQa x E), Hmem. left. exact H.
  - unfold AInv. rewrite Hall, Hsl. apply (l_ainv _ _ S).
  - rewrite Hpa. apply (l_panic _ _ S).
Qed.

Lemma sorted_NoDup : forall l, sorted l -> NoDup l.
Proof.
  unfold sorted. induction l as [|x l IH]; intros H; constructor; apply StronglySorted_inv in H; destruct H as [Hs Hf].
  - intros Hin. rewrite Forall_forall in Hf. pose proof (Hf x Hin) as H. unfold nlt in H. lia.
  - apply IH, Hs.
Qed.

Lemma NoDup_firstn' {A} (n : nat) (l : list A) : NoDup l -> NoDup (firstn n l).
Proof.
  revert l. induction n as [|n IH]; intros l H; [constructor|]. destruct l as [|x l]; [constructor|].
  inversion H as [|? ? Hx Hl]; subst. cbn [firstn]. constructor; [|apply IH, Hl].
  intros Hi. apply Hx. rewrite <- (firstn_skipn n l). apply in_or_app. left. exact Hi.
Qed.

(* queue.remove of a queued tx: it moves to limbo *)
Lemma SL_q_remove : forall st L a t fl,
  SL st L -> p_queue st a = Some fl -> In t (l_txs fl) ->
  exists qo, SL (q_remove a t st) (t :: L) /\
    (forall b, p_queue (q_remove a t st) b = upd (p_queue st) a qo b) /\
    (forall x, in_opt x qo <-> In x (l_txs fl) /\ x <> t) /\
    p_pending (q_remove a t st) = p_pending st /\ p_cfg (q_remove a t st) = p_cfg st /\
    p_chain (q_remove a t st) = p_chain st.
Proof.
  intros st L a t fl S Eq Hin. destruct (l_qw _ _ S a fl Eq) as [Lq Ha].
  destruct (list_remove_spec _ _ _ _ t Lq Hin) as [inv [fl' [Er [Lq' [Mq' _]]]]].
  unfold q_remove. rewrite Eq.
  destruct (sm_get (t_nonce t) (l_txs fl)) as [o|] eqn:Eg; [|exfalso; eapply In_sm_get; eassumption].
  apply sm_get_In in Eg. destruct Eg as [Ho1 Ho2].
  assert (o = t) by (eapply sorted_nonce_inj; [apply (lw_sorted _ (lk_wf _ _ _ _ Lq)) | | | ]; eassumption). subst o.
  rewrite tx_eqb_refl. cbn [negb]. rewrite Er.
  set (st3 := if l_empty fl' then chk fl' (del_queue a st) else put_queue a fl' st).
  assert (F3 : (forall b, p_queue st3 b = upd (p_queue st) a (stored fl') b) /\ p_pending st3 = p_pending st /\
               p_all st3 = p_all st /\ p_slots st3 = p_slots st /\ p_cfg st3 = p_cfg st /\
               p_chain st3 = p_chain st /\ p_panic st3 = p_panic st).
  { unfold st3, stored, put_queue. rewrite !(chk_ok _ _ _ _ _ Lq'). destruct (l_empty fl'); cbn; repeat split; auto. }
  destruct F3 as [Q3 [P3 [Al3 [Sl3 [C3 [Ch3 Pa3]]]]]].
  exists (stored fl'). split; [|split; [exact Q3 | split; [intros x; rewrite in_opt_stored; apply Mq' | tauto]]].
  change (t :: L) with ([t] ++ L).
  apply (SL_shrink_queue st st3 L a fl (stored fl') [t] S Eq); try assumption.
  - intros l Hl. unfold stored in Hl. destruct (l_empty fl'); inversion Hl; subst. exact Lq'.
  - intros x. rewrite in_opt_stored, Mq'. cbn [In]. split.
    + intros H. destruct (tx_eqb x t) eqn:E; [apply tx_eqb_eq in E; right; left; congruence | apply tx_eqb_neq in E; left; tauto].
    + intros [[H _]|[<-|[]]]; assumption.
  - intros x [<-|[]]. rewrite in_opt_stored, Mq'. tauto.
Qed.

(* removing several queued txs of one account *)
Lemma SL_q_remove_many : forall V st L a fl,
  SL st L -> p_queue st a = Some fl -> NoDup V -> (forall x, In x V -> In x (l_txs fl)) ->
  let st' := fold_left (fun s t => q_remove a t s) V st in
  (exists L', SL st' L' /\ (forall x, In x L' <-> In x V \/ In x L)) /\
  (forall x, in_opt x (p_queue st' a) <-> In x (l_txs fl) /\ ~ In x V) /\
  (forall b, b <> a -> p_queue st' b = p_queue st b) /\
  p_pending st' = p_pending st /\ p_cfg st' = p_cfg st /\ p_chain st' = p_chain st.
Proof.
  induction V as [|t V IH]; intros st L a fl S Eq Hnd HV; cbn [fold_left].
  - split; [exists L; split; [exact S | intros x; cbn; tauto]|].
    split; [intros x; rewrite Eq; cbn; tauto | repeat split; reflexivity].
  - inversion Hnd as [|? ? Hnt HndV]; subst.
    destruct (SL_q_remove st L a t fl S Eq (HV t (or_introl eq_refl))) as [qo [S1 [Q1 [M1 [P1 [C1 Ch1]]]]]].
    assert (Qa : p_queue (q_remove a t st) a = qo) by (rewrite Q1; unfold upd; rewrite N.eqb_refl; reflexivity).
    destruct V as [|v V'].
    + cbn [fold_left]. split; [exists (t :: L); split; [exact S1 | intros x; cbn; tauto]|].
      split; [intros x; rewrite Qa, M1; cbn; intuition congruence|].
      split; [intros b Hb; rewrite Q1; unfold upd; destruct (b =? a) eqn:E; [apply N.eqb_eq in E; contradiction | reflexivity] | tauto].
    + (* the queue of a is still there: v is in it *)
      assert (Hv : in_opt v qo) by (apply M1; split; [apply HV; right; left; reflexivity | intros ->; apply Hnt; left; reflexivity]).
      destruct qo as [fl1|]; [|destruct Hv].
      destruct (IH (q_remove a t st) (t :: L) a fl1 S1 Qa HndV) as [[L' [S' ML']] [M' [O' [P' [C' Ch']]]]].
      * intros x Hx. apply M1. split; [apply HV; right; exact Hx | intros ->; contradiction].
      * split; [exists L'; split; [exact S'|]; intros x; rewrite ML'; cbn [In]; tauto|].
        split; [intros x; rewrite M'; cbn [in_opt] in M1; rewrite M1; cbn [In]; intuition congruence|].
        split; [intros b Hb; rewrite (O' b Hb), Q1; unfold upd; destruct (b =? a) eqn:E; [apply N.eqb_eq in E; contradiction | reflexivity]|].
        repeat split; congruence.
Qed.

Lemma In_firstn' {A} (n : nat) (l : list A) x : In x (firstn n l) -> In x l.
Proof. intros H. rewrite <- (firstn_skipn n l). apply in_or_app. left. exact H. Qed.

Lemma q_truncate_loop_SL : forall addrs drop removed st L r s,
  SL st L -> (forall x, In x L <-> In x removed) ->
  q_truncate_loop addrs drop removed st = (r, s) ->
  (exists L', SL s L' /\ (forall x, In x L' <-> In x r)) /\
  p_pending s = p_pending st /\ p_cfg s = p_cfg st /\ p_chain s = p_chain st.
Proof.
  induction addrs as [|a addrs IH]; intros drop removed st L r s HS HL E; cbn [q_truncate_loop] in E.
  - inversion E; subst. split; [exists L; tauto | tauto].
  - destruct drop as [|d]; [inversion E; subst; split; [exists L; tauto | tauto]|].
    destruct (p_queue st a) as [l|] eqn:Eq; [|eapply IH; eassumption].
    destruct (l_qw _ _ HS a l Eq) as [Lq _].
    pose proof (sorted_NoDup _ (lw_sorted _ (lk_wf _ _ _ _ Lq))) as Hnd.
    destruct (Nat.leb (length (l_txs l)) (S d)).
    + destruct (SL_q_remove_many (l_txs l) st L a l HS Eq Hnd (fun x H => H)) as [[L1 [S1 M1]] [_ [_ [P1 [C1 Ch1]]]]].
      assert (HL1 : forall x, In x L1 <-> In x (removed ++ l_txs l)) by (intros x; rewrite M1, in_app_iff, HL; tauto).
      destruct (IH _ _ _ L1 r s S1 HL1 E) as [HL' [P' [C' Ch']]].
      split; [exact HL' | repeat split; congruence].
    + assert (Hnd' : NoDup (firstn (S d) (rev (l_txs l)))) by (apply NoDup_firstn', NoDup_rev, Hnd).
      destruct (SL_q_remove_many (firstn (S d) (rev (l_txs l))) st L a l HS Eq Hnd') as [[L1 [S1 M1]] [_ [_ [P1 [C1 Ch1]]]]].
      * intros x Hx. apply in_rev. eapply In_firstn', Hx.
      * assert (HL1 : forall x, In x L1 <-> In x (removed ++ firstn (S d) (rev (l_txs l)))) by (intros x; rewrite M1, in_app_iff, HL; tauto).
        destruct (IH _ _ _ L1 r s S1 HL1 E) as [HL' [P' [C' Ch']]].
        split; [exact HL' | repeat split; congruence].
Qed.

(* truncateQueue *)
Lemma truncate_queue_SInv : forall st, SInv st ->
  SInv (truncate_queue st) /\ p_cfg (truncate_queue st) = p_cfg st /\ p_chain (truncate_queue st) = p_chain st /\
  p_pending (truncate_queue st) = p_pending st.
Proof.
  intros st HS. unfold truncate_queue.
  destruct (Nat.leb (queue_count st) (N.to_nat (c_gqueue (p_cfg st)))); [tauto|].
  destruct (q_truncate_loop (queue_by_beat st) (queue_count st - N.to_nat (c_gqueue (p_cfg st))) [] st) as [removed st1] eqn:E.
  destruct (q_truncate_loop_SL _ _ _ _ [] removed st1 (SL_of_SInv _ HS) (fun x => iff_refl _) E) as [[L1 [S1 M1]] [P1 [C1 Ch1]]].
  pose proof (SL_fold_all_remove (fun _ s => s) (fun _ _ => eq_refl) removed st1 L1 S1) as H. cbv beta in H.
  destruct H as [[L' [S' M']] [P' [Q' [C' Ch']]]].
  { intros x Hx. apply (l_limbo _ _ S1), M1, Hx. }
  set (st2 := fold_left (fun s t => all_remove t s) removed st1) in *.
  pose proof (core_priced_removed (length removed) st2) as Hc.
  split; [|core_inv Hc; repeat split; congruence].
  eapply SInv_core; [exact Hc|]. eapply SInv_of_SL; [exact S'|].
  intros t Ht. apply M' in Ht. destruct Ht as [H1 H2]. apply H2, M1, H1.
Qed.

Lemma NoDup_app_disj {A} (a b : list A) x : NoDup (a ++ b) -> In x a -> ~ In x b.
Proof.
  induction a as [|y a IH]; intros H Ha; [destruct Ha|]. cbn [app] in H. inversion H as [|? ? Hy Hr]; subst.
  destruct Ha as [->|Ha]; [intros Hb; apply Hy, in_or_app; right; exact Hb | apply IH; assumption].
Qed.

Lemma list_cap_spec : forall c s a l th caps l', lok c s a l -> list_cap th l = (caps, l') ->
  lok c s a l' /\ (forall x, In x (l_txs l) <-> In x (l_txs l') \/ In x caps) /\
  (forall x, In x caps -> ~ In x (l_txs l')).
Proof.
  intros c s a l th caps l' L E. pose proof (list_cap_wf _ _ _ _ (lk_wf _ _ _ _ L) E) as W'.
  unfold list_cap, sm_cap in E. destruct (Nat.leb (length (l_txs l)) th).
  - inversion E; subst. cbn [with_txs l_txs] in *. split; [|split; [intros x; cbn; tauto | intros x []]].
    split; [exact W' | apply (lk_strict _ _ _ _ L) | apply (lk_mem _ _ _ _ L)].
  - inversion E; subst. cbn [with_txs l_txs] in *.
    pose proof (sorted_NoDup _ (lw_sorted _ (lk_wf _ _ _ _ L))) as Hnd. rewrite <- (firstn_skipn th (l_txs l)) in Hnd.
    split; [|split].
    + split; [exact W' | apply (lk_strict _ _ _ _ L) |]. cbn [l_txs]. intros x Hx. apply (lk_mem _ _ _ _ L). eapply In_firstn', Hx.
    + intros x. rewrite <- in_rev. rewrite <- (firstn_skipn th (l_txs l)) at 1. apply in_app_iff.
    + intros x Hx Hf. apply in_rev in Hx. eapply NoDup_app_disj; eassumption.
Qed.

Definition RS (st st' : pool) : Prop := SInv st' /\ p_cfg st' = p_cfg st /\ p_chain st' = p_chain st.

Lemma RS_refl : forall st, SInv st -> RS st st. Proof. intros st H. split; [exact H | split; reflexivity]. Qed.
Lemma RS_step : forall st st1 st2, RS st st1 -> (SInv st1 -> RS st1 st2) -> RS st st2.
Proof. intros st st1 st2 [S1 [C1 Ch1]] H. destruct (H S1) as [S2 [C2 Ch2]]. split; [exact S2 | split; congruence]. Qed.
Lemma RS_core : forall st st1 st2, RS st st1 -> core st2 = core st1 -> RS st st2.
Proof. intros st st1 st2 [S1 [C1 Ch1]] Hc. split; [eapply SInv_core; eassumption|]. core_inv Hc. split; congruence. Qed.

(* one fairness step of truncatePending *)
Lemma trunc_one_RS : forall a st, SInv st -> RS st (trunc_one a st).
Proof.
  intros a st HS. unfold trunc_one. destruct (p_pending st a) as [l|] eqn:Ep; [|apply RS_refl, HS].
  destruct (list_cap (Nat.pred (l_len l)) l) as [caps l'] eqn:Ec.
  pose proof (SL_of_SInv _ HS) as S0. destruct (l_pw _ _ S0 a l Ep) as [Lp Ha].
  destruct (list_cap_spec _ _ _ _ _ _ _ Lp Ec) as [Lp' [Mem Dis]].
  set (st1 := put_pending a l' st).
  assert (F1 : (forall b, p_pending st1 b = upd (p_pending st) a (Some l') b) /\ p_queue st1 = p_queue st /\
               p_all st1 = p_all st /\ p_slots st1 = p_slots st /\ p_cfg st1 = p_cfg st /\ p_chain st1 = p_chain st /\
               p_panic st1 = p_panic st).
  { unfold st1, put_pending. rewrite (chk_ok _ _ _ _ _ Lp'). cbn. repeat split; auto. }
  destruct F1 as [P1 [Q1 [Al1 [Sl1 [C1 [Ch1 Pa1]]]]]].
  assert (S1 : SL st1 (caps ++ [])).
  { apply (SL_shrink_pending st st1 [] a l (Some l') caps S0 Ep); try assumption.
    intros l0 Hl0. inversion Hl0; subst. exact Lp'. }
  pose proof (SL_fold_all_remove (fun t s => pn_set_if_lower a (t_nonce t) s)
                (fun t s => core_pn_set_if_lower a (t_nonce t) s) caps st1 _ S1) as H. cbv beta in H.
  destruct H as [[L' [S' M']] [P' [Q' [C' Ch']]]].
  { intros x Hx. apply (l_limbo _ _ S1), in_or_app. left. exact Hx. }
  set (st2 := fold_left (fun s t => pn_set_if_lower a (t_nonce t) (all_remove t s)) caps st1) in *.
  assert (R2 : RS st st2).
  { split; [|split; congruence]. eapply SInv_of_SL; [exact S'|].
    intros t Ht. apply M' in Ht. destruct Ht as [H1 H2]. apply in_app_iff in H1. destruct H1 as [H1|[]]. contradiction. }
  eapply RS_core; [exact R2 | apply core_priced_removed].
Qed.

Lemma trunc_fold_RS : forall offs p st, SInv st ->
  RS st (snd (fold_left (fun '(p, s) a => (Nat.pred p, trunc_one a s)) offs (p, st))).
Proof.
  induction offs as [|a offs IH]; intros p st HS; cbn [fold_left snd]; [apply RS_refl, HS|].
  eapply RS_step; [apply (trunc_one_RS a st HS)|]. intros S1. apply IH, S1.
Qed.

Lemma trunc_equalize_RS : forall fuel g offs lb th p st, SInv st ->
  RS st (snd (trunc_equalize fuel g offs lb th p st)).
Proof.
  induction fuel as [|k IH]; intros g offs lb th p st HS; cbn [trunc_equalize].
  - cbn [snd]. eapply RS_core; [apply RS_refl, HS | apply core_set_fuel].
  - destruct (Nat.ltb g p && Nat.ltb th (pending_len lb st)); [|apply RS_refl, HS].
    pose proof (trunc_fold_RS offs p st HS) as R1.
    destruct (fold_left (fun '(p0, s) a => (Nat.pred p0, trunc_one a s)) offs (p, st)) as [p' st'] eqn:E.
    cbn [snd] in R1. eapply RS_step; [exact R1|]. intros S1. apply IH, S1.
Qed.

Lemma trunc_phase1_RS : forall fuel g sp offs p st, SInv st ->
  RS st (snd (trunc_phase1 fuel g sp offs p st)).
Proof.
  intros fuel g sp. induction sp as [|[n off] rest IH]; intros offs p st HS; cbn [trunc_phase1]; [apply RS_refl, HS|].
  destruct (Nat.ltb g p); [|apply RS_refl, HS].
  destruct (rev offs) as [|lb r]; [apply IH, HS|].
  pose proof (trunc_equalize_RS fuel g offs lb (pending_len off st) p st HS) as R1.
  destruct (trunc_equalize fuel g offs lb (pending_len off st) p st) as [p' st'] eqn:E.
  cbn [snd] in R1. eapply RS_step; [exact R1|]. intros S1. apply IH, S1.
Qed.

Lemma trunc_phase2_RS : forall fuel g a offs lo p st, SInv st ->
  RS st (snd (trunc_phase2 fuel g a offs lo p st)).
Proof.
  induction fuel as [|k IH]; intros g a offs lo p st HS; cbn [trunc_phase2].
  - cbn [snd]. eapply RS_core; [apply RS_refl, HS | apply core_set_fuel].
  - destruct (Nat.ltb g p && Nat.ltb a (pending_len lo st)); [|apply RS_refl, HS].
    pose proof (trunc_fold_RS offs p st HS) as R1.
    destruct (fold_left (fun '(p0, s) a0 => (Nat.pred p0, trunc_one a0 s)) offs (p, st)) as [p' st'] eqn:E.
    cbn [snd] in R1. eapply RS_step; [exact R1|]. intros S1. apply IH, S1.
Qed.

(* truncatePending *)
Lemma truncate_pending_RS : forall st, SInv st -> RS st (truncate_pending st).
Proof.
  intros st HS. unfold truncate_pending.
  destruct (Nat.leb (pending_count st) (N.to_nat (c_gslots (p_cfg st)))); [apply RS_refl, HS|].
  match goal with |- context [trunc_phase1 ?f ?g ?sp ?o ?p ?s] =>
    pose proof (trunc_phase1_RS f g sp o p s HS) as R1; destruct (trunc_phase1 f g sp o p s) as [[offenders p1] st1] eqn:E end.
  cbn [snd] in R1.
  destruct (rev offenders) as [|lo r]; [exact R1|].
  destruct (Nat.ltb (N.to_nat (c_gslots (p_cfg st))) p1); [|exact R1].
  eapply RS_step; [exact R1|]. intros S1. apply trunc_phase2_RS, S1.
Qed.

(* ---------- splitting specs of the remaining list operations ---------- *)
Lemma list_forward_spec : forall c s a l th rem l', lok c s a l -> list_forward th l = (rem, l') ->
  lok c s a l' /\ (forall x, In x (l_txs l) <-> In x (l_txs l') \/ In x rem) /\
  (forall x, In x rem -> ~ In x (l_txs l')) /\ (forall x, In x (l_txs l') -> th <= t_nonce x).
Proof.
  intros c s a l th rem l' L E. pose proof (list_forward_wf _ _ _ _ (lk_wf _ _ _ _ L) E) as W'.
  unfold list_forward, sm_forward in E. inversion E; subst. cbn [with_txs l_txs] in *.
  split; [|split; [|split]].
  - split; [exact W' | apply (lk_strict _ _ _ _ L) |]. cbn [l_txs]. intros x Hx. apply filter_In in Hx. apply (lk_mem _ _ _ _ L), Hx.
  - intros x. rewrite !filter_In. destruct (t_nonce x <? th); cbn [negb]; intuition discriminate.
  - intros x Hx Hk. apply filter_In in Hx. apply filter_In in Hk. destruct Hx as [_ Hx]. destruct Hk as [_ Hk]. rewrite Hx in Hk. discriminate.
  - intros x Hx. apply filter_In in Hx. destruct Hx as [_ Hx]. apply negb_true_iff, N.ltb_ge in Hx. exact Hx.
Qed.

Lemma filter_split {A} (f : A -> bool) (l : list A) x :
  In x l <-> In x (filter f l) \/ In x (filter (fun t => negb (f t)) l).
Proof. rewrite !filter_In. destruct (f x); cbn [negb]; intuition discriminate. Qed.
Lemma filter_disj {A} (f : A -> bool) (l : list A) x :
  In x (filter f l) -> ~ In x (filter (fun t => negb (f t)) l).
Proof. rewrite !filter_In. intros [_ H1] [_ H2]. rewrite H1 in H2. discriminate. Qed.

Lemma list_filter_spec : forall c s a l cl gl rem inv l', lok c s a l -> list_filter cl gl l = (rem, inv, l') ->
  lok c s a l' /\ (forall x, In x (l_txs l) <-> In x (l_txs l') \/ In x rem \/ In x inv) /\
  (forall x, In x rem \/ In x inv -> ~ In x (l_txs l')) /\ (forall x, In x rem -> ~ In x inv) /\
  (s = false -> inv = []) /\ sorted inv /\
  (forall x, In x (l_txs l') -> cost x <= cl /\ t_gas x <= gl).
Proof.
  intros c s a l cl gl rem inv l' L E.
  pose proof (list_filter_wf _ _ _ _ _ _ (lk_wf _ _ _ _ L) E) as W'.
  pose proof (fun x => list_filter_affordable _ _ _ _ _ _ x (lk_wf _ _ _ _ L) E) as Haff.
  unfold list_filter in E.
  destruct ((l_costcap l <=? cl) && (l_gascap l <=? gl)).
  { inversion E; subst. split; [exact L|]. split; [intros x; cbn; tauto|]. split; [intros x [[]|[]]|].
    split; [intros x []|]. split; [reflexivity|]. split; [constructor | exact Haff]. }
  unfold sm_filter in E. set (f := fun t => (gl <? t_gas t) || (cl <? cost t)) in *.
  destruct (filter f (l_txs l)) as [|r0 rr] eqn:Er.
  { inversion E; subst. cbn [l_txs] in *. split; [split; [exact W' | apply (lk_strict _ _ _ _ L) | apply (lk_mem _ _ _ _ L)]|].
    split; [intros x; cbn; tauto|]. split; [intros x [[]|[]]|].
    split; [intros x []|]. split; [reflexivity|]. split; [constructor | exact Haff]. }
  rewrite <- Er in E. clear Er. set (rest := filter (fun t => negb (f t)) (l_txs l)) in *.
  pose proof (lk_strict _ _ _ _ L) as Hst. rewrite Hst in E. destruct s.
  - set (g := fun t => fold_left (fun m t0 => N.min m (t_nonce t0)) (filter f (l_txs l)) (2 ^ 64 - 1) <? t_nonce t) in *.
    inversion E; subst rem inv l'; clear E. cbn [l_txs] in *.
    split; [split; [exact W' | reflexivity |]|].
    { cbn [l_txs]. intros x Hx. apply filter_In in Hx. destruct Hx as [Hx _]. apply filter_In in Hx. apply (lk_mem _ _ _ _ L), Hx. }
    split; [intros x; rewrite (filter_split f (l_txs l) x); fold rest; rewrite (filter_split g rest x); tauto|].
    split; [intros x [H|H] Hk; [apply (filter_disj f (l_txs l) x H); fold rest; apply filter_In in Hk; tauto | apply (filter_disj g rest x H Hk)]|].
    split; [intros x H1 H2; apply (filter_disj f (l_txs l) x H1); fold rest; apply filter_In in H2; tauto|].
    split; [discriminate|]. split; [apply sorted_filter, sorted_filter, (lw_sorted _ (lk_wf _ _ _ _ L)) | exact Haff].
  - inversion E; subst rem inv l'; clear E. cbn [l_txs] in *.
    split; [split; [exact W' | reflexivity |]|].
    { cbn [l_txs]. intros x Hx. apply filter_In in Hx. apply (lk_mem _ _ _ _ L), Hx. }
    split; [intros x; rewrite (filter_split f (l_txs l) x); fold rest; cbn [In]; tauto|].
    split; [intros x [H|[]] Hk; apply (filter_disj f (l_txs l) x H Hk)|].
    split; [intros x _ []|]. split; [reflexivity|]. split; [constructor | exact Haff].
Qed.

Lemma list_ready_spec : forall c s a l start rdy l', lok c s a l -> list_ready start l = (rdy, l') ->
  lok c s a l' /\ (forall x, In x (l_txs l) <-> In x (l_txs l') \/ In x rdy) /\
  (forall x, In x rdy -> ~ In x (l_txs l')) /\ sorted rdy.
Proof.
  intros c s a l start rdy l' L E. pose proof (list_ready_wf _ _ _ _ (lk_wf _ _ _ _ L) E) as W'.
  unfold list_ready in E. destruct (sm_ready start (l_txs l)) as [x1 x2] eqn:Er. inversion E; subst rdy l'; clear E.
  cbn [with_txs l_txs] in *.
  assert (Hsplit : l_txs l = x1 ++ x2).
  { unfold sm_ready in Er. destruct (l_txs l) as [|y r] eqn:El; [inversion Er; reflexivity|].
    destruct (start <? t_nonce y); [inversion Er; reflexivity|]. eapply sm_run_split, Er. }
  pose proof (lw_sorted _ (lk_wf _ _ _ _ L)) as Hso. rewrite Hsplit in Hso.
  pose proof (sorted_NoDup _ Hso) as Hnd.
  split; [|split; [|split]].
  - split; [exact W' | apply (lk_strict _ _ _ _ L) |]. cbn [l_txs]. intros x Hx. apply (lk_mem _ _ _ _ L). rewrite Hsplit. apply in_or_app. right. exact Hx.
  - intros x. rewrite Hsplit, in_app_iff. tauto.
  - intros x Hx. eapply NoDup_app_disj; eassumption.
  - apply sorted_app in Hso. tauto.
Qed.
