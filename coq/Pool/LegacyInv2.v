(* Pool/LegacyInv2.v — structural invariant, part 2: the maintenance operations
   (truncatePending, truncateQueue, promoteExecutables, demoteUnexecutables). *)
From GV Require Import Lib.Tactics Pool.Legacy Pool.LegacyProofs Pool.LegacyInv.
From Coq Require Import Sorting.Sorted.
Local Open Scope N_scope.

(* the invariant with a "limbo" list L of txs that are in the lookup but (momentarily) in no list *)
Record SL (st : pool) (L : list tx) : Prop := {
  l_pw : forall a l, p_pending st a = Some l -> lok (p_cfg st) true a l /\ In a (c_accts (p_cfg st));
  l_qw : forall a l, p_queue st a = Some l -> lok (p_cfg st) false a l /\ In a (c_accts (p_cfg st));
  l_disj : forall a pl ql t, p_pending st a = Some pl -> p_queue st a = Some ql ->
           In t (l_txs ql) -> sm_get (t_nonce t) (l_txs pl) = None;
  l_union : forall t, In t (p_all st) <-> inP st t \/ inQ st t \/ In t L;
  l_limbo : forall t, In t L -> ~ inP st t /\ ~ inQ st t;
  l_ainv : AInv st;
  l_panic : p_panic st = false }.

Lemma SL_of_SInv : forall st, SInv st -> SL st [].
Proof.
  intros st S. split.
  - apply (s_pw _ S).
  - apply (s_qw _ S).
  - apply (s_disj _ S).
  - intros t. rewrite (s_union _ S t). cbn [In]. tauto.
  - intros t [].
  - apply SInv_AInv, S.
  - apply (s_panic _ S).
Qed.
Lemma SInv_of_SL : forall st L, SL st L -> (forall t, ~ In t L) -> SInv st.
Proof.
  intros st L S HL. split.
  - apply (l_pw _ _ S).
  - apply (l_qw _ _ S).
  - apply (l_disj _ _ S).
  - intros t. rewrite (l_union _ _ S t). split; [intros [H|[H|H]]; [tauto | tauto | exfalso; apply (HL t H)] | tauto].
  - apply (l_ainv _ _ S).
  - apply (l_ainv _ _ S).
  - apply (l_panic _ _ S).
Qed.

Lemma SL_core : forall st st' L, core st' = core st -> SL st L -> SL st' L.
Proof.
  intros st st' L Hc S. core_inv Hc. unfold inP, inQ, AInv in *.
  split; unfold inP, inQ, AInv; rewrite ?Ecfg, ?Epend, ?Equeue, ?Eall, ?Eslots, ?Epanic; apply S.
Qed.
Lemma SInv_core : forall st st', core st' = core st -> SInv st -> SInv st'.
Proof. intros st st' Hc S. eapply SInv_of_SL; [eapply SL_core; [exact Hc | apply SL_of_SInv, S] | intros t []]. Qed.

Lemma SL_ext : forall st L L', SL st L -> (forall t, In t L' <-> In t L) -> SL st L'.
Proof.
  intros st L L' S H. split; try apply S.
  - intros t. rewrite (l_union _ _ S t), H. reflexivity.
  - intros t Ht. apply (l_limbo _ _ S), H, Ht.
Qed.

(* change confined to one account *)
Lemma SL_upd1 : forall st st' L L' a po qo,
  SL st L -> p_cfg st' = p_cfg st ->
  (forall b, p_pending st' b = upd (p_pending st) a po b) -> (forall b, p_queue st' b = upd (p_queue st) a qo b) ->
  (forall l, po = Some l -> lok (p_cfg st) true a l /\ In a (c_accts (p_cfg st))) ->
  (forall l, qo = Some l -> lok (p_cfg st) false a l /\ In a (c_accts (p_cfg st))) ->
  (forall pl ql t, po = Some pl -> qo = Some ql -> In t (l_txs ql) -> sm_get (t_nonce t) (l_txs pl) = None) ->
  (forall t, In t (p_all st') <-> inP st' t \/ inQ st' t \/ In t L') ->
  (forall t, In t L' -> ~ inP st' t /\ ~ inQ st' t) ->
  AInv st' -> p_panic st' = false -> SL st' L'.
Proof.
  intros st st' L L' a po qo S Hc Hp Hq Hpo Hqo Hd Hu Hl Ha Hpa.
  split; try assumption; rewrite ?Hc.
  - intros a0 l H. rewrite Hp in H. unfold upd in H. destruct (a0 =? a) eqn:E.
    + apply N.eqb_eq in E. subst a0. apply Hpo, H.
    + apply (l_pw _ _ S), H.
  - intros a0 l H. rewrite Hq in H. unfold upd in H. destruct (a0 =? a) eqn:E.
    + apply N.eqb_eq in E. subst a0. apply Hqo, H.
    + apply (l_qw _ _ S), H.
  - intros a0 pl ql t H1 H2. rewrite Hp in H1. rewrite Hq in H2. unfold upd in H1, H2. destruct (a0 =? a) eqn:E.
    + apply Hd; assumption.
    + apply (l_disj _ _ S a0); assumption.
Qed.

(* lookup.Remove of a tx that is in no list *)
Lemma SL_all_remove : forall t st L, SL st L -> ~ inP st t -> ~ inQ st t ->
  SL (all_remove t st) (filter (fun y => negb (tx_eqb t y)) L) /\
  p_pending (all_remove t st) = p_pending st /\ p_queue (all_remove t st) = p_queue st /\
  p_cfg (all_remove t st) = p_cfg st /\ p_chain (all_remove t st) = p_chain st.
Proof.
  intros t st L S Hnp Hnq.
  destruct (all_remove_spec t st (l_ainv _ _ S)) as [A1 [M1 [C1 [Ch1 [P1 [Q1 [Pa1 _]]]]]]].
  split; [|tauto].
  split; unfold inP, inQ; rewrite ?C1, ?P1, ?Q1, ?Pa1; try apply S; try assumption.
  - intros x. rewrite M1, (l_union _ _ S x), In_filter_ne. unfold inP, inQ. split.
    + intros [[H|[H|H]] Hne]; tauto.
    + intros [H|[H|[H Hne]]]; (split; [tauto|]); try exact Hne; intros ->; [apply Hnp, H | apply Hnq, H].
  - intros x Hx. apply In_filter_ne in Hx. apply (l_limbo _ _ S x), Hx.
Qed.

Lemma SL_fold_all_remove : forall (g : tx -> pool -> pool), (forall t s, core (g t s) = core s) ->
  forall R st L, SL st L -> (forall x, In x R -> ~ inP st x /\ ~ inQ st x) ->
  let st' := fold_left (fun s t => g t (all_remove t s)) R st in
  (exists L', SL st' L' /\ (forall x, In x L' <-> In x L /\ ~ In x R)) /\
  p_pending st' = p_pending st /\ p_queue st' = p_queue st /\ p_cfg st' = p_cfg st /\ p_chain st' = p_chain st.
Proof.
  intros g Hg R. induction R as [|t R IH]; intros st L S HR; cbn [fold_left].
  - split; [exists L; split; [exact S | intros x; cbn; tauto] | tauto].
  - destruct (HR t (or_introl eq_refl)) as [Hnp Hnq].
    destruct (SL_all_remove t st L S Hnp Hnq) as [S1 [P1 [Q1 [C1 Ch1]]]].
    pose proof (Hg t (all_remove t st)) as Hc.
    pose proof (SL_core _ _ _ Hc S1) as S2. core_inv Hc.
    destruct (IH (g t (all_remove t st)) _ S2) as [[L' [S' M']] [P' [Q' [C' Ch']]]].
    + intros x Hx. unfold inP, inQ. rewrite Epend, Equeue, P1, Q1. apply HR. right. exact Hx.
    + split; [|repeat split; congruence].
      exists L'. split; [exact S'|]. intros x. rewrite M', In_filter_ne. cbn [In]. split.
      * intros [[H1 H2] H3]. split; [exact H1|]. intros [->|H]; [apply H2; reflexivity | apply H3, H].
      * intros [H1 H2]. split; [split; [exact H1|]; intros ->; apply H2; left; reflexivity | intros H; apply H2; right; exact H].
Qed.

Lemma sm_get_none_sub : forall l l' n, sm_get n l = None -> (forall x, In x l' -> In x l) -> sm_get n l' = None.
Proof. intros l l' n H Hs. apply sm_get_none_intro. intros x Hx. eapply sm_get_none_notin; [exact H | apply Hs, Hx]. Qed.

(* txs leave the pending list of one account and wait in limbo *)
Lemma SL_shrink_pending : forall st st' L a pl po R,
  SL st L -> p_pending st a = Some pl ->
  (forall l, po = Some l -> lok (p_cfg st) true a l) ->
  (forall x, In x (l_txs pl) <-> in_opt x po \/ In x R) -> (forall x, In x R -> ~ in_opt x po) ->
  (forall b, p_pending st' b = upd (p_pending st) a po b) -> p_queue st' = p_queue st ->
  p_all st' = p_all st -> p_slots st' = p_slots st -> p_cfg st' = p_cfg st -> p_panic st' = p_panic st ->
  SL st' (R ++ L).
Proof.
  intros st st' L a pl po R S Ep Hlok Hmem Hdis Hp Hq Hall Hsl Hc Hpa.
  destruct (l_pw _ _ S a pl Ep) as [Lp Ha].
  assert (Hfrom : forall x, In x (l_txs pl) -> t_from x = a) by (intros x Hx; apply (lk_mem _ _ _ _ Lp), Hx).
  assert (HinP' : forall x, inP st' x <-> (t_from x = a /\ in_opt x po) \/ (t_from x <> a /\ inP st x)).
  { intros x. unfold inP. rewrite Hp. unfold upd. destruct (t_from x =? a) eqn:E.
    - apply N.eqb_eq in E. intuition. - apply N.eqb_neq in E. intuition. }
  assert (HinQ' : forall x, inQ st' x <-> inQ st x) by (intros x; unfold inQ; rewrite Hq; reflexivity).
  assert (HPa : forall x, t_from x = a -> (inP st x <-> In x (l_txs pl))).
  { intros x E. unfold inP. rewrite E, Ep. reflexivity. }
  apply (SL_upd1 st st' L (R ++ L) a po (p_queue st a) S Hc Hp).
  - intros b. rewrite Hq. unfold upd. destruct (b =? a) eqn:E; [apply N.eqb_eq in E; subst; reflexivity | reflexivity].
  - intros l Hl. split; [apply Hlok, Hl | exact Ha].
  - intros l Hl. apply (l_qw _ _ S a l Hl).
  - intros pl0 ql t Hp0 Hq0 Ht. subst po. eapply sm_get_none_sub; [apply (l_disj _ _ S a pl ql t Ep Hq0 Ht)|].
    intros x Hx. apply Hmem. left. exact Hx.
  - intros x. rewrite Hall, (l_union _ _ S x), HinP', HinQ', in_app_iff.
    destruct (N.eq_dec (t_from x) a) as [E|E].
    + rewrite (HPa x E), Hmem. tauto.
    + split; [tauto|]. intros [[[H _]|H]|[H|[H|H]]]; try tauto. exfalso. apply E, Hfrom, Hmem. right. exact H.
  - intros x Hx. rewrite HinP', HinQ'. apply in_app_iff in Hx. destruct Hx as [Hx|Hx].
    + assert (Hxp : In x (l_txs pl)) by (apply Hmem; right; exact Hx). pose proof (Hfrom x Hxp) as E. split.
      * intros [[_ H]|[H _]]; [apply (Hdis x Hx H) | contradiction].
      * unfold inQ. rewrite E. destruct (p_queue st a) as [ql|] eqn:Eq; [|intros []]. intros Hq0.
        eapply In_sm_get; [exact Hxp | apply (l_disj _ _ S a pl ql x Ep Eq Hq0)].
    + destruct (l_limbo _ _ S x Hx) as [H1 H2]. split; [|exact H2].
      intros [[E H]|[_ H]]; [|contradiction]. apply H1. apply (HPa x E), Hmem. left. exact H.
  - unfold AInv. rewrite Hall, Hsl. apply (l_ainv _ _ S).
  - rewrite Hpa. apply (l_panic _ _ S).
Qed.

(* the same for the queue of one account *)
Lemma SL_shrink_queue : forall st st' L a ql qo R,
  SL st L -> p_queue st a = Some ql ->
  (forall l, qo = Some l -> lok (p_cfg st) false a l) ->
  (forall x, In x (l_txs ql) <-> in_opt x qo \/ In x R) -> (forall x, In x R -> ~ in_opt x qo) ->
  (forall b, p_queue st' b = upd (p_queue st) a qo b) -> p_pending st' = p_pending st ->
  p_all st' = p_all st -> p_slots st' = p_slots st -> p_cfg st' = p_cfg st -> p_panic st' = p_panic st ->
  SL st' (R ++ L).
Proof.
  intros st st' L a ql qo R S Eq Hlok Hmem Hdis Hq Hp Hall Hsl Hc Hpa.
  destruct (l_qw _ _ S a ql Eq) as [Lq Ha].
  assert (Hfrom : forall x, In x (l_txs ql) -> t_from x = a) by (intros x Hx; apply (lk_mem _ _ _ _ Lq), Hx).
  assert (HinQ' : forall x, inQ st' x <-> (t_from x = a /\ in_opt x qo) \/ (t_from x <> a /\ inQ st x)).
  { intros x. unfold inQ. rewrite Hq. unfold upd. destruct (t_from x =? a) eqn:E.
    - apply N.eqb_eq in E. intuition. - apply N.eqb_neq in E. intuition. }
  assert (HinP' : forall x, inP st' x <-> inP st x) by (intros x; unfold inP; rewrite Hp; reflexivity).
  assert (HQa : forall x, t_from x = a -> (inQ st x <-> In x (l_txs ql))).
  { intros x E. unfold inQ. rewrite E, Eq. reflexivity. }
  apply (SL_upd1 st st' L (R ++ L) a (p_pending st a) qo S Hc).
  - intros b. rewrite Hp. unfold upd. destruct (b =? a) eqn:E; [apply N.eqb_eq in E; subst; reflexivity | reflexivity].
  - exact Hq.
  - intros l Hl. apply (l_pw _ _ S a l Hl).
  - intros l Hl. split; [apply Hlok, Hl | exact Ha].
  - intros pl ql0 t Hp0 Hq0 Ht. subst qo. apply (l_disj _ _ S a pl ql t Hp0 Eq). apply Hmem. left. exact Ht.
  - intros x. rewrite Hall, (l_union _ _ S x), HinP', HinQ', in_app_iff.
    destruct (N.eq_dec (t_from x) a) as [E|E].
    + rewrite (HQa x E), Hmem. tauto.
    + split; [tauto|]. intros [H|[[[H _]|H]|[H|H]]]; try tauto. exfalso. apply E, Hfrom, Hmem. right. exact H.
  - intros x Hx. rewrite HinP', HinQ'. apply in_app_iff in Hx. destruct Hx as [Hx|Hx].
    + assert (Hxq : In x (l_txs ql)) by (apply Hmem; right; exact Hx). pose proof (Hfrom x Hxq) as E. split.
      * unfold inP. rewrite E. destruct (p_pending st a) as [pl|] eqn:Ep; [|intros []]. intros Hp0.
        eapply In_sm_get; [exact Hp0 | apply (l_disj _ _ S a pl ql x Ep Eq Hxq)].
      * intros [[_ H]|[H _]]; [apply (Hdis x Hx H) | contradiction].
    + destruct (l_limbo _ _ S x Hx) as [H1 H2]. split; [exact H1|].
      intros [[E H]|[_ H]]; [|contradiction]. apply H2. apply (HQa x E), Hmem. left. exact H.
  - unfold AInv. rewrite Hall, Hsl. apply (l_ainv _ _ S).
  - rewrite Hpa. apply (l_panic _ _ S).
Qed.

Lemma sorted_NoDup : forall l, sorted l -> NoDup l.
Proof.
  unfold sorted. induction l as [|x l IH]; intros H; constructor; apply StronglySorted_inv in H; destruct H as [Hs Hf].
  - intros Hin. rewrite Forall_forall in Hf. pose proof (Hf x Hin) as H. unfold nlt in H. lia.
  - apply IH, Hs.
Qed.

Lemma NoDup_firstn' {A} (n : nat) (l : list A) : NoDup l -> NoDup (firstn n l).
Proof. intros H. rewrite <- (firstn_skipn n l) in H. apply NoDup_app_remove_r in H. exact H. Qed.

(* queue.remove of a queued tx: it moves to limbo *)
Lemma SL_q_remove : forall st L a t fl,
  SL st L -> p_queue st a = Some fl -> In t (l_txs fl) ->
  exists qo, SL (q_remove a t st) (t :: L) /\
    (forall b, p_queue (q_remove a t st) b = upd (p_queue st) a qo b) /\
    (forall x, in_opt x qo <-> In x (l_txs fl) /\ x <> t) /\
    p_pending (q_remove a t st) = p_pending st /\ p_cfg (q_remove a t st) = p_cfg st /\
    p_chain (q_remove a t st) = p_chain st.
Proof.
  intros st L a t fl S Eq Hin. destruct (l_qw _ _ S a fl Eq) as [Lq Ha].
  destruct (list_remove_spec _ _ _ _ t Lq Hin) as [inv [fl' [Er [Lq' [Mq' _]]]]].
  unfold q_remove. rewrite Eq.
  destruct (sm_get (t_nonce t) (l_txs fl)) as [o|] eqn:Eg; [|exfalso; eapply In_sm_get; eassumption].
  apply sm_get_In in Eg. destruct Eg as [Ho1 Ho2].
  assert (o = t) by (eapply sorted_nonce_inj; [apply (lw_sorted _ (lk_wf _ _ _ _ Lq)) | | | ]; eassumption). subst o.
  rewrite tx_eqb_refl. cbn [negb]. rewrite Er.
  set (st3 := if l_empty fl' then chk fl' (del_queue a st) else put_queue a fl' st).
  assert (F3 : (forall b, p_queue st3 b = upd (p_queue st) a (stored fl') b) /\ p_pending st3 = p_pending st /\
               p_all st3 = p_all st /\ p_slots st3 = p_slots st /\ p_cfg st3 = p_cfg st /\
               p_chain st3 = p_chain st /\ p_panic st3 = p_panic st).
  { unfold st3, stored, put_queue. rewrite !(chk_ok _ _ _ _ _ Lq'). destruct (l_empty fl'); cbn; repeat split; auto. }
  destruct F3 as [Q3 [P3 [Al3 [Sl3 [C3 [Ch3 Pa3]]]]]].
  exists (stored fl'). split; [|split; [exact Q3 | split; [intros x; rewrite in_opt_stored; apply Mq' | tauto]]].
  change (t :: L) with ([t] ++ L).
  apply (SL_shrink_queue st st3 L a fl (stored fl') [t] S Eq); try assumption.
  - intros l Hl. unfold stored in Hl. destruct (l_empty fl'); inversion Hl; subst. exact Lq'.
  - intros x. rewrite in_opt_stored, Mq'. cbn [In]. split.
    + intros H. destruct (tx_eqb x t) eqn:E; [apply tx_eqb_eq in E; right; left; congruence | apply tx_eqb_neq in E; left; tauto].
    + intros [[H _]|[<-|[]]]; assumption.
  - intros x [<-|[]]. rewrite in_opt_stored, Mq'. tauto.
Qed.

(* removing several queued txs of one account *)
Lemma SL_q_remove_many : forall V st L a fl,
  SL st L -> p_queue st a = Some fl -> NoDup V -> (forall x, In x V -> In x (l_txs fl)) ->
  let st' := fold_left (fun s t => q_remove a t s) V st in
  (exists L', SL st' L' /\ (forall x, In x L' <-> In x V \/ In x L)) /\
  (forall x, in_opt x (p_queue st' a) <-> In x (l_txs fl) /\ ~ In x V) /\
  (forall b, b <> a -> p_queue st' b = p_queue st b) /\
  p_pending st' = p_pending st /\ p_cfg st' = p_cfg st /\ p_chain st' = p_chain st.
Proof.
  induction V as [|t V IH]; intros st L a fl S Eq Hnd HV; cbn [fold_left].
  - split; [exists L; split; [exact S | intros x; cbn; tauto]|].
    split; [intros x; rewrite Eq; cbn; tauto | repeat split; reflexivity].
  - inversion Hnd as [|? ? Hnt HndV]; subst.
    destruct (SL_q_remove st L a t fl S Eq (HV t (or_introl eq_refl))) as [qo [S1 [Q1 [M1 [P1 [C1 Ch1]]]]]].
    assert (Qa : p_queue (q_remove a t st) a = qo) by (rewrite Q1; unfold upd; rewrite N.eqb_refl; reflexivity).
    destruct V as [|v V'].
    + cbn [fold_left]. split; [exists (t :: L); split; [exact S1 | intros x; cbn; tauto]|].
      split; [intros x; rewrite Qa, M1; cbn; intuition congruence|].
      split; [intros b Hb; rewrite Q1; unfold upd; destruct (b =? a) eqn:E; [apply N.eqb_eq in E; contradiction | reflexivity] | tauto].
    + (* the queue of a is still there: v is in it *)
      assert (Hv : in_opt v qo) by (apply M1; split; [apply HV; right; left; reflexivity | intros ->; apply Hnt; left; reflexivity]).
      destruct qo as [fl1|]; [|destruct Hv].
      destruct (IH (q_remove a t st) (t :: L) a fl1 S1 Qa HndV) as [[L' [S' ML']] [M' [O' [P' [C' Ch']]]]].
      * intros x Hx. apply M1. split; [apply HV; right; exact Hx | intros ->; contradiction].
      * split; [exists L'; split; [exact S'|]; intros x; rewrite ML'; cbn [In]; tauto|].
        split; [intros x; rewrite M'; cbn [in_opt] in M1; rewrite M1; cbn [In]; intuition congruence|].
        split; [intros b Hb; rewrite (O' b Hb), Q1; unfold upd; destruct (b =? a) eqn:E; [apply N.eqb_eq in E; contradiction | reflexivity]|].
        repeat split; congruence.
Qed.
