(* Pool/LegacyInv5.v — structural invariant, part 5: the Reset cycle
   (reset incl. reinjection, demoteUnexecutables, setAll of the pending nonces). *)
From GV Require Import Lib.Tactics Pool.Legacy Pool.LegacyProofs Pool.LegacyInv Pool.LegacyInv2 Pool.LegacyInv3 Pool.LegacyInv4.
From Coq Require Import Sorting.Sorted.
Local Open Scope N_scope.

(* enqueue_many with distinct (not necessarily ascending) nonces *)
Lemma enqueue_many_nd : forall k I st a,
  (forall ql, p_queue st a = Some ql -> lok (p_cfg st) false a ql) ->
  (forall x, In x I -> t_from x = a /\ okt (p_cfg st) x) -> NoDup (map t_nonce I) ->
  (forall x ql, In x I -> p_queue st a = Some ql -> sm_get (t_nonce x) (l_txs ql) = None) ->
  let st' := fold_left (fun s x => fst (enqueue_tx (S k) x false s)) I st in
  (forall ql, p_queue st' a = Some ql -> lok (p_cfg st) false a ql) /\
  (forall x, in_opt x (p_queue st' a) <-> In x I \/ in_opt x (p_queue st a)) /\
  (forall b, b <> a -> p_queue st' b = p_queue st b) /\ frameQ st st'.
Proof.
  intros k I. induction I as [|y I IH]; intros st a HL HI Hs Hn; cbn [fold_left].
  - split; [exact HL|]. split; [intros x; cbn; tauto|]. split; [reflexivity | apply frameQ_refl].
  - destruct (enqueue_fresh k st y a HL (proj1 (HI y (or_introl eq_refl))) (proj2 (HI y (or_introl eq_refl)))
                (fun ql Hq => Hn y ql (or_introl eq_refl) Hq)) as [l1 [st1 [E [Hq1 [L1 [M1 F1]]]]]].
    rewrite E. cbn [fst].
    assert (F1' : frameQ st st1) by (unfold frameQ; tauto).
    destruct F1 as [Fc _]. cbn [map] in Hs. inversion Hs as [|? ? Hy HsI]; subst.
    assert (Qa : p_queue st1 a = Some l1) by (rewrite Hq1; unfold upd; rewrite N.eqb_refl; reflexivity).
    destruct (IH st1 a) as [H1 [H2 [H3 H4]]].
    + intros ql Hq. rewrite Qa in Hq. inversion Hq; subst. rewrite Fc. exact L1.
    + intros x Hx. rewrite Fc. apply HI. right. exact Hx.
    + exact HsI.
    + intros x ql Hx Hq. rewrite Qa in Hq. inversion Hq; subst ql. apply sm_get_none_intro.
      intros z Hz En. apply M1 in Hz. destruct Hz as [->|Hz].
      * apply Hy. rewrite En. apply in_map. exact Hx.
      * unfold in_opt in Hz. destruct (p_queue st a) as [ql0|] eqn:Eq0; [|destruct Hz].
        eapply sm_get_none_notin; [apply (Hn x ql0 (or_intror Hx) eq_refl) | exact Hz | exact En].
    + split; [intros ql Hq; rewrite <- Fc; apply H1, Hq|].
      split; [|split].
      * intros x. rewrite H2. rewrite Qa. cbn [in_opt]. rewrite M1. cbn [In]. intuition congruence.
      * intros b Hb. rewrite (H3 b Hb), Hq1. unfold upd. destruct (b =? a) eqn:Eb; [apply N.eqb_eq in Eb; contradiction | reflexivity].
      * eapply frameQ_trans; eassumption.
Qed.

(* limbo txs of one account go (back) to its queue *)
Lemma SL_enqueue_limbo : forall k I st L a,
  SL st L -> (forall x, In x I -> In x L /\ t_from x = a /\ okt (p_cfg st) x) -> NoDup (map t_nonce I) ->
  In a (c_accts (p_cfg st)) ->
  (forall x pl, In x I -> p_pending st a = Some pl -> sm_get (t_nonce x) (l_txs pl) = None) ->
  (forall x ql, In x I -> p_queue st a = Some ql -> sm_get (t_nonce x) (l_txs ql) = None) ->
  let st' := fold_left (fun s x => fst (enqueue_tx (S k) x false s)) I st in
  (exists L', SL st' L' /\ (forall x, In x L' <-> In x L /\ ~ In x I)) /\
  p_pending st' = p_pending st /\ p_cfg st' = p_cfg st /\ p_chain st' = p_chain st /\
  (forall x, in_opt x (p_queue st' a) <-> In x I \/ in_opt x (p_queue st a)) /\
  (forall b, b <> a -> p_queue st' b = p_queue st b).
Proof.
  intros k I st L a HS HI Hnd Ha Hnp Hnq.
  destruct (enqueue_many_nd k I st a) as [HL' [M' [O' F']]].
  - intros ql Hq. apply (l_qw _ _ HS a ql Hq).
  - intros x Hx. destruct (HI x Hx) as [_ H]. exact H.
  - exact Hnd.
  - exact Hnq.
  - set (st' := fold_left (fun s x => fst (enqueue_tx (S k) x false s)) I st) in *.
    destruct F' as [C' [Ch' [P' [Al' [Sl' [Pa' _]]]]]].
    split; [|repeat split; assumption || apply M'].
    exists (filter (fun y => negb (existsb (tx_eqb y) I)) L).
    assert (HLf : forall x, In x (filter (fun y => negb (existsb (tx_eqb y) I)) L) <-> In x L /\ ~ In x I).
    { intros x. rewrite filter_In, negb_true_iff. split; intros [H1 H2]; split; auto.
      - intros Hi. assert (existsb (tx_eqb x) I = true) by (apply existsb_exists; exists x; split; [exact Hi | apply tx_eqb_refl]). congruence.
      - destruct (existsb (tx_eqb x) I) eqn:E; [|reflexivity]. apply existsb_exists in E. destruct E as [y [Hy E]]. apply tx_eqb_eq in E. subst y. contradiction. }
    split; [|exact HLf].
    assert (HinQ' : forall x, inQ st' x <-> (t_from x = a /\ (In x I \/ inQ st x)) \/ (t_from x <> a /\ inQ st x)).
    { intros x. unfold inQ. destruct (N.eq_dec (t_from x) a) as [E|E].
      - rewrite E, M'. tauto.
      - rewrite (O' _ E). tauto. }
    assert (HinP' : forall x, inP st' x <-> inP st x) by (intros x; unfold inP; rewrite P'; reflexivity).
    apply (SL_upd1 st st' L _ a (p_pending st a) (p_queue st' a) HS C').
    + intros b. rewrite P'. unfold upd. destruct (b =? a) eqn:E; [apply N.eqb_eq in E; subst; reflexivity | reflexivity].
    + intros b. unfold upd. destruct (b =? a) eqn:E; [apply N.eqb_eq in E; subst; reflexivity | apply N.eqb_neq in E; apply O', E].
    + intros l Hl. apply (l_pw _ _ HS a l Hl).
    + intros l Hl. split; [apply HL', Hl | exact Ha].
    + intros pl ql x Hp Hq Hx. assert (Hx' : in_opt x (p_queue st' a)) by (rewrite Hq; exact Hx).
      apply M' in Hx'. destruct Hx' as [Hx'|Hx'].
      * apply (Hnp x pl Hx' Hp).
      * unfold in_opt in Hx'. destruct (p_queue st a) as [ql0|] eqn:Eq0; [|destruct Hx']. apply (l_disj _ _ HS a pl ql0 x Hp Eq0 Hx').
    + intros x. rewrite Al', (l_union _ _ HS x), HinP', HinQ', HLf.
      destruct (N.eq_dec (t_from x) a) as [E|E].
      * split; [intros [H|[H|H]]; [tauto | tauto|]; destruct (in_dec (fun u v => match tx_eqb u v as b return (tx_eqb u v = b -> _) with true => fun e => left (proj1 (tx_eqb_eq u v) e) | false => fun e => right (proj1 (tx_eqb_neq u v) e) end eq_refl) x I); tauto |].
        intros [H|[[[_ [H|H]]|[H _]]|[H _]]]; try tauto. right. right. apply (HI x H).
      * split; [intros [H|[H|H]]; [tauto | tauto|]; right; right; split; [exact H|]; intros Hi; apply E, (HI x Hi) | tauto].
    + intros x Hx. apply HLf in Hx. destruct Hx as [Hx Hni]. destruct (l_limbo _ _ HS x Hx) as [H1 H2].
      rewrite HinP', HinQ'. split; [exact H1 | tauto].
    + unfold AInv. rewrite Al', Sl'. apply (l_ainv _ _ HS).
    + rewrite Pa'. apply (l_panic _ _ HS).
Qed.

Lemma put_pending_fields : forall c s0 a l' s, lok c s0 a l' ->
  (forall b, p_pending (put_pending a l' s) b = upd (p_pending s) a (Some l') b) /\
  p_queue (put_pending a l' s) = p_queue s /\ p_all (put_pending a l' s) = p_all s /\
  p_slots (put_pending a l' s) = p_slots s /\ p_cfg (put_pending a l' s) = p_cfg s /\
  p_chain (put_pending a l' s) = p_chain s /\ p_panic (put_pending a l' s) = p_panic s.
Proof. intros c s0 a l' s L. unfold put_pending. rewrite (chk_ok _ _ _ _ _ L). cbn. repeat split; reflexivity. Qed.

(* the pending list of one account shrinks to l', the txs that left wait in limbo *)
Lemma SL_put_shrink : forall s L a pl l' R,
  SL s L -> p_pending s a = Some pl -> lok (p_cfg s) true a l' ->
  (forall x, In x (l_txs pl) <-> In x (l_txs l') \/ In x R) -> (forall x, In x R -> ~ In x (l_txs l')) ->
  SL (put_pending a l' s) (R ++ L).
Proof.
  intros s L a pl l' R HS Ep Ll M D. destruct (put_pending_fields _ _ a l' s Ll) as [P [Q [Al [Sl [C [Ch Pa]]]]]].
  apply (SL_shrink_pending s _ L a pl (Some l') R HS Ep); try assumption.
  intros l0 Hl0. inversion Hl0; subst. exact Ll.
Qed.

Lemma sorted_nonces_NoDup : forall l, sorted l -> NoDup (map t_nonce l).
Proof.
  unfold sorted. induction l as [|x l IH]; intros H; cbn [map]; constructor; apply StronglySorted_inv in H; destruct H as [Hs Hf].
  - intros Hi. apply in_map_iff in Hi. destruct Hi as [y [Hn Hy]]. rewrite Forall_forall in Hf. pose proof (Hf y Hy) as Hlt. unfold nlt in Hlt. lia.
  - apply IH, Hs.
Qed.

Lemma upd_same {A} (f : N -> A) a v : upd f a v a = v.
Proof. unfold upd. rewrite N.eqb_refl. reflexivity. Qed.
Lemma upd_other {A} (f : N -> A) a v b : b <> a -> upd f a v b = f b.
Proof. intros H. unfold upd. destruct (b =? a) eqn:E; [apply N.eqb_eq in E; contradiction | reflexivity]. Qed.

(* demoteUnexecutables, one account *)
Lemma demote_one_RS : forall a st, SInv st ->
  RS st (demote_one a st) /\ (forall b, b <> a -> p_pending (demote_one a st) b = p_pending st b) /\
  (forall l, p_pending (demote_one a st) a = Some l -> l_txs l <> []) /\
  (forall x, in_opt x (p_pending (demote_one a st) a) ->
             cost x <= ch_bal (p_chain st) a /\ t_gas x <= ch_gaslimit (p_chain st)) /\
  (* the surviving pending list starts at the state nonce *)
  (forall x, in_opt x (p_pending (demote_one a st) a) -> ch_nonce (p_chain st) a <= t_nonce x) /\
  (forall l, p_pending (demote_one a st) a = Some l -> exists x, In x (l_txs l) /\ t_nonce x = ch_nonce (p_chain st) a) /\
  (* the surviving list is a prefix-by-filter of what Forward leaves: contiguity is inherited *)
  (forall l0 l' s0, p_pending st a = Some l0 -> p_pending (demote_one a st) a = Some l' ->
     contig s0 (filter (fun t => negb (t_nonce t <? ch_nonce (p_chain st) a)) (l_txs l0)) -> contig s0 (l_txs l')).
Proof.
  intros a st HS. unfold demote_one. destruct (p_pending st a) as [l|] eqn:Ep.
  2:{ split; [apply RS_refl, HS|]. split; [reflexivity|]. split; [intros l0 H; rewrite Ep in H; discriminate|].
      split; [intros x H; rewrite Ep in H; destruct H|]. split; [intros x H; rewrite Ep in H; destruct H|].
      split; [intros l0 H; rewrite Ep in H; discriminate | intros l0 l' s0 H; discriminate]. }
  pose proof (SL_of_SInv _ HS) as S0. destruct (s_pw _ HS a l Ep) as [Lp Ha].
  set (nonce := ch_nonce (p_chain st) a).
  (* 1. Forward: too old txs leave the list and the lookup *)
  destruct (list_forward nonce l) as [olds l1] eqn:E1.
  destruct (list_forward_spec _ _ _ _ _ _ _ Lp E1) as [L1 [M1 [D1 Hlow1]]].
  pose proof (SL_put_shrink st [] a l l1 olds S0 Ep L1 M1 D1) as SA.
  destruct (put_pending_fields _ _ a l1 st L1) as [PA [QA [AlA [SlA [CA [ChA PaA]]]]]].
  set (sA := put_pending a l1 st) in *.
  pose proof (SL_fold_all_remove (fun _ s => s) (fun _ _ => eq_refl) olds sA _ SA) as H1. cbv beta in H1.
  destruct H1 as [[La [S1 Ma]] [P1 [Q1 [C1 Ch1]]]].
  { intros x Hx. apply (l_limbo _ _ SA x). apply in_or_app. left. exact Hx. }
  set (st1 := fold_left (fun s t => all_remove t s) olds sA) in *.
  assert (Ep1 : p_pending st1 a = Some l1) by (rewrite P1, PA; apply upd_same).
  assert (Cst1 : p_cfg st1 = p_cfg st) by congruence.
  assert (HLa : forall x, ~ In x La).
  { intros x Hx. apply Ma in Hx. destruct Hx as [Hx Hn]. apply in_app_iff in Hx. destruct Hx as [Hx|[]]. contradiction. }
  (* 2. Filter: unpayable txs leave, the txs above them are invalidated *)
  destruct (list_filter (ch_bal (p_chain st) a) (ch_gaslimit (p_chain st)) l1) as [[drops inv] l2] eqn:E2.
  destruct (list_filter_spec _ _ _ _ _ _ _ _ _ L1 E2) as [L2 [M2 [D2 [D2' [_ [Sinv Haff2]]]]]].
  assert (SB : SL (put_pending a l2 st1) ((drops ++ inv) ++ La)).
  { apply (SL_put_shrink st1 La a l1 l2 (drops ++ inv) S1 Ep1).
    - rewrite Cst1. exact L2.
    - intros x. rewrite M2, in_app_iff. reflexivity.
    - intros x Hx. apply in_app_iff in Hx. apply D2, Hx. }
  destruct (put_pending_fields _ _ a l2 st1 L2) as [PB [QB [AlB [SlB [CB [ChB PaB]]]]]].
  set (sB := put_pending a l2 st1) in *.
  pose proof (SL_fold_all_remove (fun _ s => s) (fun _ _ => eq_refl) drops sB _ SB) as H2. cbv beta in H2.
  destruct H2 as [[Lb [S2 Mb]] [P2 [Q2 [C2 Ch2]]]].
  { intros x Hx. apply (l_limbo _ _ SB x). apply in_or_app. left. apply in_or_app. left. exact Hx. }
  set (st2 := fold_left (fun s t => all_remove t s) drops sB) in *.
  assert (Ep2 : p_pending st2 a = Some l2) by (rewrite P2, PB; apply upd_same).
  assert (Cst2 : p_cfg st2 = p_cfg st) by congruence.
  assert (Qst2 : p_queue st2 = p_queue st) by congruence.
  assert (HLb : forall x, In x Lb <-> In x inv).
  { intros x. rewrite Mb, !in_app_iff. split.
    - intros [[[H|H]|H] Hn]; [contradiction | exact H | exfalso; apply (HLa x H)].
    - intros H. split; [left; right; exact H | intros Hd; apply (D2' x Hd H)]. }
  assert (Hl1_l : forall x, In x (l_txs l1) -> In x (l_txs l)) by (intros x Hx; apply M1; left; exact Hx).
  assert (Hl2_l1 : forall x, In x (l_txs l2) -> In x (l_txs l1)) by (intros x Hx; apply M2; left; exact Hx).
  assert (Hinv_l1 : forall x, In x inv -> In x (l_txs l1)) by (intros x Hx; apply M2; right; right; exact Hx).
  pose proof (lw_sorted _ (lk_wf _ _ _ _ L1)) as Hso1.
  (* a pending tx of this account has no queued tx of the same nonce *)
  assert (HnoQ : forall x ql, In x (l_txs l) -> p_queue st a = Some ql -> sm_get (t_nonce x) (l_txs ql) = None).
  { intros x ql Hx Hq. destruct (sm_get (t_nonce x) (l_txs ql)) as [o|] eqn:Eo; [|reflexivity].
    apply sm_get_In in Eo. destruct Eo as [Ho1 Ho2]. pose proof (s_disj _ HS a l ql o Ep Hq Ho1) as Hd. rewrite Ho2 in Hd.
    exfalso. eapply In_sm_get; [exact Hx | exact Hd]. }
  (* 3. the invalidated txs go back to the queue *)
  destruct (SL_enqueue_limbo 5 inv st2 Lb a S2) as [[Lc [S3 Mc]] [P3 [C3 [Ch3 [Mq3 Oq3]]]]].
  { intros x Hx. split; [apply HLb, Hx|]. rewrite Cst2. apply (lk_mem _ _ _ _ Lp), Hl1_l, Hinv_l1, Hx. }
  { apply sorted_nonces_NoDup, Sinv. }
  { rewrite Cst2. exact Ha. }
  { intros x pl Hx Hp. rewrite Ep2 in Hp. inversion Hp; subst pl. apply sm_get_none_intro. intros z Hz En.
    assert (z = x) by (eapply sorted_nonce_inj; [exact Hso1 | apply Hl2_l1, Hz | apply Hinv_l1, Hx | exact En]). subst z.
    apply (D2 x (or_intror Hx) Hz). }
  { intros x ql Hx Hq. rewrite Qst2 in Hq. apply (HnoQ x ql); [apply Hl1_l, Hinv_l1, Hx | exact Hq]. }
  change (S 5) with FUEL in *.
  set (st3 := fold_left (fun s t => fst (enqueue_tx FUEL t false s)) inv st2) in *.
  assert (HLc : forall x, ~ In x Lc) by (intros x Hx; apply Mc in Hx; destruct Hx as [H1 H2]; apply H2, HLb, H1).
  pose proof (core_priced_removed (length olds + length drops) st3) as Hc4.
  set (st4 := priced_removed (length olds + length drops) st3) in *.
  pose proof (SL_core _ _ _ Hc4 S3) as S4. core_inv Hc4.
  assert (Ep4 : p_pending st4 a = Some l2) by (rewrite Epend, P3; exact Ep2).
  rewrite Ep4.
  assert (Cst4 : p_cfg st4 = p_cfg st) by congruence.
  (* 4. a gap in front: everything goes back to the queue *)
  assert (H5 : exists st5 lx L5, st5 = (if negb (l_empty l2) && negb (l_contains nonce l2)
                                     then let '(gapped, l4) := list_cap 0 l2 in
                                          fold_left (fun s t => fst (enqueue_tx FUEL t false s)) gapped (put_pending a l4 st4)
                                     else st4) /\
           SL st5 L5 /\ (forall x, ~ In x L5) /\ p_pending st5 a = Some lx /\
           (forall b, b <> a -> p_pending st5 b = p_pending st4 b) /\ p_cfg st5 = p_cfg st /\ p_chain st5 = p_chain st4 /\
           (forall x, In x (l_txs lx) -> In x (l_txs l2)) /\
           (l_txs lx = [] \/ (lx = l2 /\ (l_empty l2 = true \/ l_contains nonce l2 = true)))).
  { destruct (negb (l_empty l2) && negb (l_contains nonce l2)) eqn:Eg.
    2:{ exists st4, l2, Lc. split; [reflexivity|]. split; [exact S4|]. split; [exact HLc|]. split; [exact Ep4|]. split; [intros; reflexivity|]. split; [exact Cst4|]. split; [reflexivity|]. split; [tauto|].
        right. split; [reflexivity|]. apply andb_false_iff in Eg. destruct Eg as [Eg|Eg]; apply negb_false_iff in Eg; tauto. }
    destruct (list_cap 0 l2) as [gapped l4] eqn:E4.
    destruct (list_cap_spec _ _ _ _ _ _ _ L2 E4) as [L4 [M4 D4]].
    assert (Hl4 : l_txs l4 = []).
    { unfold list_cap, sm_cap in E4. destruct (Nat.leb (length (l_txs l2)) 0) eqn:El; inversion E4; subst; [|reflexivity].
      apply Nat.leb_le in El. cbn [with_txs l_txs]. destruct (l_txs l2); [reflexivity | cbn in El; lia]. }
    assert (SD : SL (put_pending a l4 st4) (gapped ++ Lc)).
    { apply (SL_put_shrink st4 Lc a l2 l4 gapped S4 Ep4); [rewrite Cst4; exact L4 | exact M4 | exact D4]. }
    destruct (put_pending_fields _ _ a l4 st4 L4) as [PD [QD [AlD [SlD [CD [ChD PaD]]]]]].
    set (sD := put_pending a l4 st4) in *.
    assert (Hg_l2 : forall x, In x gapped -> In x (l_txs l2)) by (intros x Hx; apply M4; right; exact Hx).
    assert (Qst4a : forall x, in_opt x (p_queue st4 a) <-> In x inv \/ in_opt x (p_queue st a)).
    { intros x. rewrite Equeue, Mq3, Qst2. reflexivity. }
    destruct (SL_enqueue_limbo 5 gapped sD (gapped ++ Lc) a SD) as [[Le [S5 Me]] [P5 [C5 [Ch5 _]]]].
    - intros x Hx. split; [apply in_or_app; left; exact Hx|]. rewrite CD, Cst4. apply (lk_mem _ _ _ _ Lp), Hl1_l, Hl2_l1, Hg_l2, Hx.
    - (* distinct nonces: gapped is a sub-multiset of the sorted l2 without repetition *)
      assert (Hnd : NoDup gapped).
      { unfold list_cap, sm_cap in E4. destruct (Nat.leb (length (l_txs l2)) 0); inversion E4; subst; [constructor|].
        apply NoDup_rev. cbn [skipn]. apply sorted_NoDup, (lw_sorted _ (lk_wf _ _ _ _ L2)). }
      clear -Hnd Hg_l2 L2. pose proof (lw_sorted _ (lk_wf _ _ _ _ L2)) as Hso.
      induction gapped as [|x g IH]; cbn [map]; constructor.
      + intros Hi. apply in_map_iff in Hi. destruct Hi as [y [Hn Hy]]. inversion Hnd as [|? ? Hx _]; subst.
        apply Hx. assert (y = x) by (eapply sorted_nonce_inj; [exact Hso | apply Hg_l2; right; exact Hy | apply Hg_l2; left; reflexivity | exact Hn]). subst y. exact Hy.
      + inversion Hnd; subst. apply IH; [intros z Hz; apply Hg_l2; right; exact Hz | assumption].
    - rewrite CD, Cst4. exact Ha.
    - intros x pl Hx Hp. rewrite PD, upd_same in Hp. inversion Hp; subst pl. rewrite Hl4. reflexivity.
    - intros x ql Hx Hq. rewrite QD in Hq. apply sm_get_none_intro. intros z Hz En.
      assert (Hz' : in_opt z (p_queue st4 a)) by (rewrite Hq; exact Hz). apply Qst4a in Hz'. destruct Hz' as [Hz'|Hz'].
      + assert (z = x) by (eapply sorted_nonce_inj; [exact Hso1 | apply Hinv_l1, Hz' | apply Hl2_l1, Hg_l2, Hx | exact En]). subst z.
        apply (D2 x (or_intror Hz')). apply Hg_l2, Hx.
      + unfold in_opt in Hz'. destruct (p_queue st a) as [ql0|] eqn:Eq0; [|destruct Hz'].
        eapply sm_get_none_notin; [apply (HnoQ x ql0 (Hl1_l _ (Hl2_l1 _ (Hg_l2 _ Hx))) eq_refl) | exact Hz' | exact En].
    - change (S 5) with FUEL in *. eexists _, l4, Le. split; [reflexivity|]. split; [exact S5|].
      split; [intros x Hx; apply Me in Hx; destruct Hx as [H1 H2]; apply in_app_iff in H1; destruct H1 as [H1|H1]; [contradiction | apply (HLc x H1)]|].
      split; [rewrite P5, PD; apply upd_same|].
      split; [intros b Hb; rewrite P5, PD; apply upd_other, Hb|]. split; [congruence|]. split; [congruence|].
      split; [intros x Hx; rewrite Hl4 in Hx; destruct Hx | left; exact Hl4]. }
  destruct H5 as [st5 [lx [L5 [E5 [S5 [HL5 [Ep5 [O5 [C5 [Ch5 [Hlx Hfront]]]]]]]]]]]. rewrite <- E5. rewrite Ep5.
  assert (Hlowx : forall x, In x (l_txs lx) -> nonce <= t_nonce x) by (intros x Hx; apply Hlow1, Hl2_l1, Hlx, Hx).
  assert (Hl1tx : l_txs l1 = filter (fun t => negb (t_nonce t <? nonce)) (l_txs l)) by (unfold list_forward, sm_forward in E1; inversion E1; reflexivity).
  assert (Hctg : forall s0, contig s0 (filter (fun t => negb (t_nonce t <? nonce)) (l_txs l)) -> contig s0 (l_txs lx)).
  { intros s0 Hc0. rewrite <- Hl1tx in Hc0.
    pose proof (list_filter_strict_contig _ _ _ s0 _ _ _ (lk_strict _ _ _ _ L1) Hc0 E2) as Hc2.
    destruct Hfront as [Hn|[-> _]]; [rewrite Hn; exact I | exact Hc2]. }
  assert (Hafx : forall x, In x (l_txs lx) -> cost x <= ch_bal (p_chain st) a /\ t_gas x <= ch_gaslimit (p_chain st)) by (intros x Hx; apply Haff2, Hlx, Hx).
  assert (Hother : forall b, b <> a -> p_pending st5 b = p_pending st b).
  { intros b Hb. rewrite (O5 b Hb), Epend, P3, P2, PB, (upd_other _ _ _ _ Hb), P1, PA. apply upd_other, Hb. }
  assert (Chst5 : p_chain st5 = p_chain st) by congruence.
  destruct (l_empty lx) eqn:Ee.
  - (* the list became empty: delete it *)
    assert (S6 : SL (del_pending a st5) ([] ++ L5)).
    { apply (SL_shrink_pending st5 _ L5 a lx None [] S5 Ep5); try reflexivity.
      - intros l0 H0; discriminate.
      - intros x. rewrite (l_empty_true_nil _ Ee). cbn. tauto.
      - intros x []. }
    split; [|split; [|split; [|split; [|split; [|split]]]]].
    + split; [eapply SInv_of_SL; [exact S6 | exact HL5] | split; [exact C5 | exact Chst5]].
    + intros b Hb. cbn. rewrite (upd_other _ _ _ _ Hb). apply Hother, Hb.
    + intros l0 H0. cbn in H0. rewrite upd_same in H0. discriminate.
    + intros x H0. cbn in H0. rewrite upd_same in H0. destruct H0.
    + intros x H0. cbn in H0. rewrite upd_same in H0. destruct H0.
    + intros l0 H0. cbn in H0. rewrite upd_same in H0. discriminate.
    + intros l0 l' s0 _ H0. cbn in H0. rewrite upd_same in H0. discriminate.
  - split; [|split; [|split; [|split; [|split; [|split]]]]].
    + split; [eapply SInv_of_SL; [exact S5 | exact HL5] | split; [exact C5 | exact Chst5]].
    + exact Hother.
    + intros l0 H0. rewrite Ep5 in H0. inversion H0; subst. intros Hn. unfold l_empty in Ee. rewrite Hn in Ee. discriminate.
    + intros x H0. rewrite Ep5 in H0. apply Hafx, H0.
    + intros x H0. rewrite Ep5 in H0. apply Hlowx, H0.
    + intros l0 H0. rewrite Ep5 in H0. inversion H0; subst l0.
      destruct Hfront as [Hn|[-> [He|Hcont]]].
      * unfold l_empty in Ee. rewrite Hn in Ee. discriminate.
      * congruence.
      * unfold l_contains in Hcont. destruct (sm_get nonce (l_txs l2)) as [o|] eqn:Eo; [|discriminate].
        apply sm_get_In in Eo. exists o. exact Eo.
    + intros l0 l' s0 Hl0 H0 Hc0. inversion Hl0; subst l0. rewrite Ep5 in H0. inversion H0; subst l'. apply Hctg, Hc0.
Qed.

Definition pne_at (s : pool) (a : N) : Prop := forall l, p_pending s a = Some l -> l_txs l <> [].

Lemma demote_fold_RS : forall accts st0 s (done : list N), RS st0 s -> (forall a, In a done -> pne_at s a) ->
  RS st0 (fold_left (fun s a => demote_one a s) accts s) /\
  (forall a, In a (done ++ accts) -> pne_at (fold_left (fun s a => demote_one a s) accts s) a).
Proof.
  induction accts as [|a accts IH]; intros st0 s done R Hd; cbn [fold_left].
  - split; [exact R | intros b Hb; rewrite app_nil_r in Hb; apply Hd, Hb].
  - destruct R as [S1 [C1 Ch1]]. destruct (demote_one_RS a s S1) as [[S2 [C2 Ch2]] [Ho [Hp _]]].
    destruct (IH st0 (demote_one a s) (done ++ [a])) as [R' P'].
    + split; [exact S2 | split; congruence].
    + intros b Hb. apply in_app_iff in Hb. destruct (N.eq_dec b a) as [->|Hne]; [exact Hp|].
      destruct Hb as [Hb|[Hb|[]]]; [|congruence]. intros l Hl. rewrite (Ho b Hne) in Hl. apply (Hd b Hb l Hl).
    + split; [exact R'|]. intros b Hb. apply P'. rewrite <- app_assoc. exact Hb.
Qed.

(* demoteUnexecutables: afterwards no pending list is empty *)
Lemma demote_unexecutables_RS : forall st, SInv st ->
  RS st (demote_unexecutables st) /\ (forall a, pne_at (demote_unexecutables st) a).
Proof.
  intros st HS. unfold demote_unexecutables.
  destruct (demote_fold_RS (c_accts (p_cfg st)) st st [] (RS_refl _ HS) (fun a H => match H with end)) as [R P].
  split; [exact R|]. intros a l Hl. destruct R as [S' [C' _]].
  apply (P a); [|exact Hl]. cbn [app]. rewrite <- C'. apply (s_pw _ S' a l Hl).
Qed.

Lemma SInv_same : forall st st', p_cfg st' = p_cfg st -> p_pending st' = p_pending st -> p_queue st' = p_queue st ->
  p_all st' = p_all st -> p_slots st' = p_slots st -> p_panic st' = p_panic st -> SInv st -> SInv st'.
Proof.
  intros st st' C P Q A Sl Pa S. split; unfold inP, inQ; rewrite ?C, ?P, ?Q, ?A, ?Sl, ?Pa; apply S.
Qed.

Definition RC (st st' : pool) : Prop := SInv st' /\ p_cfg st' = p_cfg st.
Lemma RC_of_RS : forall st st', RS st st' -> RC st st'. Proof. intros st st' [S [C _]]. split; assumption. Qed.
Lemma RC_step : forall a b c, RC a b -> (SInv b -> RC b c) -> RC a c.
Proof. intros a b c [S1 C1] H. destruct (H S1) as [S2 C2]. split; [exact S2 | congruence]. Qed.

(* runReorg's "update all accounts to the latest known pending nonce" (LastElement fills the caches) *)
Lemma set_all_nonces_RC : forall st, SInv st -> (forall a, pne_at st a) ->
  RC st (set_all_nonces st) /\ p_chain (set_all_nonces st) = p_chain st /\
  (forall b x, in_opt x (p_pending (set_all_nonces st) b) <-> in_opt x (p_pending st b)).
Proof.
  intros st HS Hpne. unfold set_all_nonces.
  set (J := fun s : pool => SInv s /\ p_cfg s = p_cfg st /\ p_queue s = p_queue st /\ (p_all s = p_all st /\ p_chain s = p_chain st) /\
                            forall b x, in_opt x (p_pending s b) <-> in_opt x (p_pending st b)).
  assert (J0 : J (set_pn st (fun _ => None))).
  { split; [eapply SInv_same; [| | | | | | exact HS]; reflexivity|]. repeat split; try reflexivity; tauto. }
  assert (Hfold : forall accts s, J s -> J (fold_left (fun s a =>
               match p_pending st a with
               | None => s
               | Some l => match list_last l with
                           | (Some t, l') => pn_set a (t_nonce t + 1) (set_pending s (upd (p_pending s) a (Some l')))
                           | (None, l') => set_panic (set_pending s (upd (p_pending s) a (Some l'))) end
               end) accts s)).
  { induction accts as [|a accts IH]; intros s Js; cbn [fold_left]; [exact Js|]. apply IH.
    destruct (p_pending st a) as [l|] eqn:Ep; [|exact Js].
    destruct Js as [Ss [Cs [Qs [[As Chs] Ms]]]]. destruct (s_pw _ HS a l Ep) as [Lp Ha].
    unfold list_last. destruct (list_flatten l) as [c l'] eqn:Ef.
    destruct (lok_flatten _ _ _ _ _ _ Lp Ef) as [Lp' [Hc Ht]].
    assert (Hlast : exists t, last (map Some c) None = Some t).
    { subst c. pose proof (Hpne a l Ep) as Hne. destruct (l_txs l) as [|x r]; [contradiction|].
      clear. revert x. induction r as [|y r IH]; intros x; [exists x; reflexivity|]. cbn [map last]. destruct (IH y) as [t Ht]. exists t. cbn [map] in Ht. exact Ht. }
    destruct Hlast as [t Hl]. rewrite Hl.
    set (s1 := set_pending s (upd (p_pending s) a (Some l'))).
    assert (S1 : SInv s1).
    { apply (S_upd1 s s1 a (Some l') (p_queue s a) Ss); cbn; try reflexivity.
      - intros b. unfold upd. destruct (b =? a) eqn:E; [apply N.eqb_eq in E; subst; reflexivity | reflexivity].
      - intros l0 H0. inversion H0; subst. rewrite Cs. tauto.
      - intros l0 H0. apply (s_qw _ Ss a l0 H0).
      - intros pl ql x Hp Hq Hx. inversion Hp; subst pl. rewrite Ht. rewrite Qs in Hq. apply (s_disj _ HS a l ql x Ep Hq Hx).
      - intros x. rewrite (s_union _ Ss x). unfold inP, inQ. cbn [in_opt]. rewrite Ht.
        destruct (N.eq_dec (t_from x) a) as [E|E]; [|tauto]. rewrite E. rewrite (Ms a x), Ep. cbn [in_opt]. tauto.
      - exact (SInv_AInv _ Ss).
      - exact (s_panic _ Ss). }
    split; [eapply SInv_core; [apply core_pn_set | exact S1]|].
    split; [cbn; exact Cs|]. split; [cbn; exact Qs|]. split; [cbn; split; [exact As | exact Chs]|].
    intros b x. cbn. unfold upd. destruct (b =? a) eqn:E.
    + apply N.eqb_eq in E. subst b. cbn [in_opt]. rewrite Ht, Ep. reflexivity.
    + apply Ms. }
  destruct (Hfold (c_accts (p_cfg st)) _ J0) as [S' [C' [_ [[_ Ch'] M']]]]. split; [split; assumption|]. split; assumption.
Qed.

(* ---------- reset(oldHead, newHead) ---------- *)
Definition blocks_ok (c : cfg) (blocks : list block) (old new : block) : Prop :=
  forall b, b = old \/ b = new \/ In b blocks -> forall t, In t (b_txs b) -> okt c t.

Lemma get_block_In : forall blocks id b, get_block blocks id = Some b -> In b blocks.
Proof. unfold get_block. intros blocks id b H. apply find_some in H. tauto. Qed.

Lemma reorg_walk_ok : forall c blocks fuel rem add disc incl d i,
  (forall t, In t (b_txs rem) -> okt c t) -> (forall b, In b blocks -> forall t, In t (b_txs b) -> okt c t) ->
  (forall t, In t disc -> okt c t) ->
  reorg_walk fuel blocks rem add disc incl = Some (d, i) -> forall t, In t d -> okt c t.
Proof.
  intros c blocks. induction fuel as [|k IH]; intros rem add disc incl d i Hr Hb Hd E; cbn [reorg_walk] in E; [discriminate|].
  assert (Hd' : forall t, In t (disc ++ b_txs rem) -> okt c t) by (intros t Ht; apply in_app_iff in Ht; destruct Ht; auto).
  destruct (b_num add <? b_num rem).
  - destruct (get_block blocks (b_parent rem)) as [r|] eqn:Eg; [|discriminate].
    eapply IH; [| exact Hb | exact Hd' | exact E]. apply Hb. eapply get_block_In, Eg.
  - destruct (b_num rem <? b_num add).
    + destruct (get_block blocks (b_parent add)) as [a'|]; [|discriminate]. eapply IH; [exact Hr | exact Hb | exact Hd | exact E].
    + destruct (negb (b_id rem =? b_id add)).
      * destruct (get_block blocks (b_parent rem)) as [r|] eqn:Eg; [|discriminate].
        destruct (get_block blocks (b_parent add)) as [a'|]; [|discriminate].
        eapply IH; [| exact Hb | exact Hd' | exact E]. apply Hb. eapply get_block_In, Eg.
      * inversion E; subst. exact Hd.
Qed.

Lemma pool_reset_RC : forall blocks old new st, SInv st -> blocks_ok (p_cfg st) blocks old new ->
  RC st (pool_reset blocks old new st).
Proof.
  intros blocks old new st HS Hok. unfold pool_reset.
  assert (R0 : RC st st) by (split; [exact HS | reflexivity]).
  assert (Hlost : forall lost, (forall t, In t lost -> okt (p_cfg st) t) ->
            RC st (let st1 := set_pn (set_chain st (block_chain new)) (fun _ => None) in
                   let '(st2, _, _) := add_txs_locked lost (map (fun _ => E_OK) lost) st1 [] in st2)).
  { intros lost Hl. cbv zeta. set (st1 := set_pn (set_chain st (block_chain new)) (fun _ => None)).
    assert (S1 : SInv st1) by (eapply SInv_same; [| | | | | | exact HS]; reflexivity).
    pose proof (add_txs_locked_RS lost (map (fun _ => E_OK) lost) st1 [] S1 Hl) as [S2 [C2 _]].
    destruct (add_txs_locked lost (map (fun _ => E_OK) lost) st1 []) as [[st2 e] d]. cbn [fst] in *. split; [exact S2 | exact C2]. }
  destruct (negb (b_id old =? b_parent new)); [|apply Hlost; intros t []].
  destruct (64 <? _); [apply Hlost; intros t []|].
  destruct (reorg_walk _ blocks old new [] []) as [[disc incl]|] eqn:Ew; [|exact R0].
  apply Hlost. intros t Ht. unfold tx_difference in Ht. apply filter_In in Ht. destruct Ht as [Ht _].
  eapply (reorg_walk_ok (p_cfg st) blocks _ old new [] [] disc incl); [| | | exact Ew | exact Ht].
  - apply Hok. left. reflexivity.
  - intros b Hb. apply Hok. right. right. exact Hb.
  - intros x [].
Qed.

(* runReorg with a reset request: the whole Reset cycle *)
Lemma run_reorg_reset_RC : forall blocks old new st, SInv st -> blocks_ok (p_cfg st) blocks old new ->
  RC st (run_reorg_reset blocks old new st).
Proof.
  intros blocks old new st HS Hok. unfold run_reorg_reset.
  eapply RC_step; [apply (pool_reset_RC blocks old new st HS Hok)|]. intros S1.
  set (st1 := pool_reset blocks old new st) in *.
  eapply RC_step; [apply RC_of_RS, promote_executables_RS, S1|]. intros S2.
  set (st2 := promote_executables (queue_addresses st1) st1) in *.
  destruct (demote_unexecutables_RS st2 S2) as [R3 P3].
  eapply RC_step; [apply RC_of_RS, R3|]. intros S3.
  set (st3 := demote_unexecutables st2) in *.
  pose proof (core_priced_set_basefee (b_basefee new) st3) as Hc4.
  set (st4 := priced_set_basefee (b_basefee new) st3) in *.
  assert (S4 : SInv st4) by (eapply SInv_core; eassumption).
  assert (P4 : forall a, pne_at st4 a) by (intros a l Hl; apply (P3 a l Hl)).
  eapply RC_step; [split; [exact S4 | reflexivity]|]. intros _.
  eapply RC_step; [apply (set_all_nonces_RC st4 S4 P4)|]. intros S5.
  eapply RC_step; [apply RC_of_RS, truncate_pending_RS, S5|]. intros S6.
  destruct (truncate_queue_SInv _ S6) as [S7 [C7 _]].
  eapply RC_step; [split; [exact S7 | exact C7]|]. intros _.
  split; [eapply SInv_core; [apply core_set_changes | exact S7] | reflexivity].
Qed.

(* ---------- all histories ---------- *)
Definition op_okR (c : cfg) (o : op) : Prop :=
  match o with
  | OpAdd txs => forall t, In t txs -> okt c t
  | OpReset blocks old new => blocks_ok c blocks old new
  | OpSetGasTip _ | OpContent | OpContentFrom _ | OpPending => True
  end.

Lemma step_RC : forall st o, SInv st -> op_okR (p_cfg st) o -> RC st (step st o).
Proof.
  intros st [txs|b o n|tip| |a| ] HS Hok; cbn [step].
  - apply RC_of_RS, pool_Add_RS; assumption.
  - apply run_reorg_reset_RC; assumption.
  - apply RC_of_RS, pool_SetGasTip_RS, HS.
  - apply RC_of_RS, pool_Content_RS, HS.
  - apply RC_of_RS, pool_ContentFrom_RS, HS.
  - apply RC_of_RS, pool_Pending_RS, HS.
Qed.

Lemma history_SInv_all : forall h st, SInv st -> Forall (op_okR (p_cfg st)) h ->
  SInv (run_history st h) /\ p_cfg (run_history st h) = p_cfg st.
Proof.
  unfold run_history. induction h as [|o h IH]; intros st HS Hok; cbn [fold_left]; [tauto|].
  inversion Hok as [|? ? Ho Hh]; subst. destruct (step_RC st o HS Ho) as [S1 C1].
  destruct (IH (step st o) S1) as [S2 C2]; [rewrite C1; exact Hh|]. split; [exact S2 | congruence].
Qed.
