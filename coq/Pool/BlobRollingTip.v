(* Pool/BlobRollingTip.v — SetGasTip keeps the prefix-minima invariant RInv; histories. *)
From Coq Require Import List NArith ZArith Bool Lia.
From GV Require Import Lib.Tactics Pool.Blob Pool.BlobProofs Pool.BlobAddProofs Pool.BlobResetProofs Pool.BlobRollingProofs.
Import ListNotations.
Local Open Scope N_scope.

Lemma fold_unaccount_index a : forall dropped q q1,
  fold_left (fun r2 m => do x <- r2 ; unaccount a m x) dropped (Ok q) = Ok q1 -> p_index q1 = p_index q.
Proof.
  induction dropped as [|m r IH]; intros q q1 H; cbn [fold_left] in H.
  - inversion H; subst. reflexivity.
  - cbn [bind] in H. destruct (unaccount a m q) as [q0|e] eqn:E.
    2:{ rewrite fold_err in H; [discriminate | intros; reflexivity]. }
    apply unaccount_get in E. destruct E as [s [_ [_ [E3 _]]]]. rewrite (IH q0 q1 H). exact E3.
Qed.

Section RollingTip.
Variable prioE prioB : N -> N -> Z.
Variable gtE gtB : N -> N -> bool.
Variable c : cfg.

Lemma set_gas_tip_rinv tip p q : RInv p -> set_gas_tip prioE prioB tip p = Ok q -> RInv q.
Proof.
  intros HR H. unfold set_gas_tip in H.
  assert (HR0 : RInv (set_tip (Some tip) p)) by (eapply rinv_index; [|exact HR]; reflexivity).
  destruct (match p_tip p with None => true | Some o => o <? tip end); [|inversion H; subst; exact HR0].
  revert H. generalize (akeys (p_index (set_tip (Some tip) p))). generalize dependent (set_tip (Some tip) p).
  intros p0 HR1 accts. clear HR p. revert p0 HR1.
  induction accts as [|a r IH]; intros p0 HR1 H; cbn [fold_left] in H.
  - inversion H; subst. exact HR1.
  - cbn [bind] in H.
    destruct (split_tip tip (txs_of p0 a)) as [keep dropped] eqn:Es.
    destruct dropped as [|d0 dr].
    + apply IH in H; assumption.
    + match type of H with fold_left ?f r ?x = _ => destruct x as [p1|e] eqn:Ex end.
      2:{ rewrite fold_err in H; [discriminate | intros ? ?; reflexivity]. }
      apply IH in H; [exact H|]. clear IH H.
      pose proof (split_tip_spec _ _ _ _ Es) as [Hl _].
      inv_bind_as Ex q1. apply fold_unaccount_index in E.
      inv_bind_as Ex q2. apply store_dels_core in Ex. destruct Ex as [Hi _].
      apply (rinv_index q2); [exact Hi|].
      destruct keep as [|k0 kr].
      * apply heap_remove_core in E0. destruct E0 as [Hi0 _].
        eapply rinv_adel with (p := p0) (a := a); [rewrite Hi0; cbn [p_index set_index set_spent]; rewrite E; reflexivity | exact HR1].
      * apply heap_fix_core in E0. destruct E0 as [Hi0 _].
        eapply rinv_aset with (p := p0) (a := a); [rewrite Hi0; cbn [p_index set_index]; rewrite E; reflexivity | | exact HR1].
        unfold txs_of in Hl. destruct (aget (p_index p0) a) as [l|] eqn:Ea; [|discriminate Hl].
        pose proof (HR1 a l Ea) as Hrl. rewrite Hl in Hrl. eapply rolling_app_l; eauto.
Qed.

(* every history of Add and SetGasTip: the eviction fields of every pooled transaction are the
   minima over the prefix of its account's list, in all three dimensions *)
Lemma hrun_rinv : forall ops p q, RInv p -> hrun prioE prioB gtE gtB c ops p = Ok q -> RInv q.
Proof.
  induction ops as [|o r IH]; intros p q HR H; cbn [hrun] in H.
  - inversion H; subst. exact HR.
  - inv_bind_as H p1. eapply IH; [|exact H].
    destruct o as [t|tip]; cbn [hstep] in E.
    + inv_bind_as E x. destruct x as [p2 e2]. inversion E; subst. cbn [fst]. eapply pool_add_rinv; eauto.
    + eapply set_gas_tip_rinv; eauto.
Qed.
End RollingTip.

Lemma rinv_empty p : p_index p = [] -> RInv p.
Proof. intros H a l Ha. rewrite H in Ha. discriminate. Qed.
