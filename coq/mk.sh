#!/bin/sh
# regenerate the coq_makefile Makefile from the .v files present (generated *_gen.v included)
cd "$(dirname "$0")"
{ cat _CoqProject; find . -name '*.v' | sed 's|^\./||' | sort; } > .CoqProject.all
coq_makefile -f .CoqProject.all -o Makefile >/dev/null
