#!/bin/sh
# regenerate the coq_makefile Makefile from the .v files present (generated *_gen.v
# included) -- only when the file list changed, so concurrent makes are not disturbed
cd "$(dirname "$0")"
{ cat _CoqProject; find . -name '*.v' | sed 's|^\./||' | sort; } > .CoqProject.new
if [ -f Makefile ] && [ -f Makefile.conf ] && cmp -s .CoqProject.new .CoqProject.all; then
  rm -f .CoqProject.new
  exit 0
fi
mv .CoqProject.new .CoqProject.all
coq_makefile -f .CoqProject.all -o Makefile >/dev/null
