(* State/BalEnc.v — the ENCODING format of the EIP-7928 block access list,
   transcribed from /repo/core/types/bal/bal_encoding.go and
   bal_encoding_rlp_generated.go.  Definitions only (proofs: State/BalEncProofs.v).

   Represented literally: the type BlockAccessList = []AccountAccess with its five
   per-account lists, Validate / AccountAccess.validate / encodingSlotChanges.validate
   (check ORDER preserved, first failing check wins, one error class per Go error
   value), itemCount / ValidateSize, EncodeRLP / DecodeRLP (through the typed layer
   Rlp/Schema.v: the rlpgen code reads exactly the field kinds named by
   [bal_schema]), Hash (over a Section variable H).

   Numbers: addresses are N (< 2^160; written as [20]byte, big endian, left padded),
   slots / values / balances are uint256 as N, indices uint32, nonces uint64.
   bytes.Compare on [20]byte and uint256.Cmp are numeric comparisons of these N.
   Error classes of [validate]: see [verr_*]; of [decode]: "rlp error" (Schema.v
   documents that only the accept set and the values are those of Go, not WHICH
   rlp error is reported). *)
From GV Require Import Lib.Bytes Rlp.Item Rlp.Codec Rlp.Stream Rlp.Schema.
Local Open Scope N_scope.

(* encodingStorageWrite / encodingBalanceChange / encodingAccountNonce: (BlockAccessIndex, post value)
   encodingCodeChange: (BlockAccessIndex, NewCode)
   encodingSlotChanges: (Slot, SlotChanges) *)
Record account_access := {
  aa_addr : N;                                  (* Address *)
  aa_changes : list (N * list (N * N));         (* StorageChanges *)
  aa_reads : list N;                            (* StorageReads *)
  aa_bal : list (N * N);                        (* BalanceChanges *)
  aa_nonce : list (N * N);                      (* NonceChanges *)
  aa_code : list (N * list N)                   (* CodeChanges *)
}.
Definition bal := list account_access.          (* BlockAccessList *)

(* params.MaxCodeSizeAmsterdam, params.BALItemCost *)
Definition max_code_size : N := 65536.
Definition bal_item_cost : N := 2000.

(* isStrictlySortedFunc with cmp = numeric compare of [key] *)
Fixpoint ssorted {A} (key : A -> N) (l : list A) : bool :=
  match l with
  | x :: r => match r with
              | y :: _ => (key x <? key y) && ssorted key r
              | [] => true
              end
  | [] => true
  end.

(* x[len(x)-1], only evaluated under len(x) > 0 *)
Fixpoint last_opt {A} (l : list A) : option A :=
  match l with
  | [] => None
  | [x] => Some x
  | _ :: r => last_opt r
  end.

(* "len(l) > 0 && int(l[len(l)-1].BlockAccessIndex) > maxBALIndex" *)
Definition last_idx_exceeds {B} (maxidx : N) (l : list (N * B)) : bool :=
  match last_opt l with Some (i, _) => maxidx <? i | None => false end.

(* first non-zero error class of a loop "for _, x := range l { if err := f(x); err != nil { return err } }" *)
Fixpoint first_err {A} (f : A -> N) (l : list A) : N :=
  match l with
  | [] => 0
  | x :: r => let e := f x in if e =? 0 then first_err f r else e
  end.

(* error classes of Validate, in the order of the Go checks *)
Definition verr_ok := 0.
Definition verr_accounts_order := 1.   (* "block access list accounts not in lexicographic order" *)
Definition verr_slots_order := 2.      (* "storage write slots must be unique and sorted" *)
Definition verr_empty_changes := 3.    (* "empty slot changes" *)
Definition verr_write_idx_order := 4.  (* "storage write indexes must be unique and sorted" *)
Definition verr_write_idx_limit := 5.  (* "storage write index exceeds limit" *)
Definition verr_reads_order := 6.      (* "storage read slots must be unique and sorted" *)
Definition verr_read_write := 7.       (* "storage key reported in both read/write sets" *)
Definition verr_bal_order := 8.
Definition verr_bal_limit := 9.
Definition verr_nonce_order := 10.
Definition verr_nonce_limit := 11.
Definition verr_code_order := 12.
Definition verr_code_limit := 13.
Definition verr_code_size := 14.       (* "code change contained oversized code" *)
Definition verr_size := 15.            (* "block access list exceeds size constraint" *)

(* encodingSlotChanges.validate(maxBALIndex) *)
Definition validate_slot_changes (maxidx : N) (sc : N * list (N * N)) : N :=
  let ws := snd sc in
  match ws with
  | [] => verr_empty_changes
  | _ => if negb (ssorted fst ws) then verr_write_idx_order
         else if last_idx_exceeds maxidx ws then verr_write_idx_limit
         else verr_ok
  end.

(* AccountAccess.validate(maxBALIndex) *)
Definition validate_account (maxidx : N) (e : account_access) : N :=
  if negb (ssorted fst (aa_changes e)) then verr_slots_order else
  let e1 := first_err (validate_slot_changes maxidx) (aa_changes e) in
  if negb (e1 =? 0) then e1 else
  if negb (ssorted (fun x => x) (aa_reads e)) then verr_reads_order else
  if existsb (fun rk => existsb (fun w => fst w =? rk) (aa_changes e)) (aa_reads e) then verr_read_write else
  if negb (ssorted fst (aa_bal e)) then verr_bal_order else
  if last_idx_exceeds maxidx (aa_bal e) then verr_bal_limit else
  if negb (ssorted fst (aa_nonce e)) then verr_nonce_order else
  if last_idx_exceeds maxidx (aa_nonce e) then verr_nonce_limit else
  if negb (ssorted fst (aa_code e)) then verr_code_order else
  if last_idx_exceeds maxidx (aa_code e) then verr_code_limit else
  if existsb (fun c => max_code_size <? lenN (snd c)) (aa_code e) then verr_code_size else
  verr_ok.

(* BlockAccessList.itemCount: addresses + storage keys (writes + reads); uint64 sums of
   slice lengths cannot wrap *)
Definition item_count (b : bal) : N :=
  fold_left (fun c e => c + lenN (aa_changes e) + lenN (aa_reads e)) b (lenN b).

(* BlockAccessList.ValidateSize(blockGasLimit) *)
Definition validate_size (gas_limit : N) (b : bal) : N :=
  if gas_limit / bal_item_cost <? item_count b then verr_size else verr_ok.

(* BlockAccessList.Validate(blockGasLimit, blockTxCount) *)
Definition validate (gas_limit txcount : N) (b : bal) : N :=
  if negb (ssorted aa_addr b) then verr_accounts_order else
  let e := first_err (validate_account (txcount + 1)) b in
  if negb (e =? 0) then e else validate_size gas_limit b.

(* ---- RLP ---- *)
(* [20]byte big endian *)
Definition pad_to (n : nat) (b : list N) : list N := repeat 0 (n - length b) ++ b.
Definition addr_bytes (a : N) : list N := pad_to 20 (be_bytes a).

Definition idx_val_schema : schema := SStruct [SUint 32; SU256].
(* AccountAccess as read by the generated DecodeRLP: ReadBytes([20]byte), lists of
   structs with Uint32 / ReadUint256 / Uint64 / Bytes fields *)
Definition account_schema : schema :=
  SStruct [ SFixed 20;
            SList (SStruct [SU256; SList idx_val_schema]);
            SList SU256;
            SList idx_val_schema;
            SList (SStruct [SUint 32; SUint 64]);
            SList (SStruct [SUint 32; SBytes]) ].
Definition bal_schema : schema := SList account_schema.

Definition pair_v (p : N * N) : value := VList [VNum (fst p); VNum (snd p)].
Definition account_v (e : account_access) : value :=
  VList [ VBytes (addr_bytes (aa_addr e));
          VList (map (fun sc => VList [VNum (fst sc); VList (map pair_v (snd sc))]) (aa_changes e));
          VList (map VNum (aa_reads e));
          VList (map pair_v (aa_bal e));
          VList (map pair_v (aa_nonce e));
          VList (map (fun c => VList [VNum (fst c); VBytes (snd c)]) (aa_code e)) ].
Definition bal_v (b : bal) : value := VList (map account_v b).

(* BlockAccessList.EncodeRLP *)
Definition encode (b : bal) : list N := encode_typed (bal_v b).

(* back from the typed value; None = the value is not of the shape of the schema
   (unreachable after a successful [dec_s bal_schema], see BalEncProofs) *)
Fixpoint opt_all {A B} (f : A -> option B) (l : list A) : option (list B) :=
  match l with
  | [] => Some []
  | x :: r => match f x, opt_all f r with
              | Some y, Some r' => Some (y :: r')
              | _, _ => None
              end
  end.
Definition v_num (v : value) : option N := match v with VNum n => Some n | _ => None end.
Definition v_pair (v : value) : option (N * N) :=
  match v with VList [VNum i; VNum x] => Some (i, x) | _ => None end.
Definition v_list {A} (f : value -> option A) (v : value) : option (list A) :=
  match v with VList l => opt_all f l | _ => None end.
Definition v_changes (v : value) : option (N * list (N * N)) :=
  match v with
  | VList [VNum s; ws] => match v_list v_pair ws with Some ws => Some (s, ws) | None => None end
  | _ => None
  end.
Definition v_code (v : value) : option (N * list N) :=
  match v with VList [VNum i; VBytes c] => Some (i, c) | _ => None end.
Definition v_account (v : value) : option account_access :=
  match v with
  | VList [VBytes a; ch; rd; bl; nn; cd] =>
      match v_list v_changes ch, v_list v_num rd, v_list v_pair bl, v_list v_pair nn, v_list v_code cd with
      | Some ch, Some rd, Some bl, Some nn, Some cd =>
          Some {| aa_addr := be_decode a; aa_changes := ch; aa_reads := rd; aa_bal := bl;
                  aa_nonce := nn; aa_code := cd |}
      | _, _, _, _, _ => None
      end
  | _ => None
  end.

(* BlockAccessList.DecodeRLP via rlp.DecodeBytes *)
Definition decode (bytes : list N) : result bal :=
  match decode_typed bal_schema bytes with
  | Err e => Err e
  | Ok v => match v_list v_account v with
            | Some b => Ok b
            | None => Err OutOfFuel        (* never: BalEncProofs.decode_shape *)
            end
  end.

(* what Go can hold in the typed fields: uint32 indices, uint256 slots/values/balances,
   uint64 nonces, 20-byte addresses, byte strings of bytes *)
Definition pair_ok (vbits : N) (p : N * N) : bool := (fst p <? 2 ^ 32) && (snd p <? 2 ^ vbits).
Definition account_ok (e : account_access) : bool :=
  (aa_addr e <? 2 ^ 160)
  && forallb (fun sc => (fst sc <? 2 ^ 256) && forallb (pair_ok 256) (snd sc)) (aa_changes e)
  && forallb (fun s => s <? 2 ^ 256) (aa_reads e)
  && forallb (pair_ok 256) (aa_bal e)
  && forallb (pair_ok 64) (aa_nonce e)
  && forallb (fun c => (fst c <? 2 ^ 32) && bytesb (snd c)) (aa_code e).
Definition bal_ok (b : bal) : bool := forallb account_ok b.

(* BlockAccessList.Hash: keccak256 of the RLP encoding (the encoder cannot fail) *)
Section Hash.
  Variable H : list N -> N.
  Definition hash (b : bal) : N := H (encode b).
End Hash.
