(* State/CommitIR.v — C14 proofs, part 8: IntermediateRoot preserves [Sync], marks every
   mutation applied, and the result is [hashed]. *)
From Coq Require Import ssreflect.
From stdpp Require Import gmap.
From Coq Require Import NArith ZArith Lia.
From RecordUpdate Require Import RecordSet.
Import RecordSetNotations.
From GV Require Import State.Ref State.Journal State.JournalProofs State.BalProofs State.Commit State.CommitProofs State.CommitReopen State.CommitHist State.CommitSync State.CommitFin State.CommitTx.
From GV Require Import Lib.Bytes Rlp.Item Rlp.Codec Rlp.CodecProofs Trie.Hex Trie.Node Trie.Ops Trie.Hash Trie.OpsProofs Trie.Canon.
Local Open Scope N_scope.

(* ---- last write wins, for histories that write each key consistently ---- *)
Lemma apply_ops_char ops : ∀ m k v,
  (∀ v1 v2, In (k, v1) ops → In (k, v2) ops → v1 = v2) → In (k, v) ops → apply_ops m ops k = vopt v.
Proof.
  induction ops as [|[k0 v0] r IH]; intros m k v Hf Hin; [done|]. simpl.
  destruct (in_dec (list_eq_dec N.eq_dec) k (map fst r)) as [Hr|Hr].
  - apply in_map_iff in Hr as ([k' v'] & E & Hin'). simpl in E. subst k'.
    rewrite (IH _ k v'); [|done|].
    + intros v1 v2 H1 H2. apply Hf; by right.
    + f_equal. apply Hf; [by right|done].
  - rewrite apply_ops_notin //. destruct Hin as [[= -> ->]|Hin].
    + unfold put. by rewrite bytes_eqb_refl.
    + exfalso. apply Hr. apply in_map_iff. by exists (k, v).
Qed.

Lemma apply_ops_only ops m k v : apply_ops m ops k = Some v → In k (map fst ops) ∨ m k = Some v.
Proof.
  intros E. destruct (in_dec (list_eq_dec N.eq_dec) k (map fst ops)) as [Hr|Hr]; [by left|].
  right. by rewrite apply_ops_notin in E.
Qed.

Section IR.
  Variable H : list N → list N.
  Hypothesis H_bytes : ∀ x, forallb byteb (H x) = true.
  Variables (addr_ok : addr → Prop) (slot_ok : slot → Prop).
  (* collision freedom of the secure keys on the universe in play *)
  Hypothesis Hk_addr : ∀ a b, addr_ok a → addr_ok b → addr_key H a = addr_key H b → a = b.
  Hypothesis Hk_slot : ∀ a b, slot_ok a → slot_ok b → slot_key H a = slot_key H b → a = b.

  Notation ext_of := (ext_of H).
  Notation fresh_ext := (fresh_ext H).
  Notation obj_entry := (obj_entry H).
  Notation Sync := (Sync H addr_ok slot_ok).
  Notation stor_rep := (stor_rep H slot_ok).
  Notation obj_trie := (obj_trie H).
  Notation cur_trie := (cur_trie H).
  Notation base := (base H).

  Lemma hexk_inj k1 k2 : hexk (H k1) = hexk (H k2) → H k1 = H k2.
  Proof. apply hex_inj; apply H_bytes. Qed.

  (* ---- the writes of updateTrie ---- *)
  Lemma unc_writes_in pend unc k v :
    In (k, v) (unc_writes pend unc) ↔ ∃ orig, unc !! k = Some orig ∧ pend !! k = Some v ∧ v ≠ orig.
  Proof.
    unfold unc_writes. rewrite -elem_of_list_In elem_of_list_omap. split.
    - intros ([k' orig] & Hin & E). apply elem_of_map_to_list in Hin. simpl in E.
      destruct (pend !! k') as [v'|] eqn:Ep; [|done]. destruct (v' =? orig) eqn:Ev; [done|].
      injection E as <- <-. exists orig. split; [done|]. split; [done|]. by apply N.eqb_neq.
    - intros (orig & Hu & Hp & Hne). exists (k, orig). split; [by apply elem_of_map_to_list|]. simpl.
      rewrite Hp. apply N.eqb_neq in Hne. by rewrite Hne.
  Qed.

  Lemma storage_kvs_in ws kb vb :
    In (kb, vb) (storage_kvs H ws) ↔ ∃ k v, In (k, v) ws ∧ kb = slot_key H k ∧ vb = slot_val v.
  Proof.
    unfold storage_kvs. rewrite in_app_iff !in_map_iff. split.
    - intros [([k v] & E & Hin)|([k v] & E & Hin)]; apply filter_In in Hin as [Hin Hc]; simpl in *;
        injection E as <- <-; exists k, v; (split; [done|split; [done|]]); [done|].
      apply N.eqb_eq in Hc. subst. done.
    - intros (k & v & Hin & -> & ->). destruct (v =? 0) eqn:Ev.
      + right. exists (k, v). split; [simpl; unfold slot_val; by rewrite Ev|]. apply filter_In. by rewrite /= Ev.
      + left. exists (k, v). split; [done|]. apply filter_In. by rewrite /= Ev.
  Qed.

  (* one object: stateObject.updateRoot *)
  Lemma update_root_spec p cs a o x :
    Sync p cs → j_objs (c_j cs) !! a = Some o →
    update_root H p (o_pending o) (ext_of cs a) = COk x →
    x = ext_of cs a ∧ x_unc x = ∅ ∨
    ∃ S', x_unc x = ∅ ∧ x_trie x = Some S' ∧ hash_root H S' = Some (x_root x) ∧
          stor_rep S' (committed (c_j cs) a o).
  Proof.
    intros Sy Ho. unfold update_root. case_bool_decide as Eu; [intros [= <-]; by left|].
    destruct (sy_stor _ _ _ _ _ Sy a o Ho) as (S & HS1 & HS2 & (Hc & Hcont & Honly)).
    destruct (sy_unc _ _ _ _ _ Sy a o Ho) as [Hunc _].
    destruct (sy_ok _ _ _ _ _ Sy a o Ho) as [_ Hpk].
    unfold obj_trie in HS1. rewrite HS1.
    set (kvs := storage_kvs H (unc_writes (o_pending o) (x_unc (ext_of cs a)))).
    assert (Hb : bytes_ops kvs).
    { apply Forall_forall. intros [kb vb] Hin. apply storage_kvs_in in Hin as (k & v & _ & -> & _). apply H_bytes. }
    destruct (update_seq_spec no_resolve kvs Hb S (lk S) Hc (λ _, eq_refl)) as (S' & ev & E & Hc' & Hl').
    unfold t_update_seq. rewrite E. unfold t_hash. destruct (hash_root H S') as [h|] eqn:Eh; [|done].
    intros [= <-]. right. exists S'. simpl. split; [done|]. split; [done|]. split; [done|].
    (* membership in the write list, by slot *)
    assert (Hmem : ∀ k v, slot_ok k → In (hexk (slot_key H k), v) (hexops kvs) ↔
              ∃ w orig, v = slot_val w ∧ x_unc (ext_of cs a) !! k = Some orig ∧ o_pending o !! k = Some w ∧ w ≠ orig).
    { intros k v Hk. unfold hexops. rewrite in_map_iff. split.
      - intros ([kb vb] & E1 & Hin). simpl in E1. injection E1 as E1 ->.
        apply storage_kvs_in in Hin as (k' & w & Hin & -> & ->). apply unc_writes_in in Hin as (orig & Hu & Hp & Hne).
        apply hexk_inj in E1. apply Hk_slot in E1; [|by eapply Hpk|done]. subst k'. by exists w, orig.
      - intros (w & orig & -> & Hu & Hp & Hne). exists (slot_key H k, slot_val w). split; [done|].
        apply storage_kvs_in. exists k, w. split; [|done]. apply unc_writes_in. by exists orig. }
    split; [done|]. split.
    - intros k Hk. rewrite Hl'. unfold committed.
      destruct (x_unc (ext_of cs a) !! k) as [orig|] eqn:Eu'.
      + destruct (Hunc k orig Eu') as [w Hw]. rewrite Hw. destruct (decide (w = orig)) as [->|Hne].
        * rewrite apply_ops_notin.
          { intros Hin. apply in_map_iff in Hin as ([hk v] & E1 & Hin). simpl in E1. subst hk.
            apply (Hmem k v Hk) in Hin as (w' & orig' & _ & Hu' & Hp' & Hne'). congruence. }
          rewrite (Hcont k Hk). unfold CommitFin.base. by rewrite Eu'.
        * apply apply_ops_char.
          { intros v1 v2 H1 H2. apply (Hmem k _ Hk) in H1 as (w1 & o1 & -> & _ & Hp1 & _).
            apply (Hmem k _ Hk) in H2 as (w2 & o2 & -> & _ & Hp2 & _). congruence. }
          apply (Hmem k _ Hk). by exists w, orig.
      + rewrite apply_ops_notin.
        { intros Hin. apply in_map_iff in Hin as ([hk v] & E1 & Hin). simpl in E1. subst hk.
          apply (Hmem k v Hk) in Hin as (w' & orig' & _ & Hu' & _). congruence. }
        rewrite (Hcont k Hk). unfold CommitFin.base, committed. by rewrite Eu'.
    - intros hk v Hlk. rewrite Hl' in Hlk. apply apply_ops_only in Hlk as [Hin|Hlk]; [|by eapply Honly].
      apply in_map_iff in Hin as ([hk' v'] & E1 & Hin). simpl in E1. subst hk'.
      unfold hexops in Hin. apply in_map_iff in Hin as ([kb vb] & E1 & Hin). simpl in E1. injection E1 as <- <-.
      apply storage_kvs_in in Hin as (k' & w & Hin & -> & _). apply unc_writes_in in Hin as (orig & _ & Hp & _).
      exists k'. split; [by eapply Hpk|done].
  Qed.
End IR.
