(* State/Bal.v — EIP-7928 block-access-list CONSTRUCTION, transcribed from
   /repo/core/types/bal/bal.go (ConstructionBlockAccessList and its recording
   methods, Merge), /repo/core/types/bal/bal_encoding.go (ToEncodingObj) and the
   recording sites in /repo/core/state/{statedb.go, state_object.go, journal.go}:
     getStateObject                 -> AccountRead
     stateObject.GetCommittedState  -> StorageRead
     stateObject.finalise           -> StorageWrite for every dirty slot
     StateDB.recordAccessListChanges-> Balance/Nonce/CodeChange (final value vs stashed pre-tx original)
     StateDB.Prepare (Amsterdam)    -> fresh list;  finaliseAmsterdam returns it;  clearInternal drops it.
   It is a recording LAYER over the C13 implementation model State/Journal.v
   ([step_b] calls [step_j] for the state effect).  Definitions only.

   Idealisations (in addition to those of Journal.v):
   * loops over Go maps whose iterations touch disjoint keys (journal.mutations in
     finaliseAmsterdam, dirtyStorage in stateObject.finalise, other.Accounts and the
     inner maps in Merge) are per-key map operations ([merge]/[union_with]);
   * uncommittedStorage is not represented: the GetCommittedState call inside
     stateObject.finalise records a StorageRead of a key that the StorageWrite two
     lines below removes from the reads again (and that SetState had recorded anyway);
   * code is the C13 code id; [to_encoding_obj] takes the id -> bytes map as a parameter. *)
From stdpp Require Import gmap sorting.
From Coq Require Import NArith ZArith.
From RecordUpdate Require Import RecordSet.
Import RecordSetNotations.
From GV Require Import State.Ref State.Journal State.BalEnc.
Local Open Scope N_scope.

(* ---- bal.go: ConstructionAccountAccess / ConstructionBlockAccessList ---- *)
Record caccess := {
  ca_writes : gmap slot (gmap N word);   (* StorageWrites: slot -> tx index -> post value *)
  ca_reads : gset slot;                  (* StorageReads *)
  ca_bal : gmap N word;                  (* BalanceChanges: tx index -> post balance *)
  ca_nonce : gmap N N;                   (* NonceChanges *)
  ca_code : gmap N N                     (* CodeChange: tx index -> code (id) *)
}.
Global Instance eta_caccess : Settable _ :=
  settable! Build_caccess <ca_writes; ca_reads; ca_bal; ca_nonce; ca_code>.
Definition ca0 : caccess :=             (* NewConstructionAccountAccess *)
  {| ca_writes := ∅; ca_reads := ∅; ca_bal := ∅; ca_nonce := ∅; ca_code := ∅ |}.
Definition cbal := gmap addr caccess.   (* ConstructionBlockAccessList.Accounts *)

(* "if _, ok := b.Accounts[addr]; !ok { b.Accounts[addr] = New...() }" then update *)
Definition acc_upd (f : caccess → caccess) (oc : option caccess) : option caccess :=
  Some (f (default ca0 oc)).
Definition on_acct (a : addr) (f : caccess → caccess) (L : cbal) : cbal :=
  partial_alter (acc_upd f) a L.

(* AccountRead *)
Definition account_read (a : addr) : cbal → cbal := on_acct a (λ c, c).
(* StorageRead: not recorded when the slot already has a write *)
Definition ca_storage_read (k : slot) (c : caccess) : caccess :=
  match ca_writes c !! k with
  | Some _ => c
  | None => c <| ca_reads ::= (λ s, {[k]} ∪ s) |>
  end.
Definition storage_read (a : addr) (k : slot) : cbal → cbal := on_acct a (ca_storage_read k).
(* StorageWrite: record the post value, drop the slot from the reads *)
Definition ca_storage_write (idx : N) (k : slot) (v : word) (c : caccess) : caccess :=
  c <| ca_writes ::= <[k := <[idx := v]> (default ∅ (ca_writes c !! k))]> |>
    <| ca_reads ::= (λ s, s ∖ {[k]}) |>.
Definition storage_write (idx : N) (a : addr) (k : slot) (v : word) : cbal → cbal :=
  on_acct a (ca_storage_write idx k v).
(* CodeChange / NonceChange / BalanceChange *)
Definition ca_code_change (idx : N) (c : N) (x : caccess) : caccess := x <| ca_code ::= <[idx := c]> |>.
Definition ca_nonce_change (idx : N) (n : N) (x : caccess) : caccess := x <| ca_nonce ::= <[idx := n]> |>.
Definition ca_balance_change (idx : N) (v : word) (x : caccess) : caccess := x <| ca_bal ::= <[idx := v]> |>.
Definition code_change (a : addr) (idx : N) (c : N) : cbal → cbal := on_acct a (ca_code_change idx c).
Definition nonce_change (a : addr) (idx : N) (n : N) : cbal → cbal := on_acct a (ca_nonce_change idx n).
Definition balance_change (idx : N) (a : addr) (v : word) : cbal → cbal := on_acct a (ca_balance_change idx v).

(* Merge, one colliding account: other's values win per (slot, index) and per index;
   reads are unioned minus every slot written by either side *)
Definition ca_merge (acc other : caccess) : caccess :=
  let writes := union_with (λ w ex, Some (w ∪ ex)) (ca_writes other) (ca_writes acc) in
  {| ca_writes := writes;
     ca_reads := (ca_reads acc ∖ dom (ca_writes other)) ∪ (ca_reads other ∖ dom writes);
     ca_bal := ca_bal other ∪ ca_bal acc;
     ca_nonce := ca_nonce other ∪ ca_nonce acc;
     ca_code := ca_code other ∪ ca_code acc |}.
(* ConstructionBlockAccessList.Merge(other) *)
Definition cbal_merge (b other : cbal) : cbal :=
  union_with (λ acc o, Some (ca_merge acc o)) b other.

(* ---- bal_encoding.go: ToEncodingObj ---- *)
(* slices.Collect(maps.Keys(m)); slices.SortFunc(keys, cmp) *)
Definition sorted_keys {V} (m : gmap N V) : list N := merge_sort N.le (map fst (map_to_list m)).
Definition sorted_elems (s : gset N) : list N := merge_sort N.le (elements s).
(* the (key, value) pairs of a map in ascending key order *)
Definition sorted_pairs {V W} (f : V → W) (m : gmap N V) : list (N * W) :=
  omap (λ k, (λ v, (k, f v)) <$> m !! k) (sorted_keys m).

Section Encoding.
  Variable code_of : N → list N.          (* code id -> bytes *)
  (* ConstructionAccountAccess.toEncodingObj(addr) *)
  Definition ca_to_encoding (a : addr) (c : caccess) : account_access :=
    {| aa_addr := a;
       aa_changes := sorted_pairs (sorted_pairs (λ v, v)) (ca_writes c);
       aa_reads := sorted_elems (ca_reads c);
       aa_bal := sorted_pairs (λ v, v) (ca_bal c);
       aa_nonce := sorted_pairs (λ v, v) (ca_nonce c);
       aa_code := sorted_pairs code_of (ca_code c) |}.
  (* ConstructionBlockAccessList.ToEncodingObj *)
  Definition to_encoding_obj (L : cbal) : bal :=
    omap (λ a, ca_to_encoding a <$> L !! a) (sorted_keys L).
End Encoding.

(* ---- the recording StateDB ---- *)
Inductive bop :=
| BOp (o : op)                          (* a C13 call; OTxStart = SetTxContext keeping blockAccessIndex, then Prepare *)
| BSetTx (th ti bai : N)                (* SetTxContext(thash, ti, blockAccessIndex) *)
| BPrepare (r : rules) (sender coinbase : addr) (dst : option addr) (al : list (addr * list slot))
| BGet (q : query).                     (* a getter *)

Inductive bout :=
| BOut (w : out)                        (* return value of a C13 call *)
| BAns (x : answer)                     (* value of a getter *)
| BFin (ret : option cbal).             (* Finalise's return value (None = nil) *)

Record bstate := {
  b_j : jstate;                         (* the StateDB of State/Journal.v *)
  b_acc : option cbal;                  (* stateAccessList (None = nil) *)
  b_idx : N                             (* blockAccessIndex *)
}.
Global Instance eta_bstate : Settable _ := settable! Build_bstate <b_j; b_acc; b_idx>.

Definition init_b (db : database) : bstate := {| b_j := init_j db; b_acc := None; b_idx := 0 |}.

(* "if s.stateAccessList != nil { s.stateAccessList.X(...) }" *)
Definition rec (f : cbal → cbal) (b : bstate) : bstate := b <| b_acc ::= fmap f |>.

(* getStateObject(addr) calls made by journalEntry.revert (journal.go): every entry
   kind that dereferences the account's object *)
Definition revert_reads (e : jentry) : option addr :=
  match e with
  | JCreateContract a | JSelfDestruct a | JBalance a _ | JNonce a _ | JStorage a _ _ _ | JCode a _ => Some a
  | _ => None
  end.

(* reads recorded by one API call, evaluated on the state BEFORE the call *)
Definition op_reads (j : jstate) (o : op) (L : cbal) : cbal :=
  match o with
  | OCreateContract a | OAddBalance a _ | OSubBalance a _ | OSetBalance a _ | OSetNonce a _
  | OSetCode a _ | OSelfDestruct a | OSelfDestruct6780 a => account_read a L
  | OSetState a k _ => storage_read a k (account_read a L)    (* SetState -> getState -> GetCommittedState *)
  | ORevert id =>
      match find_revision id (j_revs j) with
      | None => L
      | Some (idx, _) =>
          foldl (λ L e, match revert_reads e with Some a => account_read a L | None => L end) L
                (take (length (j_entries j) - idx) (j_entries j))
      end
  | _ => L
  end.

(* reads recorded by a getter: getStateObject, then GetState (dirty slots return
   without touching the committed value) / GetCommittedState *)
Definition get_reads (j : jstate) (q : query) (L : cbal) : cbal :=
  match q with
  | QExist a | QEmpty a | QBalance a | QNonce a | QCode a | QCodeHash a
  | QSelfDestructed a | QNewContract a => account_read a L
  | QState a k =>
      match j_objs j !! a with
      | None => account_read a L
      | Some o => match o_dirty o !! k with
                  | Some _ => account_read a L
                  | None => storage_read a k (account_read a L)
                  end
      end
  | QCommitted a k =>
      match j_objs j !! a with
      | None => account_read a L
      | Some _ => storage_read a k (account_read a L)
      end
  | QTransient _ _ | QAddrInAL _ | QSlotInAL _ _ | QRefund | QLogs _ => L
  end.

(* stateObject.finalise, BAL part: one StorageWrite per dirty slot *)
Definition ca_fin_writes (idx : N) (dirty : gmap slot word) (c : caccess) : caccess :=
  c <| ca_writes := merge (λ od ow, match od with
                                    | Some v => Some (<[idx := v]> (default ∅ ow))
                                    | None => ow
                                    end) dirty (ca_writes c) |>
    <| ca_reads ::= (λ s, s ∖ dom dirty) |>.
Definition fin_writes (idx : N) (dirty : gmap slot word) (oc : option caccess) : option caccess :=
  if bool_decide (dirty = ∅) then oc else acc_upd (ca_fin_writes idx dirty) oc.

(* recordAccessListChanges(addr, state) with obj = stateObjects[addr] after the switch *)
Definition rec_changes (idx : N) (m : mstate) (post : option sobj) (oc : option caccess) : option caccess :=
  let d := match post with Some o => o_data o | None => acct0 end in
  let oc1 := match s_bal m with
             | Some pb => if a_bal d =? pb then oc else acc_upd (ca_balance_change idx (a_bal d)) oc
             | None => oc
             end in
  let oc2 := match s_nonce m with
             | Some pn => if a_nonce d =? pn then oc1 else acc_upd (ca_nonce_change idx (a_nonce d)) oc1
             | None => oc1
             end in
  match s_code m with
  | Some pc => if a_code d =? pc then oc2 else acc_upd (ca_code_change idx (a_code d)) oc2
  | None => oc2
  end.

(* one iteration of the loop of finaliseAmsterdam, BAL part *)
Definition fin_rec (r : rules) (idx : N) (m : mstate) (o : sobj) (oc : option caccess) : option caccess :=
  let oc1 := if o_sd o then oc
             else if r158 r && obj_empty o then oc
             else fin_writes idx (o_dirty o) oc in          (* default: obj.finalise() *)
  rec_changes idx m (fin_obj r o) oc1.

(* finaliseAmsterdam: the list handed back to the caller *)
Definition fin_bal (r : rules) (idx : N) (j : jstate) (L : cbal) : cbal :=
  let info := merge (λ om oo, match om, oo with Some m, Some o => Some (m, o) | _, _ => None end)
                    (j_muts j) (j_objs j) in
  merge (λ oi oc, match oi with Some (m, o) => fin_rec r idx m o oc | None => oc end) info L.

Definition step_b (b : bstate) (o : bop) : bstate * bout :=
  match o with
  | BGet q =>
      (rec (get_reads (b_j b) q) b, BAns (query_j (b_j b) q))
  | BSetTx th ti bai =>
      (b <| b_j := (b_j b) <| j_th := th |> <| j_ti := ti |> |> <| b_idx := bai |>, BOut RNone)
  | BPrepare r sender coinbase dst al =>
      let j := b_j b in
      let '(j1, w) := step_j j (OTxStart (j_th j) (j_ti j) r sender coinbase dst al) in
      (b <| b_j := j1 |> <| b_acc := if rAms r then Some ∅ else b_acc b |>, BOut w)
  | BOp (OFinalise r) =>
      let j := b_j b in
      let ret := if rAms r then fin_bal r (b_idx b) j <$> b_acc b else None in
      (b <| b_j := (step_j j (OFinalise r)).1 |> <| b_acc := None |>, BFin ret)
  | BOp (OTxStart th ti r sender coinbase dst al) =>
      let '(j1, w) := step_j (b_j b) (OTxStart th ti r sender coinbase dst al) in
      (b <| b_j := j1 |> <| b_acc := if rAms r then Some ∅ else b_acc b |>, BOut w)
  | BOp o =>
      let j := b_j b in
      let '(j1, w) := step_j j o in
      (rec (op_reads j o) (b <| b_j := j1 |>), BOut w)
  end.

Definition run_b (b : bstate) (ops : list bop) : bstate := foldl (λ b o, (step_b b o).1) b ops.
