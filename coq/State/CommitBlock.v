(* State/CommitBlock.v — C14 proofs, part 10: [Sync] with every mutation applied is [hashed];
   blocks of transactions; the empty chain start. *)
From Coq Require Import ssreflect.
From stdpp Require Import gmap.
From Coq Require Import NArith ZArith Lia.
From RecordUpdate Require Import RecordSet.
Import RecordSetNotations.
From GV Require Import State.Ref State.Journal State.JournalProofs State.BalProofs State.Commit State.CommitProofs State.CommitReopen State.CommitHist State.CommitSync State.CommitFin State.CommitTx State.CommitIR State.CommitIR2.
From GV Require Import Lib.Bytes Rlp.Item Rlp.Codec Rlp.CodecProofs Trie.Hex Trie.Node Trie.Ops Trie.Hash Trie.OpsProofs Trie.Canon.
Local Open Scope N_scope.

Section Block.
  Variable H : list N → list N.
  Hypothesis H_bytes : ∀ x, forallb byteb (H x) = true.
  Variables (addr_ok : addr → Prop) (slot_ok : slot → Prop).
  Hypothesis Hk_addr : ∀ a b, addr_ok a → addr_ok b → addr_key H a = addr_key H b → a = b.
  Hypothesis Hk_slot : ∀ a b, slot_ok a → slot_ok b → slot_key H a = slot_key H b → a = b.
  Variable play : node → Prop.

  Notation ext_of := (ext_of H).
  Notation Sync := (Sync H addr_ok slot_ok).
  Notation stor_rep := (stor_rep H slot_ok).
  Notation obj_trie := (obj_trie H).
  Notation hashed := (hashed H addr_ok slot_ok play).

  Lemma stor_rep_unique S S' f g :
    stor_rep S f → stor_rep S' g → (∀ k, slot_ok k → f k = g k) → S = S'.
  Proof.
    intros (C1 & K1 & O1) (C2 & K2 & O2) E. apply canon_unique; [done|done|]. intros hk _.
    destruct (lk S hk) as [v|] eqn:L1.
    - destruct (O1 _ _ L1) as (k & Hk & ->). rewrite K1 // in L1. rewrite K2 // -E //.
    - destruct (lk S' hk) as [v|] eqn:L2; [|done].
      destruct (O2 _ _ L2) as (k & Hk & ->). rewrite K1 // in L1. rewrite K2 // -E // in L2. congruence.
  Qed.

  (* an up-to-date state between transactions is [hashed] *)
  Theorem sync_hashed p cs T :
    Sync p cs → (∀ a m, c_muts cs !! a = Some m → m_applied m = true) →
    (∀ a o, j_objs (c_j cs) !! a = Some o → x_unc (ext_of cs a) = ∅) →
    c_trie cs = Some T → play T →
    (∀ a o S, j_objs (c_j cs) !! a = Some o → obj_trie p cs a = Some S → play S) →
    hashed p cs T.
  Proof.
    intros Sy Happ Hunc Ht Hpt Hps.
    destruct (sy_T _ _ _ _ _ Sy) as (T0 & B1 & B2 & B3 & B4). unfold CommitFin.cur_trie in B1. rewrite Ht in B1.
    injection B1 as <-.
    assert (Hnp : ∀ a, ¬ pend cs a).
    { intros a (m & Hm & Hap). rewrite (Happ a m Hm) in Hap. done. }
    split; try done.
    - intros a Ha. by apply B3.
    - intros a o Ho. by destruct (sy_ok _ _ _ _ _ Sy a o Ho).
    - intros a o Ho. destruct (sy_stor _ _ _ _ _ Sy a o Ho) as (S & C1 & C2 & C3). exists S.
      assert (C3' : stor_rep S (committed (c_j cs) a o)).
      { eapply stor_rep_ext; [|exact C3]. intros k. unfold CommitFin.base. by rewrite (Hunc a o Ho) lookup_empty. }
      destruct C3' as (D1 & D2 & D3).
      split; [done|]. split; [by apply (Hps a o)|]. split; [done|]. split; [done|]. split; [done|].
      unfold CommitFin.obj_trie in C1. destruct (x_trie (ext_of cs a)) as [S'|] eqn:Ex; [|done].
      injection C1 as ->. split; [done|].
      destruct (sy_xtrie _ _ _ _ _ Sy a o S Ho Ex) as (m & Hm & Hd).
      destruct (storage_changed (c_j cs) a o) eqn:Ech; [left; by exists m|]. right.
      (* nothing changed: the trie is the one the database serves for the origin *)
      assert (Hsame : ∀ k, committed (c_j cs) a o k = origin_val (c_j cs) a k).
      { intros k. unfold committed, origin_val. destruct (o_pending o !! k) as [v|] eqn:Ep; [|done].
        apply bool_decide_eq_false in Ech. destruct (decide (v = origin_val (c_j cs) a k)) as [->|Hne]; [done|].
        exfalso. apply Ech. by exists k, v. }
      pose proof (sy_db _ _ _ _ _ Sy a) as Hdb.
      destruct (decide (a ∈ j_destruct (c_j cs))) as [Hin|Hnin].
      + assert (S = NEmpty) as ->.
        { eapply (stor_rep_unique _ _ _ (λ _, 0)); [split; [exact D1|split; [exact D2|exact D3]]|by apply stor_rep_empty|].
          intros k _. rewrite Hsame. unfold origin_val. by rewrite bool_decide_true. }
        rewrite hash_empty in C2. injection C2 as <-. apply open_empty.
      + destruct (j_db (c_j cs) !! a) as [d|] eqn:Ed.
        * destruct Hdb as (r0 & S0 & R1 & R2 & R3 & R4).
          assert (S = S0) as ->.
          { eapply stor_rep_unique; [split; [exact D1|split; [exact D2|exact D3]]|exact R4|].
            intros k _. rewrite Hsame. unfold origin_val, db_stor. by rewrite bool_decide_false // Ed. }
          rewrite R3 in C2. injection C2 as <-. done.
        * assert (S = NEmpty) as ->.
          { eapply (stor_rep_unique _ _ _ (λ _, 0)); [split; [exact D1|split; [exact D2|exact D3]]|by apply stor_rep_empty|].
            intros k _. rewrite Hsame. unfold origin_val, db_stor. by rewrite bool_decide_false // Ed. }
          rewrite hash_empty in C2. injection C2 as <-. apply open_empty.
  Qed.

  (* ---- blocks ---- *)
  (* one transaction: journalled calls (any nesting of Snapshot/RevertToSnapshot), Finalise,
     optionally IntermediateRoot (pre-Byzantium receipts) *)
  Record tx := { t_ops : list op; t_rules : rules; t_ir : bool }.

  Definition run_tx (p : pdb) (cs : cstate) (t : tx) : option cstate :=
    let cs2 := (step_c H (run_c H cs (t_ops t)) (OFinalise (t_rules t))).1 in
    if t_ir t then match intermediate_root H (t_rules t) p cs2 with COk (_, cs3) => Some cs3 | CErr _ => None end
    else Some cs2.

  Definition tx_ok (cs : cstate) (t : tx) : Prop :=
    body_ok H cs (t_ops t) ∧ fin_guard addr_ok slot_ok (c_j (run_c H cs (t_ops t))).

  Fixpoint run_txs (p : pdb) (cs : cstate) (ts : list tx) : option cstate :=
    match ts with
    | [] => Some cs
    | t :: rest => match run_tx p cs t with Some cs' => run_txs p cs' rest | None => None end
    end.

  Fixpoint txs_ok (p : pdb) (cs : cstate) (ts : list tx) : Prop :=
    match ts with
    | [] => True
    | t :: rest => tx_ok cs t ∧ match run_tx p cs t with Some cs' => txs_ok p cs' rest | None => True end
    end.

  Lemma sync_tx p cs t cs' : Sync p cs → tx_ok cs t → run_tx p cs t = Some cs' → Sync p cs'.
  Proof.
    intros Sy [Hb Hg] E. unfold run_tx in E.
    pose proof (sy_tb _ _ _ _ _ Sy) as [W0 E0 _ _ _].
    pose proof (InTx_run H cs (t_ops t) W0 E0 cs (InTx_refl H cs) Hb) as I.
    pose proof (sync_finalise H addr_ok slot_ok p cs _ (t_rules t) Sy I Hg) as Sy2.
    destruct (t_ir t); [|by injection E as <-].
    destruct (intermediate_root H (t_rules t) p _) as [[root cs3]|] eqn:Eir; [|done]. injection E as <-.
    by destruct (sync_ir H H_bytes addr_ok slot_ok Hk_addr Hk_slot p _ _ _ _ Sy2 Eir).
  Qed.

  Lemma sync_txs p ts : ∀ cs cs', Sync p cs → txs_ok p cs ts → run_txs p cs ts = Some cs' → Sync p cs'.
  Proof.
    induction ts as [|t rest IH]; intros cs cs' Sy Hok E; simpl in *; [by injection E as <-|].
    destruct Hok as [Ht Hr]. destruct (run_tx p cs t) as [cs1|] eqn:E1; [|done].
    eapply IH; [by eapply sync_tx|done|done].
  Qed.

  (* the invariant over histories: after ANY block of transactions run from a state
     satisfying [Sync] (in particular from the empty chain start), the state IntermediateRoot
     leaves behind is [hashed] *)
  Theorem block_hashed p cs0 ts cs r root cs1 T :
    Sync p cs0 → txs_ok p cs0 ts → run_txs p cs0 ts = Some cs →
    intermediate_root H r p cs = COk (root, cs1) → c_trie cs1 = Some T →
    play T → (∀ a o S, j_objs (c_j cs1) !! a = Some o → obj_trie p cs1 a = Some S → play S) →
    hashed p cs1 T ∧ hash_root H T = Some root.
  Proof.
    intros Sy Hok Er Eir Ht Hp1 Hp2.
    pose proof (sync_txs p ts cs0 cs Sy Hok Er) as Sy1.
    destruct (sync_ir H H_bytes addr_ok slot_ok Hk_addr Hk_slot p cs r root cs1 Sy1 Eir) as (Sy2 & Happ & Hunc & T' & Ht' & Hh).
    rewrite Ht in Ht'. injection Ht' as <-. split; [|done]. by apply sync_hashed.
  Qed.

  (* ---- the empty chain start ---- *)
  Lemma t_get_empty x : t_get NEmpty (H x) = COk None.
  Proof. rewrite t_get_lk; [by left|apply H_bytes|]. by rewrite lk_empty. Qed.

  Lemma read_all_empty ks al : read_all H pdb0 NEmpty ks al = COk [].
  Proof.
    induction al as [|a al IH]; [done|]. simpl. unfold read_full, read_acct, addr_key. rewrite t_get_empty. by rewrite IH.
  Qed.

  Definition cs_genesis : cstate :=
    {| c_j := init_j ∅; c_roots0 := ∅; c_x := ∅; c_dx := ∅; c_muts := ∅; c_trie := None; c_root := empty_root H |}.

  Lemma open_genesis al ks : open H al ks pdb0 (empty_root H) = COk cs_genesis.
  Proof. unfold open. rewrite open_empty read_all_empty. done. Qed.

  Theorem sync_genesis : Sync pdb0 cs_genesis.
  Proof.
    split; simpl.
    - apply tx_boundary_init.
    - intros a o. by rewrite fmap_empty lookup_empty.
    - exists NEmpty. split; [unfold CommitFin.cur_trie; simpl; apply open_empty|]. split; [by left|]. split.
      + intros a _ _. rewrite lk_empty. unfold CommitReopen.obj_entry. simpl. by rewrite fmap_empty lookup_empty.
      + intros hk v. by rewrite lk_empty.
    - intros a m. by rewrite lookup_empty.
    - intros a o. by rewrite fmap_empty lookup_empty.
    - intros a o. by rewrite fmap_empty lookup_empty.
    - intros a o S. by rewrite fmap_empty lookup_empty.
    - intros a _. unfold Commit.ext_of, origin_ext. simpl. by rewrite !lookup_empty.
    - intros a. by rewrite !lookup_empty.
    - intros a o. by rewrite fmap_empty lookup_empty.
  Qed.

  Lemma genesis_ok al ks :
    open H al ks pdb0 (empty_root H) = COk cs_genesis ∧ Sync pdb0 cs_genesis.
  Proof. split; [apply open_genesis|apply sync_genesis]. Qed.
End Block.

(* ---- the conditional theorems of State/CommitReopen.v, now over block histories ---- *)
Section BlockReopen.
  Variable H : list N → list N.
  Hypothesis H_bytes : ∀ x, forallb byteb (H x) = true.
  Variables (addr_ok : addr → Prop) (slot_ok : slot → Prop).
  Hypothesis Hk_addr : ∀ a b, addr_ok a → addr_ok b → addr_key H a = addr_key H b → a = b.
  Hypothesis Hk_slot : ∀ a b, slot_ok a → slot_ok b → slot_key H a = slot_key H b → a = b.
  Variable play : node → Prop.
  Hypothesis play_empty : play NEmpty.
  Hypothesis CF : ∀ t1 t2, play t1 → play t2 → hash_root H t1 = hash_root H t2 → t1 = t2.

  Notation Sync := (Sync H addr_ok slot_ok).
  Notation txs_ok := (txs_ok H addr_ok slot_ok).

  (* the tries of the final state are in play *)
  Definition tries_play (p : pdb) (cs1 : cstate) : Prop :=
    (∀ T, c_trie cs1 = Some T → play T) ∧
    (∀ a o S, j_objs (c_j cs1) !! a = Some o → obj_trie H p cs1 a = Some S → play S).

  Theorem block_reopen_reads p cs0 ts cs r r' root cs1 root' p' :
    Sync p cs0 → pdb_ok H play p → txs_ok p cs0 ts → run_txs H p cs0 ts = Some cs →
    intermediate_root H r p cs = COk (root, cs1) → tries_play p cs1 → root ≠ c_root cs1 →
    commit H r' p cs1 = COk (root', p') →
    ∃ T, root' = root ∧ pdb_ok H play p' ∧ extends p p' ∧ open_trie H p' root' = Some T ∧
      (∀ a, addr_ok a → t_get T (addr_key H a) = COk (obj_entry H cs1 a)) ∧
      (∀ a o, j_objs (c_j cs1) !! a = Some o →
         ∃ S, open_trie H p' (x_root (ext_of H cs1 a)) = Some S ∧
              ∀ k, slot_ok k → t_get S (slot_key H k) = COk (vopt (slot_val (committed (c_j cs1) a o k)))).
  Proof.
    intros Sy Hp Hok Er Eir [Hp1 Hp2] Hne C.
    destruct (ir_post H _ _ _ _ _ Eir) as (_ & _ & T & Ht & _).
    destruct (block_hashed H H_bytes addr_ok slot_ok Hk_addr Hk_slot play p cs0 ts cs r root cs1 T Sy Hok Er Eir Ht (Hp1 T Ht) Hp2) as [Hh _].
    exists T. by apply (reopen_reads H H_bytes addr_ok slot_ok play play_empty CF r r' p cs root cs1 T root' p').
  Qed.

  Theorem block_destruct_recreate_clean p cs0 ts cs r r' root cs1 root' p' a o k :
    Sync p cs0 → pdb_ok H play p → txs_ok p cs0 ts → run_txs H p cs0 ts = Some cs →
    intermediate_root H r p cs = COk (root, cs1) → tries_play p cs1 → root ≠ c_root cs1 →
    commit H r' p cs1 = COk (root', p') →
    a ∈ j_destruct (c_j cs1) → j_objs (c_j cs1) !! a = Some o → o_pending o !! k = None → slot_ok k →
    ∃ S, open_trie H p' (x_root (ext_of H cs1 a)) = Some S ∧ t_get S (slot_key H k) = COk None ∧
         read_slot H S k = COk 0.
  Proof.
    intros Sy Hp Hok Er Eir [Hp1 Hp2] Hne C Hd Ho Hpe Hk.
    destruct (ir_post H _ _ _ _ _ Eir) as (_ & _ & T & Ht & _).
    destruct (block_hashed H H_bytes addr_ok slot_ok Hk_addr Hk_slot play p cs0 ts cs r root cs1 T Sy Hok Er Eir Ht (Hp1 T Ht) Hp2) as [Hh _].
    by apply (destruct_recreate_clean H H_bytes addr_ok slot_ok play play_empty CF r r' p cs root cs1 T root' p' a o k).
  Qed.

  (* two block histories (from any states satisfying Sync, over any databases) that end in
     the same observable accounts have the same root *)
  Theorem block_root_depends_only_on_state
      pa csa0 tsa csa ra roota csa1 pb csb0 tsb csb rb rootb csb1 :
    Sync pa csa0 → txs_ok pa csa0 tsa → run_txs H pa csa0 tsa = Some csa →
    intermediate_root H ra pa csa = COk (roota, csa1) → tries_play pa csa1 →
    Sync pb csb0 → txs_ok pb csb0 tsb → run_txs H pb csb0 tsb = Some csb →
    intermediate_root H rb pb csb = COk (rootb, csb1) → tries_play pb csb1 →
    (∀ a, match j_objs (c_j csa1) !! a, j_objs (c_j csb1) !! a with
          | Some o1, Some o2 => o_data o1 = o_data o2 ∧
                                ∀ k, slot_ok k → committed (c_j csa1) a o1 k = committed (c_j csb1) a o2 k
          | None, None => True
          | _, _ => False
          end) →
    roota = rootb.
  Proof.
    intros SyA HokA ErA EirA [PA1 PA2] SyB HokB ErB EirB [PB1 PB2] Hobs.
    destruct (ir_post H _ _ _ _ _ EirA) as (_ & _ & TA & HtA & _).
    destruct (ir_post H _ _ _ _ _ EirB) as (_ & _ & TB & HtB & _).
    destruct (block_hashed H H_bytes addr_ok slot_ok Hk_addr Hk_slot play pa csa0 tsa csa ra roota csa1 TA SyA HokA ErA EirA HtA (PA1 TA HtA) PA2) as [HhA HrA].
    destruct (block_hashed H H_bytes addr_ok slot_ok Hk_addr Hk_slot play pb csb0 tsb csb rb rootb csb1 TB SyB HokB ErB EirB HtB (PB1 TB HtB) PB2) as [HhB HrB].
    destruct (root_depends_only_on_state H addr_ok slot_ok play pa csa1 TA pb csb1 TB HhA HhB Hobs) as [_ Heq].
    rewrite HrA HrB in Heq. by injection Heq.
  Qed.
End BlockReopen.
