(* State/RootProofs.v — the second clause of C13: the root IntermediateRoot returns equals
   the MODEL ROOT (State/Root.v) of the reference model's accounts and storage.
   Composition of: C13 history_refines (reference = implementation model on observables),
   C14 block_hashed (after any block of transactions + IntermediateRoot the
   implementation model's trie is the canonical trie of the live objects, its hash is the
   returned root; every live object's storage trie is canonical, holds exactly the
   committed non-zero slots and hashes to data.Root) and uniqueness of canonical tries. *)
From Coq Require Import ssreflect.
From stdpp Require Import gmap.
From Coq Require Import NArith ZArith Lia.
From GV Require Import Lib.Bytes Rlp.Item Rlp.Codec Rlp.CodecProofs Trie.Hex Trie.Node Trie.Ops Trie.Hash Trie.OpsProofs Trie.Canon.
From GV Require Import State.Ref State.Journal State.JournalProofs State.Refine State.Commit State.CommitProofs State.CommitReopen State.CommitFin State.CommitIR2 State.CommitBlock State.Root.
Local Open Scope N_scope.

(* last write wins; with distinct keys every pair is the last write of its key *)
Lemma apply_ops_nodup ops : ∀ m k v,
  NoDup (map fst ops) → In (k, v) ops → apply_ops m ops k = vopt v.
Proof.
  induction ops as [|[k0 v0] ops IH]; intros m k v Hnd Hin; [done|].
  simpl in *. inversion Hnd as [|? ? Hn0 Hnd']; subst. destruct Hin as [[= -> ->]|Hin].
  - rewrite apply_ops_notin; [done|]. unfold Canon.put. by rewrite bytes_eqb_refl.
  - by apply IH.
Qed.

Lemma NoDup_List_filter {A} (f : A → bool) (l : list A) : base.NoDup l → base.NoDup (List.filter f l).
Proof.
  induction 1 as [|x l Hx Hl IH]; simpl; [constructor|]. destruct (f x); [|done].
  constructor; [|done]. rewrite elem_of_list_In filter_In -elem_of_list_In. tauto.
Qed.

Lemma vopt_nonempty v : v ≠ [] → vopt v = Some v.
Proof. by destruct v. Qed.

Section RootProofs.
  Variable H : list N → list N.
  Hypothesis H_bytes : ∀ x, forallb byteb (H x) = true.
  Variables (addr_ok : addr → Prop) (slot_ok : slot → Prop).
  Hypothesis Hk_addr : ∀ a b, addr_ok a → addr_ok b → addr_key H a = addr_key H b → a = b.
  Hypothesis Hk_slot : ∀ a b, slot_ok a → slot_ok b → slot_key H a = slot_key H b → a = b.

  (* building from scratch: canonical, its lookups are the final map, its hash exists *)
  Lemma build_ok kvs : bytes_ops kvs →
    ∃ t h, canon t ∧ (∀ hk, lk t hk = apply_ops (λ _, None) (hexops kvs) hk) ∧
           hash_root H t = Some h ∧ build H kvs = Some h.
  Proof.
    intros Hb.
    destruct (update_seq_spec no_resolve kvs Hb NEmpty (λ _, None) (or_introl eq_refl) (λ hk, lk_empty hk))
      as (t & ev & E & Hc & Hl).
    destruct (hash_root_total H t Hc) as [h Hh].
    exists t, h. split_and!; try done. unfold build, t_update_seq, t_hash. by rewrite E Hh.
  Qed.

  Lemma slot_val_ne v : v ≠ 0 → slot_val v ≠ [].
  Proof.
    intros Hv. unfold slot_val. apply N.eqb_neq in Hv. rewrite Hv.
    pose proof (enc_len_pos (Str (be_bytes v))) as Hl. cbn [enc] in Hl.
    destruct (enc_str (be_bytes v)); [unfold lenN in Hl; simpl in Hl; lia|done].
  Qed.

  Lemma acct_rlp_ne x r : acct_rlp H x r ≠ [].
  Proof.
    unfold acct_rlp. intros E.
    pose proof (enc_len_pos (Lst [Str (be_bytes (a_nonce x)); Str (be_bytes (a_bal x)); Str r; Str (code_hash H (a_code x))])) as Hl.
    rewrite E in Hl. unfold lenN in Hl. simpl in Hl. lia.
  Qed.

  Lemma in_keys_dec (hk : list N) (l : list (list N)) : In hk l ∨ ¬ In hk l.
  Proof. destruct (in_dec (list_eq_dec N.eq_dec) hk l); tauto. Qed.

  (* the storage trie built from a map represents exactly that map *)
  Lemma storage_root_rep (m : gmap slot word) :
    (∀ k v, m !! k = Some v → v ≠ 0 → slot_ok k) →
    ∃ S h, stor_rep H slot_ok S (sget m) ∧ hash_root H S = Some h ∧ storage_root H m = Some h.
  Proof.
    intros Hu. unfold storage_root.
    set (l := List.filter (λ kv : slot * word, negb (kv.2 =? 0)) (map_to_list m)).
    assert (Hl : ∀ k v, In (k, v) l ↔ m !! k = Some v ∧ v ≠ 0).
    { intros k v. subst l. rewrite filter_In -elem_of_list_In elem_of_map_to_list. simpl.
      rewrite negb_true_iff N.eqb_neq. done. }
    assert (Hkv : ∀ kk vv, In (kk, vv) (stor_kvs H m) ↔ ∃ k v, In (k, v) l ∧ kk = slot_key H k ∧ vv = slot_val v).
    { intros kk vv. unfold stor_kvs. fold l. rewrite in_map_iff. split.
      - intros ([k v] & [= <- <-] & Hin). by exists k, v.
      - intros (k & v & Hin & -> & ->). by exists (k, v). }
    assert (Hkeys : ∀ kk, In kk (map fst (stor_kvs H m)) ↔ ∃ k v, In (k, v) l ∧ kk = slot_key H k).
    { intros kk. rewrite in_map_iff. split.
      - intros ([k1 v1] & <- & Hin). apply Hkv in Hin as (k & v & Hin & -> & ->). by exists k, v.
      - intros (k & v & Hin & ->). exists (slot_key H k, slot_val v). split; [done|]. apply Hkv. by exists k, v. }
    assert (Hnd : NoDup (map fst (stor_kvs H m))).
    { unfold stor_kvs. fold l. rewrite map_map. simpl. apply NoDup_ListNoDup.
      apply (NoDup_fmap_2_strong (λ x : slot * word, slot_key H x.1)).
      - intros [k v] [k' v'] Hi Hi' E. simpl in E. apply elem_of_list_In, Hl in Hi as [Hi1 Hi2].
        apply elem_of_list_In, Hl in Hi' as [Hi1' Hi2'].
        assert (k = k') as <- by (apply Hk_slot; [by eapply Hu|by eapply Hu|done]). congruence.
      - subst l. apply NoDup_List_filter. apply NoDup_map_to_list. }
    assert (Hb : bytes_ops (stor_kvs H m)).
    { apply Forall_forall. intros [kk vv] Hin. apply Hkv in Hin as (k & v & _ & -> & _). apply H_bytes. }
    destruct (build_ok _ Hb) as (S & h & Hc & Hlk & Hh & Hbuild).
    exists S, h. split; [|done]. split; [done|]. split.
    - intros k Hk. rewrite Hlk. unfold hexk.
      rewrite (apply_ops_hex _ Hb (λ _, None) (λ _, None) (slot_key H k) (H_bytes _) eq_refl).
      unfold sget. destruct (m !! k) as [v|] eqn:Em; simpl.
      + destruct (decide (v = 0)) as [->|Hv].
        * rewrite apply_ops_notin; [|done]. intros Hin. apply Hkeys in Hin as (k' & v' & Hin & E).
          apply Hl in Hin as [Hin Hv']. assert (k' = k) as -> by (apply Hk_slot; [by eapply Hu|done|done]). rewrite Em in Hin. by injection Hin as <-.
        * apply apply_ops_nodup; [done|]. apply Hkv. exists k, v. split; [by apply Hl|done].
      + rewrite apply_ops_notin; [|done]. intros Hin. apply Hkeys in Hin as (k' & v' & Hin & E).
        apply Hl in Hin as [Hin Hv']. assert (k' = k) as -> by (apply Hk_slot; [by eapply Hu|done|done]). by rewrite Em in Hin.
    - intros hk v. rewrite Hlk. intros Hv.
      destruct (in_keys_dec hk (map fst (hexops (stor_kvs H m)))) as [Hin|Hnin].
      + unfold hexops in Hin. rewrite map_map in Hin. apply in_map_iff in Hin as ([kk vv] & <- & Hin).
        apply Hkv in Hin as (k & v' & Hin & -> & _). exists k. split; [|done]. apply Hl in Hin as [? ?]. by eapply Hu.
      + rewrite apply_ops_notin in Hv; done.
  Qed.

  Lemma mapM_map_Some {A B} (f : A → option B) (g : A → B) (l : list A) :
    (∀ x, In x l → f x = Some (g x)) → mapM f l = Some (map g l).
  Proof.
    induction l as [|x l IH]; intros Hf; [done|]. simpl. rewrite Hf; [by left|]. simpl.
    rewrite IH; [|done]. intros y Hy. apply Hf. by right.
  Qed.

  (* the reference storage is within the slot universe *)
  Definition in_universe (c : rcore) : Prop :=
    ∀ a x k v, accts c !! a = Some x → r_stor x !! k = Some v → v ≠ 0 → slot_ok k.
  (* the reference state is at a transaction boundary: committed view = current view *)
  Definition finalised (c : rcore) : Prop :=
    ∀ a x, accts c !! a = Some x → r_cstor x = r_stor x.

  (* a hashed implementation state related to a reference core: the model root of the
     reference accounts is the hash of the implementation's account trie *)
  Theorem root_of_hashed p cs1 T root (c : rcore) :
    hashed H addr_ok slot_ok (λ _, True) p cs1 T → hash_root H T = Some root →
    objs_rel (c_j cs1) c → finalised c → in_universe c →
    accounts_root H (map (λ ax : addr * racct, (ax.1, ra ax.2, r_stor ax.2)) (map_to_list (accts c))) = Some root.
  Proof.
    intros Hh Hroot Hrel Hfin Huni.
    set (l := map_to_list (accts c)).
    set (g := λ ax : addr * racct, (addr_key H ax.1, acct_rlp H (ra ax.2) (x_root (ext_of H cs1 ax.1)))).
    assert (Hl : ∀ a x, In (a, x) l ↔ accts c !! a = Some x).
    { intros a x. subst l. by rewrite -elem_of_list_In elem_of_map_to_list. }
    (* every reference account is a live object, its storage root is the object's data.Root *)
    assert (Hacc : ∀ a x, accts c !! a = Some x →
              ∃ o, j_objs (c_j cs1) !! a = Some o ∧ o_data o = ra x ∧ addr_ok a ∧
                   storage_root H (r_stor x) = Some (x_root (ext_of H cs1 a))).
    { intros a x Hx. specialize (Hrel a). rewrite Hx in Hrel.
      destruct (j_objs (c_j cs1) !! a) as [o|] eqn:Ho; [|done].
      destruct Hrel as (D1 & D2 & D3 & D4 & D5). exists o.
      assert (Hao : addr_ok a) by (by eapply (h_live_ok _ _ _ _ _ _ _ Hh)).
      split; [done|]. split; [done|]. split; [done|].
      destruct (h_stor _ _ _ _ _ _ _ Hh a o Ho) as (S & C1 & _ & C2 & C3 & C4 & _).
      destruct (storage_root_rep (r_stor x)) as (S' & h & R1 & R2 & R3); [intros k v Hkv Hv; by eapply (Huni a x k v)|].
      assert (S' = S) as ->.
      { eapply (stor_rep_unique H slot_ok); [exact R1|split; [exact C1|split; [exact C3|exact C4]]|].
        intros k Hk. simpl. by rewrite D3 (Hfin a x Hx). }
      rewrite R3. congruence. }
    assert (Hm : mapM (acct_kv H) (map (λ ax : addr * racct, (ax.1, ra ax.2, r_stor ax.2)) l) = Some (map g l)).
    { rewrite -(map_map (λ ax : addr * racct, (ax.1, ra ax.2, r_stor ax.2)) (λ e, (addr_key H e.1.1, acct_rlp H e.1.2 (x_root (ext_of H cs1 e.1.1))))).
      apply mapM_map_Some. intros e He. apply in_map_iff in He as ([a x] & <- & Hin). simpl.
      apply Hl in Hin. destruct (Hacc a x Hin) as (o & _ & _ & _ & Hs). unfold acct_kv. simpl. by rewrite Hs. }
    unfold accounts_root. fold l. rewrite Hm.
    assert (Hb : bytes_ops (map g l)).
    { apply Forall_forall. intros kv Hin. apply in_map_iff in Hin as (ax & <- & _). apply H_bytes. }
    assert (Hkeys : ∀ kk, In kk (map fst (map g l)) ↔ ∃ a x, accts c !! a = Some x ∧ kk = addr_key H a).
    { intros kk. rewrite map_map in_map_iff. split.
      - intros ([a x] & <- & Hin). exists a, x. split; [by apply Hl|done].
      - intros (a & x & Hx & ->). exists (a, x). split; [done|by apply Hl]. }
    assert (Hnd : NoDup (map fst (map g l))).
    { rewrite map_map. apply NoDup_ListNoDup.
      apply (NoDup_fmap_2_strong (λ ax : addr * racct, addr_key H ax.1)).
      - intros [a x] [a' x'] Hi Hi' E. simpl in E. apply elem_of_list_In, Hl in Hi. apply elem_of_list_In, Hl in Hi'.
        destruct (Hacc a x Hi) as (_ & _ & _ & Ha & _). destruct (Hacc a' x' Hi') as (_ & _ & _ & Ha' & _).
        assert (a = a') as <- by (by apply Hk_addr). rewrite Hi in Hi'. by injection Hi' as <-.
      - subst l. apply NoDup_map_to_list. }
    destruct (build_ok _ Hb) as (T' & h & Hc & Hlk & Hhash & Hbuild).
    rewrite Hbuild. f_equal.
    assert (T' = T) as ->; [|congruence].
    apply canon_unique; [done|by eapply h_canon|]. intros hk _. rewrite Hlk.
    destruct (in_keys_dec hk (map fst (hexops (map g l)))) as [Hin|Hnin].
    - unfold hexops in Hin. rewrite map_map in Hin. apply in_map_iff in Hin as ([kk vv] & <- & Hin). simpl.
      apply in_map_iff in Hin as ([a x] & [= <- <-] & Hin). apply Hl in Hin.
      destruct (Hacc a x Hin) as (o & Ho & Hd & Ha & _).
      rewrite (apply_ops_hex _ Hb (λ _, None) (λ _, None) (addr_key H a) (H_bytes _) eq_refl).
      rewrite (apply_ops_nodup _ _ (addr_key H a) (acct_rlp H (ra x) (x_root (ext_of H cs1 a)))); [done| |].
      { apply in_map_iff. exists (a, x). split; [done|by apply Hl]. }
      rewrite vopt_nonempty; [apply acct_rlp_ne|].
      pose proof (h_acct _ _ _ _ _ _ _ Hh a Ha) as L. unfold hexk, obj_entry in L. rewrite Ho Hd in L.
      symmetry. exact L.
    - rewrite apply_ops_notin; [done|]. destruct (lk T hk) as [v|] eqn:L; [|done]. exfalso.
      destruct (h_acct_only _ _ _ _ _ _ _ Hh hk v L) as (a & Ha & ->).
      rewrite (h_acct _ _ _ _ _ _ _ Hh a Ha) in L. unfold obj_entry in L.
      destruct (j_objs (c_j cs1) !! a) as [o|] eqn:Ho; [|done].
      specialize (Hrel a). rewrite Ho in Hrel. destruct (accts c !! a) as [x|] eqn:Hx; [|done].
      apply Hnin. unfold hexops. rewrite map_map. apply in_map_iff. exists (g (a, x)). split; [done|].
      apply in_map_iff. exists (a, x). split; [done|by apply Hl].
  Qed.
End RootProofs.

(* ------------------------------------------------------------------ *)
(* the C14 layer leaves the C13 state to step_j *)
Section Compose.
  Variable H : list N → list N.
  Hypothesis H_bytes : ∀ x, forallb byteb (H x) = true.
  Variables (addr_ok : addr → Prop) (slot_ok : slot → Prop).
  Hypothesis Hk_addr : ∀ a b, addr_ok a → addr_ok b → addr_key H a = addr_key H b → a = b.
  Hypothesis Hk_slot : ∀ a b, slot_ok a → slot_ok b → slot_key H a = slot_key H b → a = b.

  Lemma step_c_cj cs o : c_j (step_c H cs o).1 = (step_j (c_j cs) o).1.
  Proof. unfold step_c. by destruct (step_j (c_j cs) o). Qed.

  Lemma run_c_cj ops : ∀ cs, c_j (run_c H cs ops) = run_j (c_j cs) ops.
  Proof.
    induction ops as [|o ops IH]; intros cs; [done|]. unfold run_c, run_j in *. simpl.
    rewrite IH. by rewrite step_c_cj.
  Qed.

  Lemma ir_cj r p cs root cs1 :
    intermediate_root H r p cs = COk (root, cs1) → c_j cs1 = finalise r (c_j cs).
  Proof.
    unfold intermediate_root. set (cs0 := (step_c H cs (OFinalise r)).1).
    destruct (match c_trie cs0 with Some t => Some t | None => open_trie H p (c_root cs0) end) as [t|]; [|done].
    destruct (ir_storage H p (map_to_list (c_muts cs0)) cs0) as [cs2|] eqn:E2; [|done].
    destruct (acct_updates H cs2 (map_to_list (c_muts cs0))); [|done].
    destruct (t_update_seq _ _) as [t'|]; [|done]. destruct (t_hash H t') as [h|] eqn:Eh; [|done].
    intros [= <- <-]. simpl. apply ir_storage_pres in E2 as (Ej & _). rewrite Ej. done.
  Qed.

  (* the calls of one C14 transaction, as a C13 history: body, Finalise, and (when a root
     is computed after the transaction) the Finalise inside IntermediateRoot *)
  Definition tx_flat (t : tx) : list op :=
    t_ops t ++ OFinalise (t_rules t) :: (if t_ir t then [OFinalise (t_rules t)] else []).
  Definition txs_flat (ts : list tx) : list op := concat (map tx_flat ts).

  Lemma run_j_app ops1 ops2 j : run_j j (ops1 ++ ops2) = run_j (run_j j ops1) ops2.
  Proof. unfold run_j. by rewrite foldl_app. Qed.
  Lemma run_r_app ops1 ops2 s : run_r s (ops1 ++ ops2) = run_r (run_r s ops1) ops2.
  Proof. unfold run_r. by rewrite foldl_app. Qed.

  Lemma run_tx_cj p cs t cs' : run_tx H p cs t = Some cs' → c_j cs' = run_j (c_j cs) (tx_flat t).
  Proof.
    unfold run_tx, tx_flat. rewrite run_j_app. intros E.
    set (cs2 := (step_c H (run_c H cs (t_ops t)) (OFinalise (t_rules t))).1) in *.
    assert (E2 : c_j cs2 = (step_j (run_j (c_j cs) (t_ops t)) (OFinalise (t_rules t))).1)
      by (subst cs2; by rewrite step_c_cj run_c_cj).
    destruct (t_ir t).
    - destruct (intermediate_root H (t_rules t) p cs2) as [[root cs3]|] eqn:Eir; [|done]. injection E as <-.
      rewrite (ir_cj _ _ _ _ _ Eir) E2. done.
    - injection E as <-. by rewrite E2.
  Qed.

  Lemma run_txs_cj p ts : ∀ cs cs', run_txs H p cs ts = Some cs' → c_j cs' = run_j (c_j cs) (txs_flat ts).
  Proof.
    induction ts as [|t ts IH]; intros cs cs' E; simpl in *; [by injection E as <-|].
    destruct (run_tx H p cs t) as [cs1|] eqn:E1; [|done].
    unfold txs_flat. simpl. rewrite run_j_app -(run_tx_cj _ _ _ _ E1). by apply IH.
  Qed.

  (* the reference state after Finalise is at a transaction boundary *)
  Lemma finalised_after_fin s r : finalised (r_cur (step_r s (OFinalise r)).1).
  Proof.
    intros a x. simpl. destruct s as [c st nx sk th ti]; simpl. destruct c; simpl.
    rewrite map_lookup_imap. destruct (accts !! a) as [y|]; simpl; [|done].
    unfold fin_acct. repeat case_match; intros [= <-]; done.
  Qed.

  (* THE ROOT CLAUSE OF C13.  Any block of transactions (journalled calls with arbitrarily
     nested snapshots/reverts, Finalise, IntermediateRoot at arbitrary transaction
     boundaries) run from a state satisfying C14's Sync that is related (C13's Inv) to a
     reference state: the root the final IntermediateRoot returns is the model root of the
     reference model's accounts and storage after the same calls. *)
  Theorem root_refines p cs0 ts cs r root cs1 rs0 :
    Sync H addr_ok slot_ok p cs0 → txs_ok H addr_ok slot_ok p cs0 ts → run_txs H p cs0 ts = Some cs →
    intermediate_root H r p cs = COk (root, cs1) →
    Inv (c_j cs0) rs0 → hist_ok (c_j cs0) (txs_flat ts ++ [OFinalise r]) →
    in_universe slot_ok (r_cur (run_r rs0 (txs_flat ts ++ [OFinalise r]))) →
    root_r H (run_r rs0 (txs_flat ts ++ [OFinalise r])) = Some root.
  Proof.
    intros Sy Hok Er Eir HI Hh Hu.
    destruct (ir_post H _ _ _ _ _ Eir) as (_ & _ & T & Ht & _).
    destruct (block_hashed H H_bytes addr_ok slot_ok Hk_addr Hk_slot (λ _, True) p cs0 ts cs r root cs1 T
                Sy Hok Er Eir Ht I (λ _ _ _ _ _, I)) as [Hhashed Hroot].
    destruct (run_refines _ _ _ HI Hh) as [I' _].
    assert (Ej : c_j cs1 = run_j (c_j cs0) (txs_flat ts ++ [OFinalise r])).
    { rewrite (ir_cj _ _ _ _ _ Eir) run_j_app -(run_txs_cj _ _ _ _ Er). done. }
    rewrite -Ej in I'.
    unfold root_r. eapply (root_of_hashed H H_bytes addr_ok slot_ok Hk_addr Hk_slot); try done.
    - apply (rc_objs _ _ _ (inv_rc _ _ I')).
    - rewrite run_r_app. apply finalised_after_fin.
  Qed.

  (* from the empty chain start *)
  Corollary root_refines_genesis ts cs r root cs1 :
    txs_ok H addr_ok slot_ok pdb0 (cs_genesis H) ts → run_txs H pdb0 (cs_genesis H) ts = Some cs →
    intermediate_root H r pdb0 cs = COk (root, cs1) →
    hist_ok (init_j ∅) (txs_flat ts ++ [OFinalise r]) →
    in_universe slot_ok (r_cur (run_r (init_r ∅) (txs_flat ts ++ [OFinalise r]))) →
    root_r H (run_r (init_r ∅) (txs_flat ts ++ [OFinalise r])) = Some root.
  Proof.
    intros Hok Er Eir Hh Hu.
    eapply (root_refines pdb0 (cs_genesis H)); try done; [apply sync_genesis; done|apply Inv_init].
  Qed.
End Compose.
