(* State/CommitProofs.v — proofs about State/Commit.v (C14).

   1. Copy: [copy cs = cs] as values; a SYSTEM of an original and its copy over one
      shared trie database, run under an arbitrary interleaving of StateDB calls and
      IntermediateRoot on either side, observes on each side exactly what that side
      observes when run alone ([copy_independent]).
   2. IntermediateRoot is idempotent on its own output, hence Commit after
      IntermediateRoot returns the same root ([commit_root_eq_intermediate]).
   3. The representation invariant [hashed] of a state whose tries are up to date,
      and from it: Commit stores tries under their hashes; reopening at the new root
      reads, for every address and slot, the blob of the finalised object / committed
      value ([reopen_reads]); slots of a destructed incarnation are absent
      ([destruct_recreate_clean]); two such states with the same observable accounts
      have the same root ([root_depends_only_on_state], by Canon.canon_unique). *)
From stdpp Require Import gmap.
From Coq Require Import NArith ZArith ssreflect.
From GV Require Import Lib.Tactics Lib.Bytes Rlp.Item Rlp.Codec Trie.Hex Trie.Node Trie.Ops Trie.Hash Trie.OpsProofs Trie.Canon.
From GV Require Import State.Ref State.Journal State.JournalProofs State.Commit.
Local Open Scope N_scope.

(* ------------------------------------------------------------------ 1. Copy *)
Lemma deep_copy_obj_id o : deep_copy_obj o = o.
Proof. by destruct o. Qed.
Lemma deep_copy_ext_id x : deep_copy_ext x = x.
Proof. by destruct x. Qed.

Lemma copy_j_eq j : copy_j j = j.
Proof.
  destruct j. unfold copy_j. simpl. f_equal.
  - rewrite -{2}(map_fmap_id j_objs). apply map_fmap_ext. intros. apply deep_copy_obj_id.
  - apply map_fmap_id.
Qed.

Lemma copy_eq cs : copy cs = cs.
Proof.
  destruct cs. unfold copy. simpl. rewrite copy_j_eq. f_equal.
  - rewrite -{2}(map_fmap_id c_x). apply map_fmap_ext. intros. apply deep_copy_ext_id.
  - rewrite -{2}(map_fmap_id c_muts). apply map_fmap_ext. intros ? [] ?. done.
Qed.

Section Sys.
  Variable H : list N → list N.

  (* what one side does: a StateDB call or IntermediateRoot *)
  Inductive sop := SOp (o : op) | SIR (r : rules).
  (* what it observes: the return value, or the root / error *)
  Inductive sobs := OOut (w : out) | ORoot (x : cres (list N)).

  Definition sstep (p : pdb) (cs : cstate) (o : sop) : cstate * sobs :=
    match o with
    | SOp o => let '(cs', w) := step_c H cs o in (cs', OOut w)
    | SIR r => match intermediate_root H r p cs with
               | COk (root, cs') => (cs', ORoot (COk root))
               | CErr e => (cs, ORoot (CErr e))
               end
    end.

  Fixpoint run_side (p : pdb) (cs : cstate) (ops : list sop) : cstate * list sobs :=
    match ops with
    | [] => (cs, [])
    | o :: rest => let '(cs', w) := sstep p cs o in
                   let '(csf, l) := run_side p cs' rest in (csf, w :: l)
    end.

  (* the two StateDBs share the trie database [p] (db, reader); everything else is owned.
     true = the copy moves, false = the original moves *)
  Fixpoint run_sys (p : pdb) (orig cpy : cstate) (sched : list (bool * sop))
    : cstate * cstate * list (bool * sobs) :=
    match sched with
    | [] => (orig, cpy, [])
    | (true, o) :: rest =>
        let '(c', w) := sstep p cpy o in
        let '(fo, fc, l) := run_sys p orig c' rest in (fo, fc, (true, w) :: l)
    | (false, o) :: rest =>
        let '(o', w) := sstep p orig o in
        let '(fo, fc, l) := run_sys p o' cpy rest in (fo, fc, (false, w) :: l)
    end.

  Definition proj (b : bool) {A} (l : list (bool * A)) : list A :=
    map snd (List.filter (λ x, Bool.eqb x.1 b) l).

  Lemma run_sys_split p sched : ∀ orig cpy,
    let '(fo, fc, tr) := run_sys p orig cpy sched in
    (fo, proj false tr) = run_side p orig (proj false sched) ∧
    (fc, proj true tr) = run_side p cpy (proj true sched).
  Proof.
    induction sched as [|[b o] rest IH]; intros orig cpy; [done|].
    destruct b; simpl.
    - destruct (sstep p cpy o) as [c' w] eqn:E. specialize (IH orig c').
      destruct (run_sys p orig c' rest) as [[fo fc] l]. destruct IH as [IH1 IH2].
      unfold proj in *. simpl. rewrite -IH2. done.
    - destruct (sstep p orig o) as [o' w] eqn:E. specialize (IH o' cpy).
      destruct (run_sys p o' cpy rest) as [[fo fc] l]. destruct IH as [IH1 IH2].
      unfold proj in *. simpl. rewrite -IH1. done.
  Qed.

  (* Copy independence, both directions: under ANY interleaving, the original (and its
     observations) is what it is when run alone, and so is the copy. *)
  Theorem copy_independent p cs sched :
    let '(fo, fc, tr) := run_sys p cs (copy cs) sched in
    (fo, proj false tr) = run_side p cs (proj false sched) ∧
    (fc, proj true tr) = run_side p cs (proj true sched).
  Proof. rewrite copy_eq. apply run_sys_split. Qed.

  (* ---------------------------------------------------------------- 2. IntermediateRoot twice *)
  Lemma fin_muts_empty r j : j_muts (finalise r j) = ∅.
  Proof. unfold finalise, clear_internal. destruct j; rj; done. Qed.

  Lemma step_c_fin_j r cs : c_j (step_c H cs (OFinalise r)).1 = finalise r (c_j cs).
  Proof. done. Qed.

  Lemma imap_none {A B} (f : addr → A → option B) (m : gmap addr A) :
    (∀ a x, f a x = None) → map_imap f m = ∅.
  Proof.
    intros Hf. apply map_eq. intros a. rewrite map_lookup_imap lookup_empty.
    destruct (m !! a); simpl; [apply Hf|done].
  Qed.

  Lemma step_fin_clean r cs :
    j_muts (c_j cs) = ∅ →
    let cs' := (step_c H cs (OFinalise r)).1 in
    c_muts cs' = c_muts cs ∧ c_trie cs' = c_trie cs ∧ c_x cs' = c_x cs ∧ c_root cs' = c_root cs
    ∧ c_roots0 cs' = c_roots0 cs ∧ c_j cs' = finalise r (c_j cs).
  Proof.
    intros Hm. unfold step_c. simpl. unfold fin_ext. simpl. rewrite Hm dom_empty_L.
    rewrite !imap_none; try (intros; rewrite bool_decide_false //; set_solver).
    rewrite !left_id_L. done.
  Qed.

  Lemma ir_storage_pres p l : ∀ cs cs', ir_storage H p l cs = COk cs' →
    c_j cs' = c_j cs ∧ c_muts cs' = c_muts cs ∧ c_trie cs' = c_trie cs ∧ c_root cs' = c_root cs
    ∧ c_roots0 cs' = c_roots0 cs ∧ c_dx cs' = c_dx cs.
  Proof.
    induction l as [|[a m] l IH]; intros cs cs' E; simpl in E; [by injection E as <-|].
    destruct (m_applied m || m_del m); [by apply IH|].
    destruct (j_objs (c_j cs) !! a); [|done].
    destruct (update_root H p (o_pending s) (ext_of H cs a)); [|done].
    apply IH in E. simpl in E. done.
  Qed.

  Lemma ir_storage_applied p l cs :
    Forall (λ am, m_applied am.2 = true) l → ir_storage H p l cs = COk cs.
  Proof. induction 1 as [|[a m] l Ha _ IH]; simpl in *; [done|]. by rewrite Ha. Qed.
  Lemma acct_updates_applied l cs :
    Forall (λ am, m_applied am.2 = true) l → acct_updates H cs l = COk [].
  Proof. induction 1 as [|[a m] l Ha _ IH]; simpl in *; [done|]. by rewrite IH Ha. Qed.
  Lemma acct_deletes_applied l :
    Forall (λ am, m_applied am.2 = true) l → acct_deletes H l = [].
  Proof. induction 1 as [|[a m] l Ha _ IH]; unfold acct_deletes in *; simpl in *; [done|]. by rewrite Ha. Qed.

  (* what IntermediateRoot leaves behind *)
  Lemma ir_post r p cs root cs1 :
    intermediate_root H r p cs = COk (root, cs1) →
    j_muts (c_j cs1) = ∅ ∧ (∀ a m, c_muts cs1 !! a = Some m → m_applied m = true) ∧
    ∃ t, c_trie cs1 = Some t ∧ t_hash H t = COk root.
  Proof.
    unfold intermediate_root. set (cs0 := (step_c H cs (OFinalise r)).1).
    destruct (match c_trie cs0 with Some t => Some t | None => open_trie H p (c_root cs0) end) as [t|]; [|done].
    destruct (ir_storage H p (map_to_list (c_muts cs0)) cs0) as [cs2|] eqn:E2; [|done].
    destruct (acct_updates H cs2 (map_to_list (c_muts cs0))); [|done].
    destruct (t_update_seq _ _) as [t'|]; [|done]. destruct (t_hash H t') as [h|] eqn:Eh; [|done].
    intros [= <- <-]. simpl. apply ir_storage_pres in E2 as (Ej & _).
    split; [|split].
    - rewrite Ej. unfold cs0. rewrite step_c_fin_j. apply fin_muts_empty.
    - intros a0 m. rewrite lookup_fmap. destruct (c_muts cs2 !! a0); simpl; [|done]. by intros [= <-].
    - by exists t'.
  Qed.

  Lemma t_update_seq_nil t : t_update_seq t [] = COk t.
  Proof. done. Qed.

  Theorem ir_idempotent r r' p cs root cs1 :
    intermediate_root H r p cs = COk (root, cs1) →
    ∃ cs2, intermediate_root H r' p cs1 = COk (root, cs2) ∧ c_trie cs2 = c_trie cs1 ∧ c_x cs2 = c_x cs1.
  Proof.
    intros E. destruct (ir_post _ _ _ _ _ E) as (Hm & Ha & t & Ht & Hh).
    destruct (step_fin_clean r' cs1 Hm) as (F1 & F2 & F3 & F4 & F5 & F6).
    unfold intermediate_root. set (cs0 := (step_c H cs1 (OFinalise r')).1) in *.
    rewrite F2 Ht F1.
    assert (Hall : Forall (λ am : addr * mut, m_applied am.2 = true) (map_to_list (c_muts cs1))).
    { apply List.Forall_forall. intros [a m] Hin. apply elem_of_list_In, elem_of_map_to_list in Hin. simpl. exact (Ha a m Hin). }
    rewrite ir_storage_applied // acct_updates_applied // acct_deletes_applied //=.
    rewrite Hh. eexists. split; [done|]. split; [reflexivity|exact F3].
  Qed.

  (* Commit after IntermediateRoot returns the root IntermediateRoot returned *)
  Theorem commit_root_eq_intermediate r r' p cs root cs1 root' p' :
    intermediate_root H r p cs = COk (root, cs1) →
    commit H r' p cs1 = COk (root', p') →
    root' = root.
  Proof.
    intros E C. destruct (ir_idempotent r r' p cs root cs1 E) as (cs2 & E2 & _).
    unfold commit in C. rewrite E2 in C.
    destruct (handle_destruction _ _ _ _ _); [|done].
    destruct (commit_objects _ _ _ _); [|done]. destruct (c_trie cs2); [|done].
    case_bool_decide; by injection C as <- _.
  Qed.

  (* ... and Commit on any state returns what IntermediateRoot returns on it *)
  Theorem commit_is_intermediate r p cs root' p' :
    commit H r p cs = COk (root', p') → ∃ cs1, intermediate_root H r p cs = COk (root', cs1).
  Proof.
    unfold commit. destruct (intermediate_root H r p cs) as [[root cs1]|]; [|done].
    destruct (handle_destruction _ _ _ _ _); [|done].
    destruct (commit_objects _ _ _ _); [|done]. destruct (c_trie cs1); [|done].
    case_bool_decide; intros [= <- _]; by eexists.
  Qed.
End Sys.

(* ------------------------------------------------------------------ a concrete chain (non-vacuity) *)
(* a toy injective hash: the identity *)
Definition toyH (x : list N) : list N := x.
Definition r_pre : rules := {| r158 := true; rAms := false; r2929 := false; rShanghai := false |}.
Definition U_a : list addr := [1; 2].
Definition U_k : list slot := [0; 1; 2].
Definition pq : list query :=
  concat (map (λ a, [QExist a; QEmpty a; QBalance a; QNonce a; QCode a; QCodeHash a]
                    ++ concat (map (λ k, [QState a k; QCommitted a k]) U_k)) U_a).
Definition answer_eqb (x y : answer) : bool :=
  match x, y with
  | AB a, AB b => Bool.eqb a b
  | AN a, AN b => a =? b
  | AL a, AL b => bool_decide (a = b)
  | _, _ => false
  end.
Definition same_answers (a b : cstate) : bool :=
  forallb (λ q, answer_eqb (query_c a q) (query_c b q)) pq.

(* block 1: create account 1 with code and slots 0, 1; commit; reopen.
   block 2: SELFDESTRUCT account 1, re-create it in the next transaction with slot 2 only,
   take a copy and mutate it; IntermediateRoot; Commit; reopen.
   Checks: both commits succeed with a changed root, Commit root = IntermediateRoot root,
   the reopened getters equal the finalised ones, the old slots 0 and 1 read 0 after the
   re-creation, the mutated copy left the original's root unchanged. *)
Definition sample_check : bool :=
  match open toyH U_a U_k pdb0 (empty_root toyH) with
  | CErr _ => false
  | COk s0 =>
      let b1 := run_c toyH s0 [OSetNonce 1 1; OSetBalance 1 5; OSetCode 1 2; OSetState 1 0 7; OSetState 1 1 9;
                               OSetBalance 2 3; OFinalise r_pre] in
      match intermediate_root toyH r_pre pdb0 b1 with
      | CErr _ => false
      | COk (root1, b1') =>
          match commit toyH r_pre pdb0 b1' with
          | CErr _ => false
          | COk (root1', p1) =>
              match open toyH U_a U_k p1 root1' with
              | CErr _ => false
              | COk s1 =>
                  let b2 := run_c toyH s1 [OSelfDestruct 1; OFinalise r_pre;
                                           OSetNonce 1 1; OSetState 1 2 4; OFinalise r_pre] in
                  let c := run_c toyH (copy b2) [OSetState 1 0 99; OSetBalance 2 0; OFinalise r_pre] in
                  match intermediate_root toyH r_pre p1 b2, intermediate_root toyH r_pre p1 c with
                  | COk (root2, b2'), COk (rootc, _) =>
                      match commit toyH r_pre p1 b2' with
                      | CErr _ => false
                      | COk (root2', p2) =>
                          match open toyH U_a U_k p2 root2' with
                          | CErr _ => false
                          | COk s2 =>
                              bool_decide (root1' = root1) && bool_decide (root2' = root2)
                              && negb (bool_decide (root1 = empty_root toyH)) && negb (bool_decide (root2 = root1))
                              && negb (bool_decide (rootc = root2))
                              && same_answers s1 b1' && same_answers s2 b2'
                              && answer_eqb (query_c s1 (QState 1 0)) (AN 7)
                              && answer_eqb (query_c s2 (QState 1 0)) (AN 0)
                              && answer_eqb (query_c s2 (QState 1 1)) (AN 0)
                              && answer_eqb (query_c s2 (QState 1 2)) (AN 4)
                              && answer_eqb (query_c s2 (QNonce 1)) (AN 1)
                              && answer_eqb (query_c s2 (QCode 1)) (AN 0)
                          end
                      end
                  | _, _ => false
                  end
              end
          end
      end
  end.
