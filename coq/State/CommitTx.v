(* State/CommitTx.v — C14 proofs, part 7: Finalise at the end of a transaction preserves [Sync]. *)
From Coq Require Import ssreflect.
From stdpp Require Import gmap.
From Coq Require Import NArith ZArith Lia.
From RecordUpdate Require Import RecordSet.
Import RecordSetNotations.
From GV Require Import State.Ref State.Journal State.JournalProofs State.BalProofs State.Commit State.CommitProofs State.CommitReopen State.CommitHist State.CommitSync State.CommitFin.
From GV Require Import Lib.Bytes Rlp.Item Rlp.Codec Trie.Hex Trie.Node Trie.Ops Trie.Hash Trie.OpsProofs Trie.Canon.
Local Open Scope N_scope.

Section Tx.
  Variable H : list N → list N.
  Variables (addr_ok : addr → Prop) (slot_ok : slot → Prop).

  Notation ext_of := (ext_of H).
  Notation fresh_ext := (fresh_ext H).
  Notation obj_entry := (obj_entry H).
  Notation Sync := (Sync H addr_ok slot_ok).
  Notation stor_rep := (stor_rep H slot_ok).
  Notation fin_guard := (fin_guard addr_ok slot_ok).

  Lemma fin_del_obj r o : fin_del r o = true ↔ fin_obj r o = None.
  Proof. unfold fin_del. by destruct (fin_obj r o). Qed.

  Theorem sync_finalise p cs0 cs r :
    Sync p cs0 → InTx H cs0 cs → fin_guard (c_j cs) → Sync p (step_c H cs (OFinalise r)).1.
  Proof.
    intros S0 I G.
    pose proof (sy_tb _ _ _ _ _ S0) as TB. pose proof TB as [W0 E0 M0 D0 O0].
    destruct I as [F (I1 & I2 & I3 & I4 & I5) X1 X2].
    set (j0 := c_j cs0) in *. set (j := c_j cs) in *.
    pose proof (fwd_wfc _ _ W0 F) as W. pose proof (fwd_Fr _ _ W0 F) as [Fdb Fdx Fpres Fframe Fpend Forig].
    pose proof (fwd_Q _ _ W0 (Q_start _ TB) F) as Q.
    destruct (fin_state H r cs) as (J' & R' & T' & C' & X' & Mu'). fold j in J', X', Mu'.
    set (cs' := (step_c H cs (OFinalise r)).1) in *.
    (* the objects and the destruct set after Finalise *)
    assert (Ho' : ∀ a, j_objs (c_j cs') !! a =
              match j_objs j !! a with
              | Some o => if bool_decide (a ∈ dom (j_muts j)) then fin_obj r o else Some o
              | None => None end) by (intros a; rewrite J'; apply fin_objs).
    assert (Hdb' : j_db (c_j cs') = j_db j0) by (rewrite J' fin_db; exact Fdb).
    assert (Hdx' : ∀ a, a ∈ j_destruct (c_j cs') ↔
              a ∈ j_destruct j0 ∨ ∃ o, j_objs j !! a = Some o ∧ a ∈ dom (j_muts j) ∧ fin_del r o = true)
      by (intros a; rewrite J' fin_destruct Fdx; done).
    (* pending keys are in the universe *)
    assert (HP : ∀ a o k v, j_objs j !! a = Some o → o_pending o !! k = Some v → slot_ok k).
    { intros a o k v Ho Hk. rewrite (Fpend a o Ho) in Hk.
      destruct (j_objs j0 !! a) as [o0|] eqn:E0'; simpl in Hk; [|by rewrite lookup_empty in Hk].
      destruct (sy_ok _ _ _ _ _ S0 a o0 E0') as [_ Hs]. by eapply Hs. }
    (* an address whose object Finalise does not touch *)
    assert (HU : ∀ a, ¬ (a ∈ dom (j_muts j) ∧ is_Some (j_objs j !! a)) →
              j_objs (c_j cs') !! a = j_objs j !! a ∧ ocore <$> j_objs j !! a = ocore <$> j_objs j0 !! a ∧
              xcore (ext_of cs' a) = xcore (ext_of cs0 a) ∧ c_muts cs' !! a = c_muts cs0 !! a ∧
              (a ∈ j_destruct (c_j cs') ↔ a ∈ j_destruct j0)).
    { intros a Hnt.
      assert (Hcase : (a ∉ dom (j_muts j)) ∨ j_objs j !! a = None).
      { destruct (decide (a ∈ dom (j_muts j))) as [Hd|Hd]; [|by left]. right.
        destruct (j_objs j !! a) eqn:E; [|done]. exfalso. apply Hnt. split; [done|by eexists]. }
      assert (Hc : ocore <$> j_objs j !! a = ocore <$> j_objs j0 !! a).
      { destruct Hcase as [Hd|Hn].
        - apply Fframe. by apply not_elem_of_dom.
        - rewrite Hn. destruct (j_objs j0 !! a) eqn:E0'; [|done].
          destruct (Fpres a) as [x Hx]; [by rewrite E0'|]. congruence. }
      assert (Hx : ext_of cs' a = ext_of cs a).
      { rewrite X'. destruct Hcase as [Hd|Hn]; [|by rewrite Hn].
        destruct (j_objs j !! a); [|done]. by rewrite bool_decide_false. }
      split; [|split; [done|split; [|split]]].
      - rewrite Ho'. destruct Hcase as [Hd|Hn]; [|by rewrite Hn].
        destruct (j_objs j !! a); [|done]. by rewrite bool_decide_false.
      - rewrite Hx. destruct (j_objs j0 !! a) eqn:E0'; [apply X1; by rewrite E0'|].
        destruct (X2 a) as [-> | ->]; [done|]. symmetry. by apply (sy_absent _ _ _ _ _ S0).
      - rewrite Mu' -I3. destruct Hcase as [Hd|Hn]; [|by rewrite Hn].
        destruct (j_objs j !! a); [|done]. by rewrite bool_decide_false.
      - rewrite Hdx'. split; [|by left]. intros [?|(o & Ho & Hd & _)]; [done|].
        exfalso. apply Hnt. split; [done|by eexists]. }
    (* an address whose object Finalise touches *)
    assert (HT : ∀ a o, a ∈ dom (j_muts j) → j_objs j !! a = Some o →
              j_objs (c_j cs') !! a = fin_obj r o ∧ ext_of cs' a = fin_x H r cs a o ∧
              c_muts cs' !! a = Some {| m_del := fin_del r o; m_applied := false |}).
    { intros a o Hd Ho. rewrite Ho' X' Mu' Ho bool_decide_true //. }
    (* a surviving touched object is not newly destructed *)
    assert (Hdx_live : ∀ a o, j_objs j !! a = Some o → fin_del r o = false →
              (a ∈ j_destruct (c_j cs') ↔ a ∈ j_destruct j0)).
    { intros a o Ho Hf. rewrite Hdx'. split; [|by left]. intros [?|(o2 & Ho2 & _ & Hf2)]; [done|]. congruence. }
    split.
    - (* sy_tb *) rewrite J'. by apply (tx_boundary_finalise j0).
    - (* sy_ok *)
      intros a o'. rewrite Ho'. destruct (j_objs j !! a) as [o|] eqn:Ho; [|done].
      destruct (G a o Ho) as [Ga Gk]. intros Hf. split; [done|].
      assert (Hk0 : ∀ k v, o_pending o !! k = Some v → slot_ok k) by (intros k v; by apply (HP a o)).
      case_bool_decide.
      + apply fin_obj_cases in Hf as [[_ ->]|[_ ->]].
        * intros k v. simpl. by rewrite lookup_empty.
        * intros k v. simpl. rewrite lookup_union_Some_raw. intros [Hd|[_ Hp]]; [apply Gk; by eexists|by eapply Hk0].
      + by injection Hf as <-.
    - (* sy_T *)
      destruct (sy_T _ _ _ _ _ S0) as (T & HT1 & HT2 & HT3 & HT4). exists T.
      split; [unfold cur_trie; by rewrite T' C' I4 I5|]. split; [done|]. split; [|done].
      intros a Ha Hnp.
      assert (Hnt : ¬ (a ∈ dom (j_muts j) ∧ is_Some (j_objs j !! a))).
      { intros [Hd [o Ho]]. apply Hnp. destruct (HT a o Hd Ho) as (_ & _ & Hm). eexists. split; [exact Hm|done]. }
      destruct (HU a Hnt) as (U1 & U2 & U3 & U4 & U5).
      rewrite HT3; [done| |].
      { intros (m & Hm & Hap). apply Hnp. exists m. by rewrite U4. }
      unfold CommitReopen.obj_entry. rewrite U1. fold j0. apply ocore_eq in U2.
      destruct (j_objs j !! a) as [o|], (j_objs j0 !! a) as [o0|]; try done.
      destruct U2 as (-> & _). injection U3 as _ -> _. done.
    - (* sy_mut *)
      intros a m Hm.
      destruct (decide (a ∈ dom (j_muts j) ∧ is_Some (j_objs j !! a))) as [[Hd [o Ho]]|Hnt].
      + destruct (HT a o Hd Ho) as (T1 & _ & T3). rewrite T3 in Hm. injection Hm as <-. simpl.
        split; [by apply (G a o)|]. intros _. rewrite T1. apply fin_del_obj.
      + destruct (HU a Hnt) as (U1 & U2 & U3 & U4 & U5). rewrite U4 in Hm.
        destruct (sy_mut _ _ _ _ _ S0 a m Hm) as [Ha Hiff]. split; [done|]. intros Hap. rewrite (Hiff Hap) U1.
        fold j0. apply ocore_eq in U2. destruct (j_objs j !! a), (j_objs j0 !! a); done.
    - (* sy_stor *)
      intros a o' Ho1.
      destruct (decide (a ∈ dom (j_muts j) ∧ is_Some (j_objs j !! a))) as [[Hd [o Ho]]|Hnt].
      + destruct (HT a o Hd Ho) as (T1 & T2 & T3). rewrite T1 in Ho1.
        assert (Hfd : fin_del r o = false) by (unfold fin_del; by rewrite Ho1).
        pose proof (Hdx_live a o Ho Hfd) as Hdl.
        unfold obj_trie, base. rewrite T2. unfold fin_x. rewrite Ho1.
        apply fin_obj_cases in Ho1 as [[Hams ->]|[Hams ->]]; rewrite Hams.
        * (* Amsterdam: newObject(origin) *)
          assert (Hcm : ∀ k, committed (c_j cs') a (new_object (o_origin o) <| o_data ::= (λ d, d <| a_bal := a_bal (o_data o) |>) |>) k
                             = if bool_decide (a ∈ j_destruct j0) then 0 else db_stor j0 a k).
          { intros k. unfold committed, db_stor. simpl. rewrite lookup_empty Hdb'. by rewrite (bool_decide_ext _ _ Hdl). }
          destruct (o_origin o) as [x|] eqn:Eor; simpl.
          -- assert (Hnd : a ∉ j_destruct j0).
             { pose proof (Forig a o Ho) as Hfo. rewrite Eor in Hfo. destruct (j_objs j0 !! a) as [o0|] eqn:E0'; [|done].
               simpl in Hfo. apply (sy_origin _ _ _ _ _ S0 a o0 E0'). congruence. }
             pose proof (sy_db _ _ _ _ _ S0 a) as Hdb. rewrite I1. fold j0 in Hdb.
             destruct (j_db j0 !! a) as [d|] eqn:Ed.
             ++ destruct Hdb as (r0 & S0' & Hr0 & Hop & Hh & Hrep). rewrite Hr0 /=. exists S0'.
                split; [done|]. split; [done|]. eapply stor_rep_ext; [|exact Hrep].
                intros k. rewrite lookup_empty Hcm bool_decide_false //. unfold db_stor. by rewrite Ed.
             ++ rewrite Hdb /=. exists NEmpty. split; [apply open_empty|]. split; [apply hash_empty|].
                apply stor_rep_empty. intros k. rewrite lookup_empty Hcm. case_bool_decide; [done|].
                unfold db_stor. by rewrite Ed.
          -- exists NEmpty. split; [apply open_empty|]. split; [apply hash_empty|].
             apply stor_rep_empty. intros k. rewrite lookup_empty Hcm. case_bool_decide; [done|].
             destruct (q_obj _ _ Q a o Ho) as (_ & _ & _ & _ & _ & A6). destruct (A6 Eor) as [?|Hn]; [done|].
             unfold db_stor. by rewrite Hn.
        * (* obj.finalise() *)
          simpl.
          assert (Hcm' : ∀ k, committed (c_j cs') a (obj_finalise o) k =
                    match o_dirty o !! k with Some v => v | None => committed j a o k end).
          { intros k. unfold committed, db_stor. simpl. rewrite lookup_union Hdb' -Fdb.
            rewrite (bool_decide_ext _ _ Hdl) -Fdx. by destruct (o_dirty o !! k), (o_pending o !! k). }
          destruct (j_objs j0 !! a) as [o0|] eqn:E0'.
          -- (* present at the start of the transaction *)
             assert (Hxc : xcore (ext_of cs a) = xcore (ext_of cs0 a)) by (apply X1; by rewrite E0').
             injection Hxc as Hxu Hxr Hxt.
             assert (Hpe : o_pending o = o_pending o0) by (rewrite (Fpend a o Ho) E0'; done).
             destruct (sy_stor _ _ _ _ _ S0 a o0 E0') as (S & HS1 & HS2 & HS3). exists S.
             split; [unfold obj_trie in HS1; by rewrite Hxt Hxr|]. split; [by rewrite Hxr|].
             eapply stor_rep_ext; [|exact HS3]. intros k. unfold base.
             assert (Hcj : committed j a o k = committed j0 a o0 k).
             { apply committed_eq; [done|by rewrite Fdx|done]. }
             rewrite fin_unc_lookup Hcm' Hxu. fold j.
             destruct (o_dirty o !! k) as [v|] eqn:Edk; simpl.
             ++ destruct (x_unc (ext_of cs0 a) !! k) as [orig|] eqn:Eu; simpl.
                ** destruct (orig =? v) eqn:Eov; simpl; [by apply N.eqb_eq in Eov|done].
                ** by rewrite Hcj.
             ++ destruct (x_unc (ext_of cs0 a) !! k) as [orig|] eqn:Eu; simpl; [done|]. by rewrite Hcj.
          -- (* created in this transaction *)
             assert (Hxc : xcore (ext_of cs a) = xcore fresh_ext).
             { destruct (X2 a) as [-> | ->]; [|done]. by apply (sy_absent _ _ _ _ _ S0). }
             injection Hxc as Hxu Hxr Hxt.
             assert (Hpe : o_pending o = ∅) by (rewrite (Fpend a o Ho) E0'; done).
             assert (Hz : ∀ k, committed j a o k = 0).
             { intros k. apply committed_zero; [by rewrite Hpe lookup_empty|].
               rewrite Fdx Fdb. by apply (wc_eager _ W0). }
             exists NEmpty. rewrite Hxt Hxr. split; [apply open_empty|]. split; [apply hash_empty|].
             apply stor_rep_empty. intros k. rewrite fin_unc_lookup Hcm' Hxu lookup_empty. fold j.
             destruct (o_dirty o !! k) as [v|] eqn:Edk; simpl; by rewrite Hz.
      + destruct (HU a Hnt) as (U1 & U2 & U3 & U4 & U5). rewrite U1 in Ho1. rewrite Ho1 in U2.
        apply ocore_eq in U2. fold j0 in U2. destruct (j_objs j0 !! a) as [o0|] eqn:E0'; [|done].
        destruct U2 as (_ & Hpe & _). injection U3 as Hxu Hxr Hxt.
        destruct (sy_stor _ _ _ _ _ S0 a o0 E0') as (S & HS1 & HS2 & HS3). exists S.
        split; [unfold obj_trie in *; by rewrite Hxt Hxr|]. split; [by rewrite Hxr|].
        eapply stor_rep_ext; [|exact HS3]. intros k. unfold base. rewrite Hxu.
        destruct (x_unc (ext_of cs0 a) !! k); [done|]. symmetry. by apply committed_eq.
    - (* sy_unc *)
      intros a o' Ho1.
      destruct (decide (a ∈ dom (j_muts j) ∧ is_Some (j_objs j !! a))) as [[Hd [o Ho]]|Hnt].
      + destruct (HT a o Hd Ho) as (T1 & T2 & T3). rewrite T1 in Ho1. rewrite T2. unfold fin_x. rewrite Ho1.
        assert (Hpd : pend cs' a) by (eexists; split; [exact T3|done]).
        split; [|done].
        apply fin_obj_cases in Ho1 as [[Hams ->]|[Hams ->]]; rewrite Hams.
        * intros k orig. destruct (o_origin o); simpl; by rewrite lookup_empty.
        * intros k orig. simpl. rewrite fin_unc_lookup lookup_union. fold j.
          destruct (o_dirty o !! k) as [v|] eqn:Edk; simpl.
          { intros _. destruct (o_pending o !! k); by eexists. }
          intros Hu. rewrite left_id.
          destruct (j_objs j0 !! a) as [o0|] eqn:E0'.
          -- assert (Hxc : xcore (ext_of cs a) = xcore (ext_of cs0 a)) by (apply X1; by rewrite E0').
             injection Hxc as Hxu _ _. rewrite Hxu in Hu. simpl in Hu.
             destruct (sy_unc _ _ _ _ _ S0 a o0 E0') as [Hk _]. rewrite (Fpend a o Ho) E0' /=. by eapply Hk.
          -- assert (Hxc : xcore (ext_of cs a) = xcore fresh_ext).
             { destruct (X2 a) as [-> | ->]; [|done]. by apply (sy_absent _ _ _ _ _ S0). }
             injection Hxc as Hxu _ _. rewrite Hxu lookup_empty in Hu. done.
      + destruct (HU a Hnt) as (U1 & U2 & U3 & U4 & U5). rewrite U1 in Ho1. rewrite Ho1 in U2.
        apply ocore_eq in U2. fold j0 in U2. destruct (j_objs j0 !! a) as [o0|] eqn:E0'; [|done].
        destruct U2 as (_ & Hpe & _). injection U3 as Hxu Hxr Hxt.
        destruct (sy_unc _ _ _ _ _ S0 a o0 E0') as [Hk Hp]. rewrite Hxu Hpe. split; [done|].
        intros Hne. destruct (Hp Hne) as (m & Hm & Hap). exists m. by rewrite U4.
    - (* sy_xtrie *)
      intros a o' S Ho1 Hxt.
      destruct (decide (a ∈ dom (j_muts j) ∧ is_Some (j_objs j !! a))) as [[Hd [o Ho]]|Hnt].
      + destruct (HT a o Hd Ho) as (T1 & T2 & T3). rewrite T1 in Ho1. eexists. split; [exact T3|].
        simpl. unfold fin_del. by rewrite Ho1.
      + destruct (HU a Hnt) as (U1 & U2 & U3 & U4 & U5). rewrite U1 in Ho1. rewrite Ho1 in U2.
        apply ocore_eq in U2. fold j0 in U2. destruct (j_objs j0 !! a) as [o0|] eqn:E0'; [|done].
        injection U3 as _ _ Hxt'. rewrite Hxt' in Hxt. rewrite U4. by apply (sy_xtrie _ _ _ _ _ S0 a o0 S).
    - (* sy_absent *)
      intros a Hn.
      destruct (decide (a ∈ dom (j_muts j) ∧ is_Some (j_objs j !! a))) as [[Hd [o Ho]]|Hnt].
      + destruct (HT a o Hd Ho) as (T1 & T2 & T3). rewrite T1 in Hn. rewrite T2. unfold fin_x. by rewrite Hn.
      + destruct (HU a Hnt) as (U1 & U2 & U3 & U4 & U5). rewrite U1 in Hn. rewrite Hn in U2. rewrite U3.
        apply ocore_eq in U2. apply (sy_absent _ _ _ _ _ S0). fold j0. by destruct (j_objs j0 !! a).
    - (* sy_db *)
      intros a. rewrite Hdb' R' I1. apply (sy_db _ _ _ _ _ S0).
    - (* sy_origin *)
      intros a o' Ho1 Hor.
      assert (Hsome : ∃ o, j_objs j !! a = Some o ∧ o_origin o' = o_origin o ∧
                            (a ∈ j_destruct (c_j cs') ↔ a ∈ j_destruct j0)).
      { destruct (decide (a ∈ dom (j_muts j) ∧ is_Some (j_objs j !! a))) as [[Hd [o Ho]]|Hnt].
        - destruct (HT a o Hd Ho) as (T1 & _ & _). rewrite T1 in Ho1. exists o. split; [done|].
          split; [by apply fin_obj_shape in Ho1 as [_ ?]|]. apply (Hdx_live a o Ho). unfold fin_del. by rewrite Ho1.
        - destruct (HU a Hnt) as (U1 & _ & _ & _ & U5). rewrite U1 in Ho1. by exists o'. }
      destruct Hsome as (o & Ho & Heq & Hdl). rewrite Hdl. rewrite Heq (Forig a o Ho) in Hor.
      destruct (j_objs j0 !! a) as [o0|] eqn:E0'; [|done]. by apply (sy_origin _ _ _ _ _ S0 a o0).
  Qed.
End Tx.
