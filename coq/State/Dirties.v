(* State/Dirties.v — dirties_exact: journal.mutations counts exactly the live journal
   entries (plus the RIPEMD-160 markers), in every reachable state.  The invariant
   [canon] is preserved by each primitive that changes journal.entries / mutations:
   append (with stash), ripemdMagic, one step of revert, reset. *)
From Coq Require Import ssreflect.
From stdpp Require Import gmap.
From Coq Require Import NArith ZArith Lia.
From RecordUpdate Require Import RecordSet.
Import RecordSetNotations.
From GV Require Import State.Ref State.Journal State.JournalProofs State.Refine.
Local Open Scope N_scope.

Definition mentions (a : addr) (k : kind) (e : jentry) : bool := bool_decide (mutation e = Some (a, k)).
Definition ecount (a : addr) (k : kind) (es : list jentry) : Z :=
  Z.of_nat (length (filter (λ e, mentions a k e = true) es)).
Definition is_mark (a : addr) (k : kind) : bool := bool_decide (a = ripemd) && bool_decide (k = KTouch).

(* n = number of RIPEMD-160 markers added in this transaction *)
Definition canon (j : jstate) (n : Z) : Prop :=
  (0 ≤ n)%Z ∧
  (∀ a k, count k (mstate_for a j) = (ecount a k (j_entries j) + (if is_mark a k then n else 0))%Z) ∧
  (∀ a m, j_muts j !! a = Some m → counts_zero m = false).

Lemma ecount_cons a k e es :
  ecount a k (e :: es) = ((if mentions a k e then 1 else 0) + ecount a k es)%Z.
Proof.
  unfold ecount. destruct (mentions a k e) eqn:E.
  - rewrite filter_cons_True //. simpl. lia.
  - rewrite filter_cons_False; [by rewrite E|]. lia.
Qed.
Lemma ecount_nonneg a k es : (0 ≤ ecount a k es)%Z.
Proof. unfold ecount. lia. Qed.

Lemma count_add k k' m : count k' (m_add k m) = (count k' m + (if bool_decide (k' = k) then 1 else 0))%Z.
Proof. unfold m_add. destruct m, k, k'; rs; try lia. Qed.
Lemma count_stash k k' v m : count k' (stash_k k v m) = count k' m.
Proof. unfold stash_k. destruct m as [? ? ? ? ? ? ? sb sn sc], k, k'; rs; try done; try destruct sb; try destruct sn; try destruct sc; done. Qed.
Lemma count_zero_iff m : counts_zero m = true ↔ ∀ k, count k m = 0%Z.
Proof.
  rewrite counts_zero_true. split.
  - intros (?&?&?&?&?&?&?) k. by destruct k.
  - intros H. split_and!; [apply (H KTouch)|apply (H KCreate)|apply (H KSelfDestruct)|apply (H KBalance)|
      apply (H KNonce)|apply (H KCode)|apply (H KStorage)].
Qed.

Lemma mentions_inj a k a' k' e : mentions a k e = true → mentions a' k' e = true → a = a' ∧ k = k'.
Proof. unfold mentions. rewrite !bool_decide_eq_true. intros -> [= -> ->]. done. Qed.

(* append (after the stash of the same kind) *)
Lemma canon_upd j n a e k v (j' : jstate) :
  canon j n → mutation e = Some (a, k) →
  j_entries j' = e :: j_entries j →
  j_muts j' = <[a := m_add k (stash_k k v (mstate_for a j))]> (j_muts j) →
  canon j' n.
Proof.
  intros (Hn & Hc & Hz) Hm He HM. split; [done|]. split.
  - intros b k'. unfold mstate_for. rewrite HM He ecount_cons.
    destruct (decide (b = a)) as [->|Hne].
    + rewrite lookup_insert. simpl. rewrite count_add count_stash Hc.
      unfold mentions. rewrite Hm. repeat case_bool_decide; simplify_eq; lia.
    + rewrite lookup_insert_ne //. fold (mstate_for b j). rewrite Hc.
      unfold mentions. rewrite Hm. repeat case_bool_decide; simplify_eq; lia.
  - intros b m. rewrite HM. destruct (decide (b = a)) as [->|Hne].
    + rewrite lookup_insert. intros [= <-]. apply not_true_iff_false. rewrite count_zero_iff.
      intros H. specialize (H k). rewrite count_add count_stash Hc bool_decide_true // in H.
      pose proof (ecount_nonneg a k (j_entries j)). destruct (is_mark a k); lia.
    + rewrite lookup_insert_ne //. apply Hz.
Qed.

(* an entry without tracked mutation *)
Lemma canon_nomut j n e (j' : jstate) :
  canon j n → mutation e = None → j_entries j' = e :: j_entries j → j_muts j' = j_muts j → canon j' n.
Proof.
  intros (Hn & Hc & Hz) Hm He HM. split; [done|]. split.
  - intros b k. unfold mstate_for. rewrite HM He ecount_cons. fold (mstate_for b j). rewrite Hc.
    unfold mentions. rewrite Hm. case_bool_decide; [done|lia].
  - intros b m. rewrite HM. apply Hz.
Qed.

Lemma canon_same j n (j' : jstate) :
  canon j n → j_entries j' = j_entries j → j_muts j' = j_muts j → canon j' n.
Proof.
  intros (Hn & Hc & Hz) He HM. split; [done|]. split.
  - intros b k. unfold mstate_for. rewrite HM He. apply Hc.
  - intros b m. rewrite HM. apply Hz.
Qed.

(* journal.ripemdMagic *)
Lemma canon_magic j n : canon j n → canon (ripemd_magic j) (n + 1).
Proof.
  intros (Hn & Hc & Hz).
  assert (HM : j_muts (ripemd_magic j) = <[ripemd := m_add KTouch (mstate_for ripemd j)]> (j_muts j) ∧
               j_entries (ripemd_magic j) = j_entries j) by (by destruct j).
  destruct HM as [HM He]. split; [lia|]. split.
  - intros b k. unfold mstate_for. rewrite HM He. unfold is_mark.
    destruct (decide (b = ripemd)) as [->|Hne].
    + rewrite lookup_insert. simpl. rewrite count_add Hc. unfold is_mark. rewrite bool_decide_true //. simpl.
      repeat case_bool_decide; simplify_eq; simpl; lia.
    + rewrite lookup_insert_ne //. fold (mstate_for b j). rewrite Hc. unfold is_mark.
      repeat case_bool_decide; simplify_eq; simpl; lia.
  - intros b m. rewrite HM. destruct (decide (b = ripemd)) as [->|Hne].
    + rewrite lookup_insert. intros [= <-]. apply not_true_iff_false. rewrite count_zero_iff.
      intros H. specialize (H KTouch). rewrite count_add Hc bool_decide_true // in H.
      pose proof (ecount_nonneg ripemd KTouch (j_entries j)). destruct (is_mark ripemd KTouch); lia.
    + rewrite lookup_insert_ne //. apply Hz.
Qed.

Lemma count_clear k k' m : count k' (clear_kind k m) = count k' m.
Proof. destruct m, k, k'; done. Qed.
Lemma count_remove k k' m :
  count k' (m_remove k m).1 = (count k' m - (if bool_decide (k' = k) then 1 else 0))%Z ∧
  (m_remove k m).2 = counts_zero (m_remove k m).1.
Proof.
  unfold m_remove. simpl. split; [|done].
  case_bool_decide; rewrite ?count_clear; destruct m, k, k'; rs; lia.
Qed.

(* one step of journal.revert *)
Lemma canon_undo1 j n : canon j n → canon (undo1 j) n ∧ (j_bad j = false → j_bad (undo1 j) = j_bad (match j_entries j with e :: _ => revert_entry e j | [] => j end)).
Proof.
  intros (Hn & Hc & Hz). unfold undo1. destruct (j_entries j) as [|e rest] eqn:He.
  { split; [|done]. split; [done|]. split; [|done]. intros a k. rewrite He. apply Hc. }
  pose proof (revert_entry_muts e j) as HM. pose proof (revert_entry_entries e j) as HE.
  unfold unmutate. destruct (mutation e) as [[a k]|] eqn:Hm.
  - assert (Hcnt : count k (mstate_for a j) = (1 + ecount a k rest + (if is_mark a k then n else 0))%Z).
    { rewrite Hc ecount_cons. unfold mentions. rewrite Hm bool_decide_true //. }
    rewrite HM. unfold mstate_for in Hcnt. destruct (j_muts j !! a) as [m|] eqn:Ea; simpl in Hcnt.
    2:{ pose proof (ecount_nonneg a k rest). replace (count k mstate0) with 0%Z in Hcnt by (by destruct k).
        destruct (is_mark a k); lia. }
    destruct (count_remove k k m) as [_ Hg]. destruct (m_remove k m) as [m' gone] eqn:Er. simpl in Hg. subst gone.
    assert (Hcm : ∀ k', count k' m' = (count k' m - (if bool_decide (k' = k) then 1 else 0))%Z).
    { intros k'. destruct (count_remove k k' m) as [H _]. by rewrite Er in H. }
    assert (Hcb : ∀ b k', count k' (mstate_for b j) = (ecount b k' (e :: rest) + (if is_mark b k' then n else 0))%Z)
      by (intros b k'; apply Hc).
    destruct (counts_zero m') eqn:Egone.
    + set (X := revert_entry e j <| j_muts ::= delete a |> <| j_entries := rest |>).
      assert (HX : j_muts X = delete a (j_muts j) ∧ j_entries X = rest ∧ j_bad X = j_bad (revert_entry e j))
        by (subst X; rewrite -HM; by destruct (revert_entry e j)).
      destruct HX as (HX1 & HX2 & HX3). split; [|done].
      split; [done|]. split.
      * intros b k'. unfold mstate_for. rewrite HX1 HX2.
        specialize (Hcb b k'). rewrite ecount_cons in Hcb. unfold mentions in Hcb. rewrite Hm in Hcb.
        destruct (decide (b = a)) as [->|Hne].
        -- rewrite lookup_delete. simpl. unfold mstate_for in Hcb. rewrite Ea in Hcb. simpl in Hcb.
           apply count_zero_iff with (k := k') in Egone. rewrite Hcm in Egone.
           replace (count k' mstate0) with 0%Z by (by destruct k').
           repeat case_bool_decide; simplify_eq; lia.
        -- rewrite lookup_delete_ne //. unfold mstate_for in Hcb. rewrite Hcb.
           case_bool_decide; simplify_eq; lia.
      * intros b m0. rewrite HX1.
        destruct (decide (b = a)) as [->|Hne]; [by rewrite lookup_delete|rewrite lookup_delete_ne //]. apply Hz.
    + set (X := revert_entry e j <| j_muts ::= <[a:=m']> |> <| j_entries := rest |>).
      assert (HX : j_muts X = <[a:=m']> (j_muts j) ∧ j_entries X = rest ∧ j_bad X = j_bad (revert_entry e j))
        by (subst X; rewrite -HM; by destruct (revert_entry e j)).
      destruct HX as (HX1 & HX2 & HX3). split; [|done].
      split; [done|]. split.
      * intros b k'. unfold mstate_for. rewrite HX1 HX2.
        specialize (Hcb b k'). rewrite ecount_cons in Hcb. unfold mentions in Hcb. rewrite Hm in Hcb.
        destruct (decide (b = a)) as [->|Hne].
        -- rewrite lookup_insert. simpl. unfold mstate_for in Hcb. rewrite Ea in Hcb. simpl in Hcb.
           rewrite Hcm. repeat case_bool_decide; simplify_eq; lia.
        -- rewrite lookup_insert_ne //. unfold mstate_for in Hcb. rewrite Hcb.
           case_bool_decide; simplify_eq; lia.
      * intros b m0. rewrite HX1.
        destruct (decide (b = a)) as [->|Hne]; [rewrite lookup_insert; by intros [= <-]|rewrite lookup_insert_ne //]. apply Hz.
  - set (X := revert_entry e j <| j_entries := rest |>).
    assert (HX : j_muts X = j_muts j ∧ j_entries X = rest ∧ j_bad X = j_bad (revert_entry e j))
      by (subst X; rewrite -HM; by destruct (revert_entry e j)).
    destruct HX as (HX1 & HX2 & HX3). split; [|done].
    split; [done|]. split.
    + intros b k'. unfold mstate_for. rewrite HX1 HX2. fold (mstate_for b j).
      rewrite Hc ecount_cons. unfold mentions. rewrite Hm. case_bool_decide; [done|lia].
    + intros b m0. rewrite HX1. apply Hz.
Qed.

Lemma canon_revert_n k : ∀ j n, canon j n → canon (revert_n k j) n.
Proof.
  induction k as [|k IH]; intros j n H; [done|]. rewrite revert_n_S.
  destruct (j_entries j) eqn:E; [done|]. apply IH. by apply canon_undo1.
Qed.

Lemma canon_jupd j n a e k v o' : canon j n → mutation e = Some (a, k) → canon (jupd a e k v o' j) n.
Proof.
  intros H Hm. destruct (jupd_proj a e k v o' j) as (P1&P2&P3&P4&P5&_). by eapply canon_upd.
Qed.

Lemma canon_append_nomut j n e : canon j n → mutation e = None → canon (j_append e j) n.
Proof. intros H Hm. rewrite j_append_nomut //. eapply canon_nomut; try done; by destruct j. Qed.

Lemma canon_gon j n a : canon j n → canon (get_or_new_j a j).1 n.
Proof.
  intros H. unfold get_or_new_j. destruct (j_objs j !! a); [done|]. simpl.
  rewrite create_object_upd. by apply canon_jupd.
Qed.

Lemma canon_touch j n a : canon j n → ∃ n', canon (touch_change a j) n'.
Proof.
  intros H. unfold touch_change.
  assert (H1 : canon (j_append (JTouch a) j) n).
  { eapply (canon_upd j n a (JTouch a) KTouch 0); try done; by destruct j. }
  case_bool_decide; [exists (n + 1)%Z; by apply canon_magic|by exists n].
Qed.

(* every API call preserves the counting invariant (no guard needed) *)
Theorem canon_step j n o : canon j n → ∃ n', canon (step_j j o).1 n'.
Proof.
  intros H. destruct o; simpl step_j.
  - exists n. simpl. rewrite create_object_upd. by apply canon_jupd.
  - destruct (j_objs j !! a) as [o|]; [|by exists n]. destruct (o_new o); [by exists n|].
    exists n. simpl. apply (canon_append_nomut _ n); [|done]. eapply (canon_same j n); try done; by destruct j.
  - pose proof (canon_gon j n a H) as H1. destruct (get_or_new_j a j) as [j1 o]. simpl in H1.
    destruct (v =? 0); simpl.
    + destruct (obj_empty o); [by eapply canon_touch|by exists n].
    + exists n. rewrite set_balance_upd. by apply canon_jupd.
  - pose proof (canon_gon j n a H) as H1. destruct (get_or_new_j a j) as [j1 o]. simpl in H1.
    destruct (v =? 0); simpl; [by exists n|]. exists n. rewrite set_balance_upd. by apply canon_jupd.
  - pose proof (canon_gon j n a H) as H1. destruct (get_or_new_j a j) as [j1 o]. simpl in H1.
    exists n. simpl. rewrite set_balance_upd. by apply canon_jupd.
  - pose proof (canon_gon j n a H) as H1. destruct (get_or_new_j a j) as [j1 o]. simpl in H1.
    exists n. simpl. rewrite set_nonce_upd. by apply canon_jupd.
  - pose proof (canon_gon j n a H) as H1. destruct (get_or_new_j a j) as [j1 o]. simpl in H1.
    exists n. simpl. rewrite set_code_upd. by apply canon_jupd.
  - pose proof (canon_gon j n a H) as H1. destruct (get_or_new_j a j) as [j1 o]. simpl in H1.
    destruct (get_state j1 a o k =? v); simpl; [by exists n|]. exists n. rewrite set_state_upd. by apply canon_jupd.
  - destruct (default 0 (j_tstor j !! (a, k)) =? v); simpl; [by exists n|]. exists n.
    eapply canon_same; [by apply (canon_append_nomut j n (JTransient a k (default 0 (j_tstor j !! (a, k)))))| |];
      by destruct (j_append _ j).
  - destruct (j_objs j !! a) as [o|]; [|by exists n]. destruct (o_sd o); [by exists n|].
    exists n. simpl. rewrite self_destruct_upd. by apply canon_jupd.
  - destruct (j_objs j !! a) as [o|]; [|by exists n]. destruct (o_new o && negb (o_sd o)); [|by exists n].
    exists n. simpl. rewrite self_destruct_upd. by apply canon_jupd.
  - destruct (al_add_address_proj a j) as (P1&P2&P3&P4&P5&P6&P7&P8&P9&P10&P11&P12&P13&_).
    destruct (al_add_address a j) as [j1 ch]. simpl in *. exists n.
    assert (H1 : canon j1 n) by (by eapply canon_same).
    destruct ch; simpl; [by apply canon_append_nomut|done].
  - destruct (al_add_slot_proj a k j) as (P4&P5&P6&P7&P9&P10&P11&P12&P13&_).
    destruct (al_add_slot a k j) as [[j1 am] sm]. simpl in *. exists n.
    assert (H1 : canon j1 n) by (by eapply canon_same).
    destruct am, sm; simpl; repeat apply canon_append_nomut; done.
  - exists n. simpl. eapply canon_same; [by apply (canon_append_nomut j n (JRefund (j_refund j)))| |];
      by destruct (j_append _ j).
  - exists n. destruct (j_refund j <? g); simpl; [by apply canon_append_nomut|].
    eapply canon_same; [by apply (canon_append_nomut j n (JRefund (j_refund j)))| |]; by destruct (j_append _ j).
  - exists n. simpl. eapply canon_same; [by apply (canon_append_nomut j n (JAddLog (j_th j)))| |];
      by destruct (j_append _ j).
  - exists n. simpl. eapply canon_same; try done; by destruct j.
  - destruct (find_revision id (j_revs j)) as [[idx rest]|]; [|by exists n]. exists n. simpl.
    eapply canon_same; [by apply (canon_revert_n (length (j_entries j) - idx) j n)| |];
      unfold revert_to; by destruct (revert_n _ j).
  - exists 0%Z. simpl. unfold finalise, clear_internal. split; [done|]. split.
    + intros a k. unfold mstate_for. destruct j; rj; simpl. rewrite lookup_empty. unfold ecount. simpl.
      destruct (is_mark a k), k; done.
    + intros a m. destruct j; rj; simpl. by rewrite lookup_empty.
  - exists n. simpl. eapply canon_same; [exact H| |].
    + destruct (r2929 r); [|by destruct j].
      destruct (prepare_spec r sender coinbase dst al (j <| j_th := th |> <| j_ti := ti |>)) as (_ & _ & F).
      destruct F as (F1&F2&F3&F4&F5&F6&F7&F8&F9&F10&_).
      replace (j_entries _) with (j_entries (prepare_al r sender coinbase dst al (j <| j_th := th |> <| j_ti := ti |>)))
        by (by destruct (prepare_al r sender coinbase dst al (j <| j_th := th |> <| j_ti := ti |>))).
      rewrite F10. by destruct j.
    + destruct (r2929 r); [|by destruct j].
      destruct (prepare_spec r sender coinbase dst al (j <| j_th := th |> <| j_ti := ti |>)) as (_ & _ & F).
      destruct F as (F1&F2&_).
      replace (j_muts _) with (j_muts (prepare_al r sender coinbase dst al (j <| j_th := th |> <| j_ti := ti |>)))
        by (by destruct (prepare_al r sender coinbase dst al (j <| j_th := th |> <| j_ti := ti |>))).
      rewrite F2. by destruct j.
Qed.

Lemma canon_init db : canon (init_j db) 0.
Proof.
  split; [done|]. split; [|intros a m; by rewrite lookup_empty].
  intros a k. unfold mstate_for. simpl. rewrite lookup_empty. simpl. destruct (is_mark a k), k; done.
Qed.

Lemma canon_run ops : ∀ j n, canon j n → ∃ n', canon (run_j j ops) n'.
Proof.
  induction ops as [|o rest IH]; intros j n H; [by exists n|].
  destruct (canon_step j n o H) as [n1 H1]. simpl. by eapply IH.
Qed.

Lemma ecount_pos a k es : (0 < ecount a k es)%Z ↔ ∃ e, e ∈ es ∧ mutation e = Some (a, k).
Proof.
  unfold ecount. split.
  - intros H. destruct (filter (λ e, mentions a k e = true) es) as [|e l] eqn:E; [simpl in H; lia|].
    assert (He : e ∈ filter (λ e, mentions a k e = true) es) by (rewrite E; left).
    apply elem_of_list_filter in He as [He1 He2]. exists e. split; [done|]. by apply bool_decide_eq_true in He1.
  - intros (e & He & Hm).
    assert (Hf : e ∈ filter (λ e, mentions a k e = true) es).
    { apply elem_of_list_filter. split; [|done]. by apply bool_decide_eq_true. }
    destruct (filter (λ e, mentions a k e = true) es); [by apply elem_of_nil in Hf|]. simpl. lia.
Qed.

(* an address is a key of journal.mutations iff some live journal entry mentions it, or
   it is RIPEMD-160 and a marker was added in this transaction *)
Lemma canon_dom j n : canon j n →
  ∀ a, a ∈ dom (j_muts j) ↔ (∃ e k, e ∈ j_entries j ∧ mutation e = Some (a, k)) ∨ (a = ripemd ∧ (0 < n)%Z).
Proof.
  intros (Hn & Hc & Hz) a. rewrite elem_of_dom. split.
  - intros [m Hm]. pose proof (Hz a m Hm) as Hnz. apply not_true_iff_false in Hnz.
    rewrite count_zero_iff in Hnz.
    assert (∃ k, count k m ≠ 0%Z) as [k Hk].
    { destruct (decide (count KTouch m = 0%Z)); [|by exists KTouch].
      destruct (decide (count KCreate m = 0%Z)); [|by exists KCreate].
      destruct (decide (count KSelfDestruct m = 0%Z)); [|by exists KSelfDestruct].
      destruct (decide (count KBalance m = 0%Z)); [|by exists KBalance].
      destruct (decide (count KNonce m = 0%Z)); [|by exists KNonce].
      destruct (decide (count KCode m = 0%Z)); [|by exists KCode].
      destruct (decide (count KStorage m = 0%Z)); [|by exists KStorage].
      exfalso. apply Hnz. by intros []. }
    specialize (Hc a k). unfold mstate_for in Hc. rewrite Hm in Hc. simpl in Hc.
    pose proof (ecount_nonneg a k (j_entries j)).
    destruct (decide (0 < ecount a k (j_entries j))%Z) as [Hp|Hp].
    + left. apply ecount_pos in Hp as (e & He & Hme). by exists e, k.
    + right. unfold is_mark in Hc. destruct (bool_decide (a = ripemd)) eqn:Ea; simpl in Hc; [|lia].
      apply bool_decide_eq_true in Ea. split; [done|]. destruct (bool_decide (k = KTouch)); lia.
  - intros [(e & k & He & Hm)|[-> Hp]].
    + assert (Hp : (0 < ecount a k (j_entries j))%Z) by (apply ecount_pos; by exists e).
      specialize (Hc a k). unfold mstate_for in Hc. destruct (j_muts j !! a) as [m|]; [by exists m|].
      simpl in Hc. replace (count k mstate0) with 0%Z in Hc by (by destruct k). destruct (is_mark a k); lia.
    + specialize (Hc ripemd KTouch). unfold mstate_for, is_mark in Hc. rewrite !bool_decide_true // in Hc.
      destruct (j_muts j !! ripemd) as [m|]; [by exists m|]. simpl in Hc.
      pose proof (ecount_nonneg ripemd KTouch (j_entries j)). lia.
Qed.

Theorem dirties_exact db ops :
  ∃ n : Z, (0 ≤ n)%Z ∧ ∀ a,
    a ∈ dom (j_muts (run_j (init_j db) ops)) ↔
    (∃ e k, e ∈ j_entries (run_j (init_j db) ops) ∧ mutation e = Some (a, k)) ∨ (a = ripemd ∧ (0 < n)%Z).
Proof.
  destruct (canon_run ops _ _ (canon_init db)) as [n H]. exists n. split; [apply H|]. by apply canon_dom.
Qed.

(* and the counts themselves *)
Theorem counts_exact db ops :
  ∃ n : Z, (0 ≤ n)%Z ∧ ∀ a k,
    count k (mstate_for a (run_j (init_j db) ops))
    = (ecount a k (j_entries (run_j (init_j db) ops)) + (if is_mark a k then n else 0))%Z.
Proof. destruct (canon_run ops _ _ (canon_init db)) as [n H]. exists n. split; apply H. Qed.
