(* State/BalBlockProofs.v — the block level: for every sequence of steps (transactions and
   pre/post-execution system calls; each = SetTxContext and Prepare in either order, any body,
   Finalise) the Merge of the lists returned by Finalise — built as core/state_processor.go
   builds it: blockAccessList.Merge(ret) after every step — records per account and slot exactly
   the per-step net changes.  Induction over the step list with the per-transaction theorem
   (BalProofs.bal_net_changes_tx, generalised here to [tx_from]) and tx_boundary_finalise. *)
From Coq Require Import ssreflect.
From stdpp Require Import gmap sorting.
From Coq Require Import NArith ZArith Lia.
From RecordUpdate Require Import RecordSet.
Import RecordSetNotations.
From GV Require Import State.Ref State.Journal State.JournalProofs State.BalEnc State.Bal State.BalProofs State.BalValidProofs.
Local Open Scope N_scope.

(* ------------------------------------------------------------------ *)
(* one step, from any state whose list is open and empty *)
Lemma tx_from s0 b1 idx r body :
  tx_boundary s0 → rAms r = true →
  core_eq (b_j b1) s0 → b_acc b1 = Some ∅ → b_idx b1 = idx →
  body_ok b1 body →
  let b2 := run_b b1 body in
  (∀ a, fin_guard s0 (b_j b2) r a) →
  let b3 := (step_b b2 (BOp (OFinalise r))).1 in
  ∃ R, (step_b b2 (BOp (OFinalise r))).2 = BFin (Some R) ∧ tx_boundary (b_j b3) ∧
  ∀ a,
    let pre := pre_data s0 a in let post := pre_data (b_j b3) a in
    obal (R !! a) = upd_set idx (a_bal post) (a_bal pre)
    ∧ ononce (R !! a) = upd_set idx (a_nonce post) (a_nonce pre)
    ∧ ocode (R !! a) = upd_set idx (a_code post) (a_code pre)
    ∧ ∀ k, owrites (R !! a) !! k = st_write idx (view_state (b_j b3) a k) (view_state s0 a k)
           ∧ (k ∈ oreads (R !! a) ↔ (a, k) ∈ touched b1 body ∧ view_state (b_j b3) a k = view_state s0 a k).
Proof.
  intros T Hr Hc Ha Hi Hb b2 G b3.
  destruct (stash_invariant s0 b1 body T Hc Hb) as [Hq W]. fold b2 in Hq, W.
  assert (R0 : reads_only ∅).
  { intros a. by rewrite lookup_empty. }
  destruct (run_b_reads b1 body ∅ Hb Ha R0) as (L & HL & [RL RT] & HI). fold b2 in HL, HI.
  exists (fin_bal r idx (b_j b2) L).
  assert (E : step_b b2 (BOp (OFinalise r)) =
              (b2 <| b_j := finalise r (b_j b2) |> <| b_acc := None |>, BFin (Some (fin_bal r idx (b_j b2) L)))).
  { simpl. rewrite Hr HL HI Hi. done. }
  subst b3. rewrite E. split; [done|].
  replace (b_j (b2 <| b_j := finalise r (b_j b2) |> <| b_acc := None |>, BFin (Some (fin_bal r idx (b_j b2) L))).1)
    with (finalise r (b_j b2)) by (by destruct b2).
  split; [by eapply tx_boundary_finalise|].
  intros a pre post. destruct (RL a) as (L1 & L2 & L3 & L4).
  destruct (net_fields_all s0 (b_j b2) r idx L a Hq Hr) as (F1 & F2 & F3); try done.
  { intros o Ho Hm. by apply (fin_guard_sd s0 (b_j b2) r a o (G a) Ho Hm). }
  split; [exact F1|]. split; [exact F2|]. split; [exact F3|].
  intros k. destruct (net_storage_all s0 (b_j b2) r idx L a k T Hq W Hr (G a) L1) as [S1 S2].
  split; [exact S1|]. rewrite S2 RT. rewrite lookup_empty. set_solver.
Qed.

(* ------------------------------------------------------------------ *)
(* steps and blocks *)
Record txd := {
  t_sys : bool;            (* system call: Prepare is called before SetTxContext (state_processor.go) *)
  t_th : N; t_ti : N; t_idx : N;                       (* SetTxContext(thash, ti, blockAccessIndex) *)
  t_r : rules; t_s : addr; t_c : addr; t_d : option addr; t_l : list (addr * list slot);  (* Prepare *)
  t_body : list bop
}.

Definition tx_prefix (t : txd) : list bop :=
  if t_sys t
  then [BPrepare (t_r t) (t_s t) (t_c t) (t_d t) (t_l t); BSetTx (t_th t) (t_ti t) (t_idx t)]
  else [BSetTx (t_th t) (t_ti t) (t_idx t); BPrepare (t_r t) (t_s t) (t_c t) (t_d t) (t_l t)].

Definition tx_open (b : bstate) (t : txd) : bstate := run_b b (tx_prefix t).
Definition tx_body_end (b : bstate) (t : txd) : bstate := run_b (tx_open b t) (t_body t).
Definition run_tx_def (b : bstate) (t : txd) : bstate * option cbal :=
  let '(b3, w) := step_b (tx_body_end b t) (BOp (OFinalise (t_r t))) in
  (b3, match w with BFin ret => ret | _ => None end).
(* sealed: the block-level statements mention [run_tx] only through [run_tx_eq], which keeps
   the kernel from normalising whole transactions during conversion *)
Definition run_tx_aux : seal run_tx_def. Proof. by eexists. Qed.
Definition run_tx := unseal run_tx_aux.
Lemma run_tx_eq : run_tx = run_tx_def.
Proof. apply (seal_eq run_tx_aux). Qed.

(* "blockAccessList.Merge(ret)" after every step (Merge(nil) is a no-op) *)
Fixpoint run_block (b : bstate) (M : cbal) (ts : list txd) : bstate * cbal :=
  match ts with
  | [] => (b, M)
  | t :: rest =>
      let '(b3, ret) := run_tx b t in
      run_block b3 (match ret with Some R => cbal_merge M R | None => M end) rest
  end.

(* the guards, at every step *)
Fixpoint block_ok (b : bstate) (ts : list txd) : Prop :=
  match ts with
  | [] => True
  | t :: rest =>
      rAms (t_r t) = true ∧ body_ok (tx_open b t) (t_body t)
      ∧ (∀ a, fin_guard (b_j b) (b_j (tx_body_end b t)) (t_r t) a)
      ∧ block_ok (run_tx b t).1 rest
  end.

(* the specification: what each step contributes, in terms of the getters before and after it,
   combined "later step wins per index" *)
Fixpoint spec_field (f : acct → N) (a : addr) (b : bstate) (ts : list txd) (acc : gmap N N) : gmap N N :=
  match ts with
  | [] => acc
  | t :: rest =>
      let b3 := (run_tx b t).1 in
      spec_field f a b3 rest (upd_set (t_idx t) (f (pre_data (b_j b3) a)) (f (pre_data (b_j b) a)) ∪ acc)
  end.

Definition w_union (new old : option (gmap N word)) : option (gmap N word) :=
  union_with (λ w ex, Some (w ∪ ex)) new old.

Fixpoint spec_writes (a : addr) (k : slot) (b : bstate) (ts : list txd) (acc : option (gmap N word))
  : option (gmap N word) :=
  match ts with
  | [] => acc
  | t :: rest =>
      let b3 := (run_tx b t).1 in
      spec_writes a k b3 rest (w_union (st_write (t_idx t) (view_state (b_j b3) a k) (view_state (b_j b) a k)) acc)
  end.

(* some step passed (a,k) to GetCommittedState and left the slot unchanged *)
Fixpoint some_read (a : addr) (k : slot) (b : bstate) (ts : list txd) : Prop :=
  match ts with
  | [] => False
  | t :: rest =>
      let b3 := (run_tx b t).1 in
      ((a, k) ∈ touched (tx_open b t) (t_body t) ∧ view_state (b_j b3) a k = view_state (b_j b) a k)
      ∨ some_read a k b3 rest
  end.

(* ------------------------------------------------------------------ *)
Lemma prefix_facts b t :
  rAms (t_r t) = true →
  core_eq (b_j (tx_open b t)) (b_j b) ∧ b_acc (tx_open b t) = Some ∅ ∧ b_idx (tx_open b t) = t_idx t.
Proof.
  intros Hr. unfold tx_open, tx_prefix. destruct b as [j0 acc0 idx0]. destruct (t_sys t); unfold run_b; simpl; rewrite Hr.
  - split; [|done].
    pose proof (tx_start_core j0 (j_th j0) (j_ti j0) (t_r t) (t_s t) (t_c t) (t_d t) (t_l t)) as H. simpl in H.
    eapply core_eq_trans; [|exact H].
    match goal with |- core_eq (?x <| j_th := _ |> <| j_ti := _ |>) _ => by destruct x end.
  - split; [|done].
    pose proof (tx_start_core (j0 <| j_th := t_th t |> <| j_ti := t_ti t |>) (t_th t) (t_ti t) (t_r t) (t_s t) (t_c t) (t_d t) (t_l t)) as H.
    simpl in H. eapply core_eq_trans; [exact H|]. by destruct j0.
Qed.

Definition odisj (oc : option caccess) : Prop := ∀ k, k ∈ oreads oc → owrites oc !! k = None.

Lemma merge_proj (M R : cbal) a :
  obal (cbal_merge M R !! a) = obal (R !! a) ∪ obal (M !! a)
  ∧ ononce (cbal_merge M R !! a) = ononce (R !! a) ∪ ononce (M !! a)
  ∧ ocode (cbal_merge M R !! a) = ocode (R !! a) ∪ ocode (M !! a)
  ∧ (∀ k, owrites (cbal_merge M R !! a) !! k = w_union (owrites (R !! a) !! k) (owrites (M !! a) !! k))
  ∧ (odisj (M !! a) → odisj (R !! a) →
     ∀ k, k ∈ oreads (cbal_merge M R !! a) ↔
          (k ∈ oreads (M !! a) ∧ owrites (R !! a) !! k = None)
          ∨ (k ∈ oreads (R !! a) ∧ owrites (cbal_merge M R !! a) !! k = None)).
Proof.
  rewrite merge_lookup. unfold obal, ononce, ocode, owrites, oreads, odisj, w_union.
  destruct (M !! a) as [x|] eqn:EM; destruct (R !! a) as [y|] eqn:ER; simpl.
  - split; [done|]. split; [done|]. split; [done|]. split.
    + intros k. by rewrite lookup_union_with.
    + intros _ _ k. by destruct (ca_merge_writes x y k) as [_ ->].
  - split; [by rewrite (left_id_L ∅ (∪))|]. split; [by rewrite (left_id_L ∅ (∪))|]. split; [by rewrite (left_id_L ∅ (∪))|].
    split.
    + intros k. rewrite lookup_empty. destruct (ca_writes x !! k) eqn:E2; rewrite ?E2; done.
    + intros Hx _ k. rewrite lookup_empty. split; [intros H; left; done|]. intros [[? _]|[H _]]; [done|set_solver].
  - split; [by rewrite (right_id_L ∅ (∪))|]. split; [by rewrite (right_id_L ∅ (∪))|]. split; [by rewrite (right_id_L ∅ (∪))|].
    split.
    + intros k. rewrite lookup_empty. destruct (ca_writes y !! k) eqn:E1; rewrite ?E1; done.
    + intros _ Hy k. split; [intros H; right; split; [done|by apply Hy]|]. intros [[H _]|[? _]]; [set_solver|done].
  - split; [by rewrite (left_id_L ∅ (∪))|]. split; [by rewrite (left_id_L ∅ (∪))|]. split; [by rewrite (left_id_L ∅ (∪))|].
    split; [intros k; by rewrite lookup_empty|]. intros _ _ k. set_solver.
Qed.

Lemma run_tx_fst b t : (run_tx b t).1 = (step_b (tx_body_end b t) (BOp (OFinalise (t_r t)))).1.
Proof. rewrite run_tx_eq. unfold run_tx_def. by destruct (step_b _ _). Qed.

(* one step of a block *)
Lemma run_tx_step b t :
  tx_boundary (b_j b) → rAms (t_r t) = true → body_ok (tx_open b t) (t_body t) →
  (∀ a, fin_guard (b_j b) (b_j (tx_body_end b t)) (t_r t) a) →
  let b3 := (run_tx b t).1 in
  ∃ R, (run_tx b t).2 = Some R ∧ tx_boundary (b_j b3) ∧
  ∀ a,
    obal (R !! a) = upd_set (t_idx t) (a_bal (pre_data (b_j b3) a)) (a_bal (pre_data (b_j b) a))
    ∧ ononce (R !! a) = upd_set (t_idx t) (a_nonce (pre_data (b_j b3) a)) (a_nonce (pre_data (b_j b) a))
    ∧ ocode (R !! a) = upd_set (t_idx t) (a_code (pre_data (b_j b3) a)) (a_code (pre_data (b_j b) a))
    ∧ ∀ k, owrites (R !! a) !! k = st_write (t_idx t) (view_state (b_j b3) a k) (view_state (b_j b) a k)
           ∧ (k ∈ oreads (R !! a) ↔
              (a, k) ∈ touched (tx_open b t) (t_body t) ∧ view_state (b_j b3) a k = view_state (b_j b) a k).
Proof.
  intros T Hr Hb G b3. destruct (prefix_facts b t Hr) as (Hc & Ha & Hi).
  destruct (tx_from (b_j b) (tx_open b t) (t_idx t) (t_r t) (t_body t) T Hr Hc Ha Hi Hb G) as (R & E & T3 & F).
  fold (tx_body_end b t) in E, T3, F.
  exists R. subst b3. rewrite run_tx_fst. split; [|split; [exact T3|exact F]].
  rewrite run_tx_eq. unfold run_tx_def. destruct (step_b (tx_body_end b t) (BOp (OFinalise (t_r t)))) as [b3 w]. cbn [fst snd] in *. by subst w.
Qed.

Lemma w_union_None x y : w_union x y = None ↔ x = None ∧ y = None.
Proof. unfold w_union. destruct x, y; simpl; split; try done; by intros []. Qed.

Lemma spec_writes_None a k b ts acc : spec_writes a k b ts acc = None → acc = None.
Proof.
  revert b acc. induction ts as [|t rest IH]; intros b acc; cbn [spec_writes]; [done|].
  intros H. apply IH in H. by apply w_union_None in H as [_ ?].
Qed.

(* the block theorem, generalised over the accumulated list M *)
Lemma block_records b M ts :
  tx_boundary (b_j b) → block_ok b ts → (∀ a, odisj (M !! a)) →
  let M' := (run_block b M ts).2 in
  tx_boundary (b_j (run_block b M ts).1) ∧
  ∀ a,
    obal (M' !! a) = spec_field a_bal a b ts (obal (M !! a))
    ∧ ononce (M' !! a) = spec_field a_nonce a b ts (ononce (M !! a))
    ∧ ocode (M' !! a) = spec_field a_code a b ts (ocode (M !! a))
    ∧ ∀ k, owrites (M' !! a) !! k = spec_writes a k b ts (owrites (M !! a) !! k)
           ∧ (k ∈ oreads (M' !! a) ↔
              (k ∈ oreads (M !! a) ∨ some_read a k b ts) ∧ owrites (M' !! a) !! k = None).
Proof.
  revert b M. induction ts as [|t rest IH]; intros b M T Hok HM; cbn [run_block block_ok spec_field spec_writes some_read fst snd] in *.
  { split; [done|]. intros a. split; [done|]. split; [done|]. split; [done|].
    intros k. split; [done|]. split.
    - intros H. split; [by left|by apply HM].
    - intros [[H|[]] _]. done. }
  destruct Hok as (Hr & Hb & G & Hrest).
  destruct (run_tx_step b t T Hr Hb G) as (R & ER & T3 & F).
  destruct (run_tx b t) as [b3 ret] eqn:Ert. cbn [fst snd] in *. subst ret.
  assert (HR : ∀ a, odisj (R !! a)).
  { intros a k Hk. destruct (F a) as (_ & _ & _ & Fk). destruct (Fk k) as [-> Hrd].
    apply Hrd in Hk as [_ ->]. unfold st_write. by rewrite N.eqb_refl. }
  assert (HM1 : ∀ a, odisj (cbal_merge M R !! a)).
  { intros a k Hk. destruct (merge_proj M R a) as (_ & _ & _ & Hw & Hrd).
    apply (Hrd (HM a) (HR a)) in Hk as [[Hk Hn]|[_ ?]]; [|done].
    rewrite Hw Hn (HM a k Hk). done. }
  destruct (IH b3 (cbal_merge M R) T3 Hrest HM1) as [TF IHa]. split; [exact TF|].
  intros a. destruct (IHa a) as (I1 & I2 & I3 & Ik). destruct (merge_proj M R a) as (P1 & P2 & P3 & Pw & Prd).
  destruct (F a) as (F1 & F2 & F3 & Fk).
  split; [by rewrite I1 P1 F1|]. split; [by rewrite I2 P2 F2|]. split; [by rewrite I3 P3 F3|].
  intros k. destruct (Ik k) as [Iw Ird]. destruct (Fk k) as [Fw Frd].
  split; [by rewrite Iw Pw Fw|].
  rewrite Ird. rewrite (Prd (HM a) (HR a) k). rewrite Frd.
  set (WF := owrites ((run_block b3 (cbal_merge M R) rest).2 !! a) !! k) in *.
  split.
  - intros [[[[Hk _]|[Hrd _]]|Hs] HW]; (split; [|exact HW]); [by left|right; left; exact Hrd|right; by right].
  - intros [H HW]. split; [|exact HW].
    assert (H1 : owrites (cbal_merge M R !! a) !! k = None).
    { subst WF. rewrite Iw in HW. by apply spec_writes_None in HW. }
    pose proof H1 as H2. rewrite Pw in H2. apply w_union_None in H2 as [HRn HMn].
    destruct H as [Hk|[Hrd|Hs]]; [left; left; done|left; right; done|by right].
Qed.

(* C15_block_records_exactly_net_changes: the merged list of a whole block, from the empty list *)
Theorem block_records_exactly_net_changes b0 ts :
  tx_boundary (b_j b0) → block_ok b0 ts →
  let M := (run_block b0 ∅ ts).2 in
  tx_boundary (b_j (run_block b0 ∅ ts).1) ∧
  ∀ a,
    obal (M !! a) = spec_field a_bal a b0 ts ∅
    ∧ ononce (M !! a) = spec_field a_nonce a b0 ts ∅
    ∧ ocode (M !! a) = spec_field a_code a b0 ts ∅
    ∧ ∀ k, owrites (M !! a) !! k = spec_writes a k b0 ts None
           ∧ (k ∈ oreads (M !! a) ↔ some_read a k b0 ts ∧ spec_writes a k b0 ts None = None).
Proof.
  intros T Hok M.
  assert (H0 : ∀ a, odisj ((∅ : cbal) !! a)).
  { intros a k. rewrite lookup_empty. set_solver. }
  destruct (block_records b0 ∅ ts T Hok H0) as [TF H]. split; [exact TF|].
  intros a. destruct (H a) as (H1 & H2 & H3 & Hk). rewrite lookup_empty in H1, H2, H3.
  split; [exact H1|]. split; [exact H2|]. split; [exact H3|].
  intros k. destruct (Hk k) as [Hw Hr]. rewrite lookup_empty in Hw, Hr. simpl in Hw, Hr.
  split; [exact Hw|]. subst M. rewrite Hr Hw. set_solver.
Qed.

(* reading the specification: the contribution of the steps combines "later step wins per
   index"; with pairwise distinct indices (the transactions of a block) every step's entry
   survives unchanged *)
Lemma spec_field_acc f a b ts acc : spec_field f a b ts acc = spec_field f a b ts ∅ ∪ acc.
Proof.
  revert b acc. induction ts as [|t rest IH]; intros b acc; cbn [spec_field].
  - by rewrite (left_id_L ∅ (∪)).
  - rewrite IH (IH _ (_ ∪ ∅)) (right_id_L ∅ (∪)). by rewrite (assoc_L (∪)).
Qed.

Theorem spec_field_cons f a b t rest i :
  spec_field f a b (t :: rest) ∅ !! i =
    match spec_field f a (run_tx b t).1 rest ∅ !! i with
    | Some v => Some v
    | None => upd_set (t_idx t) (f (pre_data (b_j (run_tx b t).1) a)) (f (pre_data (b_j b) a)) !! i
    end.
Proof.
  cbn [spec_field]. rewrite spec_field_acc (right_id_L ∅ (∪)) lookup_union.
  by destruct (spec_field f a (run_tx b t).1 rest ∅ !! i), (upd_set _ _ _ !! i).
Qed.

Theorem upd_set_lookup idx post pre i :
  upd_set idx post pre !! i = if bool_decide (i = idx ∧ post ≠ pre) then Some post else None.
Proof.
  unfold upd_set. destruct (post =? pre) eqn:E.
  - apply N.eqb_eq in E. rewrite lookup_empty bool_decide_false; [by intros []|done].
  - apply N.eqb_neq in E. destruct (decide (i = idx)) as [->|Hne].
    + by rewrite lookup_singleton bool_decide_true.
    + rewrite lookup_singleton_ne // bool_decide_false; [by intros []|done].
Qed.

Lemma w_union_assoc x y z : w_union (w_union x y) z = w_union x (w_union y z).
Proof. unfold w_union. destruct x, y, z; simpl; try done. by rewrite (assoc_L (∪)). Qed.

Lemma spec_writes_acc a k b ts acc : spec_writes a k b ts acc = w_union (spec_writes a k b ts None) acc.
Proof.
  revert b acc. induction ts as [|t rest IH]; intros b acc; cbn [spec_writes].
  - by destruct acc.
  - rewrite IH (IH _ (w_union _ None)). rewrite w_union_assoc. f_equal.
    by destruct (st_write _ _ _), acc.
Qed.

Theorem spec_writes_cons a k b t rest :
  spec_writes a k b (t :: rest) None =
    w_union (spec_writes a k (run_tx b t).1 rest None)
            (st_write (t_idx t) (view_state (b_j (run_tx b t).1) a k) (view_state (b_j b) a k)).
Proof.
  cbn [spec_writes]. rewrite spec_writes_acc. f_equal. by destruct (st_write _ _ _).
Qed.

(* executable form of [run_block] (for examples) *)
Fixpoint run_block_x (b : bstate) (M : cbal) (ts : list txd) : bstate * cbal :=
  match ts with
  | [] => (b, M)
  | t :: rest =>
      let '(b3, ret) := run_tx_def b t in
      run_block_x b3 (match ret with Some R => cbal_merge M R | None => M end) rest
  end.
Lemma run_block_x_eq b M ts : run_block b M ts = run_block_x b M ts.
Proof.
  revert b M. induction ts as [|t rest IH]; intros b M; cbn [run_block run_block_x]; [done|].
  rewrite run_tx_eq. destruct (run_tx_def b t) as [b3 ret]. apply IH.
Qed.

(* the C15-1 seed: a slot restored in a LATER transaction to its block-start value is still a
   write at that index.  Contract 1 (balance 7, nonce 1, code 1): tx 1 (index 1) sets slot 0 to 5,
   tx 2 (index 2) sets it back to 0, tx 3 (index 3) only reads it: the merged list has
   slot 0 -> {1 := 5, 2 := 0} and no read of slot 0. *)
Definition db_contract1 : database :=
  {[ 1 := {| d_acct := {| a_nonce := 1; a_bal := 7; a_code := 1 |}; d_stor := ∅ |} ]}.
Definition mk_tx (i : N) (body : list bop) : txd :=
  {| t_sys := false; t_th := i; t_ti := i - 1; t_idx := i; t_r := r_ams; t_s := 1; t_c := 2; t_d := None; t_l := [];
     t_body := body |}.
Definition restored_later_block : list txd :=
  [ mk_tx 1 [BOp (OSetState 1 0 5)]; mk_tx 2 [BOp (OSetState 1 0 0)]; mk_tx 3 [BGet (QState 1 0)] ].
Definition restored_later_expected : bal :=
  [ {| aa_addr := 1; aa_changes := [(0, [(1, 5); (2, 0)])]; aa_reads := []; aa_bal := []; aa_nonce := []; aa_code := [] |} ].
Definition restored_later_check : bool :=
  let M := (run_block_x (init_b db_contract1) ∅ restored_later_block).2 in
  bool_decide (encode (to_encoding_obj (λ _, []) M) = encode restored_later_expected).
