(* State/Parallel.v — C33: BAL-driven parallel block execution vs sequential execution.

   Abstract-transaction model (DESIGN.md section 6, C33).  The world state is
   flattened to  key -> value  (one key per account balance / nonce / code /
   storage slot, plus one never-written "touch" key per account, which stands for
   the bare presence of an address in the access list).  A transaction (and each of
   the two system-call phases) is a function  tx : view -> effects  that can look at
   the state ONLY through the view it is handed.  Everything else in this file is a
   transcription of what the Go code does with views, effects and access lists:

     core/types/bal/bal.go            ConstructionBlockAccessList, Merge
     core/types/bal/bal_encoding.go   ToEncodingObj, Validate
     core/types/bal/bal_lookup.go     Lookup, searchLatest
     core/state/reader_eip_7928.go    ReaderWithBlockLevelAccessList
     core/state/statedb_eip_7928.go   ApplyBlockAccessList
     core/gaspool.go                  CheckGasAmsterdam, ChargeGasAmsterdam, Used
     core/state_processor.go          Process (sequential path)
     core/state_processor_parallel.go processParallel, executeTransactionsParallel
     core/block_validator.go          ValidateBody (BAL part), ValidateState

   No proofs here (State/ParallelProofs.v). *)
From Coq Require Import List NArith Bool.
Import ListNotations.
Local Open Scope N_scope.

Section Model.
  Variables K V Out D : Type.           (* key, value, per-phase opaque output, digest *)
  Variable keqb : K -> K -> bool.
  Variable kltb : K -> K -> bool.      (* the order of ToEncodingObj / Validate *)
  Variable veqb : V -> V -> bool.
  Variable deqb : D -> D -> bool.
  Variable A : Type.                   (* account address *)
  Variable acct_of : K -> A.             (* the account a flattened key belongs to *)
  Variable aeqb : A -> A -> bool.

  Definition view := K -> V.

  Definition upd (s : view) (k : K) (x : V) : view :=
    fun k' => if keqb k' k then x else s k'.

  (* ---- Go maps as association lists (first match wins; [aset] overwrites the
          first match or appends) ---- *)
  Fixpoint aget {A} (k : K) (l : list (K * A)) : option A :=
    match l with
    | [] => None
    | (k0, a) :: r => if keqb k0 k then Some a else aget k r
    end.
  Fixpoint aset {A} (k : K) (a : A) (l : list (K * A)) : list (K * A) :=
    match l with
    | [] => [(k, a)]
    | (k0, a0) :: r => if keqb k0 k then (k0, a) :: r else (k0, a0) :: aset k a r
    end.
  Definition kmem (k : K) (l : list K) : bool := existsb (keqb k) l.

  (* map[uint32]value *)
  Fixpoint iset (i : N) (x : V) (l : list (N * V)) : list (N * V) :=
    match l with
    | [] => [(i, x)]
    | (j, y) :: r => if j =? i then (j, x) :: r else (j, y) :: iset i x r
    end.

  (* keep the first occurrence of every key *)
  Fixpoint dedup (l : list K) : list K :=
    match l with
    | [] => []
    | k :: r => k :: filter (fun k' => negb (keqb k' k)) (dedup r)
    end.

  (* ---- effects of one phase (pre-execution system calls, one transaction, or the
          post-execution system calls + Finalize) ---- *)
  Record effects := {
    e_ok : bool;                 (* false: consensus error (ApplyMessage returned err) *)
    e_reads : list K;            (* every recordable key the phase accessed *)
    e_writes : list (K * V);     (* raw writes, in program order (later wins) *)
    e_gl : N;                    (* tx.Gas() *)
    e_exec : N; e_state : N;     (* EIP-8037 execution / state gas contributions *)
    e_used : N;                  (* receipt.GasUsed *)
    e_nlogs : N;                 (* number of logs *)
    e_out : Out                    (* status, logs, contract address, request data … *)
  }.
  Definition tx := view -> effects.

  Definition apply_writes (s : view) (ws : list (K * V)) : view :=
    fold_left (fun s kv => upd s (fst kv) (snd kv)) ws s.

  (* StateDB.finaliseAmsterdam / stateObject.finalise / recordAccessListChanges:
     a key is recorded as changed iff its value at the end of the phase differs from
     its value at the start (the stashed original), with the end value. *)
  Definition net (v : view) (ws : list (K * V)) : list (K * V) :=
    let fin := apply_writes v ws in
    flat_map (fun k => if veqb (fin k) (v k) then [] else [(k, fin k)])
             (dedup (map fst ws)).

  (* ---- bal.ConstructionBlockAccessList ---- *)
  Record cbal := { cb_w : list (K * list (N * V)); cb_r : list K }.
  Definition cb_empty : cbal := {| cb_w := []; cb_r := [] |}.

  (* the per-phase list returned by StateDB.Finalise: StorageWrite/BalanceChange/
     NonceChange/CodeChange at the phase's block-access index for the net changes;
     StorageRead/AccountRead for every other accessed key (StorageRead skips keys
     already in StorageWrites, StorageWrite deletes the key from StorageReads). *)
  Definition tx_cbal (idx : N) (v : view) (e : effects) : cbal :=
    let ch := net v (e_writes e) in
    {| cb_w := map (fun kx => (fst kx, [(idx, snd kx)])) ch;
       cb_r := filter (fun k => negb (kmem k (map fst ch))) (dedup (e_reads e)) |}.

  (* ConstructionBlockAccessList.Merge: for every key written by [o], merge its
     index map into ours (o wins) and delete the key from our reads; then add
     o's reads unless the key is (now) written. *)
  Definition merge_w (w : list (K * list (N * V))) (kes : K * list (N * V)) :=
    let old := match aget (fst kes) w with Some es => es | None => [] end in
    aset (fst kes) (fold_left (fun m ix => iset (fst ix) (snd ix) m) (snd kes) old) w.
  Definition cb_merge (b o : cbal) : cbal :=
    let w := fold_left merge_w (cb_w o) (cb_w b) in
    let r0 := filter (fun k => negb (kmem k (map fst (cb_w o)))) (cb_r b) in
    let r := fold_left (fun r k => if kmem k (map fst w) || kmem k r then r else r ++ [k])
                       (cb_r o) r0 in
    {| cb_w := w; cb_r := r |}.

  (* ---- bal.BlockAccessList (encoding object) ---- *)
  Record bal := { b_w : list (K * list (N * V)); b_r : list K }.

  Fixpoint insert_by {A} (lt : A -> A -> bool) (a : A) (l : list A) : list A :=
    match l with
    | [] => [a]
    | b :: r => if lt a b then a :: b :: r else b :: insert_by lt a r
    end.
  Definition sort_by {A} (lt : A -> A -> bool) (l : list A) : list A :=
    fold_right (insert_by lt) [] l.

  (* ToEncodingObj: keys sorted, per-key changes sorted by index, reads sorted *)
  Definition to_encoding (c : cbal) : bal :=
    {| b_w := sort_by (fun a b => kltb (fst a) (fst b))
                (map (fun kes => (fst kes, sort_by (fun a b => fst a <? fst b) (snd kes))) (cb_w c));
       b_r := sort_by kltb (cb_r c) |}.

  (* isStrictlySortedFunc *)
  Fixpoint strictly_sorted {A} (lt : A -> A -> bool) (l : list A) : bool :=
    match l with
    | a :: r => match r with b :: _ => lt a b && strictly_sorted lt r | [] => true end
    | [] => true
    end.
  Fixpoint last_opt {A} (l : list A) : option A :=
    match l with [] => None | a :: r => match r with [] => Some a | _ => last_opt r end end.

  (* BlockAccessList.Validate / AccountAccess.validate / encodingSlotChanges.validate
     on the flattened list: keys unique and sorted, per-key changes non-empty, unique
     and sorted by index, last index <= maxidx (= len(txs)+1), reads unique and
     sorted, no key both read and written.  (ValidateSize and the code-size bound are
     not modelled.) *)
  Definition entries_ok (maxidx : N) (es : list (N * V)) : bool :=
    match last_opt es with
    | None => false
    | Some ix => strictly_sorted (fun a b => fst a <? fst b) es && (fst ix <=? maxidx)
    end.
  Definition bal_validate (maxidx : N) (b : bal) : bool :=
    strictly_sorted kltb (map fst (b_w b))
    && forallb (entries_ok maxidx) (map snd (b_w b))
    && strictly_sorted kltb (b_r b)
    && forallb (fun k => negb (kmem k (map fst (b_w b)))) (b_r b).

  (* bal.searchLatest: "the entry with the highest block-access index strictly below
     limit, relying on entries being sorted ascending by that index".  The Go code
     binary-searches (sort.Search) for the first entry with index >= limit and returns
     its predecessor; on a list that passed Validate (strictly ascending — the only
     lists the processor ever looks up, ValidateBody runs first) that is the scan
     below: remember the last entry seen, stop at the first index >= limit. *)
  Fixpoint search_latest (es : list (N * V)) (limit : N) (acc : option V) : option V :=
    match es with
    | [] => acc
    | (i, x) :: r => if i <? limit then search_latest r limit (Some x) else acc
    end.
  (* BlockAccessList.Lookup(): the index  map[address]*accountLookup  the parallel
     processor reads through.  Go indexes EVERY account of the list and hands the
     accountLookup the account's balance, nonce and code change lists and a map
     slot -> writes; flattened: every change list of the account, whatever its kind,
     under its key.  Map assignment: a later entry for the same address / key
     overwrites.  (Read-only accounts are indexed by Go with empty lists; a lookup in
     them finds nothing, exactly as for an absent account.  Go replaces the whole
     accountLookup when an address occurs twice; such lists fail Validate and are
     never looked up.) *)
  Definition lookup_t := list (A * list (K * list (N * V))).
  Fixpoint aaget (a : A) (l : lookup_t) : option (list (K * list (N * V))) :=
    match l with
    | [] => None
    | (a0, x) :: r => if aeqb a0 a then Some x else aaget a r
    end.
  Fixpoint aaset (a : A) (x : list (K * list (N * V))) (l : lookup_t) : lookup_t :=
    match l with
    | [] => [(a, x)]
    | (a0, x0) :: r => if aeqb a0 a then (a0, x) :: r else (a0, x0) :: aaset a x r
    end.
  Definition index_add (l : lookup_t) (kes : K * list (N * V)) : lookup_t :=
    let a := acct_of (fst kes) in
    let al := match aaget a l with Some x => x | None => [] end in
    aaset a (aset (fst kes) (snd kes) al) l.
  Definition build_lookup (b : bal) : lookup_t := fold_left index_add (b_w b) [].

  (* Lookup.Storage / Lookup.AccountChanges / Lookup.Code, one flattened key: find the
     account, then the key's change list, then searchLatest *)
  Definition lookup_key (l : lookup_t) (k : K) (limit : N) : option V :=
    match aaget (acct_of k) l with
    | None => None
    | Some al => match aget k al with
                 | Some es => search_latest es limit None
                 | None => None
                 end
    end.
  Definition bal_lookup (b : bal) (k : K) (limit : N) : option V :=
    lookup_key (build_lookup b) k limit.
  (* ReaderWithBlockLevelAccessList.Account/Storage/Code with txIndex = limit:
     the looked-up mutation if there is one, else the base (parent-state) value. *)
  Definition overlay (pre : view) (b : bal) (limit : N) : view :=
    fun k => match bal_lookup b k limit with Some x => x | None => pre k end.

  (* StateDB.ApplyBlockAccessList: the LAST entry of every change list is installed
     on top of the parent state (a storage value equal to the origin is skipped —
     observationally the same). *)
  Definition apply_bal (pre : view) (b : bal) : view :=
    fun k => match aget k (b_w b) with
             | Some es => match last_opt es with Some ix => snd ix | None => pre k end
             | None => pre k
             end.

  (* ---- core.GasPool under Amsterdam ---- *)
  Definition two64 : N := 18446744073709551616.
  Definition max_tx_gas : N := 16777216.       (* params.MaxTxGas *)
  Record gaspool := { g_init : N; g_cexec : N; g_cstate : N; g_cused : N }.
  Definition gp_new (amount : N) : gaspool :=
    {| g_init := amount; g_cexec := 0; g_cstate := 0; g_cused := 0 |}.
  Definition sub64 (a b : N) : N := if b <=? a then a - b else (a + two64 - b) mod two64.
  Definition gp_check (g : gaspool) (er sr : N) : bool :=
    negb (sub64 (g_init g) (g_cexec g) <? er) && negb (sub64 (g_init g) (g_cstate g) <? sr).
  Definition gp_charge (g : gaspool) (ex st used : N) : option gaspool :=
    let ce := (g_cexec g + ex) mod two64 in
    let cs := (g_cstate g + st) mod two64 in
    if g_init g <? N.max ce cs then None
    else Some {| g_init := g_init g; g_cexec := ce; g_cstate := cs;
                 g_cused := (g_cused g + used) mod two64 |}.
  Definition gp_used (g : gaspool) : N := N.max (g_cexec g) (g_cstate g).

  (* ---- block, results ---- *)
  Record block := { b_pre : tx; b_txs : list tx; b_post : tx; b_gaslimit : N }.
  Record receipt := { rc_out : Out; rc_used : N; rc_cum : N; rc_log0 : N }.
  Record presult := {
    r_receipts : list receipt; r_gas : N; r_bal : cbal; r_post : Out
  }.
  Record acct := { a_gp : gaspool; a_log : N; a_cb : cbal; a_rcs : list receipt }.

  (* the bookkeeping both processors perform for transaction [idx-1] once its
     effects are known: block-level gas pool Check + Charge, receipt with cumulative
     gas and first log index, Merge of its access list. *)
  Definition acct_step (a : acct) (idx : N) (v : view) (e : effects) : option acct :=
    if negb (gp_check (a_gp a) (N.min (e_gl e) max_tx_gas) (e_gl e)) then None else
    match gp_charge (a_gp a) (e_exec e) (e_state e) (e_used e) with
    | None => None
    | Some g => Some {| a_gp := g; a_log := a_log a + e_nlogs e;
                        a_cb := cb_merge (a_cb a) (tx_cbal idx v e);
                        a_rcs := a_rcs a ++ [{| rc_out := e_out e; rc_used := e_used e;
                                                rc_cum := g_cused g; rc_log0 := a_log a |}] |}
    end.

  (* StateProcessor.Process, sequential path: the loop over block.Transactions().
     (The gas-pool check sits in preCheck/buyGas before the EVM runs; an error of
     either kind aborts the block.) *)
  Fixpoint seq_txs (ts : list tx) (idx : N) (s : view) (a : acct) : option (view * acct) :=
    match ts with
    | [] => Some (s, a)
    | t :: r =>
        let e := t s in
        if negb (e_ok e) then None else
        match acct_step a idx s e with
        | None => None
        | Some a' => seq_txs r (idx + 1) (apply_writes s (e_writes e)) a'
        end
    end.

  Definition n_of (b : block) : N := N.of_nat (length (b_txs b)).

  (* PreExecution returns no error (ProcessBeaconBlockRoot ignores the call's error,
     ProcessParentBlockHash panics), so [e_ok] of the pre phase is not consulted by
     either processor; PostExecution's error aborts the block in both. *)
  Definition seq_process (pre : view) (b : block) : option (presult * view) :=
    let e0 := b_pre b pre in
    let s1 := apply_writes pre (e_writes e0) in
    let a0 := {| a_gp := gp_new (b_gaslimit b); a_log := 0;
                 a_cb := cb_merge cb_empty (tx_cbal 0 pre e0); a_rcs := [] |} in
    match seq_txs (b_txs b) 1 s1 a0 with
    | None => None
    | Some (s, a) =>
        let ep := b_post b s in
        if negb (e_ok ep) then None else
        Some ({| r_receipts := a_rcs a; r_gas := gp_used (a_gp a);
                 r_bal := cb_merge (a_cb a) (tx_cbal (n_of b + 1) s ep);
                 r_post := e_out ep |},
              apply_writes s (e_writes ep))
    end.

  (* ---- the parallel processor ---- *)

  (* one worker iteration of executeTransactionsParallel for transaction i: state
     built on NewReaderWithBlockLevelAccessList(base, lookup, i+1); a tx-local gas
     pool NewGasPool(msg.GasLimit), whose Check always passes and whose Charge fails
     iff max(execution, state) exceeds the tx gas limit. *)
  Definition par_view (pre : view) (claimed : bal) (i : nat) : view :=
    overlay pre claimed (N.of_nat i + 1).
  Definition worker_exec (pre : view) (claimed : bal) (i : nat) (t : tx) : option effects :=
    let e := t (par_view pre claimed i) in
    if negb (e_ok e) then None else
    let lp := gp_new (e_gl e) in
    if negb (gp_check lp (N.min (e_gl e) max_tx_gas) (e_gl e)) then None else
    match gp_charge lp (e_exec e) (e_state e) (e_used e) with
    | None => None
    | Some _ => Some e
    end.

  (* schedules: any number of workers share the atomic cursor.  Two atomic steps per
     transaction: [Claim] = cursor.Add(1) (the worker now holds index i) and
     [Finish] = the write of results[i] (or of the error into the errgroup).  A
     worker that observes the cancelled context just stops taking steps. *)
  Inductive wlabel := Claim | Finish.
  Record pstate := {
    p_cursor : nat;
    p_hold : list (nat * nat);                 (* worker -> index it is executing *)
    p_res : list (nat * option effects)        (* results[i], None = error returned *)
  }.
  Definition p_init : pstate := {| p_cursor := 0; p_hold := []; p_res := [] |}.
  Fixpoint hget (w : nat) (l : list (nat * nat)) : option nat :=
    match l with [] => None | (w0, i) :: r => if Nat.eqb w0 w then Some i else hget w r end.
  Definition hdel (w : nat) (l : list (nat * nat)) : list (nat * nat) :=
    filter (fun wi => negb (Nat.eqb (fst wi) w)) l.
  Definition pstep (pre : view) (claimed : bal) (ts : list tx) (s : pstate) (wl : nat * wlabel)
    : option pstate :=
    let (w, l) := wl in
    match l with
    | Claim =>
        match hget w (p_hold s) with
        | Some _ => None                       (* busy executing *)
        | None =>
            if Nat.ltb (p_cursor s) (length ts)
            then Some {| p_cursor := S (p_cursor s);
                         p_hold := (w, p_cursor s) :: p_hold s; p_res := p_res s |}
            else None                          (* i >= len(txs): the worker returns *)
        end
    | Finish =>
        match hget w (p_hold s) with
        | None => None
        | Some i =>
            match nth_error ts i with
            | None => None
            | Some t => Some {| p_cursor := p_cursor s; p_hold := hdel w (p_hold s);
                                p_res := (i, worker_exec pre claimed i t) :: p_res s |}
            end
        end
    end.
  Fixpoint prun (pre : view) (claimed : bal) (ts : list tx) (s : pstate) (h : list (nat * wlabel))
    : option pstate :=
    match h with
    | [] => Some s
    | e :: h' => match pstep pre claimed ts s e with
                 | Some s' => prun pre claimed ts s' h'
                 | None => None
                 end
    end.
  Fixpoint rget (i : nat) (l : list (nat * option effects)) : option (option effects) :=
    match l with [] => None | (j, r) :: l' => if Nat.eqb j i then Some r else rget i l' end.
  Definition p_has_error (s : pstate) : bool :=
    existsb (fun ir => match snd ir with None => true | Some _ => false end) (p_res s).
  (* group.Wait() has returned: nobody is executing, and either all indices were
     handed out or an error cancelled the group *)
  Definition p_done (n : nat) (s : pstate) : bool :=
    match p_hold s with [] => (Nat.leb n (p_cursor s)) || p_has_error s | _ => false end.
  (* what executeTransactionsParallel returns: the error, or results in block order *)
  Fixpoint collect (res : list (nat * option effects)) (ts : list tx) (i : nat)
    : option (list effects) :=
    match ts with
    | [] => Some []
    | _ :: r => match rget i res with
                | Some (Some e) => match collect res r (S i) with
                                   | Some l => Some (e :: l) | None => None end
                | _ => None
                end
    end.
  Definition p_outcome (ts : list tx) (s : pstate) : option (list effects) :=
    if p_has_error s then None else collect (p_res s) ts 0.

  (* the gather loop of processParallel *)
  Fixpoint par_acct (pre : view) (claimed : bal) (es : list effects) (i : nat) (a : acct)
    : option acct :=
    match es with
    | [] => Some a
    | e :: r => match acct_step a (N.of_nat i + 1) (par_view pre claimed i) e with
                | None => None
                | Some a' => par_acct pre claimed r (S i) a'
                end
    end.

  (* processParallel given what the workers returned; the returned view is the state
     installed by ApplyBlockAccessList(claimed) (whose root ValidateState checks). *)
  Definition par_process (pre : view) (b : block) (claimed : bal)
             (results : option (list effects)) : option (presult * view) :=
    let v0 := overlay pre claimed 0 in
    let e0 := b_pre b v0 in
    match results with
    | None => None
    | Some es =>
        let a0 := {| a_gp := gp_new (b_gaslimit b); a_log := 0;
                     a_cb := cb_merge cb_empty (tx_cbal 0 v0 e0); a_rcs := [] |} in
        match par_acct pre claimed es 0 a0 with
        | None => None
        | Some a =>
            let vp := overlay pre claimed (n_of b + 1) in
            let ep := b_post b vp in
            if negb (e_ok ep) then None else
            Some ({| r_receipts := a_rcs a; r_gas := gp_used (a_gp a);
                     r_bal := cb_merge (a_cb a) (tx_cbal (n_of b + 1) vp ep);
                     r_post := e_out ep |},
                  apply_bal pre claimed)
        end
    end.

  (* ---- validation ---- *)
  Variable Hbal : bal -> D.               (* BlockAccessList.Hash *)
  Variable Hrec : list receipt -> D.      (* bloom + DeriveSha(receipts) *)
  Variable Hreq : Out -> D.                 (* CalcRequestsHash *)
  Variable Hroot : view -> D.             (* IntermediateRoot *)

  Record header := { h_gas : N; h_rec : D; h_req : D; h_bal : D; h_root : D }.

  (* verdict classes: 0 accepted; 1 ValidateBody (BAL hash / Validate); 2 Process
     error; 3 gas used; 4 receipts/bloom; 5 requests; 6 rebuilt access list (hash or
     Validate); 7 state root *)
  Definition validate_state (maxidx : N) (h : header) (rs : presult * view) : N :=
    let (res, st) := rs in
    if negb (h_gas h =? r_gas res) then 3 else
    if negb (deqb (Hrec (r_receipts res)) (h_rec h)) then 4 else
    if negb (deqb (Hreq (r_post res)) (h_req h)) then 5 else
    let enc := to_encoding (r_bal res) in
    if negb (deqb (Hbal enc) (h_bal h)) then 6 else
    if negb (bal_validate maxidx enc) then 6 else
    if negb (deqb (Hroot st) (h_root h)) then 7 else 0.

  (* ValidateBody: an attached access list must hash to the header field and pass
     Validate *)
  Definition validate_body (maxidx : N) (h : header) (claimed : bal) : bool :=
    deqb (Hbal claimed) (h_bal h) && bal_validate maxidx claimed.

  Definition verdict_seq (pre : view) (b : block) (h : header) : N :=
    match seq_process pre b with
    | None => 2
    | Some rs => validate_state (n_of b + 1) h rs
    end.
  Definition verdict_par (pre : view) (b : block) (h : header) (claimed : bal)
             (results : option (list effects)) : N :=
    if negb (validate_body (n_of b + 1) h claimed) then 1 else
    match par_process pre b claimed results with
    | None => 2
    | Some rs => validate_state (n_of b + 1) h rs
    end.

  (* the header a block producer derives from sequential execution *)
  Definition header_of (rs : presult * view) : header :=
    {| h_gas := r_gas (fst rs); h_rec := Hrec (r_receipts (fst rs));
       h_req := Hreq (r_post (fst rs)); h_bal := Hbal (to_encoding (r_bal (fst rs)));
       h_root := Hroot (snd rs) |}.
End Model.

(* ---- the executable instance used by Run/C33.v: keys, values and outputs are byte
        strings; a "digest" is the hashed object itself (an injective hash), the state
        root being the values of a finite list of keys (the keys of the case). ---- *)
Fixpoint bytes_eqb (a b : list N) : bool :=
  match a, b with
  | [], [] => true
  | x :: a', y :: b' => (x =? y) && bytes_eqb a' b'
  | _, _ => false
  end.
(* bytes.Compare(a, b) < 0 *)
Fixpoint bytes_ltb (a b : list N) : bool :=
  match a, b with
  | [], [] => false
  | [], _ :: _ => true
  | _ :: _, [] => false
  | x :: a', y :: b' => if x <? y then true else if y <? x then false else bytes_ltb a' b'
  end.
Fixpoint list_eqb {A} (eq : A -> A -> bool) (a b : list A) : bool :=
  match a, b with
  | [], [] => true
  | x :: a', y :: b' => eq x y && list_eqb eq a' b'
  | _, _ => false
  end.

Definition bkey := list N.
Inductive digest :=
| DBal (b : bal bkey bkey)
| DRec (l : list (receipt bkey))
| DReq (o : bkey)
| DRoot (l : list bkey).

Definition entry_eqb (a b : N * bkey) : bool := (fst a =? fst b) && bytes_eqb (snd a) (snd b).
Definition bal_eqb (a b : bal bkey bkey) : bool :=
  list_eqb (fun x y => bytes_eqb (fst x) (fst y) && list_eqb entry_eqb (snd x) (snd y))
           (b_w _ _ a) (b_w _ _ b)
  && list_eqb bytes_eqb (b_r _ _ a) (b_r _ _ b).
Definition receipt_eqb (a b : receipt bkey) : bool :=
  bytes_eqb (rc_out _ a) (rc_out _ b) && (rc_used _ a =? rc_used _ b)
  && (rc_cum _ a =? rc_cum _ b) && (rc_log0 _ a =? rc_log0 _ b).
Definition digest_eqb (a b : digest) : bool :=
  match a, b with
  | DBal x, DBal y => bal_eqb x y
  | DRec x, DRec y => list_eqb receipt_eqb x y
  | DReq x, DReq y => bytes_eqb x y
  | DRoot x, DRoot y => list_eqb bytes_eqb x y
  | _, _ => false
  end.
(* the account of a flattened key: its first 20 bytes *)
Definition key_acct (k : bkey) : bkey := firstn 20 k.
Definition root_on (keys : list bkey) (s : view bkey bkey) : digest := DRoot (map s keys).
