(* State/CommitChain.v — C14 proofs, part 12: state.New on a committed root re-establishes [Sync]
   and answers every persistent getter like the finalised state; chains of blocks. *)
From Coq Require Import ssreflect.
From stdpp Require Import gmap.
From Coq Require Import NArith ZArith Lia.
From RecordUpdate Require Import RecordSet.
Import RecordSetNotations.
From GV Require Import State.Ref State.Journal State.JournalProofs State.BalProofs State.Commit State.CommitProofs State.CommitReopen State.CommitHist State.CommitSync State.CommitFin State.CommitTx State.CommitIR State.CommitIR2 State.CommitBlock State.CommitDecode.
From GV Require Import Lib.Bytes Lib.BytesProofs Rlp.Item Rlp.Codec Rlp.CodecProofs Trie.Hex Trie.Node Trie.Ops Trie.Hash Trie.OpsProofs Trie.Canon.
Local Open Scope N_scope.

(* the non-zero slots of f among ks, as read_slots collects them *)
Fixpoint slist (f : slot → word) (ks : list slot) : list (slot * word) :=
  match ks with
  | [] => []
  | k :: r => if f k =? 0 then slist f r else (k, f k) :: slist f r
  end.

Lemma slist_lookup f ks k :
  sget (list_to_map (slist f ks)) k = if bool_decide (k ∈ ks) then f k else 0.
Proof.
  induction ks as [|k0 r IH]; [by rewrite /sget lookup_empty|]. simpl.
  destruct (f k0 =? 0) eqn:E0.
  - rewrite IH. apply N.eqb_eq in E0. destruct (decide (k = k0)) as [->|Hne].
    + rewrite (bool_decide_true (k0 ∈ k0 :: r)); [by left|]. rewrite E0. by case_bool_decide.
    + assert (Hiff : k ∈ r ↔ k ∈ k0 :: r) by (rewrite elem_of_cons; naive_solver).
      by rewrite (bool_decide_ext _ _ Hiff).
  - simpl. unfold sget in *. destruct (decide (k = k0)) as [->|Hne].
    + rewrite lookup_insert /=. rewrite bool_decide_true //. by left.
    + rewrite lookup_insert_ne //. rewrite IH.
      assert (Hiff : k ∈ r ↔ k ∈ k0 :: r) by (rewrite elem_of_cons; naive_solver).
      by rewrite (bool_decide_ext _ _ Hiff).
Qed.

(* the entries read_all collects *)
Fixpoint alist {A} (g : addr → option A) (al : list addr) : list (addr * A) :=
  match al with
  | [] => []
  | a :: r => match g a with Some d => (a, d) :: alist g r | None => alist g r end
  end.

Lemma alist_lookup {A B} (g : addr → option A) (F : A → B) al a :
  (list_to_map (map (λ e, (e.1, F e.2)) (alist g al)) : gmap addr B) !! a =
  if bool_decide (a ∈ al) then F <$> g a else None.
Proof.
  induction al as [|a0 r IH]; [by rewrite lookup_empty|]. simpl.
  destruct (g a0) as [d|] eqn:E0; simpl.
  - destruct (decide (a = a0)) as [->|Hne].
    + rewrite lookup_insert bool_decide_true; [by left|]. by rewrite E0.
    + rewrite lookup_insert_ne // IH.
      assert (Hiff : a ∈ r ↔ a ∈ a0 :: r) by (rewrite elem_of_cons; naive_solver).
      by rewrite (bool_decide_ext _ _ Hiff).
  - rewrite IH. destruct (decide (a = a0)) as [->|Hne].
    + rewrite (bool_decide_true (a0 ∈ a0 :: r)); [by left|]. rewrite E0. by case_bool_decide.
    + assert (Hiff : a ∈ r ↔ a ∈ a0 :: r) by (rewrite elem_of_cons; naive_solver).
      by rewrite (bool_decide_ext _ _ Hiff).
Qed.

Section Chain.
  Variable H : list N → list N.
  Hypothesis H_bytes : ∀ x, forallb byteb (H x) = true.
  Hypothesis H_len : ∀ x, lenN (H x) = 32.
  Variables (addr_ok : addr → Prop) (slot_ok : slot → Prop).
  Hypothesis Hk_addr : ∀ a b, addr_ok a → addr_ok b → addr_key H a = addr_key H b → a = b.
  Hypothesis Hk_slot : ∀ a b, slot_ok a → slot_ok b → slot_key H a = slot_key H b → a = b.
  Variable play : node → Prop.
  Hypothesis play_empty : play NEmpty.
  Hypothesis CF : ∀ t1 t2, play t1 → play t2 → hash_root H t1 = hash_root H t2 → t1 = t2.
  (* the codes in play and collision freedom of the code hash among them *)
  Variable code_ok : N → Prop.
  Hypothesis code_ok0 : code_ok 0.
  Hypothesis Hc_inj : ∀ c c', code_ok c → code_ok c' → code_hash H c = code_hash H c' → c = c'.
  (* the universe state.New loads eagerly (Journal.v's idealisation) is the universe in play *)
  Variables (al : list addr) (ks : list slot).
  Hypothesis al_ok : ∀ a, addr_ok a ↔ a ∈ al.
  Hypothesis ks_ok : ∀ k, slot_ok k ↔ k ∈ ks.

  Notation ext_of := (ext_of H).
  Notation Sync := (Sync H addr_ok slot_ok).
  Notation stor_rep := (stor_rep H slot_ok).
  Notation hashed := (hashed H addr_ok slot_ok play).
  Notation pdb_ok := (pdb_ok H play).

  Definition codes_ok (p : pdb) : Prop :=
    ∀ h b, p_codes p !! h = Some b → ∃ c, code_ok c ∧ h = code_hash H c ∧ b = code_bytes c.
  (* every code of a live object is in the code store or will be written by Commit (dirtyCode) *)
  Definition code_guard (p : pdb) (cs : cstate) : Prop :=
    ∀ a o, j_objs (c_j cs) !! a = Some o →
      code_ok (a_code (o_data o)) ∧
      (a_code (o_data o) ≠ 0 →
       p_codes p !! code_hash H (a_code (o_data o)) = Some (code_bytes (a_code (o_data o))) ∨
       (x_dcode (ext_of cs a) = true ∧ ∃ m, c_muts cs !! a = Some m ∧ m_del m = false)).
  (* Go's value ranges: uint64 nonces, uint256 balances, 32-byte slot values *)
  Definition vals_ok (cs : cstate) : Prop :=
    ∀ a o, j_objs (c_j cs) !! a = Some o →
      acct_ok (o_data o) ∧ ∀ k, slot_ok k → committed (c_j cs) a o k < 2 ^ 256.

  Lemma stor_rep_ext_ok S f g : (∀ k, slot_ok k → f k = g k) → stor_rep S f → stor_rep S g.
  Proof. intros E (A & B & C). split; [done|]. split; [|done]. intros k Hk. rewrite -E //. by apply B. Qed.

  Lemma hash_root_len t h : canon t → hash_root H t = Some h → lenN h = 32.
  Proof.
    intros Hc. unfold hash_root, node_ref. destruct t as [|v|k c|cs0|hh].
    - intros [= <-]. apply H_len.
    - done.
    - destruct (node_enc H (NShort k c)); [|done]. rewrite andb_false_r. intros [= <-]. apply H_len.
    - destruct (node_enc H (NFull cs0)); [|done]. rewrite andb_false_r. intros [= <-]. apply H_len.
    - destruct Hc as [Hc|Hc]; [done|inversion Hc].
  Qed.

  (* ---- the code store under stateObject.commit ---- *)
  Lemma co_codes cs l : ∀ p p1,
    codes_ok p → (∀ a m o, In (a, m) l → j_objs (c_j cs) !! a = Some o → code_ok (a_code (o_data o))) →
    commit_objects H cs l p = COk p1 →
    codes_ok p1 ∧ (∀ h b, p_codes p !! h = Some b → p_codes p1 !! h = Some b) ∧
    (∀ a m o, In (a, m) l → m_del m = false → j_objs (c_j cs) !! a = Some o → x_dcode (ext_of cs a) = true →
       p_codes p1 !! code_hash H (a_code (o_data o)) = Some (code_bytes (a_code (o_data o)))).
  Proof.
    induction l as [|[a m] l IH]; intros p p1 Hp Hl E; simpl in E.
    { injection E as <-. split; [done|]. split; [done|]. by intros ??? []. }
    destruct (m_del m) eqn:Hd.
    - destruct (IH p p1 Hp) as (A & B & C); [intros; eapply Hl; [by right|done]|done|].
      split; [done|]. split; [done|]. intros a' m' o' [[= -> ->]|Hin] Hd'; [congruence|]. by apply (C a' m' o').
    - destruct (j_objs (c_j cs) !! a) as [o|] eqn:Ho; [|done].
      set (c := a_code (o_data o)) in *.
      set (codes := if x_dcode (ext_of cs a) then <[code_hash H c := code_bytes c]> (p_codes p) else p_codes p) in E.
      assert (Hck : code_ok c) by (eapply (Hl a m o); [by left|done]).
      assert (Hcodes : (∀ h b, codes !! h = Some b → ∃ c', code_ok c' ∧ h = code_hash H c' ∧ b = code_bytes c') ∧
                       (∀ h b, p_codes p !! h = Some b → codes !! h = Some b) ∧
                       (x_dcode (ext_of cs a) = true → codes !! code_hash H c = Some (code_bytes c))).
      { unfold codes. destruct (x_dcode (ext_of cs a)); [|done]. split; [|split].
        - intros h b. destruct (decide (code_hash H c = h)) as [<-|Hne].
          + rewrite lookup_insert. intros [= <-]. by exists c.
          + rewrite lookup_insert_ne //. apply Hp.
        - intros h b Hb. destruct (decide (code_hash H c = h)) as [<-|Hne]; [|by rewrite lookup_insert_ne].
          rewrite lookup_insert. destruct (Hp _ _ Hb) as (c' & Hc' & Eh & ->). by rewrite (Hc_inj c c' Hck Hc' Eh).
        - intros _. by rewrite lookup_insert. }
      destruct Hcodes as (K1 & K2 & K3).
      assert (Hgen : ∀ tr, commit_objects H cs l {| p_tries := tr; p_codes := codes |} = COk p1 →
                codes_ok p1 ∧ (∀ h b, p_codes p !! h = Some b → p_codes p1 !! h = Some b) ∧
                (∀ a' m' o', In (a', m') ((a, m) :: l) → m_del m' = false → j_objs (c_j cs) !! a' = Some o' →
                   x_dcode (ext_of cs a') = true →
                   p_codes p1 !! code_hash H (a_code (o_data o')) = Some (code_bytes (a_code (o_data o'))))).
      { intros tr E'. destruct (IH _ p1 (K1 : codes_ok {| p_tries := tr; p_codes := codes |})) as (A & B & C);
          [intros; eapply Hl; [by right|done]|done|].
        split; [done|]. split; [intros h b Hb; apply B; by apply K2|].
        intros a' m' o' [[= -> ->]|Hin] Hd' Ho' Hdc; [|by apply (C a' m' o')].
        rewrite Ho in Ho'. injection Ho' as <-. apply B. by apply K3. }
      destruct (storage_changed (c_j cs) a o).
      + destruct (x_trie (ext_of cs a)); [|done]. by eapply Hgen.
      + by eapply Hgen.
  Qed.

  (* ---- reading the committed state back ---- *)
  Lemma slot_val_nonempty v : v ≠ 0 → ∃ x l, slot_val v = x :: l.
  Proof.
    intros Hv. unfold slot_val. apply N.eqb_neq in Hv. rewrite Hv.
    pose proof (enc_len_pos (Str (be_bytes v))) as Hl. cbn [enc] in Hl.
    destruct (enc_str (be_bytes v)) as [|x l]; [unfold lenN in Hl; simpl in Hl; lia|by eexists _, _].
  Qed.

  Lemma read_slot_ok S k v :
    t_get S (slot_key H k) = COk (vopt (slot_val v)) → v < 2 ^ 256 → read_slot H S k = COk v.
  Proof.
    intros Hg Hb. unfold read_slot. rewrite Hg. destruct (decide (v = 0)) as [->|Hne]; [done|].
    destruct (slot_val_nonempty v Hne) as (x & l & E). rewrite E /= -E. by rewrite (dec_slot_val v Hne Hb).
  Qed.

  Lemma slot_val_inj v w : v < 2 ^ 256 → w < 2 ^ 256 → vopt (slot_val v) = vopt (slot_val w) → v = w.
  Proof.
    intros Hv Hw E. destruct (decide (v = 0)) as [->|Hv0], (decide (w = 0)) as [->|Hw0]; [done| | |].
    - destruct (slot_val_nonempty w Hw0) as (x & l & Ew). by rewrite Ew in E.
    - destruct (slot_val_nonempty v Hv0) as (x & l & Ev). by rewrite Ev in E.
    - destruct (slot_val_nonempty v Hv0) as (x & l & Ev). destruct (slot_val_nonempty w Hw0) as (y & l' & Ew).
      assert (E' : slot_val v = slot_val w) by (rewrite Ev Ew in E; rewrite Ev Ew; by injection E as -> ->).
      apply (f_equal dec_slot) in E'. rewrite (dec_slot_val v Hv0 Hv) (dec_slot_val w Hw0 Hw) in E'. by injection E'.
  Qed.

  Lemma read_slots_ok S f l :
    (∀ k, k ∈ l → read_slot H S k = COk (f k)) → read_slots H S l = COk (slist f l).
  Proof.
    induction l as [|k r IH]; intros Hr; [done|]. simpl.
    rewrite (Hr k); [by left|]. rewrite IH; [intros; apply Hr; by right|]. done.
  Qed.

  Lemma read_all_ok p T g l :
    (∀ a, a ∈ l → read_full H p T ks a = COk (g a)) → read_all H p T ks l = COk (alist g l).
  Proof.
    induction l as [|a r IH]; intros Hr; [done|]. simpl.
    rewrite (Hr a); [by left|]. rewrite IH; [intros; apply Hr; by right|]. by destruct (g a).
  Qed.

  Lemma code_read p c : code_ok c → (c ≠ 0 → p_codes p !! code_hash H c = Some (code_bytes c)) →
    code_of_hash H p (code_hash H c) = Some c.
  Proof.
    intros Hc Hp. unfold code_of_hash. case_bool_decide as E.
    - by rewrite (Hc_inj c 0 Hc code_ok0 E).
    - assert (c ≠ 0) by (intros ->; done). rewrite (Hp H0) /=. f_equal.
      unfold code_bytes, lenN. rewrite repeat_length. apply N2Nat.id.
  Qed.

  (* the database entry state.New builds for a live object *)
  Definition dbent (cs1 : cstate) (a : addr) : option (dbacct * list N) :=
    match j_objs (c_j cs1) !! a with
    | Some o => Some ({| d_acct := o_data o; d_stor := list_to_map (slist (committed (c_j cs1) a o) ks) |},
                      x_root (ext_of cs1 a))
    | None => None
    end.

  Definition reopened (cs1 : cstate) (root : list N) : cstate :=
    {| c_j := init_j (list_to_map (map (λ e, (e.1, e.2.1)) (alist (dbent cs1) al)));
       c_roots0 := list_to_map (map (λ e, (e.1, e.2.2)) (alist (dbent cs1) al));
       c_x := ∅; c_dx := ∅; c_muts := ∅; c_trie := None; c_root := root |}.

  Definition persistent_in (q : query) : Prop :=
    match q with
    | QExist _ | QEmpty _ | QBalance _ | QNonce _ | QCode _ | QCodeHash _ => True
    | QState _ k | QCommitted _ k => slot_ok k
    | _ => False
    end.

  (* the objects and the committed view of the reopened state *)
  Lemma reopened_facts cs1 root :
    (∀ a o, j_objs (c_j cs1) !! a = Some o → a ∈ al) →
    (∀ a, j_objs (c_j (reopened cs1 root)) !! a = (λ o, new_object (Some (o_data o))) <$> j_objs (c_j cs1) !! a) ∧
    (∀ a o o' k, j_objs (c_j cs1) !! a = Some o → slot_ok k → o_pending o' = ∅ →
       committed (c_j (reopened cs1 root)) a o' k = committed (c_j cs1) a o k) ∧
    c_x (reopened cs1 root) = ∅ ∧ c_muts (reopened cs1 root) = ∅ ∧ c_trie (reopened cs1 root) = None ∧
    c_root (reopened cs1 root) = root.
  Proof.
    intros Hlive.
    assert (Hdb : ∀ a, j_db (c_j (reopened cs1 root)) !! a = fst <$> dbent cs1 a).
    { intros a. simpl. rewrite alist_lookup. case_bool_decide as Ha; [done|].
      unfold dbent. destruct (j_objs (c_j cs1) !! a) eqn:Ho; [|done]. exfalso. by apply Ha, (Hlive a s). }
    split; [|split; [|done]].
    - intros a. change (j_objs (c_j (reopened cs1 root))) with
        ((λ d, new_object (Some (d_acct d))) <$> j_db (c_j (reopened cs1 root))).
      rewrite lookup_fmap Hdb. unfold dbent. by destruct (j_objs (c_j cs1) !! a).
    - intros a o o' k Ho Hk Hpe. unfold committed at 1, db_stor. rewrite Hpe lookup_empty.
      rewrite bool_decide_false; [set_solver|]. rewrite Hdb. unfold dbent. rewrite Ho /=.
      rewrite slist_lookup bool_decide_true //. by apply ks_ok.
  Qed.

  (* the code store after Commit holds the code of every live object *)
  Lemma commit_codes r r' p cs root cs1 root' p' :
    intermediate_root H r p cs = COk (root, cs1) → codes_ok p → code_guard p cs1 → root ≠ c_root cs1 →
    commit H r' p cs1 = COk (root', p') →
    codes_ok p' ∧ ∀ a o, j_objs (c_j cs1) !! a = Some o → a_code (o_data o) ≠ 0 →
      p_codes p' !! code_hash H (a_code (o_data o)) = Some (code_bytes (a_code (o_data o))).
  Proof.
    intros E Hcp Hcg Hne C.
    destruct (ir_same H H_bytes play play_empty CF r r' p cs root cs1 E) as (cs2 & E2 & Hs).
    pose proof C as C'. unfold commit in C'. rewrite E2 in C'.
    destruct (handle_destruction _ _ _ _ _) as [hd|]; [|done].
    destruct (commit_objects H cs2 (map_to_list (c_muts cs2)) p) as [p1|] eqn:Eco; [|done].
    destruct (ir_post H _ _ _ _ _ E2) as (_ & _ & t & Ht & _). rewrite Ht in C'.
    destruct Hs as (S1 & S2 & S3 & S4 & S5 & S6 & S7 & S8).
    rewrite S7 bool_decide_false // in C'. injection C' as _ <-. simpl.
    assert (Hx2 : ∀ a, ext_of cs2 a = ext_of cs1 a) by (intros; by apply ext_of_same).
    destruct (co_codes cs2 (map_to_list (c_muts cs2)) p p1 Hcp) as (A & B & Cc); [|done|].
    { intros a m o _. rewrite S1. intros Ho. by destruct (Hcg a o Ho). }
    split; [done|]. intros a o Ho Hc0. destruct (Hcg a o Ho) as [_ Hg]. destruct (Hg Hc0) as [Hin|(Hdc & m & Hm & Hd)].
    - by apply B.
    - specialize (S8 a). rewrite Hm /= in S8. destruct (c_muts cs2 !! a) as [m2|] eqn:Em2; [|done]. injection S8 as S8.
      apply (Cc a m2 o); [by apply elem_of_list_In, elem_of_map_to_list|congruence|by rewrite S1|by rewrite Hx2].
  Qed.

  (* Commit of an up-to-date state between transactions, then state.New on the new root *)
  Theorem reopen_sync r r' p cs root cs1 T root' p' :
    intermediate_root H r p cs = COk (root, cs1) →
    Sync p cs1 → hashed p cs1 T → pdb_ok p → codes_ok p → vals_ok cs1 → code_guard p cs1 →
    root ≠ c_root cs1 →
    commit H r' p cs1 = COk (root', p') →
    root' = root ∧ pdb_ok p' ∧ codes_ok p' ∧ extends p p' ∧
    open H al ks p' root' = COk (reopened cs1 root') ∧
    Sync p' (reopened cs1 root') ∧
    (∀ q, persistent_in q → query_c (reopened cs1 root') q = query_c cs1 q).
  Proof.
    intros E Sy Hh Hp Hcp Hv Hcg Hne C.
    destruct (reopen_reads H H_bytes addr_ok slot_ok play play_empty CF r r' p cs root cs1 T root' p' E Hh Hp Hne C)
      as (Er & Hp' & Hext & HoT & Hacct & Hst).
    (* the code store after Commit *)
    assert (Hcodes : codes_ok p' ∧ ∀ a o, j_objs (c_j cs1) !! a = Some o → a_code (o_data o) ≠ 0 →
              p_codes p' !! code_hash H (a_code (o_data o)) = Some (code_bytes (a_code (o_data o)))).
    { destruct (ir_same H H_bytes play play_empty CF r r' p cs root cs1 E) as (cs2 & E2 & Hs).
      pose proof C as C'. unfold commit in C'. rewrite E2 in C'.
      destruct (handle_destruction _ _ _ _ _) as [hd|]; [|done].
      destruct (commit_objects H cs2 (map_to_list (c_muts cs2)) p) as [p1|] eqn:Eco; [|done].
      destruct (ir_post H _ _ _ _ _ E2) as (_ & _ & t & Ht & _). rewrite Ht in C'.
      destruct Hs as (S1 & S2 & S3 & S4 & S5 & S6 & S7 & S8).
      rewrite S7 bool_decide_false // in C'. injection C' as _ <-. simpl.
      assert (Hx2 : ∀ a, ext_of cs2 a = ext_of cs1 a) by (intros; by apply ext_of_same).
      destruct (co_codes cs2 (map_to_list (c_muts cs2)) p p1 Hcp) as (A & B & Cc); [|done|].
      { intros a m o _. rewrite S1. intros Ho. by destruct (Hcg a o Ho). }
      split; [done|]. intros a o Ho Hc0. destruct (Hcg a o Ho) as [_ Hg]. destruct (Hg Hc0) as [Hin|(Hdc & m & Hm & Hd)].
      - by apply B.
      - specialize (S8 a). rewrite Hm /= in S8. destruct (c_muts cs2 !! a) as [m2|] eqn:Em2; [|done]. injection S8 as S8.
        apply (Cc a m2 o); [by apply elem_of_list_In, elem_of_map_to_list|congruence|by rewrite S1|by rewrite Hx2]. }
    destruct Hcodes as [Hcp' Hcode].
    (* the storage trie served for a live object *)
    assert (HS : ∀ a o, j_objs (c_j cs1) !! a = Some o →
              ∃ S, open_trie H p' (x_root (ext_of cs1 a)) = Some S ∧ hash_root H S = Some (x_root (ext_of cs1 a)) ∧
                   stor_rep S (committed (c_j cs1) a o) ∧
                   read_slots H S ks = COk (slist (committed (c_j cs1) a o) ks)).
    { intros a o Ho. destruct (Hst a o Ho) as (S & O1 & O2).
      destruct (h_stor _ _ _ _ _ _ _ Hh a o Ho) as (Sh & Hc & Hpl & Hr & Hk & Hon & _).
      assert (S = Sh) as ->.
      { unfold open_trie in O1. case_bool_decide as Ee.
        - injection O1 as <-. apply CF; [done|done|]. by rewrite Hr Ee.
        - destruct (Hp' _ _ O1) as [P1 P2]. apply CF; [done|done|]. by rewrite P2 Hr. }
      exists Sh. split; [done|]. split; [done|]. split; [by split|].
      apply read_slots_ok. intros k Hk'. apply read_slot_ok; [apply O2; by apply ks_ok|].
      destruct (Hv a o Ho) as [_ Hb]. apply Hb. by apply ks_ok. }
    (* reading one address *)
    assert (HR : ∀ a, a ∈ al → read_full H p' T ks a = COk (dbent cs1 a)).
    { intros a Ha. apply al_ok in Ha. unfold read_full, read_acct, dbent. rewrite (Hacct a Ha).
      unfold CommitReopen.obj_entry. destruct (j_objs (c_j cs1) !! a) as [o|] eqn:Ho; [|done].
      destruct (Hv a o Ho) as [Hao _]. destruct (HS a o Ho) as (S & O1 & O2 & _ & O4).
      assert (Hlen : lenN (x_root (ext_of cs1 a)) = 32).
      { destruct (h_stor _ _ _ _ _ _ _ Hh a o Ho) as (Sh & Hcs & _ & Hr & _). by apply (hash_root_len Sh). }
      rewrite (dec_acct_rlp H H_len _ _ Hao Hlen).
      destruct (Hcg a o Ho) as [Hck _]. rewrite (code_read p' _ Hck (Hcode a o Ho)).
      rewrite O1 O4. by destruct (o_data o). }
    split; [done|]. split; [done|]. split; [done|]. split; [done|].
    assert (Hopen : open H al ks p' root' = COk (reopened cs1 root')).
    { unfold open. rewrite HoT (read_all_ok p' T (dbent cs1) al HR). done. }
    split; [done|].
    (* lookups in the reopened state *)
    assert (Hlive : ∀ a o, j_objs (c_j cs1) !! a = Some o → a ∈ al).
    { intros a o Ho. apply al_ok. by apply (h_live_ok _ _ _ _ _ _ _ Hh a o). }
    assert (Hdb : ∀ a, j_db (c_j (reopened cs1 root')) !! a = fst <$> dbent cs1 a).
    { intros a. simpl. rewrite alist_lookup. case_bool_decide as Ha; [done|].
      unfold dbent. destruct (j_objs (c_j cs1) !! a) eqn:Ho; [|done]. exfalso. by apply Ha, (Hlive a s). }
    assert (Hr0 : ∀ a, c_roots0 (reopened cs1 root') !! a = snd <$> dbent cs1 a).
    { intros a. simpl. rewrite alist_lookup. case_bool_decide as Ha; [done|].
      unfold dbent. destruct (j_objs (c_j cs1) !! a) eqn:Ho; [|done]. exfalso. by apply Ha, (Hlive a s). }
    assert (Hobj : ∀ a, j_objs (c_j (reopened cs1 root')) !! a =
              (λ o, new_object (Some (o_data o))) <$> j_objs (c_j cs1) !! a).
    { intros a. change (j_objs (c_j (reopened cs1 root'))) with
        ((λ d, new_object (Some (d_acct d))) <$> j_db (c_j (reopened cs1 root'))).
      rewrite lookup_fmap Hdb. unfold dbent. by destruct (j_objs (c_j cs1) !! a). }
    assert (Hxr : ∀ a o, j_objs (c_j cs1) !! a = Some o →
              ext_of (reopened cs1 root') a =
              {| x_unc := ∅; x_root := x_root (ext_of cs1 a); x_trie := None; x_dcode := false |}).
    { intros a o Ho. unfold Commit.ext_of at 1, origin_ext. cbn [c_x]. rewrite lookup_empty /=.
      rewrite Hr0. unfold dbent. by rewrite Ho. }
    assert (Hcm : ∀ a o o' k, j_objs (c_j cs1) !! a = Some o → slot_ok k → o_pending o' = ∅ →
              committed (c_j (reopened cs1 root')) a o' k = committed (c_j cs1) a o k).
    { intros a o o' k Ho Hk Hpe. unfold committed at 1, db_stor. rewrite Hpe lookup_empty.
      rewrite bool_decide_false; [set_solver|]. rewrite Hdb. unfold dbent. rewrite Ho /=.
      rewrite slist_lookup bool_decide_true //. by apply ks_ok. }
    split.
    - (* Sync *)
      split.
      + apply tx_boundary_init.
      + intros a o'. rewrite Hobj. destruct (j_objs (c_j cs1) !! a) as [o|] eqn:Ho; [|done]. intros [= <-].
        split; [by apply (h_live_ok _ _ _ _ _ _ _ Hh a o)|]. intros k v. by rewrite lookup_empty.
      + exists T. split; [unfold CommitFin.cur_trie; by simpl|]. split; [exact (h_canon _ _ _ _ _ _ _ Hh)|]. split.
        * intros a Ha _. rewrite (h_acct _ _ _ _ _ _ _ Hh a Ha). unfold CommitReopen.obj_entry. rewrite Hobj.
          destruct (j_objs (c_j cs1) !! a) as [o|] eqn:Ho; [|done]. simpl. by rewrite (Hxr a o Ho).
        * exact (h_acct_only _ _ _ _ _ _ _ Hh).
      + intros a m. by rewrite lookup_empty.
      + intros a o'. rewrite Hobj. destruct (j_objs (c_j cs1) !! a) as [o|] eqn:Ho; [|done]. intros [= <-].
        destruct (HS a o Ho) as (S & O1 & O2 & O3 & _). exists S. unfold CommitFin.obj_trie. rewrite (Hxr a o Ho) /=.
        split; [done|]. split; [done|]. eapply stor_rep_ext_ok; [|exact O3]. intros k Hk. unfold CommitFin.base.
        rewrite (Hxr a o Ho) /= lookup_empty. symmetry. by apply (Hcm a o).
      + intros a o'. rewrite Hobj. destruct (j_objs (c_j cs1) !! a) as [o|] eqn:Ho; [|done]. intros [= <-].
        rewrite (Hxr a o Ho) /=. split; [intros k orig; by rewrite lookup_empty|done].
      + intros a o' S. rewrite Hobj. destruct (j_objs (c_j cs1) !! a) as [o|] eqn:Ho; [|done]. intros [= <-].
        by rewrite (Hxr a o Ho).
      + intros a. rewrite Hobj. destruct (j_objs (c_j cs1) !! a) as [o|] eqn:Ho; [done|]. intros _.
        unfold Commit.ext_of, origin_ext. cbn [c_x]. rewrite lookup_empty /= Hr0. unfold dbent. by rewrite Ho.
      + intros a. rewrite Hdb Hr0. unfold dbent. destruct (j_objs (c_j cs1) !! a) as [o|] eqn:Ho; [|done]. simpl.
        destruct (HS a o Ho) as (S & O1 & O2 & O3 & _). exists (x_root (ext_of cs1 a)), S.
        split; [done|]. split; [done|]. split; [done|]. eapply stor_rep_ext_ok; [|exact O3].
        intros k Hk. rewrite slist_lookup bool_decide_true //. by apply ks_ok.
      + intros a o' _ _. simpl. set_solver.
    - (* the persistent getters *)
      assert (Hd1 : ∀ a o, j_objs (c_j cs1) !! a = Some o → o_dirty o = ∅)
        by (intros a o; apply (tb_dirty _ (sy_tb _ _ _ _ _ Sy))).
      intros q Hq. unfold query_c. destruct q; try done; simpl; rewrite Hobj;
        destruct (j_objs (c_j cs1) !! a) as [o|] eqn:Ho; simpl; try done.
      all: try (unfold get_state; simpl; rewrite ?lookup_empty ?(Hd1 a o Ho) ?lookup_empty; f_equal; by apply (Hcm a o)).
  Qed.

  (* originalRoot only changes at Commit *)
  Lemma step_c_root cs o : c_root (step_c H cs o).1 = c_root cs.
  Proof.
    unfold step_c. destruct (step_j (c_j cs) o) as [j' w].
    set (cs1 := match creates (c_j cs) o with Some a => set_x a (fresh_ext H) cs | None => cs end).
    assert (H1 : c_root cs1 = c_root cs) by (unfold cs1; by destruct (creates (c_j cs) o)).
    destruct o; simpl; try exact H1.
    - destruct (find_revision id (j_revs (c_j cs))) as [[idx rest]|]; [|exact H1].
      destruct (marks_fields H (reverted_codes (c_j cs) idx) cs1) as (_&_&_&_&_&->). exact H1.
  Qed.
  Lemma run_c_root ops : ∀ cs, c_root (run_c H cs ops) = c_root cs.
  Proof. induction ops as [|o r IH]; intros cs; [done|]. unfold run_c in *. simpl. rewrite IH. apply step_c_root. Qed.
  Lemma ir_root r p cs root cs1 : intermediate_root H r p cs = COk (root, cs1) → c_root cs1 = c_root cs.
  Proof.
    unfold intermediate_root. set (cs0 := (step_c H cs (OFinalise r)).1).
    destruct (match c_trie cs0 with Some t => Some t | None => open_trie H p (c_root cs0) end); [|done].
    destruct (ir_storage H p (map_to_list (c_muts cs0)) cs0) as [cs2|] eqn:E2; [|done].
    destruct (acct_updates H cs2 _); [|done]. destruct (t_update_seq _ _); [|done]. destruct (t_hash H _); [|done].
    intros [= _ <-]. simpl. destruct (ir_storage_pres H p _ cs0 cs2 E2) as (_ & _ & _ & -> & _). apply step_c_root.
  Qed.
  Lemma run_txs_root p ts : ∀ cs cs', run_txs H p cs ts = Some cs' → c_root cs' = c_root cs.
  Proof.
    induction ts as [|t rest IH]; intros cs cs' E; simpl in E; [by injection E as <-|].
    destruct (run_tx H p cs t) as [cs1|] eqn:E1; [|done]. rewrite (IH _ _ E). unfold run_tx in E1. cbv zeta in E1.
    pose proof (step_c_root (run_c H cs (t_ops t)) (OFinalise (t_rules t))) as R1.
    rewrite run_c_root in R1.
    destruct (t_ir t).
    - destruct (intermediate_root H (t_rules t) p _) as [[rt cs3]|] eqn:Eir; [|done]. injection E1 as <-.
      by rewrite (ir_root _ _ _ _ _ Eir).
    - by injection E1 as <-.
  Qed.

  (* ---- chains of blocks ---- *)
  Notation txs_ok := (txs_ok H addr_ok slot_ok).

  (* one block: transactions (with IntermediateRoot at any transaction boundaries), the final
     IntermediateRoot and Commit *)
  Record blk := { b_txs : list tx; b_rules : rules; b_crules : rules }.

  (* what is asked of a block run from (p, cs0): the calls are inside the C13 guards and touch the
     universe in play only (txs_ok); the tries of the final state are in play; its values are in Go's
     ranges; the codes of its live objects are in the store or marked dirty *)
  Definition blk_ok (p : pdb) (cs0 : cstate) (b : blk) (cs cs1 : cstate) (root : list N) : Prop :=
    txs_ok p cs0 (b_txs b) ∧ run_txs H p cs0 (b_txs b) = Some cs ∧
    intermediate_root H (b_rules b) p cs = COk (root, cs1) ∧
    tries_play H play p cs1 ∧ vals_ok cs1 ∧ code_guard p cs1.

  (* the (database, freshly opened state) pairs a chain of blocks reaches from the empty chain start;
     a block whose root did not change writes nothing: the chain stays where it is *)
  Inductive chain : pdb → cstate → Prop :=
  | chain0 : chain pdb0 (cs_genesis H)
  | chainS p cs0 b cs cs1 root root' p' :
      chain p cs0 → blk_ok p cs0 b cs cs1 root → root ≠ c_root cs1 →
      commit H (b_crules b) p cs1 = COk (root', p') →
      chain p' (reopened cs1 root').

  Lemma blk_sync p cs0 b cs cs1 root :
    Sync p cs0 → blk_ok p cs0 b cs cs1 root →
    Sync p cs1 ∧ ∃ T, hashed p cs1 T ∧ hash_root H T = Some root.
  Proof.
    intros Sy (Hok & Er & Eir & [Hp1 Hp2] & _ & _).
    pose proof (sync_txs H H_bytes addr_ok slot_ok Hk_addr Hk_slot p (b_txs b) cs0 cs Sy Hok Er) as Sy1.
    destruct (sync_ir H H_bytes addr_ok slot_ok Hk_addr Hk_slot p cs (b_rules b) root cs1 Sy1 Eir) as (Sy2 & Happ & Hunc & T & Ht & Hh).
    split; [done|]. exists T. split; [|done].
    by apply (sync_hashed H addr_ok slot_ok play p cs1 T Sy2 Happ Hunc Ht (Hp1 T Ht) Hp2).
  Qed.

  (* every state a chain reaches is what state.New returns there and satisfies the invariant *)
  Definition fresh_open (cs0 : cstate) : Prop := c_x cs0 = ∅ ∧ c_muts cs0 = ∅ ∧ c_trie cs0 = None.

  Theorem chain_inv p cs0 : chain p cs0 →
    Sync p cs0 ∧ pdb_ok p ∧ codes_ok p ∧ open H al ks p (c_root cs0) = COk cs0 ∧
    fresh_open cs0 ∧ vals_ok cs0 ∧ (∀ a o, j_objs (c_j cs0) !! a = Some o → code_ok (a_code (o_data o))).
  Proof.
    induction 1 as [|p cs0 b cs cs1 root root' p' Hc IH Hb Hne C].
    - split; [apply sync_genesis|]. split; [by intros ???|]. split; [by intros ???|].
      split; [apply (open_genesis H H_bytes)|]. split; [done|].
      split; intros a o; simpl; by rewrite fmap_empty lookup_empty.
    - destruct IH as (Sy & Hp & Hcp & _).
      destruct (blk_sync p cs0 b cs cs1 root Sy Hb) as (Sy1 & T & Hh & _).
      destruct Hb as (_ & _ & Eir & _ & Hv & Hcg).
      destruct (reopen_sync (b_rules b) (b_crules b) p cs root cs1 T root' p' Eir Sy1 Hh Hp Hcp Hv Hcg Hne C)
        as (_ & A & B & _ & D & E & _).
      assert (Hlive : ∀ a o, j_objs (c_j cs1) !! a = Some o → a ∈ al).
      { intros a o Ho. apply al_ok. by apply (h_live_ok _ _ _ _ _ _ _ Hh a o). }
      destruct (reopened_facts cs1 root' Hlive) as (F1 & F2 & F3 & F4 & F5 & F6).
      split; [done|]. split; [done|]. split; [done|]. split; [by rewrite F6|]. split; [done|]. split.
      + intros a o'. rewrite F1. destruct (j_objs (c_j cs1) !! a) as [o|] eqn:Ho; [|done]. intros [= <-].
        destruct (Hv a o Ho) as [V1 V2]. split; [done|]. intros k Hk. rewrite (F2 a o _ k Ho Hk); [done|by apply V2].
      + intros a o'. rewrite F1. destruct (j_objs (c_j cs1) !! a) as [o|] eqn:Ho; [|done]. intros [= <-].
        by destruct (Hcg a o Ho).
  Qed.

  (* reopen_reads, end to end: after ANY chain of blocks from the empty chain start and one more
     block with a changed root, Commit returns the IntermediateRoot root and state.New on it
     answers every persistent getter like the finalised state *)
  Theorem chain_reopen_reads p cs0 b cs cs1 root root' p' :
    chain p cs0 → blk_ok p cs0 b cs cs1 root → root ≠ c_root cs1 →
    commit H (b_crules b) p cs1 = COk (root', p') →
    root' = root ∧ open H al ks p' root' = COk (reopened cs1 root') ∧
    (∀ q, persistent_in q → query_c (reopened cs1 root') q = query_c cs1 q) ∧
    ∃ T, hashed p cs1 T ∧ hash_root H T = Some root.
  Proof.
    intros Hc Hb Hne C. destruct (chain_inv p cs0 Hc) as (Sy & Hp & Hcp & _ & _).
    destruct (blk_sync p cs0 b cs cs1 root Sy Hb) as (Sy1 & T & Hh & Hr).
    pose proof Hb as (_ & _ & Eir & _ & Hv & Hcg).
    destruct (reopen_sync (b_rules b) (b_crules b) p cs root cs1 T root' p' Eir Sy1 Hh Hp Hcp Hv Hcg Hne C)
      as (A & _ & _ & _ & D & _ & G). split; [done|]. split; [done|]. split; [done|]. by exists T.
  Qed.

  (* a block whose root did not change: Commit writes nothing and state.New returns the state the
     block started from *)
  Theorem chain_empty_update p cs0 b cs cs1 root root' p' :
    chain p cs0 → blk_ok p cs0 b cs cs1 root → root = c_root cs1 →
    commit H (b_crules b) p cs1 = COk (root', p') →
    root' = root ∧ p' = p ∧ open H al ks p' root' = COk cs0.
  Proof.
    intros Hc Hb He C. destruct (chain_inv p cs0 Hc) as (Sy & Hp & Hcp & Hop & _).
    pose proof Hb as (Hok & Er & Eir & _).
    destruct (ir_same H H_bytes play play_empty CF (b_rules b) (b_crules b) p cs root cs1 Eir) as (cs2 & E2 & Hs).
    unfold commit in C. rewrite E2 in C.
    destruct (handle_destruction _ _ _ _ _) as [hd|]; [|done].
    destruct (commit_objects H cs2 _ p) as [p1|]; [|done].
    destruct (ir_post H _ _ _ _ _ E2) as (_ & _ & t & Ht & _). rewrite Ht in C.
    destruct Hs as (_ & _ & _ & _ & _ & _ & S7 & _). rewrite S7 bool_decide_true // in C. injection C as <- <-.
    split; [done|]. split; [done|].
    assert (Hroot : c_root cs1 = c_root cs0).
    { by rewrite (ir_root _ _ _ _ _ Eir) (run_txs_root _ _ _ _ Er). }
    by rewrite He Hroot.
  Qed.

  (* ... and its getters are those of the finalised state: an unchanged root means an unchanged
     state, by collision freedom of the root hash on the tries in play *)
  Theorem chain_empty_update_getters p cs0 b cs cs1 root :
    chain p cs0 → blk_ok p cs0 b cs cs1 root → root = c_root cs1 →
    ∀ q, persistent_in q → query_c cs0 q = query_c cs1 q.
  Proof.
    intros Hc Hb He.
    destruct (chain_inv p cs0 Hc) as (Sy & Hp & Hcp & Hop & (Hx0 & Hm0 & Ht0) & Hv0 & Hck0).
    destruct (blk_sync p cs0 b cs cs1 root Sy Hb) as (Sy1 & T & Hh & HrT).
    pose proof Hb as (Hok & Er & Eir & Htp & Hv1 & Hcg1).
    assert (Hroot : c_root cs1 = c_root cs0) by (by rewrite (ir_root _ _ _ _ _ Eir) (run_txs_root _ _ _ _ Er)).
    (* a trie served by the database is in play and hashes to its key *)
    assert (Hserved : ∀ rt t, open_trie H p rt = Some t → play t ∧ hash_root H t = Some rt).
    { intros rt t. unfold open_trie. case_bool_decide as Ee; [intros [= <-]; by rewrite Ee|apply Hp]. }
    destruct (sy_T _ _ _ _ _ Sy) as (T0 & B1 & B2 & B3 & B4). unfold CommitFin.cur_trie in B1. rewrite Ht0 in B1.
    destruct (Hserved _ _ B1) as [P0 R0].
    assert (T = T0) as ->.
    { apply CF; [exact (h_play _ _ _ _ _ _ _ Hh)|done|]. by rewrite HrT R0 He Hroot. }
    assert (Hnp : ∀ a, ¬ pend cs0 a) by (intros a (m & Hm & _); by rewrite Hm0 lookup_empty in Hm).
    assert (Hext0 : ∀ a, x_unc (ext_of cs0 a) = ∅ ∧ x_trie (ext_of cs0 a) = None).
    { intros a. unfold Commit.ext_of, origin_ext. by rewrite Hx0 lookup_empty. }
    (* the objects *)
    assert (Hrel : ∀ a, match j_objs (c_j cs0) !! a, j_objs (c_j cs1) !! a with
                        | Some o0, Some o1 => o_data o0 = o_data o1 ∧ x_root (ext_of cs0 a) = x_root (ext_of cs1 a)
                        | None, None => True
                        | _, _ => False
                        end).
    { intros a. destruct (decide (a ∈ al)) as [Ha|Ha].
      - apply al_ok in Ha. pose proof (B3 a Ha (Hnp a)) as E0. rewrite (h_acct _ _ _ _ _ _ _ Hh a Ha) in E0.
        unfold CommitReopen.obj_entry in E0.
        destruct (j_objs (c_j cs0) !! a) as [o0|] eqn:Ho0, (j_objs (c_j cs1) !! a) as [o1|] eqn:Ho1; try done.
        injection E0 as E0. apply (f_equal dec_acct) in E0.
        destruct (Hv0 a o0 Ho0) as [V0 _]. destruct (Hv1 a o1 Ho1) as [V1 _].
        assert (L0 : lenN (x_root (ext_of cs0 a)) = 32).
        { destruct (sy_stor _ _ _ _ _ Sy a o0 Ho0) as (S0 & _ & Hr & (Hcs & _)). by apply (hash_root_len S0). }
        assert (L1 : lenN (x_root (ext_of cs1 a)) = 32).
        { destruct (h_stor _ _ _ _ _ _ _ Hh a o1 Ho1) as (S1 & Hcs & _ & Hr & _). by apply (hash_root_len S1). }
        rewrite (dec_acct_rlp H H_len _ _ V1 L1) (dec_acct_rlp H H_len _ _ V0 L0) in E0.
        injection E0 as En Eb Er' Ec. split; [|done].
        apply Hc_inj in Ec; [|by destruct (Hcg1 a o1 Ho1)|by apply (Hck0 a o0)].
        destruct (o_data o0), (o_data o1); simpl in *; congruence.
      - destruct (j_objs (c_j cs0) !! a) as [o0|] eqn:Ho0.
        { exfalso. apply Ha, al_ok. by destruct (sy_ok _ _ _ _ _ Sy a o0 Ho0). }
        destruct (j_objs (c_j cs1) !! a) as [o1|] eqn:Ho1; [|done].
        exfalso. apply Ha, al_ok. by apply (h_live_ok _ _ _ _ _ _ _ Hh a o1). }
    (* the storage *)
    assert (Hstor : ∀ a o0 o1 k, j_objs (c_j cs0) !! a = Some o0 → j_objs (c_j cs1) !! a = Some o1 → slot_ok k →
              committed (c_j cs0) a o0 k = committed (c_j cs1) a o1 k).
    { intros a o0 o1 k Ho0 Ho1 Hk. specialize (Hrel a). rewrite Ho0 Ho1 in Hrel. destruct Hrel as [_ Hr01].
      destruct (sy_stor _ _ _ _ _ Sy a o0 Ho0) as (S0 & O1 & O2 & (C0 & K0 & _)).
      destruct (Hext0 a) as [Hu0 Hxt0]. unfold CommitFin.obj_trie in O1. rewrite Hxt0 in O1.
      destruct (Hserved _ _ O1) as [PS0 _].
      destruct (h_stor _ _ _ _ _ _ _ Hh a o1 Ho1) as (S1 & C1 & PS1 & R1 & K1 & _).
      assert (S1 = S0) as ->. { apply CF; [done|done|]. by rewrite R1 O2 Hr01. }
      pose proof (K0 k Hk) as E0. rewrite (K1 k Hk) in E0. unfold CommitFin.base in E0. rewrite Hu0 lookup_empty in E0.
      destruct (Hv0 a o0 Ho0) as [_ W0]. destruct (Hv1 a o1 Ho1) as [_ W1].
      symmetry. by apply slot_val_inj; [apply W1|apply W0|]. }
    assert (Hd0 : ∀ a o, j_objs (c_j cs0) !! a = Some o → o_dirty o = ∅)
      by (intros a o; apply (tb_dirty _ (sy_tb _ _ _ _ _ Sy))).
    assert (Hd1 : ∀ a o, j_objs (c_j cs1) !! a = Some o → o_dirty o = ∅)
      by (intros a o; apply (tb_dirty _ (sy_tb _ _ _ _ _ Sy1))).
    intros q Hq. unfold query_c. destruct q; try done; simpl; pose proof (Hrel a) as Hr;
      destruct (j_objs (c_j cs0) !! a) as [o0|] eqn:Ho0, (j_objs (c_j cs1) !! a) as [o1|] eqn:Ho1; try done;
      destruct Hr as [Hdat _]; rewrite /obj_empty ?Hdat //.
    all: try (unfold get_state; rewrite ?(Hd0 a o0 Ho0) ?(Hd1 a o1 Ho1) ?lookup_empty; f_equal; by apply (Hstor a o0 o1)).
  Qed.

  (* destruct + re-create + commit + reopen, end to end: the reopened GetState / GetCommittedState of a
     slot the new incarnation did not write is 0 *)
  Theorem chain_destruct_recreate_clean p cs0 b cs cs1 root root' p' a o k :
    chain p cs0 → blk_ok p cs0 b cs cs1 root → root ≠ c_root cs1 →
    commit H (b_crules b) p cs1 = COk (root', p') →
    a ∈ j_destruct (c_j cs1) → j_objs (c_j cs1) !! a = Some o → o_pending o !! k = None → slot_ok k →
    query_c (reopened cs1 root') (QState a k) = AN 0 ∧ query_c (reopened cs1 root') (QCommitted a k) = AN 0.
  Proof.
    intros Hc Hb Hne C Hd Ho Hpe Hk.
    destruct (chain_reopen_reads p cs0 b cs cs1 root root' p' Hc Hb Hne C) as (_ & _ & G & _).
    destruct (chain_inv p cs0 Hc) as (Sy & _).
    destruct (blk_sync p cs0 b cs cs1 root Sy Hb) as (Sy1 & _).
    rewrite (G (QState a k) Hk) (G (QCommitted a k) Hk). unfold query_c. simpl. rewrite Ho.
    unfold get_state. rewrite (tb_dirty _ (sy_tb _ _ _ _ _ Sy1) a o Ho) lookup_empty.
    unfold committed. rewrite Hpe bool_decide_true //.
  Qed.

  (* two chains, each followed by one more block, that end in the same observable accounts return
     the same root *)
  Theorem chain_root_depends_only_on_state pa csa0 ba csa csa1 roota pb csb0 bb csb csb1 rootb :
    chain pa csa0 → blk_ok pa csa0 ba csa csa1 roota →
    chain pb csb0 → blk_ok pb csb0 bb csb csb1 rootb →
    (∀ a, match j_objs (c_j csa1) !! a, j_objs (c_j csb1) !! a with
          | Some o1, Some o2 => o_data o1 = o_data o2 ∧
                                ∀ k, slot_ok k → committed (c_j csa1) a o1 k = committed (c_j csb1) a o2 k
          | None, None => True
          | _, _ => False
          end) →
    roota = rootb.
  Proof.
    intros Ha Hba Hb Hbb Hobs.
    destruct (chain_inv pa csa0 Ha) as (SyA & _). destruct (chain_inv pb csb0 Hb) as (SyB & _).
    destruct (blk_sync pa csa0 ba csa csa1 roota SyA Hba) as (_ & TA & HhA & HrA).
    destruct (blk_sync pb csb0 bb csb csb1 rootb SyB Hbb) as (_ & TB & HhB & HrB).
    destruct (root_depends_only_on_state H addr_ok slot_ok play pa csa1 TA pb csb1 TB HhA HhB Hobs) as [_ Heq].
    rewrite HrA HrB in Heq. by injection Heq.
  Qed.
End Chain.

(* ---- the hypotheses on the hash function and the universe in play, bundled ---- *)
Record universe (H : list N → list N) (addr_ok : addr → Prop) (slot_ok : slot → Prop) (play : node → Prop)
       (code_ok : N → Prop) (al : list addr) (ks : list slot) : Prop := {
  u_bytes : ∀ x, forallb byteb (H x) = true;                   (* H yields byte strings ... *)
  u_len : ∀ x, lenN (H x) = 32;                                (* ... of 32 bytes *)
  (* collision freedom of the secure keys on the addresses / slots in play *)
  u_addr : ∀ a b, addr_ok a → addr_ok b → addr_key H a = addr_key H b → a = b;
  u_slot : ∀ a b, slot_ok a → slot_ok b → slot_key H a = slot_key H b → a = b;
  (* ... of the root hash on the tries in play, of the code hash on the codes in play *)
  u_play0 : play NEmpty;
  u_cf : ∀ t1 t2, play t1 → play t2 → hash_root H t1 = hash_root H t2 → t1 = t2;
  u_code0 : code_ok 0;
  u_code : ∀ c c', code_ok c → code_ok c' → code_hash H c = code_hash H c' → c = c';
  (* state.New loads exactly the universe in play *)
  u_al : ∀ a, addr_ok a ↔ a ∈ al;
  u_ks : ∀ k, slot_ok k ↔ k ∈ ks
}.

Section Bundled.
  Context {H addr_ok slot_ok play code_ok al ks} (U : universe H addr_ok slot_ok play code_ok al ks).
  Notation chain := (chain H addr_ok slot_ok play code_ok al ks).
  Notation blk_ok := (blk_ok H addr_ok slot_ok play code_ok).
  Notation reopened := (reopened H al ks).

  Theorem u_chain_inv p cs0 : chain p cs0 →
    Sync H addr_ok slot_ok p cs0 ∧ pdb_ok H play p ∧ codes_ok H code_ok p ∧ open H al ks p (c_root cs0) = COk cs0.
  Proof. destruct U. intros Hc. by destruct (chain_inv H u_bytes0 u_len0 addr_ok slot_ok u_addr0 u_slot0 play u_play1 u_cf0 code_ok u_code1 u_code2 al ks u_al0 u_ks0 p cs0 Hc) as (?&?&?&?&_). Qed.

  Theorem u_chain_reopen_reads p cs0 b cs cs1 root root' p' :
    chain p cs0 → blk_ok p cs0 b cs cs1 root → root ≠ c_root cs1 →
    commit H (b_crules b) p cs1 = COk (root', p') →
    root' = root ∧ open H al ks p' root' = COk (reopened cs1 root') ∧
    (∀ q, persistent_in slot_ok q → query_c (reopened cs1 root') q = query_c cs1 q) ∧
    ∃ T, hashed H addr_ok slot_ok play p cs1 T ∧ hash_root H T = Some root.
  Proof. destruct U. by apply chain_reopen_reads. Qed.

  Theorem u_chain_empty_update p cs0 b cs cs1 root root' p' :
    chain p cs0 → blk_ok p cs0 b cs cs1 root → root = c_root cs1 →
    commit H (b_crules b) p cs1 = COk (root', p') →
    root' = root ∧ p' = p ∧ open H al ks p' root' = COk cs0.
  Proof. destruct U. by apply (chain_empty_update H u_bytes0 u_len0 addr_ok slot_ok u_addr0 u_slot0 play u_play1 u_cf0 code_ok u_code1 u_code2 al ks u_al0 u_ks0 p cs0 b cs cs1). Qed.

  Theorem u_chain_empty_update_getters p cs0 b cs cs1 root :
    chain p cs0 → blk_ok p cs0 b cs cs1 root → root = c_root cs1 →
    ∀ q, persistent_in slot_ok q → query_c cs0 q = query_c cs1 q.
  Proof. destruct U. by apply (chain_empty_update_getters H u_bytes0 u_len0 addr_ok slot_ok u_addr0 u_slot0 play u_play1 u_cf0 code_ok u_code1 u_code2 al ks u_al0 u_ks0 p cs0 b cs cs1 root). Qed.

  Theorem u_chain_destruct_recreate_clean p cs0 b cs cs1 root root' p' a o k :
    chain p cs0 → blk_ok p cs0 b cs cs1 root → root ≠ c_root cs1 →
    commit H (b_crules b) p cs1 = COk (root', p') →
    a ∈ j_destruct (c_j cs1) → j_objs (c_j cs1) !! a = Some o → o_pending o !! k = None → slot_ok k →
    query_c (reopened cs1 root') (QState a k) = AN 0 ∧ query_c (reopened cs1 root') (QCommitted a k) = AN 0.
  Proof. destruct U. by apply (chain_destruct_recreate_clean H u_bytes0 u_len0 addr_ok slot_ok u_addr0 u_slot0 play u_play1 u_cf0 code_ok u_code1 u_code2 al ks u_al0 u_ks0 p cs0 b cs cs1 root root' p' a o k). Qed.

  Theorem u_chain_root_depends_only_on_state pa csa0 ba csa csa1 roota pb csb0 bb csb csb1 rootb :
    chain pa csa0 → blk_ok pa csa0 ba csa csa1 roota →
    chain pb csb0 → blk_ok pb csb0 bb csb csb1 rootb →
    (∀ a, match j_objs (c_j csa1) !! a, j_objs (c_j csb1) !! a with
          | Some o1, Some o2 => o_data o1 = o_data o2 ∧
                                ∀ k, slot_ok k → committed (c_j csa1) a o1 k = committed (c_j csb1) a o2 k
          | None, None => True
          | _, _ => False
          end) →
    roota = rootb.
  Proof. destruct U. by apply (chain_root_depends_only_on_state H u_bytes0 u_len0 addr_ok slot_ok u_addr0 u_slot0 play u_play1 u_cf0 code_ok u_code1 u_code2 al ks u_al0 u_ks0 pa csa0 ba csa csa1 roota pb csb0 bb csb csb1 rootb). Qed.
End Bundled.
