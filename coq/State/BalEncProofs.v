(* State/BalEncProofs.v — lemmas about State/BalEnc.v: RLP round trip of block access
   lists (through the typed layer Rlp/Schema.v, C01/C02), injectivity of the hash under
   collision freedom, and "Validate accepts every list that is strictly sorted at every
   level, has its indices / code sizes / item count within bounds" (and conversely
   for the ordering checks). *)
From Coq Require Import Sorted Lia.
From GV Require Import Lib.Tactics Lib.Bytes Lib.BytesProofs Rlp.Item Rlp.Codec Rlp.CodecProofs.
From GV Require Import Rlp.Stream Rlp.Schema Rlp.SchemaProofs State.BalEnc.
Local Open Scope N_scope.

(* ------------------------------------------------------------------ *)
(* small list lemmas *)
Lemma forallb_map' {A B} (f : A -> B) p l : forallb p (map f l) = forallb (fun x => p (f x)) l.
Proof. induction l as [|x l IH]; cbn; [reflexivity|]. rewrite IH. reflexivity. Qed.

Lemma forallb_imp {A} (p q : A -> bool) l :
  (forall x, p x = true -> q x = true) -> forallb p l = true -> forallb q l = true.
Proof.
  intros H. induction l as [|x l IH]; cbn; [reflexivity|]. intros E.
  apply andb_prop in E as [E1 E2]. rewrite (H _ E1), (IH E2). reflexivity.
Qed.

Lemma opt_all_map {A B} (f : B -> option A) (g : A -> B) l :
  (forall x, f (g x) = Some x) -> opt_all f (map g l) = Some l.
Proof. intros H. induction l as [|x l IH]; cbn; [reflexivity|]. rewrite H, IH. reflexivity. Qed.

Lemma conforms_list s {A} (f : A -> value) l :
  conforms (SList s) (VList (map f l)) = forallb (fun x => conforms s (f x)) l.
Proof. cbn [conforms]. apply forallb_map'. Qed.

(* ------------------------------------------------------------------ *)
(* addresses as [20]byte *)
Lemma be_decode_zeros n b : be_decode (repeat 0 n ++ b) = be_decode b.
Proof.
  induction n as [|n IH]; cbn [repeat app]; [reflexivity|].
  rewrite be_decode_cons, IH. lia.
Qed.

Lemma addr_bytes_decode a : be_decode (addr_bytes a) = a.
Proof. unfold addr_bytes, pad_to. rewrite be_decode_zeros. apply be_bytes_decode. Qed.

Lemma pow_160 : 256 ^ N.of_nat 20 = 2 ^ 160.
Proof. reflexivity. Qed.

Lemma addr_bytes_len a : a < 2 ^ 160 -> lenN (addr_bytes a) = 20.
Proof.
  intros H. rewrite <- pow_160 in H. pose proof (be_bytes_len_le 20 a H) as L.
  unfold addr_bytes, pad_to, lenN. rewrite app_length, repeat_length. lia.
Qed.

(* ------------------------------------------------------------------ *)
(* decode (encode b) = b *)
Lemma schema_ok_bal : schema_ok bal_schema = true.
Proof. reflexivity. Qed.

Lemma pair_conforms_256 p : pair_ok 256 p = true -> conforms idx_val_schema (pair_v p) = true.
Proof.
  unfold pair_ok, idx_val_schema, pair_v. intros H. apply andb_prop in H as [H1 H2].
  rewrite conforms_struct. cbn [conforms_fields conforms]. rewrite H1, H2. reflexivity.
Qed.
Lemma pair_conforms_64 p :
  pair_ok 64 p = true -> conforms (SStruct [SUint 32; SUint 64]) (pair_v p) = true.
Proof.
  unfold pair_ok, pair_v. intros H. apply andb_prop in H as [H1 H2].
  rewrite conforms_struct. cbn [conforms_fields conforms]. rewrite H1, H2. reflexivity.
Qed.

Lemma addr_conforms a : a < 2 ^ 160 -> conforms (SFixed 20) (VBytes (addr_bytes a)) = true.
Proof. intros H. cbn [conforms]. rewrite (addr_bytes_len _ H). reflexivity. Qed.

Lemma account_conforms e : account_ok e = true -> conforms account_schema (account_v e) = true.
Proof.
  unfold account_ok. intros H.
  apply andb_prop in H as [H H6]. apply andb_prop in H as [H H5]. apply andb_prop in H as [H H4].
  apply andb_prop in H as [H H3]. apply andb_prop in H as [H1 H2].
  unfold account_schema, account_v. rewrite conforms_struct. cbn [conforms_fields].
  rewrite !conforms_list.
  apply N.ltb_lt in H1. rewrite (addr_conforms _ H1).
  repeat (apply andb_true_intro; split); try reflexivity.
  - revert H2. apply forallb_imp. intros [s ws] Hs. cbn [fst snd] in *.
    apply andb_prop in Hs as [Hs1 Hs2]. rewrite conforms_struct. cbn [conforms_fields].
    rewrite conforms_list. cbn [conforms]. rewrite Hs1. cbn [andb]. rewrite andb_true_r.
    revert Hs2. apply forallb_imp. exact pair_conforms_256.
  - revert H3. apply forallb_imp. intros s Hs. exact Hs.
  - revert H4. apply forallb_imp. exact pair_conforms_256.
  - revert H5. apply forallb_imp. exact pair_conforms_64.
  - revert H6. apply forallb_imp. intros [i c] Hc. cbn [fst snd] in *. apply andb_prop in Hc as [Hc _].
    rewrite conforms_struct. cbn [conforms_fields conforms]. rewrite Hc. reflexivity.
Qed.

Lemma bal_conforms b : bal_ok b = true -> conforms bal_schema (bal_v b) = true.
Proof.
  unfold bal_ok, bal_schema, bal_v. rewrite conforms_list. apply forallb_imp. exact account_conforms.
Qed.

Lemma v_pair_v p : v_pair (pair_v p) = Some p.
Proof. destruct p. reflexivity. Qed.

Lemma v_account_v e : v_account (account_v e) = Some e.
Proof.
  destruct e as [a ch rd bl nn cd]. unfold account_v, v_account, v_list. cbn [aa_addr aa_changes aa_reads aa_bal aa_nonce aa_code].
  rewrite (opt_all_map v_changes).
  2:{ intros [s ws]. cbn [v_changes fst snd v_list]. rewrite (opt_all_map v_pair); [reflexivity|exact v_pair_v]. }
  rewrite (opt_all_map v_num) by reflexivity.
  rewrite !(opt_all_map v_pair) by exact v_pair_v.
  rewrite (opt_all_map v_code) by (intros []; reflexivity).
  rewrite addr_bytes_decode. reflexivity.
Qed.

Theorem decode_encode b :
  bal_ok b = true -> lenN (encode b) < 2 ^ 64 -> decode (encode b) = Ok b.
Proof.
  intros Hok Hf. unfold decode, encode.
  rewrite (decode_typed_encode bal_schema (bal_v b) schema_ok_bal (bal_conforms b Hok) Hf).
  unfold bal_v, v_list. rewrite (opt_all_map v_account) by exact v_account_v. reflexivity.
Qed.

(* the encoding determines the list *)
Theorem encode_inj b1 b2 :
  bal_ok b1 = true -> bal_ok b2 = true -> lenN (encode b1) < 2 ^ 64 ->
  encode b1 = encode b2 -> b1 = b2.
Proof.
  intros H1 H2 Hf E. pose proof (decode_encode b1 H1 Hf) as D1.
  assert (Hf2 : lenN (encode b2) < 2 ^ 64) by (rewrite <- E; exact Hf).
  pose proof (decode_encode b2 H2 Hf2) as D2. rewrite E in D1. rewrite D1 in D2. congruence.
Qed.

Section HashProofs.
  Variable H : list N -> N.
  (* equal lists have equal hashes, and the hash of what a receiver decodes is the hash
     the sender computed *)
  Theorem hash_roundtrip b b' :
    bal_ok b = true -> lenN (encode b) < 2 ^ 64 -> decode (encode b) = Ok b' -> hash H b' = hash H b.
  Proof. intros Hok Hf D. rewrite (decode_encode b Hok Hf) in D. congruence. Qed.

  (* under collision freedom of H on the two encodings, equal hashes mean equal lists *)
  Theorem hash_inj b1 b2 :
    (H (encode b1) = H (encode b2) -> encode b1 = encode b2) ->
    bal_ok b1 = true -> bal_ok b2 = true -> lenN (encode b1) < 2 ^ 64 ->
    hash H b1 = hash H b2 -> b1 = b2.
  Proof. intros Hinj H1 H2 Hf E. apply (encode_inj b1 b2 H1 H2 Hf). apply Hinj. exact E. Qed.
End HashProofs.

(* ------------------------------------------------------------------ *)
(* Validate *)
Definition lt_key {A} (key : A -> N) (x y : A) : Prop := key x < key y.

Lemma ssorted_iff {A} (key : A -> N) l : ssorted key l = true <-> Sorted (lt_key key) l.
Proof.
  induction l as [|x l IH]; [split; [constructor|reflexivity]|].
  cbn [ssorted]. destruct l as [|y l'].
  - split; [repeat constructor|reflexivity].
  - rewrite andb_true_iff, IH, N.ltb_lt. split.
    + intros [H1 H2]. constructor; [exact H2|constructor; exact H1].
    + intros HS. inversion HS as [|? ? H2 H1]; subst. inversion H1; subst. split; assumption.
Qed.

Lemma last_idx_ok {B} m (l : list (N * B)) :
  Forall (fun p => fst p <= m) l -> last_idx_exceeds m l = false.
Proof.
  unfold last_idx_exceeds. induction 1 as [|[i v] l Hx Hl IH]; [reflexivity|].
  cbn [last_opt]. destruct l as [|y l']; [cbn [fst] in Hx; apply N.ltb_ge; exact Hx|exact IH].
Qed.

Lemma first_err_ok {A} (f : A -> N) l : Forall (fun x => f x = 0) l -> first_err f l = 0.
Proof. induction 1 as [|x l Hx _ IH]; cbn; [reflexivity|]. rewrite Hx. exact IH. Qed.

Lemma existsb_false {A} (p : A -> bool) l : Forall (fun x => p x = false) l -> existsb p l = false.
Proof. induction 1 as [|x l Hx _ IH]; cbn; [reflexivity|]. rewrite Hx, IH. reflexivity. Qed.

(* the declarative reading of "valid": strictly ascending at every level (hence
   duplicate free), no empty slot-change list, reads disjoint from written slots,
   every index at most [m], code within the size limit *)
Definition pairs_valid {B} (m : N) (l : list (N * B)) : Prop :=
  Sorted (lt_key fst) l /\ Forall (fun p => fst p <= m) l.

Definition account_valid (m : N) (e : account_access) : Prop :=
  Sorted (lt_key fst) (aa_changes e)
  /\ Forall (fun sc => snd sc <> [] /\ pairs_valid m (snd sc)) (aa_changes e)
  /\ Sorted (lt_key (fun x => x)) (aa_reads e)
  /\ Forall (fun k => Forall (fun sc => fst sc <> k) (aa_changes e)) (aa_reads e)
  /\ pairs_valid m (aa_bal e) /\ pairs_valid m (aa_nonce e) /\ pairs_valid m (aa_code e)
  /\ Forall (fun c => lenN (snd c) <= max_code_size) (aa_code e).

Definition bal_valid (gas_limit txcount : N) (b : bal) : Prop :=
  Sorted (lt_key aa_addr) b /\ Forall (account_valid (txcount + 1)) b
  /\ item_count b <= gas_limit / bal_item_cost.

Lemma validate_slot_changes_ok m sc :
  snd sc <> [] -> pairs_valid m (snd sc) -> validate_slot_changes m sc = 0.
Proof.
  intros Hne [Hs Hi]. unfold validate_slot_changes. destruct (snd sc) as [|w ws] eqn:E; [congruence|].
  apply ssorted_iff in Hs. rewrite Hs. cbn [negb]. rewrite (last_idx_ok _ _ Hi). reflexivity.
Qed.

Lemma validate_account_ok m e : account_valid m e -> validate_account m e = 0.
Proof.
  intros (H1 & H2 & H3 & H4 & [H5 H5'] & [H6 H6'] & [H7 H7'] & H8). unfold validate_account.
  apply ssorted_iff in H1, H3, H5, H6, H7. rewrite H1, H3, H5, H6, H7. cbn [negb].
  rewrite first_err_ok.
  2:{ eapply Forall_impl; [|exact H2]. intros sc [Hne Hp]. apply validate_slot_changes_ok; assumption. }
  cbn [N.eqb negb].
  rewrite existsb_false.
  2:{ eapply Forall_impl; [|exact H4]. intros k Hk. apply existsb_false.
      eapply Forall_impl; [|exact Hk]. intros sc Hsc. cbn beta. apply N.eqb_neq. exact Hsc. }
  rewrite !last_idx_ok by assumption.
  rewrite existsb_false; [reflexivity|].
  eapply Forall_impl; [|exact H8]. intros c Hc. cbn beta. apply N.ltb_ge. exact Hc.
Qed.

Theorem validate_ok g t b : bal_valid g t b -> validate g t b = 0.
Proof.
  intros (H1 & H2 & H3). unfold validate. apply ssorted_iff in H1. rewrite H1. cbn [negb].
  rewrite first_err_ok.
  2:{ eapply Forall_impl; [|exact H2]. intros e He. apply validate_account_ok. exact He. }
  cbn [N.eqb negb]. unfold validate_size.
  destruct (g / bal_item_cost <? item_count b) eqn:E; [apply N.ltb_lt in E; lia|reflexivity].
Qed.

(* conversely, whatever Validate accepts is strictly ascending (hence duplicate free)
   at the account level and, per account, at the slot / read / index levels *)
Lemma first_err_zero {A} (f : A -> N) l : first_err f l = 0 -> Forall (fun x => f x = 0) l.
Proof.
  induction l as [|x l IH]; cbn; [constructor|]. destruct (f x =? 0) eqn:E.
  - intros H. constructor; [apply N.eqb_eq; exact E|exact (IH H)].
  - intros H. rewrite H in E. discriminate.
Qed.

Definition account_sorted (e : account_access) : Prop :=
  Sorted (lt_key fst) (aa_changes e)
  /\ Forall (fun sc => snd sc <> [] /\ Sorted (lt_key fst) (snd sc)) (aa_changes e)
  /\ Sorted (lt_key (fun x => x)) (aa_reads e)
  /\ Sorted (lt_key fst) (aa_bal e) /\ Sorted (lt_key fst) (aa_nonce e) /\ Sorted (lt_key fst) (aa_code e).

Lemma validate_account_sound m e : validate_account m e = 0 -> account_sorted e.
Proof.
  unfold validate_account.
  destruct (ssorted fst (aa_changes e)) eqn:H1; cbn [negb]; [|discriminate].
  destruct (first_err (validate_slot_changes m) (aa_changes e) =? 0) eqn:H2; cbn [negb];
    [|intros H; rewrite H in H2; discriminate].
  destruct (ssorted (fun x => x) (aa_reads e)) eqn:H3; cbn [negb]; [|discriminate].
  destruct (existsb _ (aa_reads e)); [discriminate|].
  destruct (ssorted fst (aa_bal e)) eqn:H5; cbn [negb]; [|discriminate].
  destruct (last_idx_exceeds m (aa_bal e)); [discriminate|].
  destruct (ssorted fst (aa_nonce e)) eqn:H6; cbn [negb]; [|discriminate].
  destruct (last_idx_exceeds m (aa_nonce e)); [discriminate|].
  destruct (ssorted fst (aa_code e)) eqn:H7; cbn [negb]; [|discriminate].
  intros _. apply ssorted_iff in H1, H3, H5, H6, H7. apply N.eqb_eq in H2.
  repeat split; try assumption.
  eapply Forall_impl; [|exact (first_err_zero _ _ H2)]. intros sc Hsc. cbn beta in Hsc.
  unfold validate_slot_changes in Hsc. destruct (snd sc) as [|w ws] eqn:E; [discriminate|].
  split; [discriminate|]. destruct (ssorted fst (w :: ws)) eqn:Hs; cbn [negb] in Hsc; [|discriminate].
  apply ssorted_iff. exact Hs.
Qed.

Theorem validate_sound g t b :
  validate g t b = 0 -> Sorted (lt_key aa_addr) b /\ Forall account_sorted b.
Proof.
  unfold validate. destruct (ssorted aa_addr b) eqn:H1; cbn [negb]; [|discriminate].
  destruct (first_err (validate_account (t + 1)) b =? 0) eqn:H2; cbn [negb];
    [|intros H; rewrite H in H2; discriminate].
  intros _. apply ssorted_iff in H1. apply N.eqb_eq in H2. split; [exact H1|].
  eapply Forall_impl; [|exact (first_err_zero _ _ H2)]. intros e He. eapply validate_account_sound. exact He.
Qed.

(* a boolean instance for the non-vacuity example *)
Definition sample_bal : bal :=
  [ {| aa_addr := 1; aa_changes := [(2, [(1, 5); (3, 0)])]; aa_reads := [0; 7]; aa_bal := [(1, 7)];
       aa_nonce := [(2, 1)]; aa_code := [(2, [193])] |};
    {| aa_addr := 2 ^ 160 - 1; aa_changes := []; aa_reads := []; aa_bal := []; aa_nonce := []; aa_code := [] |} ].
Definition bal_eqb_via_encode (a b : bal) : bool := list_eqb N.eqb (encode a) (encode b).
Definition sample_check : bool :=
  (validate 30000000 2 sample_bal =? 0) && bal_ok sample_bal
  && match decode (encode sample_bal) with Ok b => bal_eqb_via_encode b sample_bal | Err _ => false end
  && negb (validate 30000000 2 (rev sample_bal) =? 0)
  && (validate 30000000 1 sample_bal =? verr_write_idx_limit).
